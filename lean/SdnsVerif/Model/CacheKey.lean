/-
Model of the cache-key construction and of every lookup route that turns a
64-bit key into a served entry (property C03).  Core Lean only.

Mirrors, function by function:
  /repo/internal/cache/key.go        Key, KeyString, KeyWithPrefix
  /repo/internal/cache/key_wire.go   writeWireName, WireNameEqualsPresentation, KeyWire, KeyWireWithPrefix
  /repo/middleware/cache/types.go    CacheKey.Hash, normalizeKeyScope
  /repo/middleware/cache/store.go    entryMatchesPreimage/Key/WireQuestion, equalNameASCIIFold,
                                     LookupByKeyVerified, Lookup/GetWithContext, setFromResponseWithKey,
                                     ReplaceIfCurrent, Purge
  /repo/middleware/cache/cache.go    scopedLookup, handleCacheHit (verification), serveWire,
                                     serveCompositeFromWire, ServeDNS (hit ladder only)
  /repo/middleware/cache/entry_wire_chase.go  collectWireChase, foldWireNamesEqual
  /repo/middleware/cache/failure_cache.go     Lookup, LookupWire, loadQuestion, loadZone, ResetQuestion, PurgeQuestion
  /repo/middleware/cache/nxdomain_cut.go, nxdomain_cut_wire.go   lookup, lookupWire, purge

The hash is a parameter `H : Bytes → UInt64` everywhere.  Byte strings are
`List UInt8`; presentation names are byte strings exactly as Go holds them.
-/
namespace SdnsVerif.Model.CacheKey

abbrev Bytes := List UInt8

/-! ## ASCII folding -/

/-- `if c >= 'A' && c <= 'Z' { c += 'a' - 'A' }` -/
def foldByte (b : UInt8) : UInt8 := if 0x41 ≤ b ∧ b ≤ 0x5A then b + 0x20 else b

def foldName (s : Bytes) : Bytes := s.map foldByte

/-- `equalNameASCIIFold` (store.go): length check, then byte by byte. -/
def equalNameASCIIFold : Bytes → Bytes → Bool
  | [], [] => true
  | a :: as, b :: bs => foldByte a == foldByte b && equalNameASCIIFold as bs
  | _, _ => false

/-! ## ECS scopes (`netip.Prefix`) -/

/-- A valid `netip.Prefix`; the zero/invalid prefix is `none` of `Scope`. -/
structure Prefix where
  v6 : Bool
  bits : Nat
  addr : Bytes
deriving DecidableEq, Repr

abbrev Scope := Option Prefix

/-- keep the top `keep` bits of one octet. -/
def maskByte (keep : Nat) (b : UInt8) : UInt8 :=
  if keep ≥ 8 then b else UInt8.ofNat (b.toNat / 2 ^ (8 - keep) * 2 ^ (8 - keep))

/-- `netip.Addr.Prefix(bits)` on the address octets: host bits cleared. -/
def maskBytes : Nat → Bytes → Bytes
  | _, [] => []
  | bits, b :: t => maskByte bits b :: maskBytes (bits - 8) t

/-- `Addr().Prefix(bits)` (masks). -/
def Prefix.withBits (p : Prefix) (bits : Nat) : Prefix :=
  { v6 := p.v6, bits := bits, addr := maskBytes bits p.addr }

/-- `Prefix.Masked()`. -/
def Prefix.masked (p : Prefix) : Prefix := p.withBits p.bits

/-- `normalizeKeyScope` (types.go): /0 and invalid are the shared key, host bits dropped. -/
def normalizeKeyScope : Scope → Scope
  | none => none
  | some p => if p.bits = 0 then none else some p.masked

/-- the prefix `s` (already masked) contains every address of the client prefix `c`. -/
def Prefix.containsPrefix (s c : Prefix) : Prop :=
  s.v6 = c.v6 ∧ s.bits ≤ c.bits ∧ maskBytes s.bits c.addr = s.addr

/-! ## Key preimages for presentation-form names (key.go) -/

/-- `[qclass:2 BE][qtype:2 BE][cd:1]` -/
def header (qtype qclass : UInt16) (cd : Bool) : Bytes :=
  [(qclass >>> 8).toUInt8, qclass.toUInt8, (qtype >>> 8).toUInt8, qtype.toUInt8, if cd then 1 else 0]

/-- preimage of `Key`, `KeyString`, `KeySimple`. -/
def keyPreimage (name : Bytes) (qtype qclass : UInt16) (cd : Bool) : Bytes :=
  header qtype qclass cd ++ foldName name

/-- `[family 4|6][bits][address bytes rounded up to a byte]` -/
def prefixSuffix (p : Prefix) : Bytes :=
  [if p.v6 then 6 else 4, UInt8.ofNat p.bits] ++ p.addr.take (min ((p.bits + 7) / 8) p.addr.length)

/-- preimage of `KeyWithPrefix` (an invalid prefix collapses to `Key`). -/
def keyWithPrefixPreimage (name : Bytes) (qtype qclass : UInt16) (cd : Bool) : Scope → Bytes
  | none => keyPreimage name qtype qclass cd
  | some p => keyPreimage name qtype qclass cd ++ prefixSuffix p

/-- preimage behind `CacheKey.Hash` (types.go): /0 collapses to the unscoped key. -/
def cacheKeyPreimage (name : Bytes) (qtype qclass : UInt16) (cd : Bool) : Scope → Bytes
  | none => keyPreimage name qtype qclass cd
  | some p => if p.bits = 0 then keyPreimage name qtype qclass cd
              else keyWithPrefixPreimage name qtype qclass cd (some p)

/-! ## Wire-form names (key_wire.go) -/

/-- `isPresentationSpecial`: `. space ' @ ; ( ) " \` -/
def isPresentationSpecial (b : UInt8) : Bool :=
  b == 0x2E || b == 0x20 || b == 0x27 || b == 0x40 || b == 0x3B ||
  b == 0x28 || b == 0x29 || b == 0x22 || b == 0x5C

/-- what one label octet contributes to the presentation form; `fold` is the
hasher's in-line lowering (`writeWireName`), `fold = false` is the spelling a
decoder produces and `WireNameEqualsPresentation` emits. -/
def escByte (fold : Bool) (b : UInt8) : Bytes :=
  if isPresentationSpecial b then [0x5C, b]
  else if b < 0x20 || b > 0x7E then [0x5C, 0x30 + b / 100, 0x30 + b / 10 % 10, 0x30 + b % 10]
  else [if fold then foldByte b else b]

/-- the label walk shared by `writeWireName` / `WireNameEqualsPresentation`:
labels terminated by the root octet, nothing after it; compression pointers,
reserved label types, truncation and trailing bytes refuse. -/
def splitLabels : Nat → Bytes → Option (List Bytes)
  | 0, _ => none
  | _ + 1, [] => none
  | fuel + 1, c :: rest =>
    if c == 0 then (if rest.isEmpty then some [] else none)
    else if c &&& 0xC0 != 0 then none
    else if c.toNat > rest.length then none
    else (splitLabels fuel (rest.drop c.toNat)).map (rest.take c.toNat :: ·)

def maxWireNameOctets : Nat := 255

/-- labels of a well-formed uncompressed wire name of at most 255 octets. -/
def wireLabels (w : Bytes) : Option (List Bytes) :=
  if w.length = 0 ∨ w.length > maxWireNameOctets then none else splitLabels w.length w

def presentLabels (fold : Bool) (ls : List Bytes) : Bytes :=
  if ls.isEmpty then [0x2E] else ls.flatMap fun l => l.flatMap (escByte fold) ++ [0x2E]

/-- bytes `writeWireName` streams into the digest. -/
def writeWireName (w : Bytes) : Option Bytes := (wireLabels w).map (presentLabels true)

/-- the presentation name a decoder (miekg `UnpackDomainName`) spells for `w`. -/
def present (w : Bytes) : Option Bytes := (wireLabels w).map (presentLabels false)

/-- preimage of `KeyWire`. -/
def keyWirePreimage (w : Bytes) (qtype qclass : UInt16) (cd : Bool) : Option Bytes :=
  (writeWireName w).map (header qtype qclass cd ++ ·)

/-- preimage of `KeyWireWithPrefix`. -/
def keyWireWithPrefixPreimage (w : Bytes) (qtype qclass : UInt16) (cd : Bool) : Scope → Option Bytes
  | none => keyWirePreimage w qtype qclass cd
  | some p => (keyWirePreimage w qtype qclass cd).map (· ++ prefixSuffix p)

/-- the `emit` closure of `WireNameEqualsPresentation` run over a whole
emitted sequence: consumes `name` while the folded bytes agree. -/
def matchEmit : Bytes → Bytes → Option Bytes
  | [], n => some n
  | _ :: _, [] => none
  | c :: cs, x :: xs => if foldByte x == foldByte c then matchEmit cs xs else none

/-- `WireNameEqualsPresentation`. -/
def wireNameEqualsPresentation (w name : Bytes) : Bool :=
  match wireLabels w with
  | none => false
  | some ls =>
    match matchEmit (presentLabels false ls) name with
    | some [] => true
    | _ => false

/-- `foldWireNamesEqual` (entry_wire_chase.go). -/
def foldWireNamesEqual (a b : Bytes) : Bool := equalNameASCIIFold a b

/-! ## Entries and the verifiers (store.go) -/

structure Entry where
  /-- harness identity (the marker the answer carries); stands for the pointer. -/
  id : Nat
  /-- `question.Name` as stored (presentation form, case as received). -/
  name : Bytes
  qtype : UInt16
  qclass : UInt16
  cd : Bool
  /-- already normalised at admission (`NewScopedCacheEntry`). -/
  scope : Scope
  /-- wire-form CNAME target when the answer is an alias without its terminal. -/
  alias : Option Bytes := none
deriving DecidableEq, Repr

abbrev Store := UInt64 → Option Entry

/-- `entryMatchesPreimage`. -/
def entryMatchesPreimage (e : Entry) (qtype qclass : UInt16) (cd : Bool) (scope : Scope) : Bool :=
  !e.name.isEmpty && e.qtype == qtype && e.qclass == qclass && e.cd == cd &&
  decide (e.scope = normalizeKeyScope scope)

/-- `CacheKey`. -/
structure CacheKey where
  name : Bytes
  qtype : UInt16
  qclass : UInt16
  cd : Bool
  scope : Scope
deriving DecidableEq, Repr

/-- `entryMatchesKey`. -/
def entryMatchesKey (e : Entry) (want : CacheKey) : Bool :=
  entryMatchesPreimage e want.qtype want.qclass want.cd want.scope &&
  equalNameASCIIFold e.name want.name

/-- `entryMatchesWireQuestion` (shared scope only). -/
def entryMatchesWireQuestion (e : Entry) (w : Bytes) (qtype qclass : UInt16) (cd : Bool) : Bool :=
  entryMatchesPreimage e qtype qclass cd none && wireNameEqualsPresentation w e.name

/-! ## Exact-answer routes -/

/-- `CacheKey.Hash`. -/
def CacheKey.hash (H : Bytes → UInt64) (k : CacheKey) : UInt64 :=
  H (cacheKeyPreimage k.name k.qtype k.qclass k.cd k.scope)

/-- `Store.LookupByKeyVerified`; also the verification `handleCacheHit` applies to
the entry a probe returned. -/
def lookupByKeyVerified (st : Store) (key : UInt64) (want : CacheKey) : Option Entry :=
  match st key with
  | some e => if entryMatchesKey e want then some e else none
  | none => none

/-- `Store.Lookup` (first stage of `Get`/`GetWithContext`: resolver DS/DNSKEY lookups). -/
def storeLookup (H : Bytes → UInt64) (st : Store) (name : Bytes) (qtype qclass : UInt16) (cd : Bool) : Option Entry :=
  let want : CacheKey := ⟨name, qtype, qclass, cd, none⟩
  lookupByKeyVerified st (want.hash H) want

/-- the probe loop of `Cache.scopedLookup`: from the client's bits down to /1,
first key PRESENT in the store wins (no verification here). -/
def scopedProbe (H : Bytes → UInt64) (st : Store) (name : Bytes) (qtype qclass : UInt16) (cd : Bool)
    (client : Prefix) : Nat → Option (Entry × UInt64 × Prefix)
  | 0 => none
  | bits + 1 =>
    let scope := client.withBits (bits + 1)
    let key := (CacheKey.mk name qtype qclass cd (some scope)).hash H
    match st key with
    | some e => some (e, key, scope)
    | none => scopedProbe H st name qtype qclass cd client bits

/-- `Cache.scopedLookup`. -/
def scopedLookup (H : Bytes → UInt64) (st : Store) (name : Bytes) (qtype qclass : UInt16) (cd : Bool)
    (client : Scope) : Option (Entry × UInt64 × Prefix) :=
  match client with
  | none => none
  | some c => scopedProbe H st name qtype qclass cd c c.bits

/-- scoped stage of `ServeDNS`: probe, then verify at the `handleCacheHit` chokepoint
against the scope the probe keyed with. -/
def scopedHit (H : Bytes → UInt64) (st : Store) (name : Bytes) (qtype qclass : UInt16) (cd : Bool)
    (client : Scope) : Option Entry :=
  match scopedLookup H st name qtype qclass cd client with
  | some (e, _, scope) => if entryMatchesKey e ⟨name, qtype, qclass, cd, some scope⟩ then some e else none
  | none => none

/-- shared stage of `ServeDNS`: `checkCache(cacheKey)` + `handleCacheHit(…, netip.Prefix{})`. -/
def sharedHit (H : Bytes → UInt64) (st : Store) (name : Bytes) (qtype qclass : UInt16) (cd : Bool) : Option Entry :=
  storeLookup H st name qtype qclass cd

/-- decoded exact route: scoped probe first, shared fallback second. -/
def decodedHit (H : Bytes → UInt64) (st : Store) (name : Bytes) (qtype qclass : UInt16) (cd : Bool)
    (client : Scope) : Option Entry :=
  match scopedHit H st name qtype qclass cd client with
  | some e => some e
  | none => sharedHit H st name qtype qclass cd

/-- `KeyWire` + `checkCache` + `entryMatchesWire`: the exact stage of `serveWire`
and every hop of `collectWireChase`. -/
def wireHit (H : Bytes → UInt64) (st : Store) (w : Bytes) (qtype qclass : UInt16) (cd : Bool) : Option Entry :=
  match keyWirePreimage w qtype qclass cd with
  | none => none
  | some pre =>
    match st (H pre) with
    | some e => if entryMatchesWireQuestion e w qtype qclass cd then some e else none
    | none => none

def maxWireChaseHops : Nat := 10

/-- `collectWireChase`: `fuel` = free segments.  Returns the chain of entries
whose records are composed into the reply, or `none` (decline to the Msg path). -/
def collectWireChase (H : Bytes → UInt64) (st : Store) (reqName : Bytes) (qtype qclass : UInt16) (cd : Bool) :
    Nat → Entry → List UInt64 → Option (List Entry)
  | 0, _, _ => none
  | fuel + 1, entry, visited =>
    match entry.alias with
    | none => some [entry]
    | some target =>
      if foldWireNamesEqual target reqName then none else
      match keyWirePreimage target qtype qclass cd with
      | none => none
      | some pre =>
        let key := H pre
        if visited.contains key then none else
        match st key with
        | none => none
        | some next =>
          if entryMatchesWireQuestion next target qtype qclass cd then
            (collectWireChase H st reqName qtype qclass cd fuel next (visited ++ [key])).map (entry :: ·)
          else none

/-! ## RFC 9520 failure cache -/

def failureQuestionHashSalt : UInt64 := 0x53a927c4d8816e0b
def failureZoneHashSalt : UInt64 := 0xb9e314f72ca580d6
def nxDomainCutHashSalt : UInt64 := 0x8020c07f5a3d91e4

inductive FKind | question | zone
deriving DecidableEq, Repr

structure FEntry where
  id : Nat
  kind : FKind
  /-- canonical question name, or the zone. -/
  name : Bytes
  qtype : UInt16
  qclass : UInt16
  cd : Bool
  scope : Scope
  /-- `now.Before(retryAfter)` -/
  active : Bool
deriving DecidableEq, Repr

abbrev FStore := UInt64 → Option FEntry

/-- `dns.CanonicalName` on the names this model covers (fully qualified,
ASCII presentation text as a decoder produces it): lower-case A–Z. -/
def canonicalName (s : Bytes) : Bytes := foldName s

/-- one step of the presentation-label walk (`dns.NextLabel(s, 0)`): the rest
after the first unescaped dot that is not the final byte. -/
def dropLabel : Bytes → Bool → Option Bytes
  | [], _ => none
  | b :: t, esc =>
    match t with
    | [] => none
    | _ :: _ =>
      if esc then dropLabel t false
      else if b == 0x5C then dropLabel t true
      else if b == 0x2E then some t
      else dropLabel t false

/-- names `walkFailureZones` visits: the name, every parent, then the root. -/
def failureZones : Nat → Bytes → List Bytes
  | 0, z => [z]
  | fuel + 1, z =>
    if z = [0x2E] then [z] else
    match dropLabel z false with
    | none => [z, [0x2E]]
    | some r => z :: failureZones fuel r

/-- candidates of `dnsname.Suffixes` (cut lookup): the name and every parent, not the root. -/
def suffixesAux : Nat → Bytes → List Bytes
  | 0, z => [z]
  | fuel + 1, z => z :: match dropLabel z false with
    | none => []
    | some r => suffixesAux fuel r

def cutSuffixes (name : Bytes) : List Bytes :=
  if name = [0x2E] then [] else suffixesAux name.length name

/-- `walkWireSuffixes`: every suffix of the wire name, root included. -/
def wireSuffixes : Nat → Bytes → List Bytes
  | 0, _ => []
  | _ + 1, [] => []
  | fuel + 1, c :: rest =>
    (c :: rest) :: (if c == 0 || c.toNat > 63 || c.toNat > rest.length then []
                    else wireSuffixes fuel (rest.drop c.toNat))

/-- `failureQuestionHash` on a normalised key. -/
def failureQuestionHash (H : Bytes → UInt64) (name : Bytes) (qtype qclass : UInt16) (cd : Bool) (scope : Scope) : UInt64 :=
  H (keyWithPrefixPreimage name qtype qclass cd scope) ^^^ failureQuestionHashSalt

/-- `failureZoneHash`: the zone as an SOA question, CD clear. -/
def failureZoneHash (H : Bytes → UInt64) (zone : Bytes) (qclass : UInt16) : UInt64 :=
  H (keyPreimage zone 6 qclass false) ^^^ failureZoneHashSalt

/-- `loadQuestionWithHash`: kind and the complete key are compared (`failureQuestionKeysEqual`). -/
def loadQuestion (H : Bytes → UInt64) (fs : FStore) (name : Bytes) (qtype qclass : UInt16) (cd : Bool) (scope : Scope) : Option FEntry :=
  match fs (failureQuestionHash H name qtype qclass cd scope) with
  | some e =>
    if e.kind == FKind.question && e.name == name && e.qtype == qtype && e.qclass == qclass &&
       e.cd == cd && decide (e.scope = scope) then some e else none
  | none => none

/-- `loadZoneWithHash`. -/
def loadZone (H : Bytes → UInt64) (fs : FStore) (zone : Bytes) (qclass : UInt16) : Option FEntry :=
  match fs (failureZoneHash H zone qclass) with
  | some e => if e.kind == FKind.zone && e.name == zone && e.qclass == qclass then some e else none
  | none => none

def firstZone (H : Bytes → UInt64) (fs : FStore) (qclass : UInt16) : List Bytes → Option FEntry
  | [] => none
  | z :: t =>
    match loadZone H fs z qclass with
    | some e => if e.active then some e else firstZone H fs qclass t
    | none => firstZone H fs qclass t

/-- `FailureCache.Lookup` (through `Store.LookupFailure`). -/
def failureLookup (H : Bytes → UInt64) (fs : FStore) (name : Bytes) (qtype qclass : UInt16) (cd : Bool) (scope : Scope) : Option FEntry :=
  let n := canonicalName name
  let sc := normalizeKeyScope scope
  match loadQuestion H fs n qtype qclass cd sc with
  | some e => if e.active then some e else firstZone H fs qclass (failureZones n.length n)
  | none => firstZone H fs qclass (failureZones n.length n)

/-- `Store.LookupFailure`: the Store-level wrapper every decoded route goes through
(`ServeDNS`, the follower re-check, `GetWithContext`): one lookup, in the request's own CD
partition and for the audience handed in — no second probe of any kind. -/
def storeLookupFailure (H : Bytes → UInt64) (fs : FStore) (name : Bytes) (qtype qclass : UInt16) (cd : Bool)
    (scope : Scope) : Option FEntry :=
  failureLookup H fs name qtype qclass cd scope

/-! ### The single-flight key of a miss (`FailureCache.RetryKey`, `dedupKey` in `Cache.ServeDNS`) -/

/-- the ancestor walk of `FailureCache.RetryKey`: `(activeZone, closestZoneExpired)`.  An active
zone state stops the walk; the FIRST expired one met (the closest) is remembered. -/
def retryZones (H : Bytes → UInt64) (fs : FStore) (qclass : UInt16) : List Bytes → Option UInt64 → Bool × Option UInt64
  | [], acc => (false, acc)
  | z :: t, acc =>
    match loadZone H fs z qclass with
    | none => retryZones H fs qclass t acc
    | some e =>
      if e.active then (true, acc)
      else retryZones H fs qclass t (match acc with
        | some h => some h
        | none => some (failureZoneHash H z qclass))

/-- `FailureCache.RetryKey` (through `Store.FailureRetryKey`): the slot of the expired failure
generation a miss should probe — none while an exact or ancestor-zone state is still active
(that one is an answer, not history); closest expired zone before the expired exact state. -/
def retryKey (H : Bytes → UInt64) (fs : FStore) (name : Bytes) (qtype qclass : UInt16) (cd : Bool)
    (scope : Scope) : Option UInt64 :=
  let n := canonicalName name
  let sc := normalizeKeyScope scope
  let walk := fun (exactExpired : Option UInt64) =>
    match retryZones H fs qclass (failureZones n.length n) none with
    | (true, _) => none
    | (false, some h) => some h
    | (false, none) => exactExpired
  match loadQuestion H fs n qtype qclass cd sc with
  | some e => if e.active then none else walk (some (failureQuestionHash H n qtype qclass cd sc))
  | none => walk none

/-- `dedupKey` of `Cache.ServeDNS` at the moment a miss joins the single flight: the request's
own `CacheKey{Question, CD, Scope: clientScope}.Hash()` (the shared key when the client has no
usable scope), replaced by the retry key when an expired failure generation covers it. -/
def dedupKey (H : Bytes → UInt64) (fs : FStore) (name : Bytes) (qtype qclass : UInt16) (cd : Bool)
    (client : Scope) : UInt64 :=
  match retryKey H fs name qtype qclass cd client with
  | some k => k
  | none => (CacheKey.mk name qtype qclass cd client).hash H

def firstZoneWire (H : Bytes → UInt64) (fs : FStore) (qclass : UInt16) : List Bytes → Option FEntry
  | [] => none
  | z :: t =>
    match keyWirePreimage z 6 qclass false with
    | none => firstZoneWire H fs qclass t
    | some pre =>
      match fs (H pre ^^^ failureZoneHashSalt) with
      | some e =>
        if e.kind == FKind.zone && e.qclass == qclass && wireNameEqualsPresentation z e.name && e.active
        then some e else firstZoneWire H fs qclass t
      | none => firstZoneWire H fs qclass t

/-- `FailureCache.LookupWire`. -/
def failureLookupWire (H : Bytes → UInt64) (fs : FStore) (w : Bytes) (qtype qclass : UInt16) (cd : Bool) : Option FEntry :=
  let exact : Option FEntry :=
    match keyWirePreimage w qtype qclass cd with
    | none => none
    | some pre =>
      match fs (H pre ^^^ failureQuestionHashSalt) with
      | some e =>
        if e.kind == FKind.question && e.scope.isNone && e.qtype == qtype && e.qclass == qclass &&
           e.cd == cd && wireNameEqualsPresentation w e.name && e.active then some e else none
      | none => none
  match exact with
  | some e => some e
  | none => firstZoneWire H fs qclass (wireSuffixes w.length w)

/-! ## RFC 8020 subtree cuts -/

structure Cut where
  id : Nat
  /-- canonical denied name -/
  name : Bytes
  qclass : UInt16
  active : Bool
  /-- `wireFull != nil` -/
  wireOk : Bool
deriving DecidableEq, Repr

structure CutStore where
  /-- the string-keyed map `entries` (truth) -/
  entries : List Cut := []
  /-- the wire accelerator `byHash` -/
  byHash : UInt64 → Option Cut := fun _ => none

def findCut (cs : List Cut) (name : Bytes) (qclass : UInt16) : Option Cut :=
  cs.find? fun c => c.name == name && c.qclass == qclass

def firstCut (cs : List Cut) (qclass : UInt16) : List Bytes → Option Cut
  | [] => none
  | cand :: t =>
    match findCut cs cand qclass with
    | some c => if c.active then some c else firstCut cs qclass t
    | none => firstCut cs qclass t

/-- `nxDomainCutCache.lookup`. -/
def cutLookup (cs : CutStore) (name : Bytes) (qclass : UInt16) : Option Cut :=
  if qclass == 0 then none else
  firstCut cs.entries qclass (cutSuffixes (canonicalName name))

def firstCutWire (H : Bytes → UInt64) (byHash : UInt64 → Option Cut) (qclass : UInt16) : List Bytes → Option Cut
  | [] => none
  | cand :: t =>
    match keyWirePreimage cand 0 qclass false with
    | none => firstCutWire H byHash qclass t
    | some pre =>
      match byHash (H pre ^^^ nxDomainCutHashSalt) with
      | some c =>
        if c.qclass == qclass && c.wireOk && wireNameEqualsPresentation cand c.name && c.active
        then some c else firstCutWire H byHash qclass t
      | none => firstCutWire H byHash qclass t

/-- `nxDomainCutCache.lookupWire`. -/
def cutLookupWire (H : Bytes → UInt64) (cs : CutStore) (w : Bytes) (qclass : UInt16) : Option Cut :=
  if qclass == 0 then none else firstCutWire H cs.byHash qclass (wireSuffixes w.length w)

/-! ## The hit ladders of `Cache.ServeDNS` and `Store.GetWithContext` -/

inductive Outcome
  | hit (es : List Entry)
  | cut (c : Cut)
  | fail (f : FEntry)
  | miss
deriving Repr

structure World where
  st : Store
  fs : FStore
  cs : CutStore

/-- decoded body of `Cache.ServeDNS` up to the miss (RFC 8198 synthesis is not
part of this model: its index is never seeded here).  `client` is the result of
`requestScope`, `hasECS` is `requestHasECS`. -/
def serveMsg (H : Bytes → UInt64) (W : World) (name : Bytes) (qtype qclass : UInt16) (cd : Bool)
    (client : Scope) (hasECS : Bool) : Outcome :=
  match decodedHit H W.st name qtype qclass cd client with
  | some e => Outcome.hit [e]
  | none =>
    let cutHit := if cd || client.isSome || hasECS then none else cutLookup W.cs name qclass
    match cutHit with
    | some c => Outcome.cut c
    | none =>
      match failureLookup H W.fs name qtype qclass cd client with
      | some f => Outcome.fail f
      | none => Outcome.miss

/-- the byte rungs of `Cache.serveWire` + `serveCompositeFromWire` for a wire-born
request (RD set, no ECS); `none` = the request falls to the decoded body: a chase
that declines, a verified hit that is due for a background refresh (`due`:
`serveHitFromWire` leaves the prefetch claim to the decoded body), or a miss of
every rung. -/
def serveWireCore (H : Bytes → UInt64) (W : World) (w : Bytes) (qtype qclass : UInt16) (cd : Bool)
    (due : Entry → Bool := fun _ => false) : Option Outcome :=
  match wireHit H W.st w qtype qclass cd with
  | some e =>
    if due e then none else
    match e.alias with
    | none => some (Outcome.hit [e])
    | some _ => (collectWireChase H W.st w qtype qclass cd maxWireChaseHops e []).map Outcome.hit
  | none =>
    let cutHit := if cd then none else cutLookupWire H W.cs w qclass
    match cutHit with
    | some c => some (Outcome.cut c)
    | none => (failureLookupWire H W.fs w qtype qclass cd).map Outcome.fail

/-- wire path with the decoded ladder as fallback (the alias chase of the decoded
body is `serveWireFull`). -/
def serveWire (H : Bytes → UInt64) (W : World) (w : Bytes) (qtype qclass : UInt16) (cd : Bool)
    (due : Entry → Bool := fun _ => false) : Outcome :=
  match serveWireCore H W w qtype qclass cd due with
  | some o => o
  | none =>
    match present w with
    | some name => serveMsg H W name qtype qclass cd none false
    | none => Outcome.miss

/-- `Store.GetWithContext`: exact verified lookup, then (unless the request tree
bypasses shared denial) the cut, then the unscoped failure lookup. -/
def storeGet (H : Bytes → UInt64) (W : World) (name : Bytes) (qtype qclass : UInt16) (cd : Bool) (hasECS : Bool) : Outcome :=
  match storeLookup H W.st name qtype qclass cd with
  | some e => Outcome.hit [e]
  | none =>
    let cutHit := if cd || hasECS then none else cutLookup W.cs name qclass
    match cutHit with
    | some c => Outcome.cut c
    | none =>
      match failureLookup H W.fs name qtype qclass cd none with
      | some f => Outcome.fail f
      | none => Outcome.miss

/-! ## Lazy expiry of subtree cuts

`nxDomainCutCache.lookup` (the decoded route) removes every EXPIRED cut it meets on its
suffix walk (`removeEntryLocked`) and goes on; `lookupWire` only skips them.  `active` is
`now.Before(entry.expires)`. -/

/-- the `entries` map after the walk of `nxDomainCutCache.lookup`: candidate by candidate,
an entry that is still live ends the walk, an expired one is removed and the walk goes on. -/
def cutWalkPrune (cs : List Cut) (qclass : UInt16) : List Bytes → List Cut
  | [] => cs
  | cand :: t =>
    match findCut cs cand qclass with
    | some c =>
      if c.active then cs
      else cutWalkPrune (cs.filter fun x => !(x.name == cand && x.qclass == qclass)) qclass t
    | none => cutWalkPrune cs qclass t

/-- `entries` after `nxDomainCutCache.lookup(q)`. -/
def cutLookupPrune (cs : List Cut) (name : Bytes) (qclass : UInt16) : List Cut :=
  if qclass == 0 then cs else cutWalkPrune cs qclass (cutSuffixes (canonicalName name))

/-- `entries` after the decoded body of `Cache.ServeDNS` ran for a question: the cut rung
(and with it the lazy removal) is reached only without an exact hit, for CD=0 and no ECS. -/
def serveMsgCutsAfter (H : Bytes → UInt64) (W : World) (name : Bytes) (qtype qclass : UInt16) (cd : Bool)
    (client : Scope) (hasECS : Bool) : List Cut :=
  match decodedHit H W.st name qtype qclass cd client with
  | some _ => W.cs.entries
  | none => if cd || client.isSome || hasECS then W.cs.entries else cutLookupPrune W.cs.entries name qclass

/-- `entries` after `Store.GetWithContext`. -/
def storeGetCutsAfter (H : Bytes → UInt64) (W : World) (name : Bytes) (qtype qclass : UInt16) (cd : Bool)
    (hasECS : Bool) : List Cut :=
  match storeLookup H W.st name qtype qclass cd with
  | some _ => W.cs.entries
  | none => if cd || hasECS then W.cs.entries else cutLookupPrune W.cs.entries name qclass

/-- `entries` after `Cache.serveWire`: the byte rungs never remove anything (`lookupWire`
holds the read lock only); a request that falls to the decoded body behaves as `serveMsg`. -/
def serveWireCutsAfter (H : Bytes → UInt64) (W : World) (w : Bytes) (qtype qclass : UInt16) (cd : Bool)
    (due : Entry → Bool := fun _ => false) : List Cut :=
  match serveWireCore H W w qtype qclass cd due with
  | some _ => W.cs.entries
  | none =>
    match present w with
    | some name => serveMsgCutsAfter H W name qtype qclass cd none false
    | none => W.cs.entries

/-! ## Writers: stores, refreshes, purge (association-list store) -/

abbrev AStore := List (UInt64 × Entry)

def AStore.get (s : AStore) (k : UInt64) : Option Entry := (s.find? (·.1 == k)).map (·.2)

def AStore.set (s : AStore) (k : UInt64) (e : Entry) : AStore := (k, e) :: s.filter (·.1 != k)

def AStore.remove (s : AStore) (k : UInt64) : AStore := s.filter (·.1 != k)

/-- `setFromResponseWithKey`: the entry takes the response's question, the
key's CD partition (`e.cd = keyCD`) and the normalised scope. -/
def setFromResponse (s : AStore) (key : UInt64) (id : Nat) (name : Bytes) (qtype qclass : UInt16)
    (keyCD : Bool) (scope : Scope) (alias : Option Bytes) : AStore :=
  s.set key { id := id, name := name, qtype := qtype, qclass := qclass, cd := keyCD,
              scope := normalizeKeyScope scope, alias := alias }

/-- `ReplaceIfCurrent`: pointer CAS on `expected` (ids stand for pointers); the
replacement inherits `expected`'s CD partition and scope. -/
def replaceIfCurrent (s : AStore) (key : UInt64) (expected : Entry) (id : Nat) (name : Bytes)
    (qtype qclass : UInt16) (alias : Option Bytes) : AStore × Bool :=
  match s.get key with
  | some cur =>
    if cur.id = expected.id then
      (s.set key { id := id, name := name, qtype := qtype, qclass := qclass, cd := expected.cd,
                   scope := expected.scope, alias := alias }, true)
    else (s, false)
  | none => (s, false)

/-- answer-cache part of `Store.Purge`.  `EF` stands for `strings.EqualFold`
(Unicode simple folding) used by the scoped sweep. -/
def purgeAnswers (H : Bytes → UInt64) (EF : Bytes → Bytes → Bool) (s : AStore) (name : Bytes) (qtype qclass : UInt16) : AStore :=
  let k0 := (CacheKey.mk name qtype qclass false none).hash H
  let k1 := (CacheKey.mk name qtype qclass true none).hash H
  ((s.remove k0).remove k1).filter fun (_, e) =>
    !(e.scope.isSome && !e.name.isEmpty && e.qtype == qtype && e.qclass == qclass && EF e.name name)

abbrev AFStore := List (UInt64 × FEntry)

def AFStore.get (s : AFStore) (k : UInt64) : Option FEntry := (s.find? (·.1 == k)).map (·.2)

/-- `FailureCache.PurgeQuestion`: exact (canonical) string match, every CD/ECS variant,
plus a zone state owned by the purged name. -/
def purgeFailures (s : AFStore) (name : Bytes) (qtype qclass : UInt16) : AFStore :=
  let n := canonicalName name
  s.filter fun (_, e) =>
    match e.kind with
    | FKind.question => !(e.name == n && e.qtype == qtype && e.qclass == qclass)
    | FKind.zone => !(e.name == n && e.qclass == qclass)

/-- `FailureCache.ResetQuestion` as called by an unscoped store. -/
def resetQuestion (H : Bytes → UInt64) (s : AFStore) (name : Bytes) (qtype qclass : UInt16) (cd : Bool) (scope : Scope) : AFStore :=
  let n := canonicalName name
  let sc := normalizeKeyScope scope
  let h := failureQuestionHash H n qtype qclass cd sc
  match loadQuestion H s.get n qtype qclass cd sc with
  | some _ => s.filter (·.1 != h)
  | none => s

/-- `nxDomainCutCache.purge`: every cut covering the name. -/
def purgeCuts (cs : List Cut) (name : Bytes) (qclass : UInt16) : List Cut :=
  let cands := cutSuffixes (canonicalName name)
  cs.filter fun c => !(cands.contains c.name && c.qclass == qclass)

/-- the loop of `nxDomainCutCache.purge`, candidate by candidate: `entries[{candidate, qclass}]`
is removed when present (`removeEntryLocked`) and the walk GOES ON to the next suffix — it does
not stop at the closest covering cut. -/
def purgeCutsWalk (cs : List Cut) (qclass : UInt16) : List Bytes → List Cut
  | [] => cs
  | cand :: rest => purgeCutsWalk (cs.filter fun c => !(c.name == cand && c.qclass == qclass)) qclass rest

/-- `nxDomainCutCache.purge` as written: `name := CanonicalName(q.Name)`, then the walk over
`dnsname.Suffixes(name)`. -/
def purgeCutsLoop (cs : List Cut) (name : Bytes) (qclass : UInt16) : List Cut :=
  purgeCutsWalk cs qclass (cutSuffixes (canonicalName name))

/-- `Store.RecordFailure` → `FailureCache.RecordQuestion` for a live cache: the state is
filed under the hash of (canonical name, type, class, CD, normalised audience); an
active state of the same key is kept, anything else under that hash is replaced. -/
def recordFailure (H : Bytes → UInt64) (s : AFStore) (id : Nat) (name : Bytes) (qtype qclass : UInt16) (cd : Bool)
    (scope : Scope) : AFStore :=
  let n := canonicalName name
  let sc := normalizeKeyScope scope
  match loadQuestion H s.get n qtype qclass cd sc with
  | some _ => s
  | none =>
    let h := failureQuestionHash H n qtype qclass cd sc
    (h, { id := id, kind := FKind.question, name := n, qtype := qtype, qclass := qclass, cd := cd,
          scope := sc, active := true }) :: s.filter (·.1 != h)

/-- `Store.RecordZoneFailure` → `FailureCache.RecordZone` for a live cache: filed under the
zone hash of (canonical zone, class OF THE QUESTION being resolved). -/
def recordZoneFailure (H : Bytes → UInt64) (s : AFStore) (id : Nat) (zone : Bytes) (qclass : UInt16) : AFStore :=
  let z := canonicalName zone
  match loadZone H s.get z qclass with
  | some _ => s
  | none =>
    let h := failureZoneHash H z qclass
    (h, { id := id, kind := FKind.zone, name := z, qtype := 0, qclass := qclass, cd := false,
          scope := none, active := true }) :: s.filter (·.1 != h)

/-- `FailureCache.ResetZone`. -/
def resetZone (H : Bytes → UInt64) (s : AFStore) (zone : Bytes) (qclass : UInt16) : AFStore :=
  match loadZone H s.get zone qclass with
  | some _ => s.filter (·.1 != failureZoneHash H zone qclass)
  | none => s

/-- `FailureCache.ResetMatching` (a useful answer reached the client): the exact
state and every ancestor-zone state of the question. -/
def resetMatching (H : Bytes → UInt64) (s : AFStore) (name : Bytes) (qtype qclass : UInt16) (cd : Bool) (scope : Scope) : AFStore :=
  let n := canonicalName name
  (failureZones n.length n).foldl (fun acc z => resetZone H acc z qclass)
    (resetQuestion H s name qtype qclass cd scope)

/-! ## Admission through the miss path: which audience an answer is stored for
(`internal/ecs/policy.go`, `Cache.requestScope`, `ResponseWriter.WriteMsg`) -/

/-- the `[ecs]` knobs after `ecs.Build` applied its defaults. -/
structure Policy where
  forwardV4 : Nat
  forwardV6 : Nat
  minScopeV4 : Nat
  minScopeV6 : Nat
deriving Repr

/-- `ecs.Build` on the raw `[ecs]` knobs: a zero ceiling means /24 and /56, a zero floor
means "the ceiling of that family". (Out-of-range values disable the policy; the harness
does not generate them.) -/
def buildPolicy (f4 f6 m4 m6 : Nat) : Policy :=
  let f4' := if f4 = 0 then 24 else f4
  let f6' := if f6 = 0 then 56 else f6
  { forwardV4 := f4', forwardV6 := f6',
    minScopeV4 := if m4 = 0 then f4' else m4, minScopeV6 := if m6 = 0 then f6' else m6 }

/-- the transport's peer address as the handlers see it after `Is4In6 → Unmap`: an
IPv4-mapped IPv6 address counts as the IPv4 address it carries. -/
def unmapPeer (peer : Prefix) : Prefix :=
  if peer.v6 && peer.addr.take 12 == [0, 0, 0, 0, 0, 0, 0, 0, 0, 0, 0xFF, 0xFF] then
    { v6 := false, bits := 32, addr := peer.addr.drop 12 }
  else peer

/-- `Policy.Allows` (on the unmapped peer): an empty `client_networks` list admits
everyone, otherwise the peer must lie in one of the prefixes (same family). -/
def policyAllows (nets : List Prefix) (peer : Prefix) : Bool :=
  let p := unmapPeer peer
  nets.isEmpty || nets.any fun n => n.v6 == p.v6 && maskBytes n.bits p.addr == maskBytes n.bits n.addr

/-- `Policy.Clamp` (edns) followed by `Cache.requestScope`: the client's source
prefix as forwarded upstream and as the cache probes with it. -/
def clampSource (p : Policy) (c : Prefix) : Prefix :=
  c.withBits (min c.bits (if c.v6 then p.forwardV6 else p.forwardV4))

/-- `ecs.ReadResponseScope`: the ECS option of the response as a prefix — `echo.addr`
/ `echo.v6` the ADDRESS and FAMILY the authority put there (normally the forwarded
source, but it is the authority's choice), `echo.bits` its SCOPE.  SCOPE 0 means
"global"; a SCOPE longer than the address is unusable (`addr.Prefix` fails; the codec
refuses such an option on the wire anyway). -/
def responseScope (echo : Prefix) : Scope :=
  if echo.bits = 0 ∨ echo.bits > 8 * echo.addr.length then none else some (echo.withBits echo.bits)

/-- `Policy.ClampScope`: never narrower than SOURCE allows (RFC 7871 §7.1.2),
never narrower than the operator's per-family floor. -/
def clampScope (p : Policy) (scope source : Prefix) : Prefix :=
  let bits := if scope.bits > source.bits then source.bits else scope.bits
  let floor := if scope.v6 then p.minScopeV6 else p.minScopeV4
  scope.withBits (if bits > floor then floor else bits)

/-- the scope `WriteMsg` keys and tags a cacheable answer with: `client` is the
request scope (`none`: ECS-aware caching does not apply), `echo` the ECS option of
the response (`none`: the response carries none). -/
def admitScope (p : Policy) (client : Scope) (echo : Option Prefix) : Scope :=
  match client, echo with
  | some src, some ec =>
    match responseScope ec with
    | some rs => some (clampScope p rs src)
    | none => none
  | _, _ => none

/-- `ResponseWriter.WriteMsg` for a cacheable answer: key from the RESPONSE's
question and the RESPONSE's CD bit (`respCD`) and the clamped scope; the entry
carries the same CD and scope. -/
def admitAnswer (H : Bytes → UInt64) (p : Policy) (s : AStore) (id : Nat) (name : Bytes) (qtype qclass : UInt16)
    (respCD : Bool) (client : Scope) (echo : Option Prefix) : AStore :=
  let sc := admitScope p client echo
  setFromResponse s ((CacheKey.mk name qtype qclass respCD sc).hash H) id name qtype qclass respCD sc none

/-! ## Background refresh (`prefetch_queue.go`) -/

/-- what identifies a request for the cache: question, CD partition, and whether
the client sent ECS. -/
structure Req where
  name : Bytes
  qtype : UInt16
  qclass : UInt16
  cd : Bool
  hasECS : Bool
deriving DecidableEq, Repr

/-- the request `processPrefetch` sends to the cache-less sub-pipeline: a copy of
the trigger — same question, same header (CD above all), DO forced. -/
def prefetchRequest (trigger : Req) : Req := trigger

/-- `handleCacheHit` queues a refresh: prefetch enabled, the entry inside its
window and unclaimed (`aged`), and not scoped (`PrefetchEligible`). -/
def shouldQueuePrefetch (prefetchOn aged : Bool) (e : Entry) : Bool :=
  prefetchOn && aged && e.scope.isNone

/-- `processPrefetch`: ask upstream `prefetchRequest trigger`; the answer (id `newId`,
carrying the question `resp` — the asked one unless the upstream rewrote it) replaces
`expected` by pointer CAS and is retained under ITS OWN question. -/
def processPrefetch (s : AStore) (key : UInt64) (expected : Entry) (trigger : Req) (newId : Nat)
    (resp : Option (Bytes × UInt16 × UInt16) := none) : AStore × Bool :=
  let asked := prefetchRequest trigger
  let (n, t, c) := resp.getD (asked.name, asked.qtype, asked.qclass)
  replaceIfCurrent s key expected newId n t c none

/-! ## The decoded CNAME chase (`Cache.additionalAnswer` through the Queryer) -/

/-- a reply of the decoded body as the chase sees and builds it. -/
inductive MsgReply
  /-- NOERROR: the answer sections of these entries, in order -/
  | answer (es : List Entry)
  /-- NXDOMAIN from a subtree cut, after these answers -/
  | nx (es : List Entry) (c : Cut)
  /-- SERVFAIL: a cached failure (EDE 13 travels along) or one made on the spot (loop) -/
  | failed (f : Option FEntry)
  | miss
deriving Repr

def MsgReply.ofOutcome : Outcome → MsgReply
  | Outcome.hit es => MsgReply.answer es
  | Outcome.cut c => MsgReply.nx [] c
  | Outcome.fail f => MsgReply.failed (some f)
  | Outcome.miss => MsgReply.miss

/-- the entry's answer section carries a record of type `qtype` (harness shapes:
a terminal entry answers with its own type, an alias with CNAME + TXT). -/
def hasQtypeRecord (e : Entry) (qtype : UInt16) : Bool :=
  match e.alias with
  | none => e.qtype == qtype
  | some _ => qtype == 5 || qtype == 16

/-- `searchAdditionalAnswer`'s `target`: the Target of the last CNAME merged, "" if none. -/
def lastCnameTarget (es : List Entry) : Bytes :=
  match es.reverse.findSome? (·.alias) with
  | some t => (present t).getD []
  | none => []

def maxCnameHops : Nat := 10
def maxCnameChaseDepth : Nat := 10

/-- the `lookup:` loop of `additionalAnswer`; `sub` answers an internal query for
(target, qtype, the client's class, cd); `fuel` is `cnameDepth`. -/
def chaseLoop (sub : Bytes → MsgReply) (qname : Bytes) (qtype : UInt16) :
    Nat → Bytes → List Bytes → List Entry → MsgReply
  | 0, _, _, acc => MsgReply.answer acc
  | fuel + 1, target, targets, acc =>
    if targets.contains target then MsgReply.failed none else
    match sub target with
    | MsgReply.answer es =>
      let newTarget := lastCnameTarget es
      if newTarget == qname then MsgReply.failed none
      else if es.any (·.alias.isSome) && decide (fuel > 0) && !(es.any (hasQtypeRecord · qtype)) then
        chaseLoop sub qname qtype fuel newTarget (targets ++ [target]) (acc ++ es)
      else MsgReply.answer (acc ++ es)
    | MsgReply.nx es c => MsgReply.nx (acc ++ es) c
    | MsgReply.failed f => MsgReply.failed f
    | MsgReply.miss => MsgReply.answer acc

/-- `additionalAnswer` on the message built from the hit entry `e`. -/
def additionalAnswer (sub : Bytes → MsgReply) (qname : Bytes) (qtype : UInt16) (e : Entry) : MsgReply :=
  if qtype == 5 || qtype == 43 then MsgReply.answer [e] else
  match e.alias with
  | none => MsgReply.answer [e]
  | some t =>
    match present t with
    | none => MsgReply.answer [e]
    | some tp =>
      if tp == qname then MsgReply.failed none
      else if qtype == 16 then MsgReply.answer [e]
      else chaseLoop sub qname qtype maxCnameHops tp [] [e]

/-- the decoded body with its alias chase, `depth` nested invocations still allowed
(`maxCnameChaseDepth - cnameChaseDepth(ctx)`).  Sub-queries are message-born internal
requests without ECS of their own, in the class the client asked in
(`cnameReq.Question[0].Qclass = q.Qclass`), inheriting CD and the request tree's ECS mark. -/
def msgReplyAt (H : Bytes → UInt64) (W : World) (qtype : UInt16) (cd hasECS : Bool) :
    Nat → Bytes → UInt16 → Scope → MsgReply
  | 0, name, qclass, client => MsgReply.ofOutcome (serveMsg H W name qtype qclass cd client hasECS)
  | d + 1, name, qclass, client =>
    match serveMsg H W name qtype qclass cd client hasECS with
    | Outcome.hit [e] =>
      additionalAnswer (fun t => msgReplyAt H W qtype cd hasECS d t qclass none) name qtype e
    | o => MsgReply.ofOutcome o

/-! ### which entries the decoded body HITS while answering (each hit runs `handleCacheHit`,
where a due entry claims its background refresh with a copy of the request at hand) -/

/-- hits made by the sub-queries of the `lookup:` loop, in order; mirrors `chaseLoop`. -/
def chaseLoopVisits (sub : Bytes → MsgReply) (subV : Bytes → List (Bytes × Entry)) (qname : Bytes) (qtype : UInt16) :
    Nat → Bytes → List Bytes → List (Bytes × Entry)
  | 0, _, _ => []
  | fuel + 1, target, targets =>
    if targets.contains target then [] else
    subV target ++
      match sub target with
      | MsgReply.answer es =>
        let newTarget := lastCnameTarget es
        if newTarget == qname then []
        else if es.any (·.alias.isSome) && decide (fuel > 0) && !(es.any (hasQtypeRecord · qtype)) then
          chaseLoopVisits sub subV qname qtype fuel newTarget (targets ++ [target])
        else []
      | _ => []

/-- hits made below `additionalAnswer`; mirrors it. -/
def additionalVisits (sub : Bytes → MsgReply) (subV : Bytes → List (Bytes × Entry)) (qname : Bytes) (qtype : UInt16)
    (e : Entry) : List (Bytes × Entry) :=
  if qtype == 5 || qtype == 43 then [] else
  match e.alias with
  | none => []
  | some t =>
    match present t with
    | none => []
    | some tp =>
      if tp == qname then [] else if qtype == 16 then []
      else chaseLoopVisits sub subV qname qtype maxCnameHops tp []

/-- every (question name, entry) the decoded body hits for one request, outermost first. -/
def msgVisitsAt (H : Bytes → UInt64) (W : World) (qtype : UInt16) (cd hasECS : Bool) :
    Nat → Bytes → UInt16 → Scope → List (Bytes × Entry)
  | 0, name, qclass, client =>
    match serveMsg H W name qtype qclass cd client hasECS with
    | Outcome.hit [e] => [(name, e)]
    | _ => []
  | d + 1, name, qclass, client =>
    match serveMsg H W name qtype qclass cd client hasECS with
    | Outcome.hit [e] =>
      (name, e) :: additionalVisits (fun t => msgReplyAt H W qtype cd hasECS d t qclass none)
        (fun t => msgVisitsAt H W qtype cd hasECS d t qclass none) name qtype e
    | _ => []

/-- a client request through the decoded body of `Cache.ServeDNS`. -/
def serveMsgFull (H : Bytes → UInt64) (W : World) (name : Bytes) (qtype qclass : UInt16) (cd : Bool)
    (client : Scope) (hasECS : Bool) : MsgReply :=
  msgReplyAt H W qtype cd hasECS maxCnameChaseDepth name qclass client

/-- a wire-born request: byte rungs, else the decoded body with its chase. -/
def serveWireFull (H : Bytes → UInt64) (W : World) (w : Bytes) (qtype qclass : UInt16) (cd : Bool)
    (due : Entry → Bool := fun _ => false) : MsgReply :=
  match serveWireCore H W w qtype qclass cd due with
  | some o => MsgReply.ofOutcome o
  | none =>
    match present w with
    | some name => serveMsgFull H W name qtype qclass cd none false
    | none => MsgReply.miss

end SdnsVerif.Model.CacheKey
