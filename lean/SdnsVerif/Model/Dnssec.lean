/-
Model of the DNSSEC decision cores of sdns (property C01).  Core Lean only.

  middleware/resolver/dnssec/verify.go   verifyRRSIGWithWork, verifyOneSigWithWork,
                                         usableSignatureCandidate, signatureMatchesRRset,
                                         isSynthesizedCNAME, verifyDSWithWork,
                                         usableDSCandidate, ValidateSigner
  middleware/resolver/dnssec/wildcard.go VerifyWildcardAnswerForZoneWithWork (NSEC branch)
  middleware/resolver/resolver.go        verifyDNSSEC (after the DNSKEY fetch), the per-signer
                                         loops of answer / authority / validateDelegation,
                                         authenticatedDelegationDS, the hasTrustAnchors gates
  middleware/resolver/handler.go         error ⇒ SERVFAIL (+ EDE iff OPT)
  middleware/edns, middleware/cache      the AD discipline toward the client

Names are label lists stored ROOT FIRST (`[]` is the root), so "zone is an
ancestor of name" is `zone.isPrefixOf name`; labels arrive case folded.
Cryptography is an oracle: `sigValid k s rrset` (does the signature bytes of
`s` verify under the public key of `k` over the canonical form of `rrset`
with the fields of `s`), `digestMatch k d` (does the digest of `d` equal the
digest of `k`).  Record data is an opaque identity (`rdata : Nat`).
-/
namespace SdnsVerif.Model.Dnssec

abbrev Name := List String

/-- `dnsutil.NameInZone(name, zone)` on label lists: label-wise, never a string suffix. -/
def nameInZone (name zone : Name) : Bool := zone.isPrefixOf name

def tNS : Nat := 2
def tCNAME : Nat := 5
def tDNAME : Nat := 39
def tDS : Nat := 43
def tDNSKEY : Nat := 48

/-- `dnssec.IsSupportedDNSKEYAlgorithm`. -/
def supportedAlgs : List Nat := [5, 7, 8, 10, 13, 14, 15]
def supportedAlg (a : Nat) : Bool := supportedAlgs.contains a

/-- `dnssec.IsSupportedDSDigest`. -/
def supportedDigests : List Nat := [1, 2, 4]
def supportedDigest (t : Nat) : Bool := supportedDigests.contains t

/-- `key.Flags & dns.ZONE != 0` (bit 8). -/
def zoneFlag (flags : Nat) : Bool := flags / 256 % 2 == 1

structure Key where
  id : Nat          -- identity of the public key material
  owner : Name
  cls : Nat
  flags : Nat
  proto : Nat
  alg : Nat
  tag : Nat         -- dnssec.KeyTag(key)
deriving DecidableEq, Repr

structure RR where
  owner : Name
  spell : Nat := 0       -- identity of the exact owner spelling (dns.IsRRset compares spellings)
  rtype : Nat
  cls : Nat := 1
  rdata : Nat := 0
  target : Option Name := none   -- CNAME / DNAME target
  rank : Nat := 0        -- position of the record's RRset key in the validator's sorted key order
deriving DecidableEq, Repr

structure Sig where
  id : Nat
  owner : Name
  cls : Nat := 1
  covered : Nat
  alg : Nat
  labels : Nat
  origTtl : Nat := 0
  expiration : Nat
  inception : Nat
  tag : Nat
  signer : Name
  rank : Nat := 0        -- position in `uniqueSortedRRSIGs` order
deriving DecidableEq, Repr

structure Msg where
  answer : List RR := []
  ns : List RR := []
  ansSigs : List Sig := []
  nsSigs : List Sig := []
deriving Repr

inductive Err
  | nokey       -- ErrMissingDNSKEY
  | missing     -- ErrMissingSigned
  | nosigs      -- ErrNoSignatures
  | period      -- ErrInvalidSignaturePeriod
  | alg         -- dns.ErrAlg
  | badsig      -- dns.ErrSig
  | noksk       -- ErrMissingKSK
  | mismatchds  -- ErrMismatchingDS
  | convert     -- ErrFailedToConvertKSK
  | nodnskey    -- ErrNoDNSKEY
  | emptyds     -- "DS RR set empty"
  | dsrecords   -- ErrDSRecords
  | anchors     -- ErrTrustAnchorsUnavailable
  | wildcard    -- ErrWildcardNoDenial
  | nsecmissing -- ErrNSECMissingCoverage
  | denial      -- an error of the denial verifiers (C02)
deriving DecidableEq, Repr

def Err.str : Err → String
  | .nokey => "nokey" | .missing => "missing" | .nosigs => "nosigs" | .period => "period"
  | .alg => "alg" | .badsig => "badsig" | .noksk => "noksk" | .mismatchds => "mismatchds"
  | .convert => "convert" | .nodnskey => "nodnskey" | .emptyds => "emptyds"
  | .dsrecords => "dsrecords" | .anchors => "anchors" | .wildcard => "wildcard"
  | .nsecmissing => "nsecmissing" | .denial => "denial"

inductive Res
  | ok
  | fail (e : Err)
deriving DecidableEq, Repr

/-! ### sorting by a supplied rank (stands for `sort.Slice`) -/

def insertBy {α : Type} (f : α → Nat) (x : α) : List α → List α
  | [] => [x]
  | y :: t => if f x ≤ f y then x :: y :: t else y :: insertBy f x t

def sortBy {α : Type} (f : α → Nat) : List α → List α
  | [] => []
  | x :: t => insertBy f x (sortBy f t)

/-! ### RRSIG validity window — `dns.RRSIG.ValidityPeriod` (RFC 1982 serial arithmetic) -/

def year68 : Int := 2147483648

def inWindow (now : Int) (s : Sig) : Bool :=
  let modi := Int.tdiv ((s.inception : Int) - now) year68
  let mode := Int.tdiv ((s.expiration : Int) - now) year68
  let ti := (s.inception : Int) + modi * year68
  let te := (s.expiration : Int) + mode * year68
  decide (ti ≤ now) && decide (now ≤ te)

/-! ### one signature -/

/-- `usableSignatureCandidate`. -/
def usableSigCandidate (s : Sig) (k : Key) : Bool :=
  k.tag == s.tag && k.alg == s.alg && k.cls == s.cls && k.owner == s.signer &&
    k.proto == 3 && zoneFlag k.flags

/-- `dns.IsRRset`: non-empty, one type, one class, one owner spelling. -/
def isRRset : List RR → Bool
  | [] => false
  | h :: t => t.all fun r => r.rtype == h.rtype && r.cls == h.cls && r.owner == h.owner && r.spell == h.spell

/-- `wildcardExpanded(owner, labels)` of verify.go: the signature counts fewer labels than the owner
has, the leading `*` of a wildcard owner itself not counted. -/
def sigExpands (owner : Name) (labels : Nat) : Bool :=
  decide (labels < (if owner.getLast? == some "*" then owner.length - 1 else owner.length))

/-- a denial record is never the product of wildcard expansion (a691674). -/
def expandedDenial (s : Sig) (owner : Name) : Bool :=
  (s.covered == 47 || s.covered == 50) && sigExpands owner s.labels

/-- `signatureMatchesRRset`. -/
def sigMatchesRRset (s : Sig) (set : List RR) : Bool :=
  match set with
  | [] => false
  | h :: _ =>
    !expandedDenial s h.owner && isRRset set && h.cls == s.cls && h.rtype == s.covered && decide (s.labels ≤ h.owner.length) &&
      h.owner == s.owner && nameInZone h.owner s.signer

/-- `verifyOneSigWithWork` (keys well formed: a failed public-key operation is `dns.ErrSig`). -/
def verifyOneSig (sv : Key → Sig → List RR → Bool) (now : Int) (keys : List Key)
    (set : List RR) (s : Sig) : Res :=
  let cands := keys.filter (fun k => k.tag == s.tag)
  if cands.isEmpty then .fail .nokey
  else if !cands.any (fun k => k.owner == s.signer) then .fail .nokey
  else if !inWindow now s then .fail .period
  else if !supportedAlg s.alg then .fail .alg
  else if !sigMatchesRRset s set then .fail .missing
  else
    let elig := cands.filter (usableSigCandidate s)
    if elig.isEmpty then .fail .nokey
    else if elig.any (fun k => sv k s set) then .ok
    else .fail .badsig

/-! ### the response-wide check -/

/-- `isSynthesizedCNAME`: some in-zone DNAME is a proper ancestor of the CNAME
owner and substituting it reproduces the CNAME target. -/
def isSynthesizedCNAME (c : RR) (dnames : List RR) : Bool :=
  dnames.any fun d =>
    d.owner.length != 0 && decide (d.owner.length < c.owner.length) && d.owner.isPrefixOf c.owner &&
      match c.target, d.target with
      | some ct, some dt => ct == dt ++ c.owner.drop d.owner.length
      | _, _ => false

inductive Collect
  | skip
  | foreign
  | keep
deriving DecidableEq, Repr

/-- the `collect` closure of `verifyRRSIGWithWork` for one non-RRSIG record. -/
def classify (zone : Name) (dnames : List RR) (fromAuthority : Bool) (r : RR) : Collect :=
  if r.rtype == tNS && fromAuthority then .skip
  else if r.rtype == tCNAME && isSynthesizedCNAME r dnames then .skip
  else if !nameInZone r.owner zone then (if fromAuthority then .skip else .foreign)
  else .keep

abbrev GKey := Name × Nat × Nat

def keyOf (r : RR) : GKey := (r.owner, r.rtype, r.cls)

structure Group where
  rank : Nat
  key : GKey
  set : List RR
deriving Repr

/-- the RRset of `r` inside the collected records. -/
def rrsetOf (coll : List RR) (k : GKey) : List RR := coll.filter (fun x => keyOf x == k)

def groupsAux (all : List RR) : List RR → List GKey → List Group
  | [], _ => []
  | r :: t, seen =>
    if seen.contains (keyOf r) then groupsAux all t seen
    else { rank := r.rank, key := keyOf r, set := rrsetOf all (keyOf r) } :: groupsAux all t (keyOf r :: seen)

/-- the `rrsets` map of `verifyRRSIGWithWork`. -/
def groups (coll : List RR) : List Group := groupsAux coll coll []

def trySigs (sv : Key → Sig → List RR → Bool) (now : Int) (keys : List Key) (set : List RR) :
    List Sig → Err → Res
  | [], e => .fail e
  | s :: t, _ =>
    match verifyOneSig sv now keys set s with
    | .ok => .ok
    | .fail e => trySigs sv now keys set t e

def sigsFor (sigs : List Sig) (k : GKey) : List Sig :=
  sigs.filter (fun s => s.owner == k.1 && s.covered == k.2.1 && s.cls == k.2.2)

def checkGroup (sv : Key → Sig → List RR → Bool) (now : Int) (keys : List Key) (sigs : List Sig)
    (g : Group) : Res :=
  let sl := sortBy Sig.rank (sigsFor sigs g.key)
  if sl.isEmpty then .fail .missing
  else if !isRRset g.set then .fail .missing
  else trySigs sv now keys g.set sl .missing

def checkGroups (sv : Key → Sig → List RR → Bool) (now : Int) (keys : List Key) (sigs : List Sig) :
    List Group → Res
  | [] => .ok
  | g :: t =>
    match checkGroup sv now keys sigs g with
    | .ok => checkGroups sv now keys sigs t
    | .fail e => .fail e

def dnamesOf (zone : Name) (m : Msg) : List RR :=
  (m.answer ++ m.ns).filter fun r => r.rtype == tDNAME && nameInZone r.owner zone

/-- the records `verifyRRSIGWithWork` demands signatures for. -/
def collected (zone : Name) (m : Msg) : List RR :=
  m.answer.filter (fun r => classify zone (dnamesOf zone m) false r == .keep) ++
    m.ns.filter (fun r => classify zone (dnamesOf zone m) true r == .keep)

/-- `verifyRRSIGWithWork(signer, keys, msg)`; `keys` is the flattened key map. -/
def verifyRRSIG (sv : Key → Sig → List RR → Bool) (now : Int) (signer : Name) (keys : List Key)
    (m : Msg) : Res :=
  if keys.isEmpty then .fail .nokey
  else if m.answer.any (fun r => classify signer (dnamesOf signer m) false r == .foreign) then .fail .missing
  else
    let coll := collected signer m
    if coll.isEmpty then .ok
    else
      let sigs := m.ansSigs ++ m.nsSigs
      if sigs.isEmpty then .fail .nosigs
      else
        let inz := sigs.filter (fun s => nameInZone s.owner signer)
        checkGroups sv now keys inz (sortBy Group.rank (groups coll))

/-! ### ValidateSigner -/

/-- `dnssec.ValidateSigner(signer, qname)`; `signerEmpty` is `signer == ""`. -/
def validateSigner (signerEmpty : Bool) (signer qname : Name) : Bool :=
  !signerEmpty && nameInZone qname signer

/-! ### DS -/

structure DS where
  id : Nat
  owner : Name
  cls : Nat := 1
  tag : Nat
  alg : Nat
  dtype : Nat
  digestOk : Bool := true    -- the digest is non-empty hexadecimal
  rank : Nat := 0            -- position in `uniqueSortedDSRecords` order
deriving DecidableEq, Repr

/-- `dnssec.IsSupportedDS`. -/
def supportedDS (d : DS) : Bool := supportedDigest d.dtype && supportedAlg d.alg

/-- `usableDSCandidate` (key material of ordinary size). -/
def usableDSCandidate (d : DS) (k : Key) : Bool :=
  k.tag == d.tag && k.alg == d.alg && k.cls == d.cls && k.owner == d.owner &&
    k.proto == 3 && zoneFlag k.flags

inductive DSRes
  | matched               -- (false, nil)
  | unsupportedOnly       -- (true, ErrFailedToConvertKSK)
  | bogus (e : Err)       -- (false, err)
deriving DecidableEq, Repr

/-- one supported DS of the loop in `verifyDSWithWork`: `none` = matched. -/
def dsStep (dm : Key → DS → Bool) (keys : List Key) (d : DS) : Option Err :=
  let cands := keys.filter (fun k => k.tag == d.tag)
  if cands.isEmpty then some .noksk
  else
    let elig := cands.filter (usableDSCandidate d)
    if elig.isEmpty then some .noksk
    else if !d.digestOk then some .mismatchds
    else if elig.any (fun k => dm k d) then none
    else some .mismatchds

def dsLoop (dm : Key → DS → Bool) (keys : List Key) : List DS → Option Err → Option (Option Err)
  -- result `none` = matched; `some last` = fell through with that last error
  | [], last => some last
  | d :: t, last =>
    if !supportedDS d then dsLoop dm keys t last
    else match dsStep dm keys d with
      | none => none
      | some e => dsLoop dm keys t (some e)

/-- `verifyDSWithWork(keyMap, parentDSSet)`. -/
def verifyDS (dm : Key → DS → Bool) (keys : List Key) (dss : List DS) : DSRes :=
  match dsLoop dm keys (sortBy DS.rank dss) none with
  | none => .matched
  | some last =>
    if dss.isEmpty then .bogus .noksk
    else if !dss.any supportedDS then .unsupportedOnly
    else match last with
      | some e => .bogus e
      | none => .bogus .noksk

/-- the keys `VerifyDSAnchoredWithWork` returns: every key some supported DS authenticates. -/
def anchoredKeys (dm : Key → DS → Bool) (keys : List Key) (dss : List DS) : List Key :=
  keys.filter fun k => dss.any fun d => supportedDS d && usableDSCandidate d k && d.digestOk && dm k d

/-! ### wildcard answers (NSEC branch) -/

structure NSEC where
  id : Nat
  owner : Name
  next : Name
deriving DecidableEq, Repr

/-- the next-closer name of a wildcard-expanded signature: the last `labels+1` labels of its owner. -/
def nextCloser (s : Sig) : Name := s.owner.take (s.labels + 1)

def wildcardExpanded (s : Sig) : Bool := decide (s.labels < s.owner.length)

/-- `nsecProvesENT`: the span's next name lies strictly below `name`, so `name` is an empty
non-terminal — it exists (697f61e). -/
def provesENT (n : NSEC) (name : Name) : Bool :=
  decide (name.length < n.next.length) && nameInZone n.next name

/-- `VerifyWildcardAnswerForZoneWithWork` with NSEC records only; `covers` is `nsecCovers`. -/
def verifyWildcard (covers : NSEC → Name → Bool) (ansSigs : List Sig) (nsecs : List NSEC) : Res :=
  if ansSigs.all (fun s => !wildcardExpanded s ||
      nsecs.any (fun n => covers n (nextCloser s) && !provesENT n (nextCloser s)))
  then .ok else .fail .wildcard

/-- `dnsutil.FilterRRsToZone` on NSEC records: owner AND next name inside the zone. -/
def filterNSEC (zone : Name) (l : List NSEC) : List NSEC :=
  l.filter fun n => nameInZone n.owner zone && nameInZone n.next zone

/-- a record of a section as `dnsutil.FilterRRsToZone` looks at it. -/
structure SecRR where
  owner : Name
  rtype : Nat
  next : Option Name := none    -- NextDomain of an NSEC
deriving DecidableEq, Repr

/-- `dnsutil.FilterRRsToZone(rrs, zone)`: owner inside the zone; an NSEC also needs its next name inside. -/
def keepInZone (zone : Name) (r : SecRR) : Bool :=
  nameInZone r.owner zone &&
    (if r.rtype == 47 then (match r.next with | some n => nameInZone n zone | none => true) else true)

def filterToZone (zone : Name) (l : List SecRR) : List SecRR := l.filter (keepInZone zone)

/-- the wildcard step of `Resolver.answer`: the authority section is filtered to the signer zone
FIRST (out-of-zone authority records were exempt from the signature check), then the
no-closer-match proof is looked for in what is left. -/
def answerWildcard (covers : NSEC → Name → Bool) (signer : Name) (ansSigs : List Sig) (nsecs : List NSEC) : Res :=
  verifyWildcard covers ansSigs (filterNSEC signer nsecs)

/-! ### candidate signers — `Resolver.findRRSIGSigners` -/

/-- presentation form of a name made of plain labels (`www.example.com.`). -/
def presentation (n : Name) : String :=
  if n.isEmpty then "." else ".".intercalate n.reverse ++ "."

/-- the order in which candidates are tried: more labels first, then by lower-cased text. -/
def signerBefore (a b : Name) : Bool :=
  if a.length != b.length then decide (b.length < a.length) else decide (presentation a ≤ presentation b)

def insertSigner (x : Name) : List Name → List Name
  | [] => [x]
  | y :: t => if signerBefore x y then x :: y :: t else y :: insertSigner x t

def sortSigners : List Name → List Name
  | [] => []
  | x :: t => insertSigner x (sortSigners t)

/-- does signature `s` (owner, type covered, signer) nominate its signer? -/
def nominates (have_ : List (Name × Nat)) (qname : Name) (inAnswer : Bool) (s : Name × Nat × Name) : Bool :=
  have_.contains (s.1, s.2.1) && (!inAnswer || s.1 == qname || s.2.1 == tDNAME)

def dedupNames : List Name → List Name → List Name
  | [], _ => []
  | x :: t, seen => if seen.contains x then dedupNames t seen else x :: dedupNames t (x :: seen)

/-- `findRRSIGSigners(resp, qname, inAnswer)`: `recs` = (owner, type) of the non-RRSIG records of the
section, `sigs` = (owner, type covered, signer) of its RRSIGs, in message order. -/
def findRRSIGSigners (recs : List (Name × Nat)) (sigs : List (Name × Nat × Name)) (qname : Name) (inAnswer : Bool) : List Name :=
  sortSigners (dedupNames ((sigs.filter (nominates recs qname inAnswer)).map fun s => s.2.2) [])

/-- `hasSupportedDS`. -/
def hasSupportedDS (dss : List DS) : Bool := dss.any supportedDS

/-- `composeWireChase`: the composed reply is authentic only if EVERY segment (the alias entry and
every hop up to the terminal one) was stored as validated. -/
def wireChaseAD (segs : List Bool) : Bool := segs.all id

/-! ### the NSEC proof of an insecure delegation — `dnssec.VerifyDelegationNSEC` -/

structure DelegNSEC where
  owner : Name
  ns : Bool      -- NS bit
  ds : Bool      -- DS bit
  soa : Bool     -- SOA bit
deriving DecidableEq, Repr

inductive DelegRes
  | ok
  | nsMissing        -- ErrNSECNSMissing
  | badDelegation    -- ErrNSECBadDelegation
  | noCover          -- ErrNSECMissingCoverage
deriving DecidableEq, Repr

/-- the first NSEC owned by the delegation point decides: NS set, neither DS nor SOA. -/
def verifyDelegationNSEC (delegation : Name) : List DelegNSEC → DelegRes
  | [] => .noCover
  | n :: t =>
    if n.owner != delegation then verifyDelegationNSEC delegation t
    else if !n.ns then .nsMissing
    else if n.ds || n.soa then .badDelegation
    else .ok

/-! ### NODATA from hashed denial — `dnssec.VerifyNODATAForZoneWithWork`

What the NSEC3 ring says about one question (hash lookups are the library's): the decision itself,
in particular which record's Opt-Out bit decides whether the denial may carry AD (RFC 5155 §9.2). -/

structure N3View where
  /-- the record matching the query name: (query type or CNAME set, SOA set, NS set) -/
  exact : Option (Bool × Bool × Bool) := none
  /-- a closest encloser was found / it is a delegation point or DNAME owner -/
  ceFound : Bool := false
  ceBad : Bool := false
  /-- Opt-Out bit of the record COVERING the next closer name -/
  cover : Option Bool := none
  /-- the record matching the wildcard at the closest encloser: (query type or CNAME set, its own Opt-Out bit) -/
  wild : Option (Bool × Bool) := none
deriving Repr

inductive N3Res
  | secure | insecure | typeExists | badDelegation | noCover | optOut
deriving DecidableEq, Repr

def verifyNODATA3 (isDS : Bool) (v : N3View) : N3Res :=
  match v.exact with
  | some (ty, soa, ns) =>
    if ty then .typeExists
    else if isDS && soa then .badDelegation
    else if !isDS && ns && !soa then .badDelegation
    else .secure
  | none =>
    if !v.ceFound then .noCover
    else if v.ceBad then .badDelegation
    else if isDS then
      match v.cover with
      | none => .noCover
      | some false => .optOut
      | some true => .insecure
    else
      match v.cover, v.wild with
      | none, _ => .noCover
      | some _, none => .noCover
      | some oo, some (ty, _) => if ty then .typeExists else if oo then .insecure else .secure

/-- `VerifyDelegationForZoneWithWork`: the NSEC3 proof of an INSECURE delegation.  `exact` here is
(NS set, DS set, SOA set) of the record matching the delegation name. -/
def verifyDelegation3 (v : N3View) : N3Res :=
  match v.exact with
  | some (ns, ds, soa) =>
    if !ns then .noCover          -- (reported as ErrNSECNSMissing; the driver renders it)
    else if ds || soa then .badDelegation
    else .insecure
  | none =>
    if !v.ceFound then .noCover
    else if v.ceBad then .badDelegation
    else match v.cover with
      | none => .noCover
      | some false => .optOut
      | some true => .insecure

/-- `insecureProofName(q)` (e583743): the name whose position decides whether an unsigned response
may be excused by an insecure delegation — for a DS question the name one label above its owner. -/
def insecureProofName (qname : Name) (isDS : Bool) : Name :=
  if isDS && !qname.isEmpty then qname.dropLast else qname

/-- the exact-owner branch of `dnssec.VerifyNODATANSEC`: bits of the NSEC owned by the query name —
(query type or CNAME set, SOA, NS).  `none` = the first such record does not exist (other branch). -/
def verifyNodataExact (isDS : Bool) : List (Name × Bool × Bool × Bool) → Name → Option DelegRes
  | [], _ => none
  | (owner, ty, soa, ns) :: t, q =>
    if owner != q then verifyNodataExact isDS t q
    else if ty then some .nsMissing          -- rendered as ErrNSECTypeExists by the driver
    else if isDS && soa then some .badDelegation
    else if !isDS && ns && !soa then some .badDelegation
    else some .ok

/-! ### Resolver.verifyDNSSEC after the DNSKEY fetch -/

inductive VRes
  | verified          -- (true, nil)
  | insecure          -- (false, nil): nothing this validator can verify (RFC 6840 §5.2)
  | fail (e : Err)
deriving DecidableEq, Repr

/-- the key filter of `Resolver.verifyDNSSEC`: owner = signer, flags 256 or 257. -/
def zoneKeys (signer : Name) (dnskeys : List Key) : List Key :=
  dnskeys.filter fun k => k.owner == signer && (k.flags == 256 || k.flags == 257)

/-- `isKeyResp`: the response under validation is the signer's own DNSKEY response
(`msg == resp`): then only the DS-anchored keys may vouch for it (RFC 4035 §5.2). -/
def verifyDNSSEC (sv : Key → Sig → List RR → Bool) (dm : Key → DS → Bool) (now : Int)
    (signer : Name) (dnskeys : List Key) (parentDS : List DS) (isKeyResp qtypeRRSIG : Bool)
    (resp : Msg) : VRes :=
  let keys := zoneKeys signer dnskeys
  if keys.isEmpty then .fail .nodnskey
  else if parentDS.isEmpty then .fail .emptyds
  else match verifyDS dm keys parentDS with
    | .unsupportedOnly => .insecure
    | .bogus e => .fail e
    | .matched =>
      if qtypeRRSIG then .insecure
      else
        let verifyKeys := if isKeyResp then anchoredKeys dm keys parentDS else keys
        match verifyRRSIG sv now signer verifyKeys resp with
        | .ok => .verified
        | .fail e => .fail e

/-! ### the chain of trust as the code walks it

One `Link` per zone cut below the root: the response that carried the DS
RRset of `zone` (validated under the parent's keys) and the DNSKEY response of
`zone` (validated against that DS RRset).  `decodeKey` / `decodeDS` read the
typed rdata out of an abstract record. -/

structure Link where
  zone : Name
  dsMsg : Msg
  keyMsg : Msg
deriving Repr

structure Codec where
  decodeKey : RR → Key
  decodeDS : RR → DS

/-- all signatures travelling with a response. -/
def Msg.sigs (m : Msg) : List Sig := m.ansSigs ++ m.nsSigs

/-- the DS RRset of `zone` as the validator of `parent` collected it from a response. -/
def dsSetOf (zone parent : Name) (m : Msg) : List RR := rrsetOf (collected parent m) (zone, tDS, 1)
/-- the DNSKEY RRset of `zone` as collected from its DNSKEY response. -/
def keySetOf (zone : Name) (m : Msg) : List RR := rrsetOf (collected zone m) (zone, tDNSKEY, 1)

/-- `Resolver.verifyRootKeys`: only configured anchors with flags 257 may sign the root DNSKEY RRset. -/
def verifyRootKeys (sv : Key → Sig → List RR → Bool) (now : Int) (anchors : List Key) (rootKeyMsg : Msg) : Res :=
  let ks := anchors.filter (fun k => k.flags == 257)
  if ks.isEmpty then .fail .anchors else verifyRRSIG sv now [] ks rootKeyMsg

/-- walk the links below a zone whose keys are already accepted; `some keys` = keys of the last zone. -/
def walk (sv : Key → Sig → List RR → Bool) (dm : Key → DS → Bool) (now : Int) (c : Codec) :
    Name → List Key → List Link → Option (Name × List Key)
  | z, ks, [] => some (z, ks)
  | z, ks, l :: rest =>
    if !(nameInZone l.zone z && l.zone != z) then none
    else if verifyRRSIG sv now z ks l.dsMsg != .ok then none
    else
      let ds := (dsSetOf l.zone z l.dsMsg).map c.decodeDS
      let keys := zoneKeys l.zone ((keySetOf l.zone l.keyMsg).map c.decodeKey)
      if ds.isEmpty || keys.isEmpty then none
      else if verifyDS dm keys ds != .matched then none
      -- the DNSKEY response itself is vouched for by the DS-anchored keys only
      else if verifyRRSIG sv now l.zone (anchoredKeys dm keys ds) l.keyMsg != .ok then none
      else walk sv dm now c l.zone keys rest

/-- the whole walk from the live trust set. -/
def chainWalk (sv : Key → Sig → List RR → Bool) (dm : Key → DS → Bool) (now : Int) (c : Codec)
    (anchors : List Key) (rootKeyMsg : Msg) (links : List Link) : Option (Name × List Key) :=
  if verifyRootKeys sv now anchors rootKeyMsg != .ok then none
  else
    let rootKeys := zoneKeys [] ((keySetOf [] rootKeyMsg).map c.decodeKey)
    -- data below the root apex is checked with every published root key, provided one of them is an anchor
    if !(rootKeys.any fun k => anchors.contains k) then none
    else walk sv dm now c [] rootKeys links

/-! ### delegation proofs and the per-signer loops -/

inductive Deleg
  | secure          -- authenticated, usable DS RRset
  | insecure        -- authenticated proof that no usable DS exists
  | fail (e : Err)
deriving DecidableEq, Repr

/-- `Resolver.authenticatedDelegationDS`: `verify` is the verdict of `verifyDNSSEC` on the
DS response; `nsec3Ok` / `nsecOk` the verdicts of `VerifyDelegation*` (C02). -/
def authenticatedDelegationDS (verify : VRes) (ds : List DS) (hasNSEC3 nsec3Ok hasNSEC nsecOk : Bool) : Deleg :=
  match verify with
  | .fail e => .fail e
  | .insecure => .fail .dsrecords
  | .verified =>
    if !ds.isEmpty then (if ds.any supportedDS then .secure else .insecure)
    else if hasNSEC3 then (if nsec3Ok then .insecure else .fail .denial)
    else if hasNSEC then (if nsecOk then .insecure else .fail .denial)
    else .fail .nsecmissing

/-- what the network-facing helpers returned for one candidate signer. -/
structure Cand where
  signerEmpty : Bool := false
  signer : Name
  findDS : Option (List DS)      -- `none` = lookup error
  zoneSecure : Bool              -- `isZoneSecure` (consulted when the DS set is empty)
  verify : VRes                  -- `verifyDNSSEC` (consulted when the DS set is not empty)
  wildcard : Res := .ok          -- `VerifyWildcardAnswerForZoneWithWork` (answer only)
  wildcardSecure : Bool := true
deriving Repr

inductive Outcome
  | validated (ad : Bool)      -- settled by a candidate that verified (`ad` = AD bit put on the response)
  | acceptedInsecure           -- accepted without signatures / without AD
  | passthrough                -- CD=1: no enforcement
  | fail (e : Err)
deriving DecidableEq, Repr

def answerLoop (qname : Name) : List Cand → Err → Outcome
  | [], last => .fail last
  | c :: t, _ =>
    if !validateSigner c.signerEmpty c.signer qname then answerLoop qname t .dsrecords
    else match c.findDS with
      | none => answerLoop qname t .denial
      | some ds =>
        if ds.isEmpty then
          (if c.zoneSecure then answerLoop qname t .dsrecords else .acceptedInsecure)
        else match c.verify with
          | .fail e => answerLoop qname t e
          | .insecure => .validated false
          | .verified =>
            match c.wildcard with
            | .fail e => .fail e
            | .ok => .validated c.wildcardSecure

/-- `Resolver.answer` from the CD test to the end of the signer loop.
`noSigZoneSecure` / `provenInsecure`: `isZoneSecure` / `provenInsecureDelegation` for a response without RRSIGs. -/
def answerDecision (dnssecOn hasAnchors cd : Bool) (qname : Name) (cands : List Cand)
    (noSigZoneSecure provenInsecure : Bool) : Outcome :=
  if cd then .passthrough
  else if dnssecOn && !hasAnchors then .fail .anchors
  else if cands.isEmpty then
    (if noSigZoneSecure && !provenInsecure then .fail .nosigs else .acceptedInsecure)
  else answerLoop qname cands .nosigs

/-- `Resolver.authority`: the same loop without the wildcard step; the denial proof is checked
afterwards (`denial` = verdict of the C02 verifiers, `none` when the response is not negative). -/
def authorityDecision (dnssecOn hasAnchors cd : Bool) (qname : Name) (cands : List Cand)
    (noSigZoneSecure provenInsecure : Bool) (negative hasProof proofOk proofSecure : Bool) : Outcome :=
  if cd then .passthrough
  else if dnssecOn && !hasAnchors then .fail .anchors
  else if cands.isEmpty then
    (if noSigZoneSecure && !provenInsecure then .fail .nosigs else .acceptedInsecure)
  else match answerLoop qname (cands.map fun c => { c with wildcard := .ok, wildcardSecure := true }) .nosigs with
    | .validated true =>
      if !dnssecOn then .validated true
      else if negative then
        (if !hasProof then .fail .nsecmissing else if !proofOk then .fail .denial else .validated proofSecure)
      else .validated true
    | o => o

/-- `Resolver.validateDelegation` (the part that decides whether the child is secure). -/
def delegationDecision (dnssecOn hasAnchors cd : Bool) (qname : Name) (parentHasSupportedDS : Bool)
    (cands : List Cand) (noSignerProof : Deleg) (childDS : List DS)
    (hasNSEC3 nsec3Ok hasNSEC nsecOk : Bool) : Deleg :=
  if cd then .insecure      -- CD=1: DS chain walked without enforcement (nothing is validated, nothing gets AD)
  else if dnssecOn && !hasAnchors then .fail .anchors
  else if cands.isEmpty then
    (if !parentHasSupportedDS then .insecure else noSignerProof)
  else match answerLoop qname (cands.map fun c => { c with wildcard := .ok, wildcardSecure := true }) .dsrecords with
    | .fail e => .fail e
    | .acceptedInsecure => .insecure
    | .passthrough => .insecure
    | .validated false => .insecure
    | .validated true =>
      if !childDS.isEmpty then .secure
      else if hasNSEC3 then (if nsec3Ok then .insecure else .fail .denial)
      else if hasNSEC then (if nsecOk then .insecure else .fail .denial)
      else .fail .nsecmissing

/-! ### what "no signatures" means for the zone that served the response

`Resolver.isZoneSecure` as far as it is decided without the network, and `Resolver.rootParentDS`
(a185dbb): a response served by the root has no referral above it, so its DS set is derived from
the live trust anchors instead of being empty. -/

/-- `isZoneSecure(qname, parentDS, zone)`; `probe` is the verdict of the DS walk it falls back to. -/
def isZoneSecure (parentDS : List DS) (zone : Name) (probe : Bool) : Bool :=
  if !parentDS.any supportedDS then false
  else match parentDS with
    | d :: _ => if d.owner == zone then true else probe
    | [] => false

/-- `rootParentDS(parentDS, zone)`; `anchorDS` = `dsRRFromRootKeys` (`[]` = no usable anchor = error). -/
def rootParentDS (dnssecOn : Bool) (parentDS anchorDS : List DS) (zone : Name) : Option (List DS) :=
  if !dnssecOn || !parentDS.isEmpty || zone != [] then some parentDS
  else if anchorDS.isEmpty then none else some anchorDS

/-- `Resolver.answer` with the zone-security test spelled out. -/
def answerAt (dnssecOn hasAnchors cd : Bool) (qname zone : Name) (parentDS anchorDS : List DS)
    (cands : List Cand) (probe provenInsecure : Bool) : Outcome :=
  if cd then .passthrough
  else if dnssecOn && !hasAnchors then .fail .anchors
  else match rootParentDS dnssecOn parentDS anchorDS zone with
    | none => .fail .anchors
    | some pds => answerDecision dnssecOn hasAnchors cd qname cands (isZoneSecure pds zone probe) provenInsecure

/-! ### which validation path a response takes — `Resolver.resolve` after the exchange (dc006eb) -/

inductive Route
  | relay        -- returned to the client side as it is, unvalidated
  | authority    -- `Resolver.authority`
  | answer       -- `Resolver.answer`
  | retry        -- asked again (next minimisation level)
  | referral     -- `processAuthoritySection` (delegation → `validateDelegation`, else `authority`)
deriving DecidableEq, Repr

/-- `rcode`: 0 NOERROR, 2 SERVFAIL, 3 NXDOMAIN; `nAns` / `nNs`: section sizes; `minimized`: the
question sent was a minimised one. -/
def dispatch (rcode nAns nNs : Nat) (minimized : Bool) : Route :=
  if rcode != 0 && nAns == 0 && nNs == 0 then
    (if minimized then .retry else if rcode == 3 then .authority else .relay)
  else if !minimized && nAns != 0 then .answer   -- (an NXDOMAIN/SERVFAIL rcode next to answer records is reset to NOERROR first)
  else if (minimized && nAns == 0 && nNs == 0) || nAns != 0 then .retry
  else if nNs != 0 then .referral
  else .authority                                 -- "no answer, no authority": the clean empty NOERROR is a NODATA

/-! ### how long a validated response may be cached — `dnsutil.CalculateCacheTTL` (cacheable types)

Seconds.  A record bounds the entry by its TTL, an RRSIG also by the time left to its expiration
(in EVERY section), an SOA of the authority section by its MINIMUM; floor 5 s, ceiling 24 h. -/

inductive TTLItem
  | rr (ttl : Nat)
  | sig (ttl : Nat) (left : Int)
  | soa (ttl : Nat) (minimum : Nat)
deriving Repr

def sigTTL (ttl : Nat) (left : Int) : Nat :=
  if left ≤ 0 then 5 else if left.toNat < ttl then left.toNat else ttl

/-- what one record contributes (an SOA's MINIMUM counts in the authority section only). -/
def itemBound (inAuthority : Bool) : TTLItem → Nat
  | .rr ttl => ttl
  | .sig ttl left => min ttl (sigTTL ttl left)
  | .soa ttl m => if inAuthority then min ttl m else ttl

def sectionBound (inAuthority : Bool) (l : List TTLItem) (start : Nat) : Nat :=
  l.foldl (fun acc it => min acc (itemBound inAuthority it)) start

def cacheTTL (answer ns extra : List TTLItem) : Nat :=
  if answer.isEmpty && ns.isEmpty && extra.isEmpty then 5
  else
    let m := sectionBound false extra (sectionBound true ns (sectionBound false answer 86400))
    if m < 5 then 5 else m

/-! ### more of the AD bit inside the resolver -/

/-- `Resolver.filterAuthorityRecords`: the allow-list applied to the authority section of an "SOA beside
NS" response before it is validated — SOA, NSEC, NSEC3, RRSIG. -/
def denialRecordType (t : Nat) : Bool := t == 6 || t == 47 || t == 50 || t == 46

def filterAuthorityRecords (types : List Nat) : List Nat := types.filter denialRecordType

/-- the DNAME splice of `Resolver.answer`: the outer (validated) response keeps AD only if the
separately resolved target leg has it — whether that leg carries records or an empty-answer denial. -/
def dnameSpliceAD (outer target : Bool) (_targetAnswers : Nat) : Bool := outer && target

/-! ### errors toward the client — `DNSHandler.handle` + `dnsutil.SetRcodeWithEDE` -/

/-- Extended DNS Error code carried by each validation error (`dnssec/errors.go`, `dnsutil.ErrorToEDE`). -/
def Err.ede : Err → Nat
  | .nokey => 9 | .missing => 6 | .nosigs => 10 | .period => 7 | .alg => 0 | .badsig => 0
  | .noksk => 9 | .mismatchds => 6 | .convert => 6 | .nodnskey => 9 | .emptyds => 0
  | .dsrecords => 6 | .anchors => 0 | .wildcard => 6 | .nsecmissing => 12 | .denial => 6

structure Reply where
  rcode : Nat
  ede : Option Nat
  ad : Bool
  answers : Nat
deriving DecidableEq, Repr

/-- the reply `handle` builds for a resolver error. -/
def errorReply (e : Err) (hasOPT : Bool) : Reply :=
  { rcode := 2, ede := if hasOPT then some e.ede else none, ad := false, answers := 0 }

/-! ### the AD bit on its way to the client -/

structure ReqFlags where
  cd : Bool
  doBit : Bool
  ad : Bool
  hasOPT : Bool := true
deriving DecidableEq, Repr

/-- `rw.noad` of `edns.ServeDNS` / `serveWire`. -/
def ednsNoAD (r : ReqFlags) : Bool := r.cd || (!r.ad && !r.doBit)

/-- `searchAdditionalAnswer`: each chased hop ANDs its AD into the outer message. -/
def chaseAD (outer : Bool) (hops : List Bool) : Bool := hops.foldl (fun a h => a && h) outer

/-- `CacheEntry.ToMsg` / `serveWireInto` / `serveWireIntoRequest`: stored AD, cleared for CD=1. -/
def cacheHitAD (stored : Bool) (reqCD : Bool) : Bool := stored && !reqCD

/-- `dns64`: a synthesised reply never carries AD. -/
def dns64AD (ad rewritten : Bool) : Bool := ad && !rewritten

/-- `edns.ResponseWriter.WriteMsg` / `WriteWire`: cleared when `noad`, and on truncation. -/
def ednsWriteAD (ad noad truncated : Bool) : Bool := ad && !noad && !truncated

/-- the client-visible AD bit of the whole serving path. -/
def clientAD (resolverValidated : Bool) (hops : List Bool) (fromCache : Bool) (r : ReqFlags)
    (dns64Rewritten truncated : Bool) : Bool :=
  let a0 := chaseAD resolverValidated hops
  let a1 := if fromCache then cacheHitAD a0 r.cd else a0
  let a2 := dns64AD a1 dns64Rewritten
  ednsWriteAD a2 (ednsNoAD r) truncated

/-! ### round 9: the cache's CD partitions, cuts and failing alias hops -/

/-- `Store.GetWithContext` — the reader behind `Resolver.subQuery`, i.e. the validator's own DS / DNSKEY
fetches: `stored0` / `stored1` say whether an entry for the question is filed under CD=0 / CD=1; the result
is the partition the served entry came from. The lookup is keyed on the request's own CD bit only. -/
def privateLookup (stored0 stored1 askCD : Bool) : Option Bool :=
  if askCD then (if stored1 then some true else none) else (if stored0 then some false else none)

structure CutReply where
  hit : Bool
  ad : Bool
  dnssec : Bool
deriving DecidableEq, Repr

/-- a name below a cached, locally validated NXDOMAIN (RFC 8020 cut) on every serving route
(`serveCutHitFromWire` + `edns.WriteWire`, `LookupNXDomainCut` + `WriteMsg`): CD=1 never reaches the cut; the
body always asserts AD and the writer clears it for a client that asked for no DNSSEC; the proof records
travel only toward DO. -/
def cutServe (r : ReqFlags) : CutReply :=
  if r.cd then { hit := false, ad := false, dnssec := false }
  else { hit := true, ad := ednsWriteAD true (ednsNoAD r) false, dnssec := r.doBit }

/-- `Cache.additionalAnswer`, failure branch: the alias is a cache hit, the fetch of its target comes back
with a failing rcode (anything but NOERROR / NXDOMAIN) and possibly an EDE of its own. -/
def hitChaseFailReply (hopEDE : Option Nat) (hasOPT : Bool) : Reply :=
  { rcode := 2, ede := if hasOPT then some (hopEDE.getD 0) else none, ad := false, answers := 0 }

/-! ### histories of a zone's key set in the cache (`cache.ServeDNS` admission keyed on the client's CD bit,
RFC 9520 failure entries, `Store.GetWithContext`) -/

/-- what a cached DNSKEY question holds: the genuine key set, one padded with a foreign key, or a failure. -/
inductive KV where
  | genuine | padded | failed
deriving DecidableEq, Repr

def KV.str : KV → String
  | .genuine => "genuine" | .padded => "padded" | .failed => "failed"

structure KeyCache where
  e0 : Option KV
  e1 : Option KV
deriving DecidableEq, Repr

inductive KeyEv where
  /-- a client asks with this CD bit while the upstream copy is authentic / padded -/
  | ask (cd authentic : Bool)
  /-- every entry runs out -/
  | expire
deriving DecidableEq, Repr

/-- the resolver below the cache: a checking-disabled question relays whatever is upstream, a validating
one ends in the genuine set or in SERVFAIL. -/
def upstreamKeys (cd authentic : Bool) : KV :=
  if authentic then .genuine else if cd then .padded else .failed

/-- one client question: a hit in the partition of ITS CD bit, else the resolver's reply, filed there. -/
def KeyCache.step (c : KeyCache) : KeyEv → KeyCache × Option KV
  | .expire => ({ e0 := none, e1 := none }, none)
  | .ask false a =>
    match c.e0 with
    | some v => (c, some v)
    | none => ({ c with e0 := some (upstreamKeys false a) }, some (upstreamKeys false a))
  | .ask true a =>
    match c.e1 with
    | some v => (c, some v)
    | none => ({ c with e1 := some (upstreamKeys true a) }, some (upstreamKeys true a))

def KeyCache.run (c : KeyCache) (evs : List KeyEv) : KeyCache := evs.foldl (fun c e => (c.step e).1) c

/-- replies along a history. -/
def KeyCache.replies : KeyCache → List KeyEv → List (Option KV)
  | _, [] => []
  | c, e :: es => (c.step e).2 :: KeyCache.replies (c.step e).1 es

/-- what the resolver's own fetch with the given CD bit is served. -/
def KeyCache.fetch (c : KeyCache) (cd : Bool) : Option KV :=
  match privateLookup c.e0.isSome c.e1.isSome cd with
  | some false => c.e0
  | some true => c.e1
  | none => none

end SdnsVerif.Model.Dnssec
