import SdnsVerif.Spec.Zone
import SdnsVerif.Model.Nsec
namespace SdnsVerif.Model.Nsec3
structure HState where
  dummy : Nat := 0
end SdnsVerif.Model.Nsec3
