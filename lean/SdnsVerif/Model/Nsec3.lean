import SdnsVerif.Spec.Zone
import SdnsVerif.Model.Nsec
/-
Executable model of the NSEC3 side of /repo/middleware/resolver/dnssec/nsec3.go
(prepareNSEC3Set, nsec3RingEvaluator.lookup, the closest-encloser walk,
VerifyNameErrorForZoneWithWork, VerifyNODATAForZoneWithWork,
VerifyDelegationForZoneWithWork) and aggressive_negative.go
(EvaluateAggressiveNSEC3).  Core Lean only.

The hash is a PARAMETER `H : Name → Option Hash` (`none` models the
evaluator refusing to hash a name outside the ring's zone is handled
separately; the driver fills `H` from the table the Go harness computed with
the implementation's own hashing).  base32hex / hex decoding of the owner
label, NextDomain and Salt fields is done by the harness: a field that does
not decode arrives as `none`.
-/
namespace SdnsVerif.Model.Nsec3
open SdnsVerif.Spec.Zone SdnsVerif.Model.Nsec

abbrev Hash := List Nat

/-- one NSEC3 record as the validators see it. -/
structure Nsec3 where
  owner : Name                 -- canonical owner name, root side first (last element = the hash label)
  ownerHash : Option Hash      -- the first (leaf) label base32hex-decoded; `none` if it is not a 32-character base32hex label
  next : Option Hash           -- NextDomain decoded; `none` if malformed
  hashLen : Nat                -- the HashLength field
  alg : Nat
  flags : Nat
  iter : Nat
  salt : Option (List Nat)     -- `none`: Salt is not hex or disagrees with SaltLength
  cls : Nat
  types : List Nat
deriving Repr, DecidableEq

/-- `maxNSEC3Iterations`. -/
def maxIterations : Nat := 150

/-- `nsec3Safe` / `AggressiveNSEC3Usable`. -/
def usable (r : Nsec3) : Bool := r.alg == 1 && r.iter ≤ maxIterations && (r.flags == 0 || r.flags == 1)

def insertNat (x : Nat) : List Nat → List Nat
  | [] => [x]
  | y :: t => if x ≤ y then x :: y :: t else y :: insertNat x t
def sortNat : List Nat → List Nat
  | [] => []
  | x :: t => insertNat x (sortNat t)

/-- `nsec3IdentityKey` equality (owner, class, algorithm, flags, iterations,
salt, next, sorted types; the owner hash is a function of the owner name). -/
def sameIdentity (a b : Nsec3) : Bool :=
  a.owner == b.owner && a.cls == b.cls && a.alg == b.alg && a.flags == b.flags && a.iter == b.iter &&
  a.salt == b.salt && a.next == b.next && sortNat a.types == sortNat b.types && a.ownerHash == b.ownerHash

/-- `normalizeNSEC3Set`: semantic duplicates removed (first kept). -/
def dedupe : List Nsec3 → List Nsec3 → List Nsec3
  | acc, [] => acc.reverse
  | acc, r :: t => if acc.any (sameIdentity r) then dedupe acc t else dedupe (r :: acc) t

structure Entry3 where
  idx : Nat
  ownerHash : Hash
  nextHash : Hash
  flags : Nat
  types : List Nat
deriving Repr, DecidableEq

structure Ring where
  zone : Name
  cls : Nat
  entries : List Entry3
deriving Repr, DecidableEq

/-- per-record admissibility of `prepareNSEC3Set` (every failure is
`ErrNSECMissingCoverage`): class set, owner exactly one label below the
signer, hash label / NextDomain / salt decodable, hash length consistent. -/
def recordOk (zone : Name) (r : Nsec3) : Bool :=
  r.cls != 0 && (r.owner.length == zone.length + 1 && zone.isPrefixOf r.owner) &&
  (match r.ownerHash with | some h => r.hashLen == h.length | none => false) &&
  r.next.isSome && r.salt.isSome

def sameParams (a b : Nsec3) : Bool := a.alg == b.alg && a.iter == b.iter && a.salt == b.salt

def hashesDistinct : List Hash → Bool
  | [] => true
  | h :: t => !t.contains h && hashesDistinct t

def insertE (x : Entry3) : List Entry3 → List Entry3
  | [] => [x]
  | y :: t => if cmpLabel x.ownerHash y.ownerHash = .gt then y :: insertE x t else x :: y :: t
def sortE : List Entry3 → List Entry3
  | [] => []
  | x :: t => insertE x (sortE t)

def indexed3 (i : Nat) : List Nsec3 → List (Nat × Nsec3)
  | [] => []
  | r :: t => (i, r) :: indexed3 (i + 1) t

def toEntry (p : Nat × Nsec3) : Entry3 :=
  { idx := p.1, ownerHash := p.2.ownerHash.getD [], nextHash := p.2.next.getD [], flags := p.2.flags, types := p.2.types }

/-- the owner sits exactly one label below the signer. -/
def ownerInZone (zone : Name) (r : Nsec3) : Bool := r.owner.length == zone.length + 1 && zone.isPrefixOf r.owner

/-- the checks of `prepareNSEC3Set` over the usable, de-duplicated records. -/
def prepareFrom (zone : Name) (us : List Nsec3) : Except Err Ring :=
  match us with
  | [] => .error .missing
  | f :: _ =>
    if us.any (fun r => !recordOk zone r) then .error .missing
    else if us.any (fun r => r.cls != f.cls || !sameParams r f) then .error .missing
    else if !hashesDistinct (us.map fun r => r.ownerHash.getD []) then .error .missing
    else .ok { zone := zone, cls := f.cls, entries := sortE (us.map fun r => toEntry (0, r)) }

/-- `prepareNSEC3Set` with a signer: unusable records are skipped, then one
class, one parameter tuple, owners bound to the signer, no two records at
one owner hash; the ring is sorted by owner hash. -/
def prepare (records : List Nsec3) (zone : Name) : Except Err Ring :=
  prepareFrom zone (dedupe [] (records.filter usable))

/-- `aggressiveNSEC3Covers` (strict interval of the hash circle). -/
def covers3 (owner next h : Hash) : Bool :=
  let on := cmpLabel owner next
  let ho := cmpLabel h owner
  let hn := cmpLabel h next
  if on = .eq then ho != .eq
  else if on = .lt then ho = .gt && hn = .lt
  else ho = .gt || hn = .lt

/-- `nsec3RingEvaluator.lookup` on a hash value: the unique match, the unique
strict cover; two covers, or a match that is also covered, is an error. -/
def lookupHash (entries : List Entry3) (v : Hash) : Except Err (Option Entry3 × Option Entry3) :=
  let m := entries.find? fun e => e.ownerHash == v
  let cs := entries.filter fun e => e.ownerHash != v && covers3 e.ownerHash e.nextHash v
  match cs with
  | [] => .ok (m, none)
  | [c] => if m.isSome then .error .missing else .ok (none, some c)
  | _ => .error .missing

/-- the hash oracle: `none` = the harness supplied no hash for that name. -/
abbrev HashFn := Name → Option Hash

/-- `evaluator.lookup(name)`: names outside the ring's zone are refused. -/
def lookup (H : HashFn) (ring : Ring) (name : Name) : Except Err (Option Entry3 × Option Entry3) :=
  if !ring.zone.isPrefixOf name then .error .missing else
  match H name with
  | none => .error .missing
  | some v => lookupHash ring.entries v

/-- `findMatchingWithWork`. -/
def findMatching (H : HashFn) (ring : Ring) (name : Name) : Except Err Entry3 :=
  match lookup H ring name with
  | .ok (some m, _) => .ok m
  | .ok (none, _) => .error .missing
  | .error e => .error e

/-- `findCovererWithWork`. -/
def findCoverer (H : HashFn) (ring : Ring) (name : Name) : Except Err Entry3 :=
  match lookup H ring name with
  | .ok (_, some c) => .ok c
  | .ok (_, none) => .error .missing
  | .error e => .error e

/-- `findClosestEncloserWithWork`: candidates are `name` itself and then each
proper ancestor with at least one label; a candidate whose lookup fails is
skipped.  Result: closest encloser length `k`, its matching entry (the next
closer name is `name.take (k+1)`, or `name` itself when `k = name.length`). -/
def walk (H : HashFn) (ring : Ring) (name : Name) : Nat → Option (Nat × Entry3)
  | 0 => none
  | k + 1 =>
    match findMatching H ring (name.take (k + 1)) with
    | .ok m => some (k + 1, m)
    | .error _ => walk H ring name k

def closestEncloser (H : HashFn) (ring : Ring) (name : Name) : Option (Nat × Entry3) :=
  walk H ring name name.length

def nextCloser (name : Name) (k : Nat) : Name := if k ≥ name.length then name else name.take (k + 1)

/-- `validateNSEC3ClosestEncloser`. -/
def validateCE (ce : Option (Nat × Entry3)) : Except Err (Nat × Entry3) :=
  match ce with
  | none => .error .missing
  | some (k, m) =>
    if typesSet m.types [tDNAME] || (typesSet m.types [tNS] && !typesSet m.types [tSOA]) then .error .badDelegation
    else .ok (k, m)

/-- `VerifyNameErrorForZoneWithWork`: `ok secure`. -/
def verifyNameError (H : HashFn) (records : List Nsec3) (signer : Name) (q : Name) (qclass : Nat) :
    Except Err Bool :=
  match prepare records signer with
  | .error e => .error e
  | .ok ring =>
    if ring.cls != qclass then .error .missing else
    match validateCE (closestEncloser H ring q) with
    | .error e => .error e
    | .ok (k, _) =>
      match findCoverer H ring (nextCloser q k) with
      | .error e => .error e
      | .ok nc =>
        match findCoverer H ring (q.take k ++ [star]) with
        | .error e => .error e
        | .ok _ => .ok (nc.flags % 2 == 0)

/-- `VerifyNODATAForZoneWithWork`. -/
def verifyNODATA (H : HashFn) (records : List Nsec3) (signer : Name) (q : Name) (t qclass : Nat) :
    Except Err Bool :=
  match prepare records signer with
  | .error e => .error e
  | .ok ring =>
    if ring.cls != qclass then .error .missing else
    match findMatching H ring q with
    | .ok m =>
      if typesSet m.types [t, tCNAME] then .error .typeExists
      else if t == tDS && typesSet m.types [tSOA] then .error .badDelegation
      else if t != tDS && typesSet m.types [tNS] && !typesSet m.types [tSOA] then .error .badDelegation
      else .ok true
    | .error _ =>
      match validateCE (closestEncloser H ring q) with
      | .error e => .error e
      | .ok (k, _) =>
        match findCoverer H ring (nextCloser q k) with
        | .error e => .error e
        | .ok nc =>
          let optOut := nc.flags % 2 == 1
          if t == tDS then (if optOut then .ok false else .error .optOut)
          else
            match findMatching H ring (q.take k ++ [star]) with
            | .error e => .error e
            | .ok w =>
              if typesSet w.types [t, tCNAME] then .error .typeExists else .ok (!optOut)

/-- `VerifyDelegationForZoneWithWork`. -/
def verifyDelegation (H : HashFn) (records : List Nsec3) (signer : Name) (d : Name) : Except Err Unit :=
  match prepare records signer with
  | .error e => .error e
  | .ok ring =>
    match findMatching H ring d with
    | .ok m =>
      if !typesSet m.types [tNS] then .error .nsMissing
      else if typesSet m.types [tDS, tSOA] then .error .badDelegation
      else .ok ()
    | .error _ =>
      match validateCE (closestEncloser H ring d) with
      | .error e => .error e
      | .ok (k, _) =>
        match findCoverer H ring (nextCloser d k) with
        | .error e => .error e
        | .ok nc => if nc.flags % 2 == 1 then .ok () else .error .optOut

/-- `VerifyWildcardAnswerForZoneWithWork` over NSEC3 records (no NSEC in the
authority section): per expanded RRSIG the ring is prepared for the signer and
the next closer name looked up; a cover is needed (`ErrWildcardNoDenial`
otherwise), an Opt-Out cover makes the answer insecure. -/
def verifyWildcardNSEC3 (H : HashFn) (records : List Nsec3) (signer : Name) : List AnsSig → Except Err Bool
  | [] => .ok true
  | g :: rest =>
    if g.labels ≥ g.owner.length then verifyWildcardNSEC3 H records signer rest
    else if records.isEmpty then .error .noDenial
    else match prepare records signer with
      | .error e => .error e
      | .ok ring =>
        match lookup H ring g.nextCloser with
        | .error e => .error e
        | .ok (_, none) => .error .noDenial
        | .ok (_, some c) =>
          match verifyWildcardNSEC3 H records signer rest with
          | .error e => .error e
          | .ok secure => .ok (secure && c.flags % 2 == 0)

/-! ### EvaluateAggressiveNSEC3 -/

/-- `newAggressiveNSEC3Entries`: every record must be usable, of the question's
class, carry the first record's parameters, sit one label below the signer;
a repeated owner hash must be an exact repeat (next, flags, bitmap as a set). -/
def addEntry3 (qclass : Nat) (zone : Name) (first : Nsec3) (acc : List Entry3) (p : Nat × Nsec3) :
    Except Err (List Entry3) :=
  let r := p.2
  if !usable r || r.cls != qclass then .error .missing
  else if !r.salt.isSome then .error .missing
  else if !sameParams r first then .error .missing
  else if !(r.owner.length == zone.length + 1 && zone.isPrefixOf r.owner) then .error .missing
  else match r.ownerHash, r.next with
    | some oh, some nh =>
      if r.hashLen != oh.length then .error .missing else
      match acc.find? fun e => e.ownerHash == oh with
      | some e =>
        if e.nextHash != nh || e.flags != r.flags || !bitmapsEqual e.types r.types then .error .missing
        else .ok acc
      | none => .ok (acc ++ [{ idx := p.1, ownerHash := oh, nextHash := nh, flags := r.flags, types := r.types }])
    | _, _ => .error .missing

def addEntries3 (qclass : Nat) (zone : Name) (first : Nsec3) : List Entry3 → List (Nat × Nsec3) → Except Err (List Entry3)
  | acc, [] => .ok acc
  | acc, p :: t => match addEntry3 qclass zone first acc p with
    | .error e => .error e
    | .ok acc' => addEntries3 qclass zone first acc' t

def newEntries3 (records : List Nsec3) (qclass : Nat) (zone : Name) : Except Err (List Entry3) :=
  match records with
  | [] => .error .missing
  | f :: _ => addEntries3 qclass zone f [] (indexed3 0 records)

/-- `lookupAggressiveNSEC3` (same rules as the ring lookup, unsorted). -/
def lookupAgg (H : HashFn) (entries : List Entry3) (name : Name) : Except Err (Option Entry3 × Option Entry3) :=
  match H name with
  | none => .error .missing
  | some v => lookupHash entries v

/-- `findAggressiveNSEC3ClosestEncloser`: from `q`'s parent down to the
signer; a failing lookup aborts (unlike the exact validator's walk). -/
def walkAgg (H : HashFn) (entries : List Entry3) (q : Name) (zoneLen : Nat) : Nat → Except Err (Nat × Entry3)
  | 0 => .error .missing
  | k + 1 =>
    if k < zoneLen then .error .missing else
    match lookupAgg H entries (q.take k) with
    | .error e => .error e
    | .ok (some m, _) => .ok (k, m)
    | .ok (none, _) => walkAgg H entries q zoneLen k

def proof3 (l : List Entry3) : List Nat := (l.map (·.idx)).eraseDups

/-- `EvaluateAggressiveNSEC3`. -/
def evaluateAggressiveNSEC3 (H : HashFn) (q : Name) (t qclass : Nat) (signer : Name) (records : List Nsec3) :
    Except Err (Rcode × List Nat) :=
  if !validQuestion q t qclass signer then .error .missing else
  match newEntries3 records qclass signer with
  | .error e => .error e
  | .ok es =>
    match lookupAgg H es q with
    | .error e => .error e
    | .ok (some m, _) =>
      if !aggressiveNODATAType t then .error .missing
      else match validateAggressiveExactNODATA t m.types with
        | .error e => .error e
        | .ok _ => .ok (.nodata, [m.idx])
    | .ok (none, _) =>
      if q == signer then .error .missing else
      match walkAgg H es q signer.length q.length with
      | .error e => .error e
      | .ok (k, ce) =>
        if typesSet ce.types [tDNAME] || (typesSet ce.types [tNS] && !typesSet ce.types [tSOA]) then .error .badDelegation
        else match lookupAgg H es (q.take (k + 1)) with
          | .error e => .error e
          | .ok (some _, _) => .error .missing
          | .ok (none, none) => .error .missing
          | .ok (none, some nc) =>
            if nc.flags % 2 == 1 then .error .optOut else
            match lookupAgg H es (q.take k ++ [star]) with
            | .error e => .error e
            | .ok (some w, _) =>
              if !aggressiveNODATAType t || t == tDS then .error .missing
              else if aggressiveDelegationBitmap w.types || typesSet w.types [tDNAME] then .error .badDelegation
              else match validateAggressiveExactNODATA t w.types with
                | .error e => .error e
                | .ok _ => .ok (.nodata, proof3 [ce, nc, w])
            | .ok (none, none) => .error .missing
            | .ok (none, some wc) =>
              if wc.flags % 2 == 1 then .error .optOut
              else .ok (.nxdomain, proof3 [ce, nc, wc])

/-- line-protocol state of the `h` ops (kept here so the driver stays small). -/
structure HState where
  set : List Nsec3 := []

end SdnsVerif.Model.Nsec3
