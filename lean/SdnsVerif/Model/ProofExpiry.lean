import SdnsVerif.Spec.Zone
import SdnsVerif.Model.Nsec
import SdnsVerif.Model.Nsec3
/-
Model of how long a validated denial may live in the shared caches:
`denialProofExpiry` and the per-RRset entries of `denialProofCache.extract`
(middleware/cache/denial_proof_cache.go), the lifetime of a subtree cut
(`nxDomainCutCache.record`, nxdomain_cut.go), and the history of
admissions / clock advances / lookups over them.  Core Lean only.
Time is `Int` seconds; TTLs are `Nat` seconds.
-/
namespace SdnsVerif.Model.ProofExpiry
open SdnsVerif.Spec.Zone SdnsVerif.Model.Nsec SdnsVerif.Model.Nsec3

/-- one RRSIG over an RRset of the bundle: header TTL, original TTL, absolute expiration. -/
structure Sig where
  ttl : Nat
  orig : Nat
  exp : Int
deriving Repr, DecidableEq

def minList : Int → List Int → Int
  | m, [] => m
  | m, x :: t => minList (if x < m then x else m) t

/-- every duration `denialProofExpiry` bounds the lifetime by, for records
with header TTLs `ttls`, optional SOA MINIMUM, and signatures `sigs`. -/
def candidates (now : Int) (cut : Option Int) (ttls : List Nat) (soaMin : Option Nat) (sigs : List Sig) : List Int :=
  (match cut with | some c => [c - now] | none => []) ++
  ttls.map Int.ofNat ++
  (match soaMin with | some m => [Int.ofNat m] | none => []) ++
  sigs.flatMap fun s => [Int.ofNat s.ttl, Int.ofNat s.orig, s.exp - now]

/-- `denialProofExpiry`: the earliest of the ceiling, the delegation-cut
deadline, every record TTL, the SOA MINIMUM and EVERY covering RRSIG's
original TTL and expiration; no floor; `none` when nothing is left. -/
def proofExpiry (now : Int) (maxTTL : Nat) (cut : Option Int) (ttls : List Nat) (soaMin : Option Nat)
    (sigs : List Sig) : Option Int :=
  let ttl := minList (Int.ofNat maxTTL) (candidates now cut ttls soaMin sigs)
  if ttl ≤ 0 then none else some (now + ttl)

/-! ### the caches as histories -/

structure RRSet where
  nsec : Nsec
  ttl : Nat
  sigs : List Sig
deriving Repr

/-- an NSEC3 RRset of a bundle (the record as the evaluator sees it). -/
structure RRSet3 where
  rr : Nsec3
  ttl : Nat
  sigs : List Sig
deriving Repr

structure Bundle where
  zone : Name
  nx : Bool               -- NXDOMAIN (else NODATA)
  subject : Name          -- the denied name of the provenance mark
  soaTtl : Nat
  soaMin : Nat
  soaSigs : List Sig
  cut : Option Int
  sets : List RRSet
  sets3 : List RRSet3 := []
deriving Repr

structure ProofEntry3 where
  rr : Nsec3
  expires : Int
deriving Repr

structure ProofEntry where
  nsec : Nsec
  expires : Int
deriving Repr

structure ZoneState where
  zone : Name
  soaExpires : Int
  entries : List ProofEntry
  entries3 : List ProofEntry3 := []
deriving Repr

structure CutEntry where
  denied : Name
  expires : Int
deriving Repr

structure State where
  now : Int := 0
  proofMax : Nat := 0
  cutMax : Nat := 0
  zones : List ZoneState := []
  cuts : List CutEntry := []
deriving Repr

/-- the SOA RRset's own bound (`commonExpiry` in `extract`). -/
def commonExpiry (st : State) (b : Bundle) : Option Int :=
  proofExpiry st.now st.proofMax b.cut [b.soaTtl] (some b.soaMin) b.soaSigs

/-- one proof RRset's bound: the SOA's records and its own (`lifetimeRecords`). -/
def setExpiry (st : State) (b : Bundle) (s : RRSet) : Option Int :=
  proofExpiry st.now st.proofMax b.cut ([b.soaTtl] ++ [s.ttl]) (some b.soaMin) (b.soaSigs ++ s.sigs)

def setExpiry3 (st : State) (b : Bundle) (s : RRSet3) : Option Int :=
  proofExpiry st.now st.proofMax b.cut ([b.soaTtl] ++ [s.ttl]) (some b.soaMin) (b.soaSigs ++ s.sigs)

def upsert3 (es : List ProofEntry3) (e : ProofEntry3) : List ProofEntry3 :=
  (es.filter fun x => x.rr.owner != e.rr.owner) ++ [e]

def upsert (es : List ProofEntry) (e : ProofEntry) : List ProofEntry :=
  (es.filter fun x => x.nsec.owner != e.nsec.owner) ++ [e]

/-- `denialProofCache.recordWithKind`: all-or-nothing; same-owner entries are replaced. -/
def admitProof (st : State) (b : Bundle) : State :=
  -- a bundle carries exactly one denial mechanism (`sawNSEC == sawNSEC3` is refused)
  if b.sets.isEmpty == b.sets3.isEmpty then st else
  match commonExpiry st b,
        b.sets.mapM (fun s => (setExpiry st b s).map fun e => ({ nsec := s.nsec, expires := e } : ProofEntry)),
        b.sets3.mapM (fun s => (setExpiry3 st b s).map fun e => ({ rr := s.rr, expires := e } : ProofEntry3)) with
  | some ce, some es, some es3 =>
    let oldz := st.zones.find? fun z => z.zone == b.zone
    let old := oldz.map (·.entries) |>.getD []
    let old3 := oldz.map (·.entries3) |>.getD []
    let z : ZoneState := { zone := b.zone, soaExpires := ce, entries := es.foldl upsert old, entries3 := es3.foldl upsert3 old3 }
    { st with zones := (st.zones.filter fun x => x.zone != b.zone) ++ [z] }
  | _, _, _ => st

/-- `nxDomainCutCache.record`: NXDOMAIN only, bounded by every record of the retained proof. -/
def admitCut (st : State) (b : Bundle) : State :=
  if !b.nx || b.subject == b.zone || !nameInZone b.subject b.zone then st else
  -- `nxDomainCutProof`: never over an Opt-Out NSEC3
  if b.sets3.any (fun s => s.rr.flags % 2 == 1) then st else
  match proofExpiry st.now st.cutMax b.cut ([b.soaTtl] ++ b.sets.map (·.ttl) ++ b.sets3.map (·.ttl)) (some b.soaMin)
      (b.soaSigs ++ b.sets.flatMap (·.sigs) ++ b.sets3.flatMap (·.sigs)) with
  | some e => { st with cuts := (st.cuts.filter fun c => c.denied != b.subject) ++ [{ denied := b.subject, expires := e }] }
  | none => st

def admitBundle (st : State) (b : Bundle) : State := admitCut (admitProof st b) b

/-- `denialProofEvaluate` for one zone (its SOA entry being live): the RFC 8198
evaluator over the live NSEC RRsets first, then over the live NSEC3 ring. -/
def evalZone (now : Int) (H : HashFn) (z : ZoneState) (q : Name) (t : Nat) : Option Rcode :=
  let live := (z.entries.filter fun e => now < e.expires).map (·.nsec)
  let viaNsec := if live.isEmpty then none else
    match evaluateAggressiveNSEC q t 1 z.zone live with
    | .ok (rc, _) => some rc
    | .error _ => none
  match viaNsec with
  | some rc => some rc
  | none =>
    let live3 := (z.entries3.filter fun e => now < e.expires).map (·.rr)
    if live3.isEmpty then none else
    match evaluateAggressiveNSEC3 H q t 1 z.zone live3 with
    | .ok (rc, _) => some rc
    | .error _ => none

def lookupProofH (st : State) (H : HashFn) (q : Name) (t : Nat) : Option Rcode :=
  let cand := (st.zones.filter fun z => nameInZone q z.zone)
  -- most specific zone first, as denialProofAncestors yields them
  let rec go : List ZoneState → Option Rcode
    | [] => none
    | z :: rest =>
      if st.now < z.soaExpires then
        match evalZone st.now H z q t with
        | some rc => some rc
        | none => go rest
      else go rest
  go (cand.mergeSort fun a b => a.zone.length ≥ b.zone.length)

def lookupProof (st : State) (q : Name) (t : Nat) : Option Rcode := lookupProofH st (fun _ => none) q t

/-! ### how long a synthesised denial may be relied on (`denialProofResponse`'s `expires`) -/

/-- the earliest deadline among the zone's SOA entry and the entries the
evaluator's proof uses (`idxs` index into the list the evaluator was given). -/
def usedExpiry (soa : Int) (exps : List Int) (idxs : List Nat) : Int :=
  minList soa (idxs.filterMap fun k => exps[k]?)

/-- `evalZone` with the deadline of the answer it synthesises. -/
def evalZoneExpiry (now : Int) (H : HashFn) (z : ZoneState) (q : Name) (t : Nat) : Option Int :=
  let liveE := z.entries.filter fun e => now < e.expires
  let viaNsec := if liveE.isEmpty then none else
    match evaluateAggressiveNSEC q t 1 z.zone (liveE.map (·.nsec)) with
    | .ok (_, p) => some (usedExpiry z.soaExpires (liveE.map (·.expires)) p)
    | .error _ => none
  match viaNsec with
  | some e => some e
  | none =>
    let live3 := z.entries3.filter fun e => now < e.expires
    if live3.isEmpty then none else
    match evaluateAggressiveNSEC3 H q t 1 z.zone (live3.map (·.rr)) with
    | .ok (_, p) => some (usedExpiry z.soaExpires (live3.map (·.expires)) p)
    | .error _ => none

/-- the deadline `lookupDenialProofWithExpiry` hands back next to the answer:
what `Store.GetWithContext` (the resolver-private route) and the client path
bind the request tree to. -/
def lookupProofExpiry (st : State) (H : HashFn) (q : Name) (t : Nat) : Option Int :=
  let cand := (st.zones.filter fun z => nameInZone q z.zone)
  let rec go : List ZoneState → Option Int
    | [] => none
    | z :: rest =>
      if st.now < z.soaExpires then
        match evalZoneExpiry st.now H z q t with
        | some e => some e
        | none => go rest
      else go rest
  go (cand.mergeSort fun a b => a.zone.length ≥ b.zone.length)

/-- what a lookup retires (`pruneZoneLocked`): a candidate zone whose SOA
entry has expired is dropped whole (its still-live RRsets too); otherwise its
expired RRsets are dropped; candidates after the one that answered are not
examined.  Only ever removes state. -/
def pruneOnLookup (st : State) (q : Name) (t : Nat) (H : HashFn := fun _ => none) : State :=
  let cand := (st.zones.filter fun z => nameInZone q z.zone).mergeSort fun a b => a.zone.length ≥ b.zone.length
  let rec go : List ZoneState → List ZoneState → List ZoneState
    | zones, [] => zones
    | zones, z :: rest =>
      if st.now < z.soaExpires then
        let live := z.entries.filter fun e => st.now < e.expires
        let live3 := z.entries3.filter fun e => st.now < e.expires
        let zones' := zones.map fun x => if x.zone == z.zone then { x with entries := live, entries3 := live3 } else x
        match evalZone st.now H z q t with
        | some _ => zones'
        | none => go zones' rest
      else go (zones.filter fun x => x.zone != z.zone) rest
  { st with zones := go st.zones cand }

/-- `nxDomainCutCache.lookup`: walk the question name's suffixes label by label
(`dnsname.Suffixes`: the name itself, then each ancestor with at least one
label; the root is never a candidate), look each candidate up by exact
denied name, skip an expired entry.  `k` = number of labels of the candidate. -/
def cutWalk (st : State) (q : Name) : Nat → Option CutEntry
  | 0 => none
  | k + 1 =>
    match st.cuts.find? fun c => c.denied == q.take (k + 1) with
    | some c => if st.now < c.expires then some c else cutWalk st q k
    | none => cutWalk st q k

def lookupCut (st : State) (q : Name) : Bool := (cutWalk st q q.length).isSome

end SdnsVerif.Model.ProofExpiry
