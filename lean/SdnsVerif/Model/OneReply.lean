/-
Model for C11 (exactly one reply per admitted query).  Core Lean only.

Four pieces, each mirroring the code that exists:

* `Writer`  — /repo/middleware/response_writer.go + wire_response.go: the base
  `responseWriter`'s written marker (`size != -1`) over arbitrary call
  sequences of Write / WriteMsg / WriteWire / BeginWire / CommitWire /
  AbortWire (and the pooled-chain `Reset`).
* `WG`      — /repo/internal/waitgroup/waitgroup.go: JoinGeneration, Regroup,
  DoneGeneration as lock-atomic steps of a labelled transition system; the
  generation's bounded wait expiring is an environment step.
* `Proc` / `Sys` — the dedup loop of `Cache.ServeDNS`
  (/repo/middleware/cache/cache.go) as a per-request process; `Sys` composes
  any number of such processes with one `WG`.
* `Job`     — the inline terminal rule and the single replay of the UDP
  engine (/repo/server/udp_engine.go `serveInline`, `serve`).
* `GroupLookup` — the follower re-entry rule of `Resolver.groupLookup`.
-/
namespace SdnsVerif.Model.OneReply

/-! ## 1. responseWriter -/

/-- which transport method a call reached -/
inductive Tx
  | bytes   -- Transport.Write
  | msg     -- Transport.WriteMsg
deriving DecidableEq, Repr

/-- one call on the chain-side writer -/
inductive Call
  /-- `Write(b)`: `decodable` = `dns.Msg.Unpack(b)` succeeds; `terr` = the transport returns an error -/
  | write (decodable terr : Bool)
  /-- `WriteMsg(m)`: `packable` = `wire.TryPack` handles the message -/
  | writeMsg (packable terr : Bool)
  | writeWire (terr : Bool)
  /-- `BeginWire(size, reserve)`; `lease` = capacity of the buffer the
  transport's `LeaseWire` hands out (`none`: no leaser / nil) -/
  | beginWire (size reserve : Nat) (lease : Option Nat)
  | commitWire (terr : Bool)
  | abortWire
deriving DecidableEq, Repr

inductive Ret
  | ok
  | already        -- errAlreadyWritten
  | unpackErr      -- Write: undecodable bytes, nothing sent
  | transportErr   -- the transport's own error (the response counts as written)
  | lease (cap : Nat)
  | noLease        -- BeginWire returned nil
  | unit           -- AbortWire
deriving DecidableEq, Repr

/-- `responseWriter` (the fields the property is about) -/
structure Writer where
  /-- `size != -1` -/
  written : Bool := false
  directPack : Bool := false
  internal : Bool := false
  /-- ghost: transport calls made for the current request, oldest first -/
  tx : List Tx := []
deriving DecidableEq, Repr

def tret (terr : Bool) : Ret := if terr then .transportErr else .ok

/-- `func (w *responseWriter) Write / WriteMsg / WriteWire / BeginWire / CommitWire / AbortWire` -/
def Writer.call (w : Writer) : Call → Writer × Ret
  | .write decodable terr =>
    if w.written then (w, .already)
    else if !decodable then (w, .unpackErr)
    else ({ w with written := true, tx := w.tx ++ [.bytes] }, tret terr)
  | .writeMsg packable terr =>
    if w.written then (w, .already)
    else
      let how := if w.directPack && !w.internal && packable then Tx.bytes else Tx.msg
      ({ w with written := true, tx := w.tx ++ [how] }, tret terr)
  | .writeWire terr | .commitWire terr =>
    if w.written then (w, .already)
    else ({ w with written := true, tx := w.tx ++ [.bytes] }, tret terr)
  | .beginWire size reserve lease =>
    if w.written then (w, .noLease)
    else match lease with
      | some c => if c < size + reserve then (w, .noLease) else (w, .lease (size + reserve))
      | none => (w, .lease (size + reserve))
  | .abortWire => (w, .unit)

/-- `func (w *responseWriter) Reset(rw Transport)` followed by the declared capability -/
def Writer.reset (_w : Writer) (directPack internal : Bool) : Writer :=
  { written := false, directPack := directPack, internal := internal, tx := [] }

def Writer.run (w : Writer) : List Call → Writer
  | [] => w
  | c :: cs => Writer.run (w.call c).1 cs

/-- a call that, on an unwritten writer, sends a response -/
def Call.sends : Call → Bool
  | .write d _ => d
  | .writeMsg _ _ | .writeWire _ | .commitWire _ => true
  | _ => false

/-- a call that is refused with errAlreadyWritten once something was written -/
def Call.isWrite : Call → Bool
  | .write _ _ | .writeMsg _ _ | .writeWire _ | .commitWire _ => true
  | _ => false

/-! ## 2. waitgroup.WaitGroup -/

inductive End
  | live
  | canceled   -- cancel() was called first
  | deadline   -- the bounded wait expired first (ctx.Err() == DeadlineExceeded)
deriving DecidableEq, Repr

/-- `waitgroup.Generation` -/
structure Gen where
  /-- ghost: the key the generation was created for -/
  key : Nat
  /-- state of `generation.ctx` -/
  ctx : End := .live
  /-- ghost: DoneGeneration reached `generation.cancel()` -/
  leaderDone : Bool := false
  /-- ghost: the timer of context.WithTimeout fired -/
  timerFired : Bool := false
  next : Option Nat := none
  dups : Nat := 1
deriving DecidableEq, Repr

/-- `Generation.Done()` is closed -/
def Gen.closed (g : Gen) : Bool := g.ctx != .live

/-- `waitgroup.WaitGroup`: generations are numbered in creation order -/
structure WG where
  gens : List Gen := []
  /-- `groups map[uint64]*Generation` -/
  groups : Nat → Option Nat := fun _ => none

def WG.setGroup (w : WG) (k : Nat) (v : Option Nat) : WG :=
  { w with groups := fun k' => if k' = k then v else w.groups k' }

/-- `newGeneration` + `wg.groups[key] = generation` -/
def WG.create (w : WG) (k : Nat) : WG :=
  { gens := w.gens ++ [{ key := k }], groups := fun k' => if k' = k then some w.gens.length else w.groups k' }

def WG.setNext (w : WG) (p n : Nat) : WG :=
  match w.gens[p]? with
  | some g => { w with gens := w.gens.set p { g with next := some n } }
  | none => w

/-- `func (wg *WaitGroup) JoinGeneration(key) (*Generation, bool)` -/
def WG.join (w : WG) (k : Nat) : WG × Nat × Bool :=
  match w.groups k with
  | some g => (w, g, false)
  | none => (w.create k, w.gens.length, true)

/-- `func (wg *WaitGroup) Regroup(key, previous) (*Generation, bool)` -/
def WG.regroup (w : WG) (k : Nat) : Option Nat → WG × Nat × Bool
  | none => w.join k
  | some p =>
    match w.gens[p]? with
    | none => (w, p, false)          -- not a token this wait group handed out
    | some gp =>
      if gp.ctx = .deadline then (w, p, false)       -- tombstone: never replaced
      else match gp.next with
        | some n => (w, n, false)
        | none =>
          match w.groups k with
          | some cur =>
            if cur ≠ p then (w.setNext p cur, cur, false)
            else ((w.create k).setNext p w.gens.length, w.gens.length, true)
          | none => ((w.create k).setNext p w.gens.length, w.gens.length, true)

/-- `func (wg *WaitGroup) DoneGeneration(key, generation)` -/
def WG.done (w : WG) (k g : Nat) : WG :=
  match w.gens[g]? with
  | none => w
  | some gg =>
    if gg.dups > 1 then { w with gens := w.gens.set g { gg with dups := gg.dups - 1 } }
    else
      let gg' := { gg with ctx := if gg.ctx = .live then .canceled else gg.ctx, leaderDone := true }
      let w' := { w with gens := w.gens.set g gg' }
      if w.groups k = some g then w'.setGroup k none else w'

/-- environment: the generation's bounded wait expires (enabled while live) -/
def WG.timeout (w : WG) (g : Nat) : WG :=
  match w.gens[g]? with
  | none => w
  | some gg =>
    if gg.ctx = .live then { w with gens := w.gens.set g { gg with ctx := .deadline, timerFired := true } }
    else w

inductive Op
  | join (k : Nat)
  | regroup (k : Nat) (prev : Option Nat)
  | done (k g : Nat)
  | timeout (g : Nat)
deriving DecidableEq, Repr

/-- one lock-atomic step; the output is `(generation, leader)` for Join/Regroup -/
def WG.step (w : WG) : Op → WG × Option (Nat × Bool)
  | .join k => let r := w.join k; (r.1, some r.2)
  | .regroup k p => let r := w.regroup k p; (r.1, some r.2)
  | .done k g => (w.done k g, none)
  | .timeout g => (w.timeout g, none)

/-- run a step list, collecting the outputs -/
def WG.run (w : WG) : List Op → WG × List (Option (Nat × Bool))
  | [] => (w, [])
  | o :: os =>
    let r := w.step o
    let rest := WG.run r.1 os
    (rest.1, r.2 :: rest.2)

/-- the generations whose leadership was handed out, in trace order -/
def leaders (tr : List (Option (Nat × Bool))) : List Nat :=
  tr.filterMap fun o => match o with
    | some (g, true) => some g
    | _ => none

/-! ## 3. the dedup loop of Cache.ServeDNS as a process -/

/-- `contextutil.EffectiveError(ctx)` of the request -/
inductive CtxErr
  | none
  | deadline
  | canceled
deriving DecidableEq, Repr

inductive Outcome
  | hit          -- a cache rung (entry / cut / proof / cached failure) served it after the wake-up
  | downstream   -- ch.Next(ctx): the resolver handler writes its reply (answer or SERVFAIL)
  | probeLimit   -- writeFailureProbeLimit: SERVFAIL + EDE, request-local
  | timeoutFail  -- stopCanceledRequest on DeadlineExceeded: SERVFAIL + EDE 22
  | canceled     -- stopCanceledRequest on Canceled: ch.Cancel(), nothing written
deriving DecidableEq, Repr

def Outcome.writes : Outcome → Nat
  | .canceled => 0
  | _ => 1

inductive PC
  | start                                   -- loop head
  | waiting (g : Nat)                       -- follower in the select
  | leading (g : Option Nat)                -- left the loop: leader of `g`, or (none) an un-deduplicated pass
  | finishing (g : Option Nat) (o : Outcome) -- reply decided; the deferred DoneGeneration is pending
  | terminated (o : Outcome)
deriving DecidableEq, Repr

structure Proc where
  pc : PC := .start
  ctx : CtxErr := .none
  internal : Bool := false
  /-- `dedupKey` -/
  key : Nat := 0
  previous : Option Nat := none
  failureProbe : Bool := false
  regroups : Nat := 0
  /-- ghost: loop-head entries, JoinGeneration/Regroup calls, responses written -/
  heads : Nat := 0
  calls : Nat := 0
  writes : Nat := 0
deriving DecidableEq, Repr

/-- what one step of the process observes: the wait group's answers and the
cache's state are adversarial inputs here -/
structure Obs where
  gen : Nat := 0
  leader : Bool := false
  genClosed : Bool := false
  genTimedOut : Bool := false
  preferCtx : Bool := false
  hit : Bool := false
  retry : Bool := false
  retryKey : Nat := 0
deriving DecidableEq, Repr

/-- `Cache.stopCanceledRequest` -/
def stopCanceled (e : CtxErr) : Outcome :=
  if e = .deadline then .timeoutFail else .canceled

def Proc.finish (p : Proc) (o : Outcome) : Proc :=
  { p with pc := .terminated o, writes := p.writes + o.writes }

/-- which wait-group call the loop head makes (`none`: the regroup limit ends the request) -/
def Proc.headCall (limit : Nat) (p : Proc) : Option Op :=
  if p.previous.isSome && p.failureProbe then
    if p.regroups ≥ limit then none else some (.regroup p.key p.previous)
  else some (.join p.key)

/-- one step of the request inside `Cache.ServeDNS` from the miss onwards -/
def Proc.step (limit : Nat) (p : Proc) (o : Obs) : Proc :=
  match p.pc with
  | .start =>
    if p.internal then { p with pc := .leading none }
    else
      match p.headCall limit with
      | none => ({ p with heads := p.heads + 1 }).finish .probeLimit
      | some op =>
        let p' := { p with heads := p.heads + 1, calls := p.calls + 1,
                           regroups := (match op with | .regroup _ _ => p.regroups + 1 | _ => p.regroups) }
        if o.leader then { p' with pc := .leading (some o.gen) } else { p' with pc := .waiting o.gen }
  | .waiting g =>
    if !o.genClosed && p.ctx = .none then p              -- blocked in the select
    else if p.ctx ≠ .none && (!o.genClosed || o.preferCtx) then p.finish (stopCanceled p.ctx)
    else if p.ctx ≠ .none then p.finish (stopCanceled p.ctx)  -- EffectiveError check after the wake-up
    else if o.hit then p.finish .hit
    else if p.failureProbe && o.genTimedOut then p.finish .probeLimit
    else if !o.retry then { p with pc := .leading none }
    else if o.genTimedOut then ({ p with failureProbe := true }).finish .probeLimit
    else { p with failureProbe := true, previous := some g, key := o.retryKey, pc := .start }
  | .leading g =>
    if p.ctx ≠ .none then { p with pc := .finishing g (stopCanceled p.ctx), writes := p.writes + (stopCanceled p.ctx).writes }
    else { p with pc := .finishing g .downstream, writes := p.writes + 1 }
  | .finishing _ oc => { p with pc := .terminated oc }
  | .terminated _ => p

def Proc.terminated (p : Proc) : Bool :=
  match p.pc with
  | .terminated _ => true
  | _ => false

/-- environment: the client's context ends (deadline or cancellation) -/
def Proc.endCtx (p : Proc) (deadline : Bool) : Proc :=
  if p.ctx = .none then { p with ctx := if deadline then .deadline else .canceled } else p

/-- run a process against an arbitrary stream of observations / context events -/
inductive PEvent
  | obs (o : Obs)
  | ctxEnd (deadline : Bool)
deriving DecidableEq, Repr

def Proc.apply (limit : Nat) (p : Proc) : PEvent → Proc
  | .obs o => p.step limit o
  | .ctxEnd d => p.endCtx d

/-! ### the composed system: any number of requests over one wait group -/

structure Sys where
  wg : WG := {}
  procs : List Proc := []
  /-- ghost: the process that was handed the leadership of each generation -/
  leaderOf : List Nat := []

inductive Label
  | spawn (key : Nat) (probe internal : Bool)
  | run (p : Nat) (preferCtx hit retry : Bool) (retryKey : Nat)
  | ctxEnd (p : Nat) (deadline : Bool)
  | timeout (g : Nat)
deriving DecidableEq, Repr

def genClosed (w : WG) (g : Nat) : Bool :=
  match w.gens[g]? with
  | some gg => gg.closed
  | none => false

def genTimedOut (w : WG) (g : Nat) : Bool :=
  match w.gens[g]? with
  | some gg => gg.ctx == .deadline
  | none => false

/-- the wait-group side of process `p`'s next step: the wait group after
the call the process makes (if any), what the process observes, and whether
the call handed out the leadership of a new generation -/
def interact (limit : Nat) (w : WG) (p : Proc) (o0 : Obs) : WG × Obs × Bool :=
  match p.pc with
  | .start =>
    if p.internal then (w, o0, false)
    else match p.headCall limit with
      | none => (w, o0, false)
      | some op =>
        match (w.step op).2 with
        | some (g, leader) => ((w.step op).1, { o0 with gen := g, leader := leader }, leader)
        | none => (w, o0, false)
  | .waiting g => (w, { o0 with genClosed := genClosed w g, genTimedOut := genTimedOut w g }, false)
  | .finishing (some g) _ => (w.done p.key g, o0, false)   -- the deferred DoneGeneration(leaderKey, leaderGeneration)
  | _ => (w, o0, false)

/-- one atomic step of the composed system (a disabled step changes nothing) -/
def Sys.step (limit : Nat) (s : Sys) : Label → Sys
  | .spawn key probe internal =>
    { s with procs := s.procs ++ [{ key := key, failureProbe := probe, internal := internal }] }
  | .ctxEnd i d =>
    match s.procs[i]? with
    | some p => { s with procs := s.procs.set i (p.endCtx d) }
    | none => s
  | .timeout g => { s with wg := s.wg.timeout g }
  | .run i preferCtx hit retry retryKey =>
    match s.procs[i]? with
    | none => s
    | some p =>
      let r := interact limit s.wg p { preferCtx := preferCtx, hit := hit, retry := retry, retryKey := retryKey }
      { wg := r.1,
        procs := s.procs.set i (p.step limit r.2.1),
        leaderOf := if r.2.2 then s.leaderOf ++ [i] else s.leaderOf }

def Sys.run (limit : Nat) (s : Sys) : List Label → Sys
  | [] => s
  | l :: ls => Sys.run limit (s.step limit l) ls

/-- the step of process `i` is enabled (it changes the process) -/
def Sys.enabled (s : Sys) (i : Nat) : Bool :=
  match s.procs[i]? with
  | none => false
  | some p =>
    match p.pc with
    | .waiting g => genClosed s.wg g || p.ctx != .none
    | .terminated _ => false
    | _ => true

/-! ## 4. UDP job: inline pass, terminal rule, single replay -/

/-- what one pass of the chain over a job left behind -/
structure Pass where
  /-- transport writes the pass made (bounded by the writer, see `Writer`) -/
  txCalls : Nat
  /-- a handler marked handoff (`Chain.MarkHandoff`) -/
  handoff : Bool
  panicked : Bool := false
deriving DecidableEq, Repr

structure JobTrace where
  datagrams : Nat := 0
  replays : Nat := 0
  releases : Nat := 0
deriving DecidableEq, Repr

/-- datagrams a served pass puts on the wire: with a burst the reply is
staged in the job's TX buffer (a second Write overwrites it) and sent once;
without one (overflow goroutine) every transport Write is a send. -/
def sendsOf (burst : Bool) (txCalls : Nat) : Nat :=
  if burst then (if txCalls > 0 then 1 else 0) else txCalls

/-- `udpEngine.serveInline` + the worker's `serve` of a handed-off job.
`inline`: the pass on the reader; `replay`: the pass the worker would run. -/
def jobRun (inline replay : Pass) (workerBurst : Bool) : JobTrace :=
  let staged := inline.txCalls > 0            -- j.txLen > 0 (the reader always has a burst)
  let done := inline.panicked || !inline.handoff
  if staged then { datagrams := 1, replays := 0, releases := 1 }        -- terminal even when handoff is marked
  else if done then { datagrams := 0, replays := 0, releases := 1 }
  else { datagrams := sendsOf workerBurst replay.txCalls, replays := 1, releases := 1 }

/-- a job that never went inline (`serve` from the ring / overflow) -/
def jobServe (pass : Pass) (burst : Bool) : JobTrace :=
  { datagrams := sendsOf burst pass.txCalls, replays := 0, releases := 1 }

/-! ## 5. Resolver.groupLookup: follower re-entry -/

/-- result of one `TimedDoChanWithRole` round as `groupLookup` sees it -/
structure SfResult where
  shared : Bool
  leader : Bool
  /-- `lookupErr != nil` -/
  failed : Bool
  /-- `middleware.IsRequestLocalResolutionError(lookupErr)` -/
  requestLocal : Bool
deriving DecidableEq, Repr

inductive GlOut
  | value           -- the (copied) response
  | ownCtxErr       -- this caller's own context error
  | lookupErr       -- the round's error is returned to this caller
  | reenter         -- `continue`: join / lead a new round under this caller's context
deriving DecidableEq, Repr

/-- the body of the `for` loop in `Resolver.groupLookup` after the round returned -/
def groupLookupRound (r : SfResult) (ownCtxEnded : Bool) : GlOut :=
  if r.failed then
    if r.shared && !r.leader && r.requestLocal then
      if ownCtxEnded then .ownCtxErr else .reenter
    else .lookupErr
  else .value

/-! ## 6. contextutil.EffectiveError -/

/-- `func EffectiveError(ctx) error`: the context's own error if it has
published one, else DeadlineExceeded as soon as the wall clock has reached
the deadline (the timer goroutine may not have run yet), else nil. -/
def effectiveError (err : CtxErr) (hasDeadline clockPast : Bool) : CtxErr :=
  if err ≠ .none then err else if hasDeadline && clockPast then .deadline else .none

/-- a request that reaches `Cache.ServeDNS` on the miss path with the given
context: `leader` — no generation registered; follower — parked behind a
leader that then finishes (`byLeader`) or woken by its own Done channel.
The result is the terminated process. -/
def procScenario (limit : Nat) (leader : Bool) (ctx : CtxErr) (byLeader : Bool) : Proc :=
  let p0 : Proc := { key := 1, ctx := ctx }
  if leader then
    let p1 := p0.step limit { gen := 0, leader := true }
    (p1.step limit {}).step limit {}
  else
    let p1 := p0.step limit { gen := 0, leader := false }
    let p2 := p1.step limit { genClosed := byLeader }
    ((p2.step limit {}).step limit {})

/-! ## 7. the UDP worker's TX burst -/

/-- what a worker does next -/
inductive WEv
  | quick (id : Nat)   -- a request answered on the fast path: its reply is staged on the burst
  | slow (id : Nat)    -- a request that leaves the fast path (FlushStaged), resolves, then stages its reply
  | idle               -- the ready queue is empty: the worker flushes before it blocks
deriving DecidableEq, Repr

structure Worker where
  staged : List Nat := []
  sent : List Nat := []
  /-- ghost: (reply, slow request) pairs — replies that sat staged while that request resolved -/
  held : List (Nat × Nat) := []
deriving DecidableEq, Repr

/-- `udpEngine.worker` / `serve` / `udpJob.FlushStaged` / `flushTX` -/
def Worker.step (w : Worker) : WEv → Worker
  | .quick id => { w with staged := w.staged ++ [id] }
  | .slow id =>
    let flushed : Worker := { w with sent := w.sent ++ w.staged, staged := [] }   -- FlushStaged at the detach
    { flushed with held := flushed.held ++ flushed.staged.map (fun r => (r, id)), staged := [id] }
  | .idle => { w with sent := w.sent ++ w.staged, staged := [] }

def Worker.run (w : Worker) : List WEv → Worker
  | [] => w
  | e :: es => Worker.run (w.step e) es

def WEv.reply : WEv → Option Nat
  | .quick id | .slow id => some id
  | .idle => none

/-! ## 8. ingress: where the request deadline is anchored -/

/-- the server's entries -/
inductive Ingress
  | raw            -- Server.ServeRaw (ring / overflow / TCP frame)
  | inlineReplay   -- ServeRawInline on the reader, then ServeRawReplay on a worker
  | replay         -- ServeRawReplay alone
  | msg            -- Server.ServeMsg (DoH / DoQ / embedders): no arrival time
deriving DecidableEq, Repr

/-- the deadline the request runs under. `strictEligible`: the wire parser
carries the packet (carrier.reset(readTime+timeout)); otherwise the decoded
fallback (serveMsgBy(readTime+timeout)). `pickup` is when the entry runs. -/
def ingressDeadline (i : Ingress) (_strictEligible : Bool) (readTime pickup qto : Nat) : Nat :=
  match i with
  | .msg => pickup + qto
  | _ => readTime + qto

/-- the entry serves the request only while its budget has not run out -/
def ingressServes (i : Ingress) (strictEligible : Bool) (readTime pickup qto : Nat) : Bool :=
  pickup < ingressDeadline i strictEligible readTime pickup qto

/-! ## 9. the batched sender: partial sendmmsg and its fallback -/

/-- `udpEngine.sendGroup` on a burst whose job `i` has a destination the
kernel refuses iff `refused[i]`: sendmmsg delivers the jobs in front of the
first refused one and reports how many (`done`); the retry from the unsent
index is refused whole, and the fallback sends `jobs[done:]` one by one (a
direct send to a refused destination fails as well). The result is how many
datagrams each job's client receives. -/
def sendGroup (refused : List Bool) : List Nat :=
  let batched := refused.takeWhile (fun r => !r)
  batched.map (fun _ => 1) ++ (refused.drop batched.length).map (fun r => if r then 0 else 1)

/-! ## 10. tcpStream.beforeWrite -/

/-- the deadline a write is armed with: always a fresh `now + tcpWriteWait`,
whatever bound the connection carried before (`prev`, possibly already past) -/
def beforeWrite (_prev : Option Nat) (now writeWait : Nat) : Nat := now + writeWait

/-! ## 11. zoneInflightLimiter and its caller -/

/-- one bucket of `zoneInflightLimiter` as `groupLookup`'s leader closure uses
it: `count` is the bucket's atomic counter, `held` the reservations whose
deferred release is still pending (ghost). -/
structure ZL where
  count : Nat := 0
  held : Nat := 0
deriving DecidableEq, Repr

/-- `release, ok := acquire(zone); if !ok { return errZoneCapacity }; defer release()`:
`acquire` adds one, and takes it back itself when the quota is exceeded. -/
def ZL.enter (z : ZL) (perZone : Nat) : ZL × Bool :=
  if z.count + 1 > perZone then (z, false)          -- Add(1) > perZone → Add(-1), nil, false
  else ({ count := z.count + 1, held := z.held + 1 }, true)

/-- the deferred release of one admitted lookup -/
def ZL.leave (z : ZL) : ZL :=
  if z.held = 0 then z else { count := z.count - 1, held := z.held - 1 }

inductive ZOp
  | enter
  | leave
deriving DecidableEq, Repr

def ZL.step (perZone : Nat) (z : ZL) : ZOp → ZL
  | .enter => (z.enter perZone).1
  | .leave => z.leave

/-! ## 12. Resolver.queryServer: the upstream-attempt slot -/

/-- how one upstream attempt (a `queryServer` goroutine) ends -/
inductive AttemptExit
  | breakerOpen    -- circuit breaker refuses the server: a result is sent
  | contextDead    -- the lookup was already over when the worker first ran: early return, no result
  | resultSent     -- exchanged, the result is read by lookup
  | resultDropped  -- exchanged, lookup is gone: `<-ctx.Done()` instead of the send
deriving DecidableEq, Repr

/-- `maxConcurrent` occupancy: lookup's main loop takes a slot before it
launches the worker; `queryServer` hands it back through `releaseSlot`
(deferred, and called early before the result send; guarded to run once). -/
def attemptSlots (held : Nat) : List AttemptExit → Nat
  | [] => held
  | _ :: rest => attemptSlots held rest      -- +1 at launch, −1 on every exit

/-! ## 13. the TCP engine's two slab classes -/

/-- `largeClass(length)`: the class of the slab `acquire` leases, and (it must
be the same) of the admission token `tokens` picks -/
def tcpLarge (smallFrame length : Nat) : Bool := length > smallFrame

/-- admission tokens at home (small, large) -/
structure Tokens where
  small : Nat
  large : Nat
deriving DecidableEq, Repr

/-- one frame served on a connection: `acquire` takes a token of the class
`tokenLarge length`, `put` returns one to the class of the slab,
`slabLarge length`; `cap` are the channel capacities: a `put` into a full
channel parks the connection goroutine for ever (`none`). -/
def serveFrameTokens (tokenLarge slabLarge : Nat → Bool) (cap t : Tokens) (length : Nat) : Option Tokens :=
  let taken : Option Tokens :=
    if tokenLarge length then (if t.large = 0 then none else some { t with large := t.large - 1 })
    else (if t.small = 0 then none else some { t with small := t.small - 1 })
  match taken with
  | none => none
  | some t' =>
    if slabLarge length then (if t'.large + 1 > cap.large then none else some { t' with large := t'.large + 1 })
    else (if t'.small + 1 > cap.small then none else some { t' with small := t'.small + 1 })

/-- per-frame budget on a TCP connection: every frame is stamped when ITS
length prefix is read, so its deadline is that instant + QueryTimeout -/
def frameDeadline (prefixRead qto : Nat) : Nat := prefixRead + qto

/-! ## 14. tcpEngine.acceptLoop -/

/-- what `ln.Accept()` returned -/
inductive AcceptRes
  | conn                 -- a connection
  | closed               -- net.ErrClosed: the listener was shut down
  | err (timeout temporary : Bool)   -- any other error, with its net.Error classification
deriving DecidableEq, Repr

/-- the loop keeps accepting (`true`) unless the listener was closed: a
timeout is retried at once, every other error after a short pause -/
def acceptLoopContinues : AcceptRes → Bool
  | .closed => false
  | _ => true

/-- connections admitted out of a sequence of Accept results (the loop stops at `closed`) -/
def acceptLoop : List AcceptRes → Nat
  | [] => 0
  | r :: rest =>
    if acceptLoopContinues r then (match r with | .conn => 1 | _ => 0) + acceptLoop rest else 0

/-! ## 15. root priming: the root set's lock -/

/-- `checkPriming`'s tail: the write lock on the root set is taken only
around the swap, and only when the priming answer yields at least as many
addresses as the configured list; result = (swapped, lock still held) -/
def primingTail (found configured : Nat) : Bool × Bool :=
  if found ≥ configured then (true, false) else (false, false)

/-! ## 16. newDialer's outbound address; the connection's fill buffer -/

/-- `index := len(ips) * reqid / maxUint16` with `maxUint16 = 1 << 16` -/
def dialerIndex (n reqid : Nat) : Nat := n * reqid / 65536

/-- `tcpStream.fillMore` on a buffer of `size` bytes whose bytes
`[start, end)` are unread, the client having `avail` bytes ready: the unread
tail is moved to the front, and only a buffer FULL of unread bytes refuses.
Result: (new start, bytes read) or `none` = io.ErrShortBuffer. -/
def fillMore (size start «end» avail : Nat) : Option (Nat × Nat) :=
  let unread := «end» - start
  if unread = size then none else some (0, min avail (size - unread))

/-! ## 17. tcpStream: the drain side (stage / flush) -/

/-- what the connection goroutine does with its drain buffer -/
inductive DOp
  | stage (id len : Nat)   -- a reply of `len` bytes (tcpJob.Write / WriteMsg → stream.stage)
  | flush                  -- before the connection blocks, at a slow-path entry, on the way out
  | break                  -- environment: the peer is gone, every later write on the connection fails
deriving DecidableEq, Repr

/-- `tcpStream` (drain side): replies staged and not yet written, bytes held,
the sticky write error, what reached the connection (in order), and whether
the peer is still there -/
structure Drain where
  staged : List Nat := []
  held : Nat := 0
  werr : Bool := false
  wire : List Nat := []
  broken : Bool := false
deriving DecidableEq, Repr

/-- `func (s *tcpStream) flush() error`; the Bool is "returned nil" -/
def Drain.flush (d : Drain) : Drain × Bool :=
  if d.werr then (d, false)
  else if d.held = 0 then (d, true)
  else if d.broken then ({ d with staged := [], held := 0, werr := true }, false)
  else ({ d with wire := d.wire ++ d.staged, staged := [], held := 0 }, true)

/-- `func (s *tcpStream) stage(payload) error` with `drainSize = len(s.drain)`,
`maxMsg = dns.MaxMsgSize`, 2 = the frame prefix -/
def Drain.stage (drainSize maxMsg : Nat) (d : Drain) (id len : Nat) : Drain × Bool :=
  if d.werr then (d, false)
  else if len > maxMsg then (d, false)
  else if len + 2 > drainSize then
    -- larger than the drain buffer: flush what is staged, then write this frame on its own
    let f := d.flush
    if !f.2 then f
    else if f.1.broken then ({ f.1 with werr := true }, false)
    else ({ f.1 with wire := f.1.wire ++ [id] }, true)
  else
    let f := if d.held + (len + 2) > drainSize then d.flush else (d, true)
    if !f.2 then f
    else ({ f.1 with staged := f.1.staged ++ [id], held := f.1.held + (len + 2) }, true)

def Drain.step (drainSize maxMsg : Nat) (d : Drain) : DOp → Drain × Bool
  | .stage id len => d.stage drainSize maxMsg id len
  | .flush => d.flush
  | .break => ({ d with broken := true }, true)

def Drain.run (drainSize maxMsg : Nat) (d : Drain) : List DOp → Drain × List Bool
  | [] => (d, [])
  | o :: os =>
    let r := d.step drainSize maxMsg o
    let rest := Drain.run drainSize maxMsg r.1 os
    (rest.1, r.2 :: rest.2)

/-- the replies handed to `stage`, in order -/
def stagedIds : List DOp → List Nat
  | [] => []
  | .stage id _ :: os => id :: stagedIds os
  | _ :: os => stagedIds os

/-! ## 18. the writer stack: cache.ResponseWriter over edns.ResponseWriter over the base writer -/

/-- the per-request facts of `edns.ResponseWriter` the wire path consults -/
structure EdnsCfg where
  doBit : Bool
  noedns : Bool
  udp : Bool
  size : Nat
deriving DecidableEq, Repr

/-- what a byte-path body looks like to the edns layer -/
structure WireBody where
  len : Nat
  hasDNSSEC : Bool := false
  headerOK : Bool := true
  optOK : Bool := true      -- appendWireOPT can encode this client's OPT
  optLen : Nat := 11
deriving DecidableEq, Repr

/-- `edns.ResponseWriter.WriteWire`: `none` = ErrWireFallback, returned BEFORE
any byte is handed on; `some n` = the body (now `n` bytes, OPT appended) is
forwarded to the next writer's WriteWire — once. -/
def ednsWireForward (c : EdnsCfg) (b : WireBody) : Option Nat :=
  if b.len < 12 then none
  else if !c.doBit && b.hasDNSSEC then none
  else if c.noedns then (if c.udp && b.len > c.size then none else some b.len)
  else if !b.headerOK then none
  else if !b.optOK then none
  else if c.udp && b.len + b.optLen > c.size then none
  else some (b.len + b.optLen)

/-- a call on the TOP of the writer stack -/
inductive SCall
  | writeMsg (packable terr : Bool)
  | writeWire (b : WireBody) (terr : Bool)
  | commitWire (b : WireBody) (terr : Bool)
deriving DecidableEq, Repr

inductive SRet
  | base (r : Ret)   -- what the base writer returned
  | fallback         -- middleware.ErrWireFallback
  | notWire          -- the top writer offers no byte path (cache.ResponseWriter)
deriving DecidableEq, Repr

/-- cache.ResponseWriter.WriteMsg and edns.ResponseWriter.WriteMsg each shape
the message and hand it to the writer below exactly once (edns attaches an OPT
unless EDNS is off, which is what lets the pooled packer carry an extended
rcode); edns.WriteWire / CommitWire forward once or fall back before writing;
the cache wrapper has no byte path. -/
def stackCall (cacheLayer : Bool) (c : EdnsCfg) (w : Writer) : SCall → Writer × SRet
  | .writeMsg packable terr =>
    let r := w.call (.writeMsg (packable || !c.noedns) terr)
    (r.1, .base r.2)
  | .writeWire b terr | .commitWire b terr =>
    if cacheLayer then (w, .notWire)
    else match ednsWireForward c b with
      | none => (w, .fallback)
      | some _ => let r := w.call (.writeWire terr); (r.1, .base r.2)

def stackRun (cacheLayer : Bool) (c : EdnsCfg) (w : Writer) : List SCall → Writer
  | [] => w
  | x :: xs => stackRun cacheLayer c (stackCall cacheLayer c w x).1 xs

/-- no write on the connection ever fails and no reply exceeds dns.MaxMsgSize -/
def noBreak : List DOp → Bool
  | [] => true
  | .break :: _ => false
  | .stage _ len :: os => decide (len ≤ 65535) && noBreak os
  | .flush :: os => noBreak os


end SdnsVerif.Model.OneReply
