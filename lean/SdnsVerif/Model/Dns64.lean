/-
Model of /repo/middleware/dns64 (synth.go, config.go, dns64.go).  Core Lean only.

Addresses are byte lists (`net.IP`): 4 or 16 bytes.  Names are ASCII character
lists in presentation form.  Every function carries the Go name it mirrors.
The model follows what the code does, including the behaviour of
`net.IPNet.Contains` on IPv4-mapped operands (it "unmaps" both sides first).
-/
namespace SdnsVerif.Model.Dns64

abbrev IP := List UInt8

def bAt (l : IP) (i : Nat) : UInt8 := l.getD i 0

/-- Go `copy(dst[off:off+len(src)], src)` for a source that fits. -/
def copyAt : IP → Nat → IP → IP
  | dst, _, [] => dst
  | dst, off, x :: xs => copyAt (dst.set off x) (off + 1) xs

/-- `bytesAllZero`. -/
def allZero (l : IP) : Bool := l.all (· == 0)

/-- `validPrefixBits` (RFC 6052 §2.2). -/
def legalBits : List Nat := [32, 40, 48, 56, 64, 96]
def isLegal (bits : Nat) : Bool := legalBits.contains bits

/-! ### `net.IP.To4` / `net.IPNet.Contains` -/

/-- `ip.To4() != nil` for a 16-byte address: `::ffff:a.b.c.d`. -/
def isMapped (a : IP) : Bool :=
  a.length == 16 && allZero (a.take 10) && bAt a 10 == 255 && bAt a 11 == 255

/-- `To4()` if it succeeds, the address itself otherwise. -/
def norm4 (a : IP) : IP := if a.length == 4 then a else if isMapped a then a.drop 12 else a

/-- `nn[i]&m[i] == ip[i]&m[i]` for a CIDR mask of `bits` leading ones, byte by
byte from index `i`: whole bytes compare for equality, bytes past the mask are
ignored, the (at most one) partial byte compares its leading bits. -/
def eqUnder (bits : Nat) : Nat → IP → IP → Bool
  | _, [], [] => true
  | i, x :: xs, y :: ys =>
    let r := bits - 8 * i
    (if r ≥ 8 then x == y else if r = 0 then true
     else x.toNat / 2 ^ (8 - r) == y.toNat / 2 ^ (8 - r)) && eqUnder bits (i + 1) xs ys
  | _, _, _ => false

/-- `*net.IPNet` with a CIDR mask: `v6` = the mask is 16 bytes long. -/
structure Net where
  ip : IP
  bits : Nat
  v6 : Bool
deriving Repr, DecidableEq

/-- `func (n *IPNet) Contains(ip IP) bool` (with `networkNumberAndMask`). -/
def Net.contains (n : Net) (ip : IP) : Bool :=
  let nn := norm4 n.ip
  let x := norm4 ip
  if nn.length == 4 then
    let mb := if n.v6 then n.bits - 96 else n.bits
    if x.length != 4 then false else eqUnder mb 0 nn x
  else if nn.length != 16 then false
  else if !n.v6 then false
  else if x.length != 16 then false else eqUnder n.bits 0 nn x

/-- `ip.To16()`: a 4-byte address becomes `::ffff:a.b.c.d`. -/
def to16 (a : IP) : IP := if a.length == 4 then [0, 0, 0, 0, 0, 0, 0, 0, 0, 0, 255, 255] ++ a else a

/-- `prefixContains`: containment on the 16-byte forms (no IPv4 un-mapping). -/
def prefixContains (n : Net) (addr : IP) : Bool :=
  let ip := to16 addr
  let base := to16 n.ip
  if ip.length != 16 || base.length != 16 || !n.v6 then false else eqUnder n.bits 0 base ip

/-! ### synth.go -/

inductive PErr | ok | v4 | len | byte8
deriving Repr, DecidableEq

/-- `validatePrefix`. -/
def validatePrefix (n : Net) : PErr :=
  if !n.v6 then .v4
  else if !isLegal n.bits then .len
  else if n.bits == 96 && decide (n.ip.length ≥ 9) && bAt n.ip 8 != 0 then .byte8
  else .ok

/-- the zero-initialised output with the fully covered prefix bytes copied:
`copy(out[:bits/8], prefix.IP[:bits/8])`. -/
def prefixCopy (pip : IP) (bits : Nat) : IP :=
  (List.range 16).map fun i => if i < bits / 8 then bAt pip i else 0

/-- `embedIPv4` (RFC 6052 §2.2); `v` is the 4-byte IPv4 address. -/
def embedIPv4 (pip : IP) (bits : Nat) (v : IP) : IP :=
  let out := prefixCopy pip bits
  match bits with
  | 32 => copyAt out 4 (v.take 4)
  | 40 => (copyAt out 5 (v.take 3)).set 9 (bAt v 3)
  | 48 => copyAt (copyAt out 6 (v.take 2)) 9 ((v.drop 2).take 2)
  | 56 => copyAt (out.set 7 (bAt v 0)) 9 ((v.drop 1).take 3)
  | 64 => copyAt out 9 (v.take 4)
  | 96 => copyAt out 12 (v.take 4)
  | _ => out

/-- `extractIPv4` on a 16-byte address. -/
def extractIPv4 (pip : IP) (bits : Nat) (a : IP) : Option IP :=
  if !(prefixContains ⟨pip, bits, true⟩ a) then none
  else if !isLegal bits then none
  else match bits with
    | 32 => if !allZero (a.drop 8) then none else some [bAt a 4, bAt a 5, bAt a 6, bAt a 7]
    | 40 => if bAt a 8 != 0 then none else if !allZero (a.drop 10) then none
            else some [bAt a 5, bAt a 6, bAt a 7, bAt a 9]
    | 48 => if bAt a 8 != 0 then none else if !allZero (a.drop 11) then none
            else some [bAt a 6, bAt a 7, bAt a 9, bAt a 10]
    | 56 => if bAt a 8 != 0 then none else if !allZero (a.drop 12) then none
            else some [bAt a 7, bAt a 9, bAt a 10, bAt a 11]
    | 64 => if bAt a 8 != 0 then none else if !allZero (a.drop 13) then none
            else some [bAt a 9, bAt a 10, bAt a 11, bAt a 12]
    | 96 => some [bAt a 12, bAt a 13, bAt a 14, bAt a 15]
    | _ => some [0, 0, 0, 0]

/-- `wellKnownPrefix` 64:ff9b::/96. -/
def wkpIP : IP := [0x00, 0x64, 0xff, 0x9b, 0, 0, 0, 0, 0, 0, 0, 0, 0, 0, 0, 0]

/-- `isWellKnownPrefix`. -/
def isWellKnownPrefix (n : Net) : Bool := n.bits == 96 && n.ip == wkpIP

/-- `excludedV4`. -/
def excludedV4 (v4 : IP) (ex : List Net) : Bool := ex.any (·.contains v4)

/-! ### names -/

abbrev Name := List Char

def lower (s : Name) : Name := s.map Char.toLower

/-- `hexNibble`. -/
def hexNibble (c : Char) : Option Nat :=
  if '0' ≤ c ∧ c ≤ '9' then some (c.toNat - 48)
  else if 'a' ≤ c ∧ c ≤ 'f' then some (c.toNat - 87)
  else none

/-- `strings.Split(s, ".")`. -/
def splitDots : Name → List Name
  | [] => [[]]
  | c :: t =>
    if c = '.' then [] :: splitDots t
    else match splitDots t with
      | h :: r => (c :: h) :: r
      | [] => [[c]]

def hasSuffix (s suf : Name) : Bool := suf.isSuffixOf s

/-- `strings.TrimSuffix`. -/
def trimSuffix (s suf : Name) : Name := if hasSuffix s suf then s.take (s.length - suf.length) else s

def pairUp : List Nat → IP
  | a :: b :: t => UInt8.ofNat (a * 16 + b) :: pairUp t
  | _ => []

def labelNibble : Name → Option Nat
  | [c] => hexNibble c
  | _ => none

def ip6ArpaSuffix : Name := ['.', 'i', 'p', '6', '.', 'a', 'r', 'p', 'a']

/-- `parseIP6ArpaName`. -/
def parseIP6ArpaName (qname : Name) : Option IP :=
  let q := trimSuffix (lower qname) ['.']
  if !hasSuffix q ip6ArpaSuffix then none else
  let parts := splitDots (q.take (q.length - ip6ArpaSuffix.length))
  if parts.length != 32 then none else
  match parts.mapM labelNibble with
  | none => none
  | some nibs => some (pairUp nibs.reverse)

/-- `inAddrArpa`. -/
def inAddrArpa (v : IP) : Name :=
  (toString (bAt v 3).toNat ++ "." ++ toString (bAt v 2).toNat ++ "." ++ toString (bAt v 1).toNat ++ "."
    ++ toString (bAt v 0).toNat ++ ".in-addr.arpa.").toList

/-- `isDomainNameLabelSpecial`. -/
def isLabelSpecial (b : UInt8) : Bool :=
  b == 46 || b == 32 || b == 39 || b == 64 || b == 59 || b == 40 || b == 41 || b == 34 || b == 92

def digitChar (n : Nat) : Char := Char.ofNat (48 + n)

/-- one label byte as `dns.UnpackDomainName` renders it: special characters
get a backslash, bytes outside `' '..'~'` become `\DDD`, the rest is literal. -/
def presentByte (b : UInt8) : Name :=
  if isLabelSpecial b then ['\\', Char.ofNat b.toNat]
  else if b.toNat < 32 || b.toNat > 126 then
    ['\\', digitChar (b.toNat / 100), digitChar (b.toNat / 10 % 10), digitChar (b.toNat % 10)]
  else [Char.ofNat b.toNat]

def presentLabel (l : List UInt8) : Name := l.flatMap presentByte ++ ['.']

/-- presentation form of an uncompressed wire name given as its label list. -/
def presentLabels (ls : List (List UInt8)) : Name := ls.flatMap presentLabel

/-- `dns.UnpackDomainName` (the root is "."). -/
def present (ls : List (List UInt8)) : Name := if ls.isEmpty then ['.'] else presentLabels ls

/-- label list of an uncompressed wire name (`none`: truncated, compression
pointer, or missing terminator); `fuel` bounds the walk. -/
def parseWireName : Nat → List UInt8 → Option (List (List UInt8))
  | 0, _ => none
  | _, [] => none
  | fuel + 1, c :: rest =>
    if c == 0 then (if rest.isEmpty then some [] else none)
    else if c.toNat ≥ 64 then none
    else if rest.length < c.toNat then none
    else (parseWireName fuel (rest.drop c.toNat)).map fun t => rest.take c.toNat :: t

/-- `dns.Fqdn` on names without escapes, then `dns.CanonicalName` + `strings.ToLower`. -/
def canonical (s : Name) : Name :=
  lower (if hasSuffix s ['.'] then s else s ++ ['.'])

/-! ### config.go -/

structure Prefix where
  net : Net
  wellKnown : Bool
deriving Repr, DecidableEq

structure Cfg where
  prefixes : List Prefix := []
  clients : List Net := []
  zones : List Name := []
  exA : List Net := []
  exAAAA : List Net := []
deriving Repr

/-- a configured CIDR string as the harness renders it: unparsable text, or an
IPv4 / IPv6 address with a length (`net.ParseCIDR` then masks the address). -/
inductive Ent
  | bad
  | v4 (ip : IP) (bits : Nat)
  | v6 (ip : IP) (bits : Nat)
deriving Repr, DecidableEq

def maskByte (bits i : Nat) (x : UInt8) : UInt8 :=
  let r := bits - 8 * i
  if r ≥ 8 then x else if r = 0 then 0 else UInt8.ofNat (x.toNat / 2 ^ (8 - r) * 2 ^ (8 - r))

/-- `ip.Mask(CIDRMask(bits, 8*len))`. -/
def maskIP (bits : Nat) (ip : IP) : IP := ip.zipIdx.map fun (x, i) => maskByte bits i x

/-- `net.ParseCIDR` (second result). -/
def parseCIDR : Ent → Option Net
  | .bad => none
  | .v4 ip bits => if bits ≤ 32 ∧ ip.length = 4 then some ⟨maskIP bits ip, bits, false⟩ else none
  | .v6 ip bits => if bits ≤ 128 ∧ ip.length = 16 then some ⟨maskIP bits ip, bits, true⟩ else none

def defaultExcludeAAAA : List Net :=
  [⟨[0, 0, 0, 0, 0, 0, 0, 0, 0, 0, 0xff, 0xff, 0, 0, 0, 0], 96, true⟩]

def n4 (a b c d : UInt8) (bits : Nat) : Net := ⟨[a, b, c, d], bits, false⟩

/-- `defaultExcludeAv4`. -/
def defaultExcludeAv4 : List Net :=
  [n4 0 0 0 0 8, n4 10 0 0 0 8, n4 100 64 0 0 10, n4 127 0 0 0 8, n4 169 254 0 0 16, n4 172 16 0 0 12,
   n4 192 0 0 0 24, n4 192 0 2 0 24, n4 192 88 99 0 24, n4 192 168 0 0 16, n4 198 18 0 0 15,
   n4 198 51 100 0 24, n4 203 0 113 0 24, n4 224 0 0 0 4, n4 240 0 0 0 4, n4 255 255 255 255 32]

def isSpace (c : Char) : Bool := c == ' ' || c == '\t' || c == '\n' || c == '\r' || c.toNat == 11 || c.toNat == 12

def trimSpace (s : Name) : Name := ((s.dropWhile isSpace).reverse.dropWhile isSpace).reverse

def compilePrefix (e : Ent) : Option Prefix :=
  match parseCIDR e with
  | none => none
  | some n => if validatePrefix n = .ok then some ⟨n, isWellKnownPrefix n⟩ else none

/-- `dns.IsFqdn`: ends in a dot that is not escaped (an even number of backslashes in front of it). -/
def isFqdn (s : Name) : Bool :=
  match s.reverse with
  | '.' :: t => (t.takeWhile (· == '\\')).length % 2 == 0
  | _ => false

def isDigitC (c : Char) : Bool := '0' ≤ c && c ≤ '9'

/-- the label walk of `dns.PackDomainName` over presentation text: `\\DDD` is
the byte `(100·D+10·D+D) mod 256`, `\\X` the character `X`, an unescaped dot
closes a label. `first`: at index 0; `many`: `len(s) > 1`; `off`: bytes packed
so far. Errors (`none`): leading dot, two dots in a row, a label of 64 bytes or
more, more than 256 bytes. -/
def packGo (many : Bool) : Name → Bool → Bool → List UInt8 → List (List UInt8) → Nat → Option (List (List UInt8))
  | [], _, _, _, acc, _ => some acc.reverse
  | '\\' :: d0 :: d1 :: d2 :: rest, first, wasDot, cur, acc, off =>
    if isDigitC d0 && isDigitC d1 && isDigitC d2 then
      packGo many rest false false
        (cur ++ [UInt8.ofNat (((d0.toNat - 48) * 100 + (d1.toNat - 48) * 10 + (d2.toNat - 48)) % 256)]) acc off
    else packGo many (d1 :: d2 :: rest) false false (cur ++ [UInt8.ofNat d0.toNat]) acc off
  | '\\' :: c :: rest, _, _, cur, acc, off => packGo many rest false false (cur ++ [UInt8.ofNat c.toNat]) acc off
  | ['\\'], _, _, _, _, _ => none
  | '.' :: rest, first, wasDot, cur, acc, off =>
    if first && many then none
    else if wasDot then none
    else if cur.length ≥ 64 then none
    else if off + 1 + cur.length > 256 then none
    else packGo many rest false true [] (cur :: acc) (off + 1 + cur.length)
  | c :: rest, _, _, cur, acc, off => packGo many rest false false (cur ++ [UInt8.ofNat c.toNat]) acc off

/-- `dns.PackDomainName` followed by `dns.UnpackDomainName`: the label list a
presentation text denotes, if the library reads it as a name (fully qualified,
well-formed labels, at most 255 wire bytes with the root). -/
def packName (s : Name) : Option (List (List UInt8)) :=
  if s.isEmpty then none
  else if !isFqdn s then none
  else if s == ['.'] then some []
  else match packGo (decide (s.length > 1)) s true false [] [] 0 with
    | none => none
    | some ls =>
      let wire := (ls.map fun l => l.length + 1).sum
      if wire ≥ 256 then none          -- no room for the root label: `ErrBuf`
      else if wire ≥ 255 then none     -- `UnpackDomainName`: `ErrLongDomain`
      else some ls

/-- `canonicalZoneText`: the library's lower-case rendering of the name the
text denotes; a text the library cannot read is kept. -/
def canonicalZoneText (z : Name) : Name :=
  match packName z with
  | some ls => lower (present ls)
  | none => z

def compileZone (z : Name) : Option Name :=
  let z := trimSpace (lower z)
  if z.isEmpty then none else some (canonicalZoneText (if hasSuffix z ['.'] then z else z ++ ['.']))

/-- `compileConfig` (enabled). `xa` / `x6`: `none` = field omitted (nil). -/
def compile (ps cs : List Ent) (zs : List Name) (xa x6 : Option (List Ent)) : Cfg :=
  let prefixes := ps.filterMap compilePrefix
  let prefixes := if prefixes.isEmpty then [⟨⟨wkpIP, 96, true⟩, true⟩] else prefixes
  let exA :=
    if prefixes.any (·.wellKnown) then
      match xa with
      | none => defaultExcludeAv4
      | some l => l.filterMap fun e => match parseCIDR e with
        | some n => if n.v6 then none else some n
        | none => none
    else []
  let exAAAA := match x6 with
    | none => defaultExcludeAAAA
    | some l => l.filterMap fun e => match parseCIDR e with
      | some n => if n.v6 then some n else none
      | none => none
  { prefixes := prefixes, clients := cs.filterMap parseCIDR, zones := zs.filterMap compileZone,
    exA := exA, exAAAA := exAAAA }

/-- `shouldExcludeAAAA`. -/
def Cfg.shouldExcludeAAAA (c : Cfg) (ip : IP) : Bool := c.exAAAA.any (·.contains ip)

/-- `clientEligible`. -/
def Cfg.clientEligible (c : Cfg) (ip : IP) : Bool :=
  if c.clients.isEmpty then true else c.clients.any (·.contains ip)

/-- `zoneExcluded` on the canonical lower-case FQDN. -/
def Cfg.zoneExcluded (c : Cfg) (qname : Name) : Bool :=
  c.zones.any fun z => qname == z || hasSuffix qname ('.' :: z)

/-- `shouldExcludeAOnPrefix`. -/
def Cfg.shouldExcludeAOnPrefix (c : Cfg) (v4 : IP) (p : Prefix) : Bool :=
  if !p.wellKnown then false else excludedV4 v4 c.exA

/-! ### messages -/

/-- one resource record as the harness abstracts it. `kind`: `c` CNAME, `d`
DNAME, `4` A, `6` AAAA, `r` PTR, `o` anything else.  Owner / target are opaque
name tokens (the model never looks inside them). -/
structure RR where
  kind : Char
  ttl : Nat
  owner : String
  target : String := ""
  ip : IP := []
deriving Repr, DecidableEq

/-- provenance marks on the downstream reply: RFC 9520 cached-failure mark in
`ResponseMeta`, request-local failure (attempt limit / any other). -/
inductive Mark | none | cached | attempt | other
deriving Repr, DecidableEq

/-- outcome of `queryer.Query`: a response, a generic error, the resolution
attempt limit, the recursion work limit, `(nil, nil)`, or no queryer wired. -/
inductive AErr | none | generic | attempt | work | nilResp | noQueryer
deriving Repr, DecidableEq

/-- the downstream (upstream AAAA) reply reaching `responseWriter.WriteMsg`. -/
structure Down where
  rcode : Nat
  ad : Bool
  tc : Bool
  opt : Bool
  hasQ : Bool
  edes : List Nat          -- EDE info codes in the OPT (only if `opt`)
  mark : Mark
  ans : List RR
  soas : List (Nat × Nat)  -- (Hdr.Ttl, Minttl) of the SOA records in Authority, in order
  extra : List RR := []    -- Additional section without the OPT (which, if `opt`, comes last)
deriving Repr

/-- what the internal queryer returns for the secondary lookup. -/
structure AResp where
  err : AErr
  rcode : Nat
  ans : List RR
  ns : List RR := []       -- Authority of the A response (SOA = kind `s`, OPT = kind `O`)
  extra : List RR := []    -- Additional of the A response (may hold its own OPT, kind `O`)
deriving Repr

structure Query where
  client : IP
  internal : Bool
  rd : Bool
  cd : Bool
  qclass : Nat
  qtype : Nat
  qname : Name
  workExhausted : Bool     -- an enforcing recursion-work ledger in ctx is exhausted
  replay : Bool := false   -- `Chain.Replay()`: the worker pass after an inline hand-off
  wire : Bool := false     -- wire-born request (`Chain.ResetWire`): gates read parsed wire facts
  twoQ : Bool := false     -- decoded request with a question count other than 1
  edns : Bool := true      -- the request carries an OPT
  ad : Bool := false       -- the client set AD in the query header (RFC 6840 §5.7); `SetReply` does not copy it
deriving Repr

/-- RFC 8914 codes `isDNSSECFailure` passes through. -/
def dnssecEDE : List Nat := [1, 2, 27, 5, 6, 7, 8, 9, 10, 11, 12]

/-- `isDNSSECFailure`. -/
def isDNSSECFailure (m : Down) : Bool :=
  m.rcode == 2 && m.opt && m.edes.any (dnssecEDE.contains ·)

/-- `isCachedFailureResponse`. -/
def isCachedFailureResponse (m : Down) : Bool :=
  m.mark == .cached || (m.rcode == 2 && m.opt && m.edes.contains 13)

/-- `negativeAAAATTL`: `none` = no SOA in Authority. -/
def negativeAAAATTL (soas : List (Nat × Nat)) : Option Nat :=
  match soas with
  | [] => none
  | (ttl, mn) :: _ => some (if mn < ttl then mn else ttl)

def noSOATTLCeiling : Nat := 600
def ptrSynthTTL : Nat := 600

/-- the TTL choice in `synthesise`. -/
def synthTTL (neg : Option Nat) (attls : List Nat) : Nat :=
  attls.foldl (fun t a => if a < t then a else t) (neg.getD noSOATTLCeiling)

/-- `splitChainAndA`. -/
def chainOf (ans : List RR) : List RR := ans.filter fun r => r.kind == 'c' || r.kind == 'd'
def addrsOf (ans : List RR) : List RR := ans.filter fun r => r.kind == '4'

/-- `ServeDNS` gates. -/
inductive Gate | next | ptr | wrap
deriving Repr, DecidableEq

def gate (c : Cfg) (q : Query) : Gate :=
  if q.twoQ && !q.wire then .next
  else if q.qclass != 1 then .next
  else if q.internal then .next
  else if !q.rd then .next
  else if q.cd then .next
  else if !c.clientEligible q.client then .next
  else if q.qtype != 28 && q.qtype != 12 then .next
  else if q.qtype == 12 then .ptr
  else if c.zoneExcluded (canonical q.qname) then .next
  else .wrap

/-- the prefix loop of `handlePTR`: the first configured prefix that contains
the address, extracts and is not excluded. -/
def ptrV4 (c : Cfg) (addr : IP) : Option IP :=
  c.prefixes.findSome? fun p =>
    if !prefixContains p.net addr then none else
    match extractIPv4 p.net.ip p.net.bits addr with
    | none => none
    | some v4 => if c.shouldExcludeAOnPrefix v4 p then none else some v4

/-- `filterUpstreamAAAA`: (filtered answer, hadAAAA, kept, stripped). -/
def filterUpstreamAAAA (c : Cfg) (ans : List RR) : List RR × Bool × Nat × Nat :=
  let aaaa := ans.filter (·.kind == '6')
  let stripped := (aaaa.filter fun r => c.shouldExcludeAAAA r.ip).length
  let kept := aaaa.length - stripped
  (ans.filter fun r => !(r.kind == '6' && c.shouldExcludeAAAA r.ip), !aaaa.isEmpty, kept, stripped)

/-- pre-synthesis dispatch of `responseWriter.WriteMsg`. -/
inductive Disp
  | passRaw | passNX | passDnssec | passCached | passLocal | workFail
  | passNative (stripped : Bool)
  | trySynth
deriving Repr, DecidableEq

def dispatch (c : Cfg) (q : Query) (m : Down) : Disp :=
  if m.tc || !m.hasQ then .passRaw
  else if m.rcode == 3 then .passNX
  else if isDNSSECFailure m then .passDnssec
  else if isCachedFailureResponse m then .passCached
  else if m.mark == .attempt || m.mark == .other then .passLocal
  else if m.rcode == 2 && q.workExhausted then .workFail
  else if m.rcode == 0 then
    let (_, had, kept, stripped) := filterUpstreamAAAA c m.ans
    if had && decide (kept > 0) then .passNative (decide (stripped > 0)) else .trySynth
  else .trySynth

/-- `a.A.To4()`: A rdata is 4 bytes or (as miekg unpacks it from the wire) the
16-byte `::ffff:a.b.c.d` form; anything else is not an IPv4 address. -/
def to4 (a : IP) : Option IP :=
  if a.length == 4 then some a else if isMapped a then some (a.drop 12) else none

/-- the (A, prefix) loop of `synthesise`. -/
def synthAAAA (c : Cfg) (addrs : List RR) (ttl : Nat) : List RR :=
  c.prefixes.flatMap fun p =>
    addrs.filterMap fun a =>
      match to4 a.ip with
      | none => none
      | some v4 =>
        if c.shouldExcludeAOnPrefix v4 p then none
        else some { kind := '6', ttl := ttl, owner := a.owner, ip := embedIPv4 p.net.ip p.net.bits v4 }

inductive Kind
  | none          -- nothing written
  | pass          -- the downstream message itself, untouched
  | filteredKept  -- copy with excluded AAAA removed, some native AAAA kept
  | filteredAll   -- copy with every AAAA removed, synthesis gave nothing
  | synth
  | abasis
  | workFail
  | attemptFail
  | ptr
deriving Repr, DecidableEq

structure Reply where
  kind : Kind
  rcode : Nat := 0
  ad : Bool := false
  aq : Nat := 0        -- qtype of the secondary lookup (0 = none issued)
  ede4 : Bool := false
  ans : List RR := []
  ns : List RR := []
  extra : List RR := []
deriving Repr

/-- the OPT pseudo record as a section entry. -/
def optRR : RR := { kind := 'O', ttl := 0, owner := "." }

/-- an SOA of the AAAA reply's Authority as a section entry. -/
def soaRR (s : Nat × Nat) : RR := { kind := 's', ttl := s.1, owner := "z", target := toString s.2 }

def Down.nsRRs (m : Down) : List RR := m.soas.map soaRR
def Down.extraRRs (m : Down) : List RR := m.extra ++ (if m.opt then [optRR] else [])

/-- `copyExtraNoOPT`. -/
def copyExtraNoOPT (rrs : List RR) : List RR := rrs.filter (·.kind != 'O')

/-- `appendOPTFrom(src, dst)`: the first OPT of `src.Extra` goes in front. -/
def appendOPTFrom (src : Down) (dst : List RR) : List RR := if src.opt then optRR :: dst else dst

/-- `req.Extra` (what `SetRcode` / `handlePTR` copy into their reply). -/
def Query.extraRRs (q : Query) : List RR := if q.edns then [optRR] else []

/-- EDE 4 on a reply that reuses `m`'s OPT after `SetEDE(…ForgedAnswer…)` iff `m.ad`. -/
def ede4After (m : Down) : Bool := m.opt && (m.ad || m.edes.contains 4)

def passReply (m : Down) (aq : Nat := 0) : Reply :=
  { kind := .pass, rcode := m.rcode, ad := m.ad, aq := aq, ede4 := m.opt && m.edes.contains 4, ans := m.ans,
    ns := m.nsRRs, extra := m.extraRRs }

/-- the tail of `WriteMsg` when `synthesise` returned nil: the (already
filtered) AAAA reply goes out; if filtering copied it, AD is cleared. -/
def fallbackReply (orig : Down) (copied : Bool) (aq : Nat) : Reply :=
  if copied then { passReply orig aq with kind := .filteredAll, ad := false, ede4 := ede4After orig }
  else passReply orig aq

/-- `synthesise` and the tail of `WriteMsg`; `orig` is the already filtered
message, `copied` says whether filtering made a copy. -/
def synthesise (c : Cfg) (q : Query) (orig : Down) (copied : Bool) (a : AResp) : Reply :=
  let fallback (aq : Nat) : Reply := fallbackReply orig copied aq
  match a.err with
  | .noQueryer => fallback 0
  | .work => { kind := .workFail, rcode := 2, aq := 1, extra := q.extraRRs }
  | .attempt => { kind := .attemptFail, rcode := 2, aq := 1, extra := q.extraRRs }
  | .generic => fallback 1
  | .nilResp => fallback 1
  | .none =>
    if a.rcode != 0 then
      { kind := .abasis, rcode := a.rcode, aq := 1, ede4 := ede4After orig, ans := chainOf a.ans,
        ns := a.ns, extra := appendOPTFrom orig (copyExtraNoOPT a.extra) }
    else
      let addrs := addrsOf a.ans
      if addrs.isEmpty then
        { kind := .abasis, rcode := a.rcode, aq := 1, ede4 := ede4After orig, ans := chainOf a.ans,
          ns := a.ns, extra := appendOPTFrom orig (copyExtraNoOPT a.extra) }
      else
        let ttl := synthTTL (negativeAAAATTL orig.soas) (addrs.map (·.ttl))
        let chain := (chainOf a.ans).map fun r => if r.ttl > ttl then { r with ttl := ttl } else r
        let syn := synthAAAA c addrs ttl
        if syn.isEmpty then fallback 1
        else { kind := .synth, rcode := 0, aq := 1, ede4 := ede4After orig, ans := chain ++ syn,
               ns := copyExtraNoOPT a.ns, extra := appendOPTFrom orig (copyExtraNoOPT a.extra) }

/-- `aReq.CheckingDisabled = w.req.CheckingDisabled`: the secondary A lookup
inherits the client's CD bit and nothing else (the PTR chase never sets it). -/
def subQueryCD (q : Query) (aq : Nat) : Bool := aq == 1 && q.cd

/-- `responseWriter.WriteMsg`. -/
def writeMsg (c : Cfg) (q : Query) (m : Down) (a : AResp) : Reply :=
  match dispatch c q m with
  | .passRaw | .passNX | .passDnssec | .passCached | .passLocal => passReply m
  | .workFail => { kind := .workFail, rcode := 2, extra := q.extraRRs }
  | .passNative false => passReply m
  | .passNative true =>
    { kind := .filteredKept, rcode := m.rcode, ad := false, ede4 := ede4After m,
      ans := (filterUpstreamAAAA c m.ans).1, ns := m.nsRRs, extra := m.extraRRs }
  | .trySynth =>
    if m.rcode == 0 then
      let (fans, _, _, stripped) := filterUpstreamAAAA c m.ans
      if stripped > 0 then synthesise c q { m with ans := fans } true a
      else synthesise c q m false a
    else synthesise c q m false a

/-- `handlePTR` once a translation target is known. -/
def ptrReply (q : Query) (qtok : String) (v4 : IP) (a : AResp) : Reply :=
  let cname : RR := { kind := 'c', ttl := ptrSynthTTL, owner := qtok,
                      target := "x:" ++ String.ofList (inAddrArpa v4) }
  match a.err with
  | .noQueryer => { kind := .ptr, ans := [cname], extra := q.extraRRs }
  | .work => { kind := .workFail, rcode := 2, aq := 12, extra := q.extraRRs }
  | .attempt => { kind := .attemptFail, rcode := 2, aq := 12, extra := q.extraRRs }
  | .none =>
    if a.rcode == 0 then
      { kind := .ptr, aq := 12, ans := cname :: a.ans.filter (·.kind == 'r'), extra := q.extraRRs }
    else { kind := .ptr, aq := 12, ans := [cname], extra := q.extraRRs }
  | _ => { kind := .ptr, aq := 12, ans := [cname], extra := q.extraRRs }

/-- `DNS64.ServeDNS` in front of a scripted downstream handler (`down = none`:
the handler writes nothing). -/
def serve (c : Cfg) (q : Query) (down : Option Down) (a : AResp) : Reply :=
  let nextReply : Reply := match down with
    | none => { kind := .none }
    | some m => passReply m
  match gate c q with
  | .next => nextReply
  | .ptr =>
    let qn := canonical q.qname
    if !hasSuffix qn (ip6ArpaSuffix ++ ['.']) then nextReply else
    match parseIP6ArpaName qn with
    | none => nextReply
    | some addr =>
      match ptrV4 c addr with
      | none => nextReply
      | some v4 => ptrReply q "0" v4 a
  | .wrap =>
    match down with
    | none => { kind := .none }
    | some m => writeMsg c q m a

end SdnsVerif.Model.Dns64
