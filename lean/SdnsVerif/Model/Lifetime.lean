/-
Model of the lifetime arithmetic of the cache middleware (property C04).
Core Lean only.  Mirrors, function by function:

  /repo/internal/dnsutil/cache_ttl.go     CalculateCacheTTL, getRRSIGTTL, hasRecords
  /repo/middleware/cache/types.go         TTLManager.Calculate, CacheEntry.remaining, ToMsg (TTL stamp)
  /repo/middleware/cache/store.go         setFromResponseWithKey (capTTL), ReplaceIfCurrent
  /repo/middleware/cache/entry_wire.go    serveWireInto / serveWireIntoRequest (TTL stamp)
  /repo/middleware/cache/entry_wire_chase.go  collectWireChase / composeWireChase (per-segment TTL)
  /repo/middleware/cache/cache.go         boundRequestToEntryLifetime, additionalAnswer lineage
  /repo/middleware/chain.go               ResponseMeta.BoundCutFor, ForkCut, subQueryLineage.inherit
  /repo/middleware/cache/nxdomain_cut.go  record (bound list), lookup, response
  /repo/middleware/cache/denial_proof_cache.go  denialProofExpiry, denialProofResponse expiry
  /repo/internal/cache/cache.go           CompareAndSwap

Time is `Int` nanoseconds with an explicit `now`; a zero `time.Time`
("unbounded") is `none`.
-/
namespace SdnsVerif.Model.Lifetime

/-- one second in nanoseconds (`time.Second`). -/
def S : Int := 1000000000

/-- The constants the arithmetic depends on (all in ns). -/
structure Cfg where
  minC : Int            -- dnsutil.MinCacheTTL
  maxC : Int            -- dnsutil.MaxCacheTTL
  posMin : Int          -- PositiveCache.ttl.min
  posMax : Int          -- PositiveCache.ttl.max
  ecsMax : Int := 0     -- CacheConfig.ECSMaxTTL (0 = no cap)
deriving Repr

/-! ### records and messages, reduced to what the TTL code reads -/

inductive RKind
  | plain
  | soa (minttl : Nat)          -- SOA.Minttl, seconds
  | rrsig (expAt : Int)         -- time.Unix(sig.Expiration, 0), as an instant in ns
  | opt
deriving Repr, DecidableEq

structure RR where
  ttl : Nat                     -- Header().Ttl, seconds
  kind : RKind := .plain
deriving Repr, DecidableEq

structure Msg where
  answer : List RR := []
  ns : List RR := []
  extra : List RR := []
deriving Repr

/-- `dnsutil.ResponseType` as far as `CalculateCacheTTL` distinguishes it. -/
inductive RespType | success | nxdomain | norecords | servfail | other
deriving Repr, DecidableEq

def RespType.isNegative : RespType → Bool
  | .nxdomain | .norecords => true
  | _ => false

/-- `getTTL`. -/
def getTTL (rr : RR) : Int := (rr.ttl : Int) * S

/-- `getRRSIGTTL(sig, now)`. -/
def getRRSIGTTL (minC : Int) (ttl : Nat) (expAt now : Int) : Int :=
  let recordTTL := (ttl : Int) * S
  let timeUntilExpire := expAt - now
  if timeUntilExpire ≤ 0 then minC
  else if timeUntilExpire < recordTTL then timeUntilExpire
  else recordTTL

def isOpt (rr : RR) : Bool := match rr.kind with | .opt => true | _ => false

/-- `hasRecords`. -/
def hasRecords (m : Msg) : Bool :=
  m.answer.length + m.ns.length + (m.extra.filter (fun rr => !isOpt rr)).length > 0

/-- the RRSIG part of every section loop. -/
def stepSig (minC now : Int) (m : Int) (rr : RR) : Int :=
  match rr.kind with
  | .rrsig e => let t := getRRSIGTTL minC rr.ttl e now; if t < m then t else m
  | _ => m

/-- body of the Answer loop. -/
def stepAnswer (minC now : Int) (m : Int) (rr : RR) : Int :=
  let m := if getTTL rr < m then getTTL rr else m
  stepSig minC now m rr

/-- the `if soa, ok := rr.(*dns.SOA) ...` part of the Authority loop: an SOA
in the authority section bounds by its MINIMUM whatever the response class
(since /repo 8b1500e; before, only for negative classes). -/
def stepSoa (m : Int) (rr : RR) : Int :=
  match rr.kind with
  | .soa mn => if (mn : Int) * S < m then (mn : Int) * S else m
  | _ => m

/-- body of the Authority loop. -/
def stepNs (minC now : Int) (m : Int) (rr : RR) : Int :=
  let m := if getTTL rr < m then getTTL rr else m
  let m := stepSoa m rr
  stepSig minC now m rr

/-- body of the Additional loop (OPT skipped). -/
def stepExtra (minC now : Int) (m : Int) (rr : RR) : Int :=
  if isOpt rr then m else
  let m := if getTTL rr < m then getTTL rr else m
  stepSig minC now m rr

/-- the three loops of `CalculateCacheTTL`, before the bounds. -/
def scanMin (cfg : Cfg) (msg : Msg) (now : Int) : Int :=
  let m := msg.answer.foldl (stepAnswer cfg.minC now) cfg.maxC
  let m := msg.ns.foldl (stepNs cfg.minC now) m
  msg.extra.foldl (stepExtra cfg.minC now) m

/-- `dnsutil.CalculateCacheTTL(msg, respType)` at `now`. -/
def calculateCacheTTL (cfg : Cfg) (msg : Msg) (rt : RespType) (now : Int) : Int :=
  match rt with
  | .servfail => 30 * S
  | .other => cfg.minC
  | _ =>
    if !hasRecords msg then cfg.minC else
    let m := scanMin cfg msg now
    if m < cfg.minC then cfg.minC
    else if m > cfg.maxC then cfg.maxC
    else m

/-- `TTLManager.Calculate`. -/
def ttlManagerCalculate (mn mx : Int) (msgTTL : Int) : Int :=
  if msgTTL < mn then mn else if msgTTL > mx then mx else msgTTL

/-- the `capTTL` closure of `setFromResponseWithKey`. -/
def capTTL (isScoped : Bool) (ecsMax : Int) (ttl : Int) : Int :=
  if isScoped && ecsMax > 0 && ttl > ecsMax then ecsMax else ttl

/-- the entry TTL `setFromResponseWithKey` computes for a stored class. -/
def admitTTL (cfg : Cfg) (msg : Msg) (rt : RespType) (now : Int) (isScoped : Bool) : Int :=
  capTTL isScoped cfg.ecsMax (ttlManagerCalculate cfg.posMin cfg.posMax (calculateCacheTTL cfg msg rt now))

/-- the entry TTL `ReplaceIfCurrent` computes (no ECS cap on that path). -/
def replaceTTL (cfg : Cfg) (msg : Msg) (rt : RespType) (now : Int) : Int :=
  ttlManagerCalculate cfg.posMin cfg.posMax (calculateCacheTTL cfg msg rt now)

/-! ### entries and read-time expiry -/

structure Entry where
  stored : Int
  ttl : Int
  cut : Option Int := none      -- cutUntil; `none` = zero time
deriving Repr, DecidableEq

/-- `CacheEntry.remaining(now)`. -/
def Entry.remaining (e : Entry) (now : Int) : Int :=
  let rem := e.ttl - (now - e.stored)
  match e.cut with
  | some c => if c - now < rem then c - now else rem
  | none => rem

/-- `uint32(d.Seconds())` under the guard `d > 0`. -/
def secs (d : Int) : Nat := (d / S).toNat

/-- `CacheEntry.ToMsg`: `none` = nil (treated as a miss), else the TTL
written into every record. -/
def Entry.toMsgTTL (e : Entry) (now : Int) : Option Nat :=
  let r := e.remaining now
  if r ≤ 0 then none else some (secs r)

/-- `serveWireInto` (decoded request, byte path): refused or the stamped TTL. -/
def Entry.serveWireTTL (e : Entry) (now : Int) : Option Nat :=
  let r := e.remaining now
  if r ≤ 0 then none else some (secs r)

/-- `serveWireIntoRequest` (wire-born request). -/
def Entry.serveWireRequestTTL (e : Entry) (now : Int) : Option Nat :=
  let r := e.remaining now
  if r ≤ 0 then none else some (secs r)

/-- `CacheEntry.IsExpired` (what `PositiveCache.Get` deletes on). -/
def Entry.isExpired (e : Entry) (now : Int) : Bool := e.remaining now ≤ 0

/-- `collectWireChase`: every segment must be live at the one `now`; the
result is the per-segment TTL list (in chain order), `none` = decline. -/
def collectWireChase (now : Int) : List Entry → Option (List Nat)
  | [] => some []
  | e :: t =>
    let r := e.remaining now
    if r ≤ 0 then none else
    match collectWireChase now t with
    | none => none
    | some l => some (secs r :: l)

/-- the decoded chase (`handleCacheHit` + `additionalAnswer`): the alias is
materialised, then each target as long as it is live; a dead hop ends the
chain (the sub-query misses). -/
def msgChase (now : Int) : List Entry → List Nat
  | [] => []
  | e :: t =>
    match e.toMsgTTL now with
    | none => []
    | some s => s :: msgChase now t

/-! ### lineage: the request-tree bound -/

/-- the deadline `boundRequestToEntryLifetime` folds in: the earlier of
`stored+ttl` and the cut. -/
def Entry.hardUntil (e : Entry) : Int :=
  match e.cut with
  | some c => if c ≤ e.stored + e.ttl then c else e.stored + e.ttl
  | none => e.stored + e.ttl

/-- `ResponseMeta.BoundCutFor`: zero deadlines are ignored, the earliest wins. -/
def boundCut (m : Option Int) (d : Option Int) : Option Int :=
  match d with
  | none => m
  | some x =>
    match m with
    | none => some x
    | some c => if x < c then some x else some c

/-- a request tree folding a list of deadlines in order. -/
def boundAll (m : Option Int) (ds : List (Option Int)) : Option Int := ds.foldl boundCut m

/-- `ForkCut` + `subQueryLineage.inherit`: the child accumulates its own
deadlines from nothing; the parent takes the child's result only if the
sub-query's records were used. -/
def forkInherit (parent : Option Int) (childFolds : List (Option Int)) (used : Bool) : Option Int × Option Int :=
  let child := boundAll none childFolds
  (if used then boundCut parent child else parent, child)

/-- the deadline `additionalAnswer` folds into the request tree when an alias
adopts the NXDOMAIN of its target: the denial's own cache lifetime
(`boundRequestTo(ctx, now + CalculateCacheTTL(respCname, TypeNXDomain))`). -/
def adoptedDenialBound (cfg : Cfg) (denial : Msg) (now : Int) : Int :=
  now + calculateCacheTTL cfg denial .nxdomain now

/-- the cut a (re-)admitted entry gets: the upstream lease of its own
resolution folded with the hard expiry of every cached piece the composed
answer consumed. -/
def composedCut (lease : Option Int) (pieces : List Entry) : Option Int :=
  boundAll lease (pieces.map fun p => some p.hardUntil)

/-! ### RFC 8020 cuts and RFC 8198 proofs: no floor -/

/-- the `bound` closure shared by `nxDomainCutCache.record` and
`denialProofExpiry`. -/
def boundMin (ttl : Int) (candidate : Int) : Int := if candidate < ttl then candidate else ttl

/-- the candidates one proof record contributes. -/
def proofBounds (now : Int) (rr : RR) (origTtl : Nat) : List Int :=
  match rr.kind with
  | .soa mn => [getTTL rr, (mn : Int) * S]
  | .rrsig e => [getTTL rr, (origTtl : Int) * S, e - now]
  | _ => [getTTL rr]

structure ProofRR where
  rr : RR
  orig : Nat := 0             -- RRSIG.OrigTtl
deriving Repr

def allProofBounds (now : Int) (recs : List ProofRR) : List Int :=
  recs.flatMap fun p => proofBounds now p.rr p.orig

/-- `nxDomainCutCache.record`: lifetime of a cut, `none` = rejected
(`ttl <= 0`).  `soaTtl/soaMin` are the separately bounded SOA copy. -/
def cutRecordTTL (maxTTL : Int) (now : Int) (soaTtl soaMin : Nat) (recs : List ProofRR)
    (cutUntil : Option Int) : Option Int :=
  let ttl := boundMin (boundMin maxTTL ((soaTtl : Int) * S)) ((soaMin : Int) * S)
  let ttl := (allProofBounds now recs).foldl boundMin ttl
  let ttl := match cutUntil with | some c => boundMin ttl (c - now) | none => ttl
  if ttl ≤ 0 then none else some ttl

/-- `denialProofExpiry(now, maxTTL, cutUntil, records)`; `hardMax` is
`maxDenialProofTTL`. -/
def denialProofExpiry (hardMax : Int) (now maxTTL : Int) (cutUntil : Option Int) (recs : List ProofRR) : Option Int :=
  let maxTTL := if maxTTL ≤ 0 ∨ maxTTL > hardMax then hardMax else maxTTL
  let ttl := match cutUntil with | some c => boundMin maxTTL (c - now) | none => maxTTL
  let ttl := (allProofBounds now recs).foldl boundMin ttl
  if ttl ≤ 0 then none else some (now + ttl)

/-- `nxDomainCutEntry.response` / `denialProofResponse`: served iff
`now < expires`, TTL = whole seconds left. -/
def expiryServeTTL (expires now : Int) : Option Nat :=
  let r := expires - now
  if r ≤ 0 then none else some (secs r)

/-- `denialProofResponse` expiry of a synthesised denial: earliest of the
SOA entry and the proof entries. -/
def synthExpiry (soa : Int) (proofs : List Int) : Int := proofs.foldl boundMin soa

/-- `denialProofCache.extract`: one admission yields the zone's SOA entry
(lifetime from the SOA RRset and its signatures) and one entry per proof RRset
(lifetime from the SOA RRset *and* that proof RRset); `none` = rejected. -/
def proofAdmit (hardMax now maxTTL : Int) (cutUntil : Option Int) (common set : List ProofRR) : Option (Int × Int) :=
  match denialProofExpiry hardMax now maxTTL cutUntil common,
        denialProofExpiry hardMax now maxTTL cutUntil (common ++ set) with
  | some a, some b => some (a, b)
  | _, _ => none

/-- `denialProofEvaluate` liveness + `denialProofResponse`: a denial is
synthesised from the SOA entry *currently* cached for the zone (a later
admission may have replaced it) and the selected proof entries only while
every one of them is live; its expiry is the earliest of them all, its TTL the
whole seconds left.  Result: (TTL stamped on every record, expiry reported to
the request tree). -/
def synthServe (soa : Int) (proofs : List Int) (now : Int) : Option (Nat × Int) :=
  if now ≥ soa then none
  else if proofs.isEmpty then none
  else if proofs.any (fun p => decide (now ≥ p)) then none
  else
    let e := synthExpiry soa proofs
    if e - now ≤ 0 then none else some (secs (e - now), e)

/-! ### the prefetch trigger -/

/-- `CacheEntry.TTL()`: whole seconds left, 0 once expired. -/
def Entry.ttlSeconds (e : Entry) (now : Int) : Nat :=
  if e.remaining now ≤ 0 then 0 else secs (e.remaining now)

/-- `CacheEntry.ShouldPrefetch(threshold)`: not already claimed, and at most
`threshold` percent of the original TTL (whole seconds) left.  The code
computes `int(float64(threshold)/100*float64(origTTL))`; the harness uses the
thresholds 25/50/75, for which that is `threshold*origTTL/100` exactly. -/
def Entry.shouldPrefetch (e : Entry) (threshold : Nat) (claimed : Bool) (now : Int) : Bool :=
  if threshold = 0 || claimed then false
  else decide (e.ttlSeconds now ≤ threshold * secs e.ttl / 100)

/-! ### DNS64 (RFC 6147 §5.1.7): the synthetic AAAA's TTL -/

/-- `dns64.negativeAAAATTL`: the negative TTL of the AAAA response the
synthesis replaces — `min(SOA header TTL, SOA.MINIMUM)` of its first SOA (for
a NODATA served from the cache the header TTL is what that entry has left),
`none` without an SOA. -/
def negativeAAAATTL (soa : Option (Nat × Nat)) : Option Nat :=
  soa.map fun (hdr, mn) => if mn < hdr then mn else hdr

/-- `noSOATTLCeiling`. -/
def noSOACeiling : Nat := 600

/-- the TTL loop of `responseWriter.synthesise`: start from the negative TTL
(or the ceiling) and take the minimum with every A record's TTL. -/
def dns64TTL (ceiling : Nat) (neg : Option Nat) (aTTLs : List Nat) : Nat :=
  aTTLs.foldl (fun t a => if a < t then a else t) (neg.getD ceiling)

/-- the CNAME/DNAME chain of the A response is capped at the synthetic TTL. -/
def dns64ChainTTL (ttl c : Nat) : Nat := if c > ttl then ttl else c

/-! ### the late-write guard as a labelled transition system

One key of `internal/cache.Cache`.  Values are identified by a fresh number
(pointer identity of the `*CacheEntry`). -/

inductive CasOp
  | set                 -- a client-path Set (SetFromResponse*): unconditional
  | evict               -- eviction / Purge / expiry delete
  | capture (p : Nat)   -- prefetcher p remembers the live entry (PrefetchRequest.Entry)
  | cas (p : Nat)       -- prefetcher p completes: Store.ReplaceIfCurrent
deriving Repr, DecidableEq

structure CasState where
  cur : Option Nat := none
  next : Nat := 0
  captured : Nat → Option Nat := fun _ => none

/-- one atomic step; the Bool is the return value of `ReplaceIfCurrent`
(`false` for the other steps). -/
def casStep (s : CasState) : CasOp → CasState × Bool
  | .set => ({ s with cur := some s.next, next := s.next + 1 }, false)
  | .evict => ({ s with cur := none }, false)
  | .capture p => ({ s with captured := fun q => if q = p then s.cur else s.captured q }, false)
  | .cas p =>
    match s.captured p with
    | none => (s, false)                                    -- expected == nil
    | some e =>
      if s.cur = some e then ({ s with cur := some s.next, next := s.next + 1 }, true)
      else (s, false)                                       -- CompareAndSwap: cur != old

def casRun (s : CasState) (ops : List CasOp) : CasState := ops.foldl (fun st op => (casStep st op).1) s

end SdnsVerif.Model.Lifetime
