/-
Model of the middleware chain dispatcher (`middleware/chain.go`: `Chain.Next`,
`Chain.Cancel`, the base writer's first-write-wins rule), of the internal
sub-pipelines `Pipeline.autoWire` builds (`middleware/pipeline.go`), and of the
peer identity the base writer derives in `responseWriter.Reset`
(`middleware/response_writer.go`).  Core Lean only.

A handler is modelled by the *script* of chain calls it makes, in order:
`next` (`ch.Next(ctx)`), `cancel` (`ch.Cancel()`), `write`
(`ch.Writer.WriteMsg`).  `CancelWithRcode` is `[write, cancel]`.  Handlers run
nested, exactly as in Go: `next` runs the following handler's whole script
before the caller's script continues.
-/
namespace SdnsVerif.Model.Chain

inductive Act where
  | next | cancel | write
deriving DecidableEq, Repr

abbrev Script := List Act

/-- `Chain` fields that dispatch reads and writes, plus two ghost logs. -/
structure St where
  pos : Nat := 0            -- ch.pos
  count : Nat := 0          -- ch.count
  ran : List Nat := []      -- ghost: handlers invoked, in order
  writer : Option Nat := none  -- ghost: the handler whose write the base writer accepted
  oof : Bool := false       -- model artefact: recursion budget exhausted (never, see `run_has_fuel`)
deriving DecidableEq, Repr

/-- The base writer accepts the first `WriteMsg` only (`errAlreadyWritten` after). -/
def firstWriter (w : Option Nat) (self : Nat) : Option Nat :=
  match w with
  | none => some self
  | some w => some w

/-- Runs the rest `acts` of handler `self`'s script.  `fuel` bounds the depth of
the recursion (one unit per chain call on the current path); running out aborts
the chain like `Cancel` and sets `oof`. -/
def exec (hs : List Script) : Nat → Nat → Script → St → St
  | _, _, [], st => st
  | 0, _, _ :: _, st => { st with oof := true, count := 0 }
  | fuel + 1, self, .cancel :: as, st => exec hs fuel self as { st with count := 0 }
  | fuel + 1, self, .write :: as, st =>
      exec hs fuel self as { st with writer := firstWriter st.writer self }
  | fuel + 1, self, .next :: as, st =>
      -- Chain.Next: `if ch.count == 0 { return }; h := ch.handlers[ch.pos]; ch.pos++; ch.count--; h.ServeDNS`
      let st' :=
        if st.count = 0 then st else
        match hs[st.pos]? with
        | none => st
        | some s => exec hs fuel st.pos s
            { st with pos := st.pos + 1, count := st.count - 1, ran := st.ran ++ [st.pos] }
      exec hs fuel self as st'

/-- Total number of chain calls in the scripts of the handlers from `p` on. -/
def weight (hs : List Script) (p : Nat) : Nat := ((hs.drop p).map List.length).sum

/-- A served query: the transport calls `ch.Next` once on a freshly reset chain
(`pos = 0`, `count = len(handlers)`).  The caller is given index `hs.length`. -/
def run (hs : List Script) : St :=
  exec hs (weight hs 0 + 1) hs.length [.next] { pos := 0, count := hs.length }

/-! ### Internal sub-pipelines (`Pipeline.autoWire`, `Pipeline.SubPipeline`) -/

structure H where
  name : String
  clientOnly : Bool
deriving DecidableEq, Repr

/-- Names `autoWire` collects: every handler that declares `ClientOnly() == true`. -/
def autoSkip (hs : List H) : List String := (hs.filter (·.clientOnly)).map (·.name)

/-- `SubPipeline(skip...)`: same handlers, same order, minus the named ones. -/
def subPipeline (hs : List H) (skip : List String) : List H :=
  hs.filter fun h => !skip.contains h.name

def queryerSub (hs : List H) : List H := subPipeline hs (autoSkip hs)
def prefetchSub (hs : List H) : List H := subPipeline hs (autoSkip hs ++ ["cache"])

/-! ### The chain pools (`Pipeline.NewChain` / `Pipeline.PutChain`)

Every pipeline (the root one clients are served on, the internal and prefetch
sub-pipelines) owns a `sync.Pool` of chains. A chain carries the handler list it
was bound to when the pool constructed it; `NewChain` does **not** rebind a
chain it finds in the pool. Pipelines are numbered; `bound` is the number of the
pipeline whose handlers the chain runs. -/

structure Pools where
  pools : List (Nat × List Nat)   -- pipeline ↦ chains at rest, each by the pipeline it is bound to
  out : List (Nat × Nat)          -- chains in use: (pipeline it was drawn from, pipeline it is bound to)
deriving DecidableEq, Repr

def Pools.empty : Pools := { pools := [], out := [] }

def poolOf (ps : List (Nat × List Nat)) (p : Nat) : List Nat :=
  match ps.find? (·.1 == p) with
  | some e => e.2
  | none => []

def setPool (ps : List (Nat × List Nat)) (p : Nat) (l : List Nat) : List (Nat × List Nat) :=
  (p, l) :: ps.filter (fun e => !(e.1 == p))

inductive PoolOp where
  | acquire (p : Nat)             -- `p.NewChain()`
  | release (i : Nat)             -- `p.PutChain(ch)` by the holder of the i-th chain in use, to the pipeline it drew from
  | releaseTo (i q : Nat)         -- `q.PutChain(ch)`: to ANOTHER pipeline's pool (what the code must never do)
deriving DecidableEq, Repr

/-- One pool operation. `acquire` on an empty pool runs the pool's constructor:
a chain over the pipeline's own handlers. -/
def Pools.step (s : Pools) : PoolOp → Pools
  | .acquire p =>
    match poolOf s.pools p with
    | b :: rest => { pools := setPool s.pools p rest, out := s.out ++ [(p, b)] }
    | [] => { s with out := s.out ++ [(p, p)] }
  | .release i =>
    match s.out[i]? with
    | some (p, b) => { pools := setPool s.pools p (b :: poolOf s.pools p), out := s.out.eraseIdx i }
    | none => s
  | .releaseTo i q =>
    match s.out[i]? with
    | some (_, b) => { pools := setPool s.pools q (b :: poolOf s.pools q), out := s.out.eraseIdx i }
    | none => s

def Pools.run (s : Pools) (ops : List PoolOp) : Pools := ops.foldl Pools.step s

/-- The discipline of the code: no chain goes to a pool other than its own. -/
def paired : PoolOp → Bool
  | .releaseTo _ _ => false
  | _ => true

/-! ### Peer identity (`responseWriter.Reset`) -/

inductive AddrKind where
  | udp | tcp | other
deriving DecidableEq, Repr

structure Peer where
  kind : AddrKind
  sentinelIP : Bool          -- `a.IP.Equal(127.0.0.255)` (net.IP.Equal: also its 4-in-6 form)
  port : Nat
  transportProto : String    -- `Proto()` of the transport, "" when it has none
  transportInternal : Bool   -- `Internal()` of the transport, false when it has none
deriving DecidableEq, Repr

def derivedProto (p : Peer) : String :=
  if p.transportProto != "" then p.transportProto else
  match p.kind with
  | .udp => "udp"
  | .tcp => "tcp"
  | .other => ""

def derivedInternal (p : Peer) : Bool :=
  (p.kind != .other && p.port == 0 && p.sentinelIP) || p.transportInternal

end SdnsVerif.Model.Chain
