/-
Executable model of the byte/decision logic of the sdns wire fast path (C05).
Core Lean only (linked into `model_c05`).

Mirrored Go code (function by function, names in the doc comments):
  /repo/internal/wire/wire.go          ApplyReply, ClearAD, SetRcode, SetRA, SetAD,
                                       AppendOPTHeader, AppendOption*, FinishOPT
  /repo/middleware/request.go          Request.ParseWire, Request.parseWireOPT
  /repo/middleware/edns/wire.go        wireOPTLen, appendWireOPT, serverCookie (digest = parameter)
  /repo/middleware/cache/cache.go      Cache.serveWire, serveCompositeFromWire, serveHitFromWire,
                                       chargeEntryLimiter, the Msg ladder of Cache.ServeDNS
  /repo/middleware/cache/entry_wire.go serveWireIntoRequest (TTL / AD shaping), types.go ToMsg
  /repo/server/udp_engine.go           serveInline terminal rule

Bytes are `List Nat` (every element < 256 on well-formed input); a packet is
consumed front to back, the Go offset `off` being the number of bytes
already consumed.
-/
namespace SdnsVerif.Model.WirePath

abbrev Bytes := List Nat

/-- `binary.BigEndian.Uint16`. -/
def u16 (hi lo : Nat) : Nat := hi * 256 + lo
/-- `binary.BigEndian.AppendUint16`. -/
def be16 (n : Nat) : Bytes := [n / 256 % 256, n % 256]

/-! ### The 16-bit flag word (`internal/wire/wire.go`) -/

def FlagQR : Nat := 2 ^ 15
def FlagAA : Nat := 2 ^ 10
def FlagTC : Nat := 2 ^ 9
def FlagRD : Nat := 2 ^ 8
def FlagRA : Nat := 2 ^ 7
def FlagAD : Nat := 2 ^ 5
def FlagCD : Nat := 2 ^ 4
def FlagOpcodeSh : Nat := 11
/-- `0xF << FlagOpcodeSh`. -/
def FlagOpcodeMsk : Nat := (2 ^ 4 - 1) <<< 11
def u16max : Nat := 2 ^ 16 - 1
/-- Go `x &^ m` on a `uint16`. -/
def andNot (x m : Nat) : Nat := x &&& (u16max ^^^ m)

/-- `wire.ApplyReply` on the flag word: QR set, AA cleared, the request's
opcode, RD and CD copied; RA/TC/Z/AD/RCODE left as stored. -/
def applyReply (flags opcode : Nat) (rd cd : Bool) : Nat :=
  let f := flags ||| FlagQR
  let f := andNot f FlagAA
  let f := (andNot f FlagOpcodeMsk) ||| (((opcode % 2 ^ 16) <<< FlagOpcodeSh) % 2 ^ 16 &&& FlagOpcodeMsk)
  let f := if rd then f ||| FlagRD else andNot f FlagRD
  let f := if cd then f ||| FlagCD else andNot f FlagCD
  f

/-- `wire.ClearAD` (`body[3] &^= FlagAD`) seen on the word. -/
def clearAD (flags : Nat) : Nat := andNot flags FlagAD
/-- `wire.SetAD`. -/
def setAD (flags : Nat) : Nat := flags ||| FlagAD
/-- `wire.SetRA`. -/
def setRA (flags : Nat) : Nat := flags ||| FlagRA
/-- `wire.SetRcode`: `body[3] = body[3]&0xF0 | rcode&0x0F`. -/
def setRcode (flags rcode : Nat) : Nat := andNot flags (2 ^ 4 - 1) ||| (rcode % 2 ^ 4)

/-- Decoded header (miekg `dns.MsgHdr` without the id). -/
structure Hdr where
  qr : Bool
  opcode : Nat
  aa : Bool
  tc : Bool
  rd : Bool
  ra : Bool
  z : Bool
  ad : Bool
  cd : Bool
  rcode : Nat
deriving DecidableEq, Repr

def bit (b : Bool) (k : Nat) : Nat := if b then 2 ^ k else 0

/-- RFC 1035 §4.1.1 / RFC 4035 §3: packing of the header record. -/
def Hdr.encode (h : Hdr) : Nat :=
  bit h.qr 15 ||| ((h.opcode % 2 ^ 4) <<< 11) ||| bit h.aa 10 ||| bit h.tc 9 ||| bit h.rd 8 ||| bit h.ra 7 |||
  bit h.z 6 ||| bit h.ad 5 ||| bit h.cd 4 ||| (h.rcode % 2 ^ 4)

def Hdr.decode (w : Nat) : Hdr :=
  { qr := w.testBit 15, opcode := (w >>> 11) % 2 ^ 4, aa := w.testBit 10, tc := w.testBit 9, rd := w.testBit 8,
    ra := w.testBit 7, z := w.testBit 6, ad := w.testBit 5, cd := w.testBit 4, rcode := w % 2 ^ 4 }

/-- The header shaping of the decoded path on a cache hit: miekg `SetReply`
(QR, opcode; RD and CD copied only for `OpcodeQuery`) followed by
`CacheEntry.ToMsg` (`Authoritative = false`, stored rcode kept). -/
def setReplyMsg (h : Hdr) (opcode : Nat) (rd cd : Bool) : Hdr :=
  let h := { h with qr := true, opcode := opcode % 2 ^ 4 }
  let h := if opcode % 2 ^ 4 = 0 then { h with rd := rd, cd := cd } else h
  { h with aa := false }

/-- The same shaping with RD/CD copied unconditionally (what `ApplyReply` documents). -/
def setReplyAlways (h : Hdr) (opcode : Nat) (rd cd : Bool) : Hdr :=
  { h with qr := true, opcode := opcode % 2 ^ 4, rd := rd, cd := cd, aa := false }

/-! ### `Request.ParseWire` -/

structure OptFacts where
  udpSize : Nat := 0
  version : Nat := 0
  dnssecOK : Bool := false
  hasECS : Bool := false
  hasNSID : Bool := false
  hasKeepalive : Bool := false
  /-- the cookie option payload (client half ‖ echoed server half); `[]` = none -/
  cookie : Bytes := []
deriving DecidableEq, Repr

structure Facts where
  id : Nat
  flags : Nat
  labels : List Bytes
  qtype : Nat
  qclass : Nat
  opt : Option OptFacts
deriving DecidableEq, Repr

/-- uncompressed wire form of a name -/
def encName : List Bytes → Bytes
  | [] => [0]
  | l :: t => l.length :: (l ++ encName t)

/-- The question-name loop of `ParseWire`: labels until the root octet; a
compression pointer or reserved label type (`c&0xC0 != 0`) refuses; a label
running past the packet refuses. Returns the labels and the bytes after the name. -/
def walkName : Nat → Bytes → Option (List Bytes × Bytes)
  | 0, _ => none
  | _ + 1, [] => none
  | fuel + 1, c :: t =>
    if c = 0 then some ([], t)
    else if c &&& 0xC0 ≠ 0 then none
    else if t.length < c then none
    else match walkName fuel (t.drop c) with
      | none => none
      | some (ls, r) => some (t.take c :: ls, r)

/-- One arm of the `switch code` in `Request.parseWireOPT`: `none` refuses the
packet, otherwise the facts after this option. -/
def optionArm (code optLen : Nat) (data : Bytes) (f : OptFacts) : Option OptFacts :=
  if code = 10 then
    -- EDNS0COOKIE: 8..40 octets, at most one
    if optLen < 8 ∨ optLen > 40 ∨ f.cookie ≠ [] then none else some { f with cookie := data }
  else if code = 3 then some { f with hasNSID := true }
  else if code = 8 then
    -- EDNS0SUBNET: the library's own checks
    if optLen < 4 then none else
    let family := u16 (data.getD 0 0) (data.getD 1 0)
    let netmask := data.getD 2 0
    let scope := data.getD 3 0
    if family = 0 then (if netmask ≠ 0 then none else some { f with hasECS := true })
    else if family = 1 then (if netmask > 32 ∨ scope > 32 then none else some { f with hasECS := true })
    else if family = 2 then (if netmask > 128 ∨ scope > 128 then none else some { f with hasECS := true })
    else none
  else if code = 12 then some f
  else if code = 11 then
    if optLen ≠ 0 ∧ optLen ≠ 2 then none else some { f with hasKeepalive := true }
  else none

/-- The option loop of `Request.parseWireOPT` over the OPT rdata. -/
def walkOpts : Nat → Bytes → OptFacts → Option OptFacts
  | 0, _, _ => none
  | _ + 1, [], f => some f
  | fuel + 1, c1 :: c0 :: l1 :: l0 :: t, f =>
    let code := u16 c1 c0
    let optLen := u16 l1 l0
    if t.length < optLen then none else
    match optionArm code optLen (t.take optLen) f with
    | none => none
    | some f' => walkOpts fuel (t.drop optLen) f'
  | _ + 1, _, _ => none

/-- `Request.parseWireOPT`: the single additional record must be a root OPT
that consumes the rest of the packet exactly, with a zero extended rcode. -/
def parseWireOPT (rest : Bytes) : Option OptFacts :=
  match rest with
  | n :: t1 :: t0 :: s1 :: s0 :: xr :: ver :: z1 :: z0 :: l1 :: l0 :: rd =>
    if n ≠ 0 then none
    else if u16 t1 t0 ≠ 41 then none
    else if rd.length ≠ u16 l1 l0 then none
    else if xr ≠ 0 then none
    else walkOpts (rd.length + 1) rd
      { udpSize := u16 s1 s0, version := ver, dnssecOK := decide (u16 z1 z0 &&& 0x8000 ≠ 0) }
  | _ => none

/-- `Request.ParseWire`: `none` = the packet takes the decoded entry. -/
def parseWire (raw : Bytes) : Option Facts :=
  match raw with
  | i1 :: i0 :: f1 :: f0 :: q1 :: q0 :: a1 :: a0 :: n1 :: n0 :: r1 :: r0 :: body =>
    let flags := u16 f1 f0
    if (flags >>> 11) &&& 0xF ≠ 0 ∨ flags &&& 0x8000 ≠ 0 then none
    else if u16 q1 q0 ≠ 1 ∨ u16 a1 a0 ≠ 0 ∨ u16 n1 n0 ≠ 0 ∨ u16 r1 r0 > 1 then none
    else match walkName (body.length + 1) body with
      | none => none
      | some (labels, afterName) =>
        if (encName labels).length > 255 then none else
        match afterName with
        | t1 :: t0 :: c1 :: c0 :: rest =>
          if u16 r1 r0 = 1 then
            match parseWireOPT rest with
            | none => none
            | some o => some { id := u16 i1 i0, flags := flags, labels := labels, qtype := u16 t1 t0,
                               qclass := u16 c1 c0, opt := some o }
          else if rest ≠ [] then none
          else some { id := u16 i1 i0, flags := flags, labels := labels, qtype := u16 t1 t0,
                      qclass := u16 c1 c0, opt := none }
        | _ => none
  | _ => none

/-- `Server.ServeRaw` entry decision. -/
inductive Entry where
  | strict (f : Facts)
  | decodedFallback
deriving DecidableEq, Repr

def serveRawEntry (raw : Bytes) : Entry :=
  match parseWire raw with
  | some f => .strict f
  | none => .decodedFallback

/-! ### Specification of the packet language (RFC 1035 §4, RFC 6891 §6.1) -/

structure SOption where
  code : Nat
  data : Bytes
deriving DecidableEq, Repr

structure SOPT where
  udpSize : Nat
  version : Nat
  /-- the 16 flag bits of the OPT TTL (DO is the top one) -/
  zflags : Nat
  options : List SOption
deriving DecidableEq, Repr

/-- A query message with one question and at most an OPT in the additional section. -/
structure SMsg where
  id : Nat
  flags : Nat
  labels : List Bytes
  qtype : Nat
  qclass : Nat
  opt : Option SOPT
deriving DecidableEq, Repr

def encOptions : List SOption → Bytes
  | [] => []
  | o :: t => be16 o.code ++ (be16 o.data.length ++ (o.data ++ encOptions t))

/-- Wire form of an OPT pseudo-record with extended rcode 0. -/
def encOPT (o : SOPT) : Bytes :=
  [0] ++ (be16 41 ++ (be16 o.udpSize ++ ([0, o.version] ++ (be16 o.zflags ++
    (be16 (encOptions o.options).length ++ encOptions o.options)))))

/-- Wire form of the whole message (no compression, the only form the strict path admits). -/
def SMsg.encode (m : SMsg) : Bytes :=
  be16 m.id ++ (be16 m.flags ++ (be16 1 ++ (be16 0 ++ (be16 0 ++ (be16 (if m.opt.isSome then 1 else 0) ++
    (encName m.labels ++ (be16 m.qtype ++ (be16 m.qclass ++
      (match m.opt with | none => [] | some o => encOPT o)))))))))

def cookieOf : List SOption → Bytes
  | [] => []
  | o :: t => if o.code = 10 then o.data else cookieOf t

/-- What a decoder of the specification reports about the OPT. -/
def optFactsOf (o : SOPT) : OptFacts :=
  { udpSize := o.udpSize, version := o.version, dnssecOK := decide (o.zflags / 2 ^ 15 % 2 = 1),
    hasECS := o.options.any (fun x => x.code == 8), hasNSID := o.options.any (fun x => x.code == 3),
    hasKeepalive := o.options.any (fun x => x.code == 11), cookie := cookieOf o.options }

/-- What a decoder of the specification reports about the message. -/
def factsOf (m : SMsg) : Facts :=
  { id := m.id, flags := m.flags, labels := m.labels, qtype := m.qtype, qclass := m.qclass,
    opt := m.opt.map optFactsOf }

/-- Options the DNS library accepts (and the strict path knows): the payload
constraints of RFC 7873 (cookie), RFC 7871 (client subnet), RFC 7828
(keepalive), any NSID / padding payload. -/
def SOption.ok (o : SOption) : Prop :=
  (o.code = 10 ∧ 8 ≤ o.data.length ∧ o.data.length ≤ 40) ∨
  o.code = 3 ∨ o.code = 12 ∨
  (o.code = 11 ∧ (o.data.length = 0 ∨ o.data.length = 2)) ∨
  (o.code = 8 ∧ 4 ≤ o.data.length ∧
    ((u16 (o.data.getD 0 0) (o.data.getD 1 0) = 0 ∧ o.data.getD 2 0 = 0) ∨
     (u16 (o.data.getD 0 0) (o.data.getD 1 0) = 1 ∧ o.data.getD 2 0 ≤ 32 ∧ o.data.getD 3 0 ≤ 32) ∨
     (u16 (o.data.getD 0 0) (o.data.getD 1 0) = 2 ∧ o.data.getD 2 0 ≤ 128 ∧ o.data.getD 3 0 ≤ 128)))

def countCookies : List SOption → Nat
  | [] => 0
  | o :: t => (if o.code = 10 then 1 else 0) + countCookies t

/-- Well-formed strict-path query: plain QUERY, not a response, labels of
1..63 octets, name of at most 255 octets, only acceptable options, at most
one cookie. -/
structure SMsg.WF (m : SMsg) : Prop where
  opcode0 : (m.flags >>> 11) % 2 ^ 4 = 0
  notResponse : m.flags.testBit 15 = false
  labelsOK : ∀ l ∈ m.labels, 1 ≤ l.length ∧ l.length ≤ 63
  nameLen : (encName m.labels).length ≤ 255
  optsOK : ∀ o, m.opt = some o → (∀ x ∈ o.options, x.ok) ∧ countCookies o.options ≤ 1

/-! ### The byte-built OPT (`middleware/edns/wire.go`) -/

/-- Writer facts the per-client OPT is built from (strict-path writer: no request OPT object). -/
structure OptCfg where
  noedns : Bool
  /-- `respUDPSize` -/
  udpSize : Nat
  dnssecOK : Bool
  /-- raw client cookie half (8 octets) when the client sent a cookie -/
  cookie : Option Bytes
  /-- length of the textual client address (digest preimage) -/
  addrLen : Nat
  secretLen : Nat
  /-- configured NSID string ([] = not configured) -/
  nsid : Bytes
  nsidAsked : Bool
  keepalive : Bool
deriving DecidableEq, Repr

/-- `middleware.WireInfo`'s Extended DNS Error. -/
abbrev EDE := Option (Nat × Bytes)

def optFixedLen : Nat := 11
def optOptionHdrLen : Nat := 4
def serverCookieLen : Nat := 40
def cookiePreimageMax : Nat := 256
def maxTextualAddrLen : Nat := 45
def clientCookieHexLen : Nat := 16
def tcpKeepaliveUnits : Nat := 80

/-- `ResponseWriter.wireOPTLen` (`none` = decline to the Msg path). -/
def wireOPTLen (c : OptCfg) : Option Nat :=
  if c.noedns then some 0 else
  let length := optFixedLen
  match (if c.cookie.isSome then
      (if maxTextualAddrLen + clientCookieHexLen + c.secretLen > cookiePreimageMax then none
       else some (length + (optOptionHdrLen + serverCookieLen)))
    else some length) with
  | none => none
  | some length =>
    let length := if c.nsid ≠ [] ∧ c.nsidAsked then length + (optOptionHdrLen + c.nsid.length) else length
    let length := if c.keepalive then length + (optOptionHdrLen + 2) else length
    some length

/-- `CacheEntry.wireEDEReserve` / `failureEDEReserve`. -/
def edeReserve (e : EDE) : Nat :=
  match e with
  | none => 0
  | some (_, text) => optOptionHdrLen + 2 + text.length

/-- `wire.AppendOption` -/
def appendOption (code : Nat) (data : Bytes) : Bytes := be16 code ++ (be16 data.length ++ data)

/-- The options `appendWireOPT` writes, in its order: cookie, NSID, keepalive, EDE.
`digest` is the SHA-256 value `serverCookie` derives (a parameter of the model). -/
def wireOptionList (c : OptCfg) (e : EDE) (digest : Bytes) : List SOption :=
  (match c.cookie with | some ck => [{ code := 10, data := ck ++ digest }] | none => []) ++
  ((if c.nsid ≠ [] ∧ c.nsidAsked then [{ code := 3, data := c.nsid }] else []) ++
  ((if c.keepalive then [{ code := 11, data := be16 tcpKeepaliveUnits }] else []) ++
  (match e with | some (code, text) => [{ code := 15, data := be16 code ++ text }] | none => [])))

def appendOptions : List SOption → Bytes
  | [] => []
  | o :: t => appendOption o.code o.data ++ appendOptions t

/-- `ResponseWriter.appendWireOPT` (`AppendOPTHeader`, the options, `FinishOPT`);
`none` = `serverCookie` refused (preimage too long). -/
def appendWireOPT (c : OptCfg) (e : EDE) (digest : Bytes) : Option Bytes :=
  if c.cookie.isSome ∧ c.addrLen + clientCookieHexLen + c.secretLen > cookiePreimageMax then none else
  let opts := appendOptions (wireOptionList c e digest)
  -- root name, TYPE 41, CLASS = udp size, TTL = DO flag only, RDLENGTH, options
  some ([0] ++ (be16 41 ++ (be16 c.udpSize ++ ([0, 0] ++ (be16 (if c.dnssecOK then 2 ^ 15 else 0) ++
    (be16 opts.length ++ opts))))))

/-- The OPT the decoded path ends up with on a cache hit (`CacheEntry.ToMsg`
creates the OPT with the entry's EDE, then `edns.ResponseWriter.WriteMsg`
sets DO and size and merges its own cookie / NSID / keepalive behind it). -/
def msgOPT (c : OptCfg) (e : EDE) (digest : Bytes) : SOPT :=
  { udpSize := c.udpSize, version := 0, zflags := if c.dnssecOK then 2 ^ 15 else 0,
    options :=
      (match e with | some (code, text) => [{ code := 15, data := be16 code ++ text }] | none => []) ++
      ((match c.cookie with | some ck => [{ code := 10, data := ck ++ digest }] | none => []) ++
      ((if c.nsid ≠ [] ∧ c.nsidAsked then [{ code := 3, data := c.nsid }] else []) ++
      (if c.keepalive then [{ code := 11, data := be16 tcpKeepaliveUnits }] else []))) }

/-- The same record with the options in the byte path's order. -/
def wireOPT (c : OptCfg) (e : EDE) (digest : Bytes) : SOPT :=
  { udpSize := c.udpSize, version := 0, zflags := if c.dnssecOK then 2 ^ 15 else 0,
    options := wireOptionList c e digest }

/-! ### The two cache ladders as decision procedures -/

inductive Rung where
  | scoped | exact | cut | denial | failure | miss
deriving DecidableEq, Repr

inductive FailKind where
  | question | zone
deriving DecidableEq, Repr

/-- What the request looks like to the cache (wire facts / decoded facts agree by `parseWire_refines_spec`). -/
structure Req where
  rd : Bool
  hasECS : Bool
  cd : Bool
  typeKnown : Bool
  classKnown : Bool
deriving DecidableEq, Repr

/-- Abstract outcomes of the store lookups for one question. -/
structure Lookups where
  /-- an ECS-scoped entry verifies (only ever probed for requests with a usable client scope) -/
  scopedHit : Bool := false
  /-- the exact entry exists and verifies against the full preimage -/
  exactHit : Bool := false
  /-- `Store.LookupNXDomainCut` (decoded) reports a covering live cut -/
  cut : Bool := false
  /-- `Store.LookupNXDomainCutWire` reports one (only byte-servable cuts are indexed) -/
  cutWire : Bool := false
  /-- RFC 8198 synthesis succeeds for this question -/
  denial : Bool := false
  /-- `Store.LookupFailure` -/
  failure : Option FailKind := none
  /-- `Store.LookupFailureWire` -/
  failureWire : Option FailKind := none
  /-- `Store.DenialMissHoldsWire`: the record-time miss witness still holds -/
  witnessHolds : Bool := false
  /-- `Store.sharedDenialImpossible` -/
  denialImpossible : Bool := false
deriving DecidableEq, Repr

/-- The ladder of `Cache.ServeDNS` after materialisation (order: scoped,
exact, RFC 8020 cut, RFC 8198 denial, RFC 9520 failure, miss). CD and ECS
bypass the shared denial rungs. -/
def msgLadder (q : Req) (l : Lookups) : Rung :=
  if q.hasECS && l.scopedHit then .scoped
  else if l.exactHit then .exact
  else if !q.cd && !q.hasECS && l.cut then .cut
  else if !q.cd && !q.hasECS && l.denial then .denial
  else if l.failure.isSome then .failure
  else .miss

/-- What a client of the decoded path gets. -/
inductive MsgOut where
  /-- `isValidQuery` failed: cancelled, no reply -/
  | drop
  /-- RD clear on a non-root name: SERVFAIL, nothing looked up -/
  | noRecursion
  | rung (r : Rung)
deriving DecidableEq, Repr

/-- `Cache.ServeDNS` after materialisation: the gates in front of the ladder, then the ladder. -/
def msgServe (q : Req) (isRoot : Bool) (l : Lookups) : MsgOut :=
  if !q.classKnown || !q.typeKnown then .drop
  else if !isRoot && !q.rd then .noRecursion
  else .rung (msgLadder q l)

inductive Commit where
  | ok | fallback | transportErr
deriving DecidableEq, Repr

/-- Everything a byte serve can run into, in the order the code checks it. -/
structure ServeFacts where
  internalWriter : Bool := false
  prefetchDue : Bool := false
  eligible : Bool := true
  writerReady : Bool := true      -- WireWriter ∧ WireReady ∧ WireBodyLeaser
  chaseSafe : Bool := true
  chaseCollected : Bool := true   -- collectWireChase
  fitsChain : Bool := true        -- wireChainMismatch == nil (body for this DO, size ceiling)
  limiterAllows : Bool := true    -- entry limiter nil or Allow()
  limited : Bool := false         -- the entry has a limiter
  leaseOK : Bool := true
  built : Bool := true
  sizeOK : Bool := true           -- post-composition size check (chase, cut)
  commit : Commit := .ok
deriving DecidableEq, Repr

inductive Out where
  | served (r : Rung)
  | dropped            -- limiter refused: cancelled, counted as a hit, nothing written
  | decline            -- the Msg body (or the worker replay) takes over
deriving DecidableEq, Repr

structure Step where
  out : Out
  /-- entry-limiter tokens this pass spent -/
  tokens : Nat
  /-- bytes reached the transport -/
  written : Bool
deriving DecidableEq, Repr

def commitStep (r : Rung) (tokens : Nat) : Commit → Step
  | .ok => { out := .served r, tokens := tokens, written := true }
  | .fallback => { out := .decline, tokens := tokens, written := false }
  | .transportErr => { out := .served r, tokens := tokens, written := true }

/-- `return false` with `t` limiter tokens already spent and nothing written. -/
def declineWith (t : Nat) : Step := { out := .decline, tokens := t, written := false }
/-- One early return of the Go code: `if !ok { return false }`, else continue with `k`. -/
def gate (t : Nat) (ok : Bool) (k : Step) : Step := if ok then k else declineWith t
/-- limiter refused: cancelled, counted as a hit, nothing written, nothing spent -/
def droppedStep : Step := { out := .dropped, tokens := 0, written := false }
/-- `Cache.chargeEntryLimiter`: refusal drops the query; otherwise the serve
continues having spent one token (none when the entry has no limiter). -/
def charge (s : ServeFacts) (k : Nat → Step) : Step :=
  if s.limited && !s.limiterAllows then droppedStep else k (if s.limited then 1 else 0)

/-- `Cache.serveChaseHit` (composition): every decline precedes the limiter charge. -/
def serveChaseHit (s : ServeFacts) : Step :=
  gate 0 s.chaseCollected <| gate 0 s.leaseOK <| gate 0 s.built <| gate 0 s.sizeOK <|
  charge s fun t => commitStep .exact t s.commit

/-- `Cache.serveHitFromWire` (flat copy; an alias without its terminal goes to `serveChaseHit`). -/
def serveHitFromWire (s : ServeFacts) : Step :=
  gate 0 (!s.internalWriter) <| gate 0 (!s.prefetchDue) <| gate 0 s.eligible <| gate 0 s.writerReady <|
  if !s.chaseSafe then serveChaseHit s
  else gate 0 s.fitsChain <| charge s fun t =>
    -- past the charge only commit-time backstops remain
    gate t s.leaseOK <| gate t s.built <| commitStep .exact t s.commit

/-- `Cache.serveCutHitFromWire`. -/
def serveCutHitFromWire (s : ServeFacts) : Step :=
  gate 0 (!s.internalWriter) <| gate 0 s.writerReady <| gate 0 s.fitsChain <| gate 0 s.leaseOK <|
  gate 0 s.built <| gate 0 s.sizeOK <| commitStep .cut 0 s.commit

/-- `Cache.serveFailureFromWire`. -/
def serveFailureFromWire (s : ServeFacts) : Step :=
  gate 0 (!s.internalWriter) <| gate 0 s.writerReady <| gate 0 s.leaseOK <| gate 0 s.built <|
  commitStep .failure 0 s.commit

/-- the failure rung's gate in `serveCompositeFromWire` -/
def failureServable (cd : Bool) (kind : FailKind) (l : Lookups) : Bool :=
  cd || ((kind == .question || l.denialImpossible) && l.witnessHolds)

/-- `Cache.serveCompositeFromWire`: cut (unless CD), then failure behind its witness gate. -/
def serveCompositeFromWire (q : Req) (l : Lookups) (s : ServeFacts) : Step :=
  if !q.cd && l.cutWire then serveCutHitFromWire s
  else match l.failureWire with
    | some kind => gate 0 (failureServable q.cd kind l) (serveFailureFromWire s)
    | none => declineWith 0

/-- `Cache.serveWire`. -/
def wireLadder (q : Req) (l : Lookups) (s : ServeFacts) : Step :=
  gate 0 (q.rd && !q.hasECS) <| gate 0 q.typeKnown <| gate 0 q.classKnown <|
  if l.exactHit then serveHitFromWire s else serveCompositeFromWire q l s

/-- Entry-limiter tokens the Msg body charges after the wire pass of the SAME
call declined (`handleCacheHit`: `limiter != spent`). -/
def msgBodyTokens (s : ServeFacts) (wireTokens : Nat) : Nat :=
  if s.limited ∧ wireTokens = 0 then 1 else 0

/-- `udpEngine.serveInline` terminal rule: a staged reply is terminal even
when a handler also marked handoff; otherwise the job is replayed iff the
chain marked handoff. Returns `true` when the job is handed to a worker. -/
def inlineReplays (written handoff : Bool) : Bool := !written && handoff

/-! ### TTL / AD shaping of a hit -/

/-- `uint32(remaining.Seconds())` for a positive duration in nanoseconds. -/
def ttlOf (remainingNs : Int) : Option Nat :=
  if remainingNs ≤ 0 then none else some (remainingNs / 1000000000).toNat

/-- `CacheEntry.serveWireIntoRequest`: every record gets the remaining TTL,
AD is cleared for a CD request. -/
def wireStamp (remainingNs : Int) (storedAD cd : Bool) (ttls : List Nat) : Option (List Nat × Bool) :=
  match ttlOf remainingNs with
  | none => none
  | some t => some (ttls.map (fun _ => t), if cd ∧ storedAD then false else storedAD)

/-- `CacheEntry.ToMsg`. -/
def msgStamp (remainingNs : Int) (storedAD cd : Bool) (ttls : List Nat) : Option (List Nat × Bool) :=
  match ttlOf remainingNs with
  | none => none
  | some t => some (ttls.map (fun _ => t), if cd then false else storedAD)

/-- the edns writer's AD discipline (`noad`), identical on `WriteWire` and `WriteMsg` -/
def ednsNoAD (cd reqAD clientDO : Bool) : Bool := cd || (!reqAD && !clientDO)
def ednsAD (noad ad : Bool) : Bool := if noad ∧ ad then false else ad

/-! ### Handler branches that exist twice: edns -/

inductive Proto where
  | udp | tcp | other   -- other = doh / doq
deriving DecidableEq, Repr

def MinMsgSize : Nat := 512
def DefaultMsgSize : Nat := 1232
def MaxMsgSize : Nat := 65535

/-- the fields of `edns.ResponseWriter` both branches fill -/
structure WriterFacts where
  size : Nat
  dnssecOK : Bool
  noedns : Bool
  nsidAsked : Bool
  keepalive : Bool
  noad : Bool
  respUDPSize : Nat
  /-- client cookie half ([] = none) -/
  cookie : Bytes
deriving DecidableEq, Repr

inductive EdnsOut where
  | next (w : WriterFacts)
  | notimp
  | badvers
deriving DecidableEq, Repr

/-- `EDNS.ServeDNS` entry test: the wire branch serves plain queries without OPT or with EDNS version 0. -/
def ednsWireBranch (f : Facts) : Bool :=
  (f.flags >>> 11) &&& 0xF == 0 && (f.opt.isNone || (f.opt.map (·.version)).getD 0 == 0)

def protoSize (p : Proto) (size : Nat) : Nat :=
  match p with
  | .udp => size
  | _ => MaxMsgSize

/-- `EDNS.serveWire`: every fact from the wire-parsed OPT. -/
def ednsWire (f : Facts) (p : Proto) : EdnsOut :=
  let o := f.opt.getD {}
  let noedns := f.opt.isNone
  let size := min (max o.udpSize MinMsgSize) DefaultMsgSize
  let size := protoSize p size
  let size := if noedns then MinMsgSize else size
  let cd := decide (f.flags &&& 0x0010 ≠ 0)
  let ad := decide (f.flags &&& 0x0020 ≠ 0)
  .next { size := size, dnssecOK := o.dnssecOK, noedns := noedns, nsidAsked := o.hasNSID,
          keepalive := o.hasKeepalive && decide (p = .tcp), noad := cd || (!ad && !o.dnssecOK),
          respUDPSize := DefaultMsgSize, cookie := if o.cookie.length ≥ 8 then o.cookie.take 8 else [] }

/-- What the decoded request looks like to `SetEdns0` / the decoded body. -/
structure DReq where
  opcode : Nat
  cd : Bool
  ad : Bool
  hasOPT : Bool
  udpSize : Nat
  version : Nat
  dnssecOK : Bool
  /-- payloads of the cookie options, in packet order -/
  cookies : List Bytes
  nsid : Bool
  keepalive : Bool
deriving DecidableEq, Repr

/-- `dnsutil.SetEdns0`'s cookie loop: the last cookie of at least 8 octets wins, its client half is kept. -/
def setEdns0Cookie : List Bytes → Bytes → Bytes
  | [], acc => acc
  | c :: t, acc => setEdns0Cookie t (if c.length ≥ 8 then c.take 8 else acc)

/-- `EDNS.ServeDNS` decoded body (`SetEdns0`, BADVERS, transport sizes, AD discipline). -/
def ednsMsg (r : DReq) (p : Proto) : EdnsOut :=
  if r.opcode > 0 then .notimp else
  let noedns := !r.hasOPT
  -- SetEdns0
  let size := if r.hasOPT then min (max r.udpSize MinMsgSize) DefaultMsgSize else DefaultMsgSize
  let cookie := if r.hasOPT then setEdns0Cookie r.cookies [] else []
  let nsid := r.hasOPT && r.nsid
  let dok := r.hasOPT && r.dnssecOK
  if r.hasOPT ∧ r.version ≠ 0 then .badvers else
  let size := protoSize p size
  let size := if noedns then MinMsgSize else size
  .next { size := size, dnssecOK := dok, noedns := noedns, nsidAsked := nsid,
          keepalive := (r.hasOPT && r.keepalive) && decide (p = .tcp), noad := r.cd || (!r.ad && !dok),
          respUDPSize := DefaultMsgSize, cookie := cookie }

def cookiePayloads : List SOption → List Bytes
  | [] => []
  | o :: t => if o.code = 10 then o.data :: cookiePayloads t else cookiePayloads t

/-- the decoded request of a specification message (what the DNS library hands the handler) -/
def dreqOf (m : SMsg) : DReq :=
  match m.opt with
  | none => { opcode := (m.flags >>> 11) % 2 ^ 4, cd := m.flags.testBit 4, ad := m.flags.testBit 5, hasOPT := false,
              udpSize := 0, version := 0, dnssecOK := false, cookies := [], nsid := false, keepalive := false }
  | some o => { opcode := (m.flags >>> 11) % 2 ^ 4, cd := m.flags.testBit 4, ad := m.flags.testBit 5, hasOPT := true,
                udpSize := o.udpSize, version := o.version, dnssecOK := decide (o.zflags / 2 ^ 15 % 2 = 1),
                cookies := cookiePayloads o.options, nsid := o.options.any (fun x => x.code == 3),
                keepalive := o.options.any (fun x => x.code == 11) }

/-- the same, read back from strict-path facts (at most one cookie, see `parseWire_refines_spec`) -/
def dreqOfFacts (f : Facts) : DReq :=
  let o := f.opt.getD {}
  { opcode := (f.flags >>> 11) % 2 ^ 4, cd := f.flags.testBit 4, ad := f.flags.testBit 5, hasOPT := f.opt.isSome,
    udpSize := o.udpSize, version := o.version, dnssecOK := o.dnssecOK,
    cookies := if o.cookie = [] then [] else [o.cookie], nsid := o.hasNSID, keepalive := o.hasKeepalive }

/-- `EDNS.ServeDNS` for a wire-born request. -/
def ednsServeWireBorn (f : Facts) (p : Proto) : EdnsOut :=
  if ednsWireBranch f then ednsWire f p else ednsMsg (dreqOfFacts f) p

/-! ### ratelimit -/

inductive Half where
  | none | good | bad
deriving DecidableEq, Repr

structure RLState where
  /-- the client cookie whose server cookie the limiter remembers -/
  cached : Option Nat := none
  tokens : Nat := 0
deriving DecidableEq, Repr

structure RLIn where
  udp : Bool
  /-- cookie option: client cookie id and which server half came with it -/
  ck : Option (Nat × Half)
  replay : Bool := false
  /-- rate 0, internal writer or loopback source: the limiter does not apply -/
  exempt : Bool := false
  /-- the OPT carries an EDNS version other than 0: cookies are an EDNS(0) option, the
  query skips the cookie exchange, pays its token and is left to edns (BADVERS) -/
  otherVersion : Bool := false
deriving DecidableEq, Repr

inductive RLOut where
  | next | drop | badcookie
deriving DecidableEq, Repr

/-- `l.rl.Allow()` -/
def rlAllow (s : RLState) : Option RLState :=
  if s.tokens = 0 then none else some { s with tokens := s.tokens - 1 }

/-- the full cookie sent equals the remembered server cookie -/
def cookieMatches (s : RLState) (cid : Nat) (h : Half) : Bool :=
  s.cached == some cid && h == Half.good

/-- `RateLimit.ServeDNS`, decoded body. -/
def rlMsg (s : RLState) (i : RLIn) : RLState × RLOut :=
  if i.replay then (s, .next) else
  if i.exempt then (s, .next) else
  match (if i.otherVersion then none else i.ck) with
  | some (cid, h) =>
    if s.cached.isNone || cookieMatches s cid h then ({ s with cached := some cid }, .next)
    else if i.udp then
      match rlAllow s with
      | none => (s, .drop)
      | some s' => ({ s' with cached := some cid }, .badcookie)
    else
      -- falls out of the option loop to the plain limiter; the server cookie is stored after Next
      match rlAllow s with
      | none => (s, .drop)
      | some s' => ({ s' with cached := some cid }, .next)
  | none =>
    match rlAllow s with
    | none => (s, .drop)
    | some s' => (s', .next)

/-- `RateLimit.serveWire` (behind the same replay / exemption gates of `ServeDNS`). -/
def rlWire (s : RLState) (i : RLIn) : RLState × RLOut :=
  if i.replay then (s, .next) else
  if i.exempt then (s, .next) else
  match (if i.otherVersion then none else i.ck) with
  | some (cid, h) =>
    if s.cached.isNone || cookieMatches s cid h then ({ s with cached := some cid }, .next)
    else if i.udp then
      -- materializes for the BADCOOKIE reply
      match rlAllow s with
      | none => (s, .drop)
      | some s' => ({ s' with cached := some cid }, .badcookie)
    else
      match rlAllow s with
      | none => (s, .drop)
      | some s' => ({ s' with cached := some cid }, .next)
  | none =>
    match rlAllow s with
    | none => (s, .drop)
    | some s' => (s', .next)

def rlRun (step : RLState → RLIn → RLState × RLOut) : RLState → List RLIn → RLState × List RLOut
  | s, [] => (s, [])
  | s, i :: t =>
    let (s', o) := step s i
    let (s'', os) := rlRun step s' t
    (s'', o :: os)

/-! ### as112 (names = lower-cased labels, most specific first) -/

inductive ASOut where
  | next
  /-- authoritative reply: NOERROR iff the name is the zone apex -/
  | reply (whole : Bool) (zone : List String)
deriving DecidableEq, Repr

/-- first suffix of the name (from index `i` on) that is a configured zone -/
def findZone (zones : List (List String)) : Nat → List String → Option (Nat × List String)
  | _, [] => none
  | i, l@(_ :: t) => if l ∈ zones then some (i, l) else findZone zones (i + 1) t

/-- the decoded body's string-level pre-check `EqualFold(name[n-5:], "arpa.")` on the last label -/
def endsArpa (s : String) : Bool := s.toList.reverse.take 4 == ['a', 'p', 'r', 'a']

/-- `AS112.ServeDNS` decoded body with `AS112.Match` (DS strips the owner label). -/
def asMsg (zones : List (List String)) (labels : List String) (qtype : Nat) : ASOut :=
  -- the string-level pre-check: the name ends in "arpa."
  if !(endsArpa (labels.getLast?.getD "")) then .next else
  let probe : Option (List String) :=
    if qtype = 43 then (match labels with | [] => none | [_] => none | _ :: t => some t) else some labels
  match probe with
  | none => .next
  | some ls =>
    match findZone zones 0 ls with
    | none => .next
    | some (_, z) => .reply (z == labels) z

/-- `AS112.serveWire` behind `wireNameHasArpaSuffix`. -/
def asWire (zones : List (List String)) (labels : List String) (qtype : Nat) : ASOut :=
  if labels.getLast? ≠ some "arpa" then .next else
  let start := if qtype = 43 then 1 else 0
  if qtype = 43 ∧ labels.length < 2 then .next else
  match findZone zones start (labels.drop start) with
  | none => .next
  | some (i, z) => .reply (i == 0 && start == 0) z

/-! ### header word of a byte-served reply vs the decoded reply -/

/-- `serveWireIntoRequest`: `ApplyReply` on the stored word, AD cleared for a
CD request; second component = `WireInfo.AuthenticatedData`. -/
def wireHitFlags (stored : Nat) (rd cd : Bool) : Nat × Bool :=
  let w := applyReply stored 0 rd cd
  let ad := decide (stored &&& FlagAD ≠ 0)
  if cd && ad then (clearAD w, false) else (w, ad)

/-- `nxDomainCutEntry.serveWireInto` over the (all-zero) template header. -/
def wireCutFlags (rd cd : Bool) : Nat × Bool :=
  (setAD (setRA (setRcode (applyReply 0 0 rd cd) 3)), true)

/-- `serveFailureFromWire`: the header is zeroed in the lease first, whatever the slab held. -/
def wireFailureFlags (staleLeaseWord : Nat) (rd cd : Bool) : Nat × Bool :=
  let zeroed := staleLeaseWord * 0
  (setRA (setRcode (applyReply zeroed 0 rd cd) 2), false)

/-- `edns.ResponseWriter.WriteWire`: `if w.noad && info.AuthenticatedData { ClearAD }`. -/
def ednsWriteWireFlags (noad : Bool) (p : Nat × Bool) : Nat :=
  if noad && p.2 then clearAD p.1 else p.1

/-- `ToMsg` (SetReply, AA off, AD off for CD) then `edns.WriteMsg` (`noad`). -/
def msgHitFlags (stored : Nat) (rd cd noad : Bool) : Nat :=
  ({ setReplyMsg (Hdr.decode stored) 0 rd cd with ad := (Hdr.decode stored).ad && !cd && !noad } : Hdr).encode

/-- `nxDomainCutEntry.response` then `edns.WriteMsg`. -/
def msgCutFlags (rd noad : Bool) : Nat :=
  ({ qr := true, opcode := 0, aa := false, tc := false, rd := rd, ra := true, z := false, ad := !noad, cd := false,
     rcode := 3 } : Hdr).encode

/-- `FailureHit.Response` then `edns.WriteMsg`. -/
def msgFailureFlags (rd cd : Bool) : Nat :=
  ({ qr := true, opcode := 0, aa := false, tc := false, rd := rd, ra := true, z := false, ad := false, cd := cd,
     rcode := 2 } : Hdr).encode

/-! ### the cache-contained alias chase (`entry_wire_chase.go`) -/

inductive HopKind where
  | cname | terminal | nxdomain | nodata | baggage | missing
deriving DecidableEq, Repr

/-- One cached entry on the alias path (name id = position in the cache list, id 0 = the question name). -/
structure Hop where
  kind : HopKind
  /-- AD bit of the stored header -/
  ad : Bool
  /-- entry lifetime in seconds -/
  ttl : Nat
  /-- name id the alias points to -/
  target : Nat
deriving DecidableEq, Repr

def maxWireChaseHops : Nat := 10

/-- `wireRecomposable`: the record types the composer re-encodes — CNAME and SOA are
rewritten name by name, the others are copied verbatim, which is sound only because
their RDATA is name-free or never compressed by the packer. -/
def recomposableTypes : List Nat := [1, 5, 6, 16, 28, 43, 46, 47, 50]

/-- `Server.serveWire` / `ServeRawInline` / `ServeRawReplay` / `serveMsgBy`: a packet whose
query budget (read time + query timeout) has run out is dropped before the chain runs. -/
def budgetExhausted (ageMs timeoutMs : Nat) : Bool := decide (timeoutMs ≤ ageMs)

/-- `Cache.collectWireChase`: the ids of the hops used, in chain order; `none` =
some hop was not cache-contained in composable form. `qtOK` = the terminal
record's type is one the composer re-encodes; `el` = age in milliseconds. -/
def walkChase (cache : List Hop) (qtOK : Bool) (el : Nat) : Nat → Nat → List Nat → List Nat → Option (List Nat)
  | 0, _, _, _ => none
  | fuel + 1, cur, visited, acc =>
    if acc.length ≥ maxWireChaseHops then none else
    match cache[cur]? with
    | none => none
    | some h =>
      if h.ttl * 1000 ≤ el then none else
      match h.kind with
      | .terminal => if qtOK then some (acc ++ [cur]) else none
      | .cname =>
        -- an alias back at the question, or at a target already followed, is the Msg path's business
        if h.target = 0 then none
        else if h.target ∈ visited then none
        else walkChase cache qtOK el fuel h.target (visited ++ [h.target]) (acc ++ [cur])
      | _ => none

structure ChaseReply where
  hops : Nat
  /-- AD bit of the composed body -/
  ad : Bool
  /-- `WireInfo.AuthenticatedData` -/
  infoAD : Bool
  /-- TTL stamped on each hop's records -/
  ttls : List Nat
deriving DecidableEq, Repr

/-- `composeWireChase`: the alias header is copied, AD is the conjunction over
the segments (`if !ad { ClearAD }`), cleared for a CD request; every segment's
records get that segment's remaining lifetime. -/
def composeChase (cache : List Hop) (el : Nat) (cd : Bool) (ids : List Nat) : ChaseReply :=
  let segs := ids.filterMap (cache[·]?)
  let ad := segs.all (·.ad)
  let bodyAD := (segs.head?.map (·.ad)).getD false      -- copied alias header
  let bodyAD := if !ad then false else bodyAD
  let bodyAD := if cd && ad then false else bodyAD
  { hops := ids.length, ad := bodyAD, infoAD := if cd && ad then false else ad,
    ttls := segs.map (fun h => (h.ttl * 1000 - el) / 1000) }

/-- `Cache.serveChaseHit` up to the lease: walk from the alias (id 0), then compose. -/
def wireChase (cache : List Hop) (qtOK : Bool) (el : Nat) (cd : Bool) : Option ChaseReply :=
  (walkChase cache qtOK el (maxWireChaseHops + 1) 0 [] []).map (composeChase cache el cd)

/-- what the decoded chase (`additionalAnswer` through the sub-pipeline, each hop a
`ToMsg` of its own entry, AD AND-ed hop by hop, off for CD) answers over the same hops -/
def msgChase (cache : List Hop) (el : Nat) (cd : Bool) (ids : List Nat) : Bool × List Nat :=
  let segs := ids.filterMap (cache[·]?)
  (segs.foldl (fun acc h => acc && h.ad) true && !cd, segs.map (fun h => (h.ttl * 1000 - el) / 1000))

/-! ### which proof a cut serves -/

/-- `nxDomainCutEntry.serveWireInto` / `serveCutHitFromWire`: the full (signed) template
for a DO client and for an explicit RRSIG question, the DNSSEC-stripped one otherwise. -/
def cutWireFull (clientDO : Bool) (qtype : Nat) : Bool := clientDO || qtype == 46

/-- `nxDomainCutEntry.response` then `edns.WriteMsg`: `ClearDNSSEC` runs for a DO=0
client — and leaves an explicit RRSIG question alone. -/
def cutMsgFull (clientDO : Bool) (qtype : Nat) : Bool :=
  let strippedByResponse := !clientDO && qtype != 46
  let strippedByEdns := !clientDO && qtype != 46      -- dnsutil.ClearDNSSEC's own RRSIG exemption
  !(strippedByResponse || strippedByEdns)

/-! ### entry-limiter tokens across the inline pass and the worker replay -/

/-- Tokens one client question costs when it arrives on the inline pass: what the
byte pass spent, plus — when it declined and the worker replays the query through the
decoded body, which cannot see the inline pass's `spent` memo — the decoded body's own
charge (one token whenever the entry has a limiter). -/
def inlineReplayTokens (s : ServeFacts) : Nat :=
  let st := serveHitFromWire s
  match st.out with
  | .decline => st.tokens + (if s.limited then 1 else 0)
  | _ => st.tokens

/-- Tokens the same question costs on the decoded ingress (`handleCacheHit`). -/
def decodedIngressTokens (s : ServeFacts) : Nat := if s.limited && s.limiterAllows then 1 else 0

/-! ### ancestor walks of the cut / failure / witness lookups -/

/-- `walkWireSuffixes`: every suffix of the uncompressed wire name handed to the visitor,
from the full name down to the root octet; a malformed length octet ends the walk. -/
def walkWireSuffixes : Nat → Bytes → List Bytes
  | 0, _ => []
  | _ + 1, [] => []
  | fuel + 1, c :: t =>
    (c :: t) :: (if c = 0 ∨ c > 63 ∨ t.length < c then [] else walkWireSuffixes fuel (t.drop c))

/-- `walkFailureZones` / `denialProofAncestors` on the decoded side: the name, each
parent, the root last. -/
def decodedAncestors : List Bytes → List (List Bytes)
  | [] => [[]]
  | l :: t => (l :: t) :: decodedAncestors t

/-! ### the engines' header gate (`server/udp_engine.go`, shared by the ring path, the
inline reader pass and the TCP engine) -/

/-- `acceptHeader`: 0 accept, 1 ignore (no reply), 2 NOTIMP, 3 FORMERR. -/
def acceptVerdict (flags qd an ns ar : Nat) : Nat :=
  if flags &&& 0x8000 ≠ 0 then 1
  else if (flags >>> 11) &&& 0xF ≠ 0 ∧ (flags >>> 11) &&& 0xF ≠ 4 then 2
  else if qd ≠ 1 ∨ an > 1 ∨ ns > 1 ∨ ar > 2 then 3
  else 0

/-- `rejectInPlace`: rcode of the bare-header rejection (opcode echoed, QR set). -/
def rejectRcode (verdict : Nat) : Nat := if verdict = 2 then 4 else 1

/-! ### hostsfile (`middleware/hostsfile/hostsfile.go`; labels = the question name as the client spelled it) -/

abbrev Str := List Char

def lowerChar (c : Char) : Char := if 'A' ≤ c ∧ c ≤ 'Z' then Char.ofNat (c.toNat + 32) else c

def joinDots : List Str → Str
  | [] => []
  | [l] => l
  | l :: t => l ++ '.' :: joinDots t

/-- presentation form (escape-free labels): labels joined by dots, trailing dot; the root is "." -/
def present (labels : List Str) : Str := if labels = [] then ['.'] else joinDots labels ++ ['.']

/-- `lookupKey` (decoded body): drop the trailing dot, lower ASCII A–Z. -/
def lookupKey (name : Str) : Str :=
  let n := if name.getLast? = some '.' then name.dropLast else name
  n.map lowerChar

/-- `dnsname.AppendFoldedKey` (wire body): every label lowered, dots between, no trailing dot. -/
def foldedKey (labels : List Str) : Str := joinDots (labels.map (·.map lowerChar))

structure HostEntry where
  key : Str
  a : Bool
  aaaa : Bool
  cname : Bool
deriving DecidableEq, Repr

structure Wildcard where
  /-- the pattern without its leading "*." -/
  suffix : Str
  v4 : Bool
  v6 : Bool
deriving DecidableEq, Repr

structure HostsDB where
  hosts : List HostEntry
  wildcards : List Wildcard
  /-- reverse names (exact spelling the case-sensitive reverse-IP parser accepts) that have PTRs -/
  ptrs : List Str
deriving DecidableEq, Repr

inductive HostsOut where
  | next
  /-- authoritative NOERROR reply with these answer types ([] = NODATA) -/
  | reply (types : List Nat)
deriving DecidableEq, Repr

/-- `matchWildcard "*.suffix" name` -/
def matchWildcard (suffix name : Str) : Bool :=
  name == suffix || (('.' :: suffix).isSuffixOf name)

/-- `lookupKeyed`: the database decision both bodies share, from a folded key. -/
def lookupKeyed (db : HostsDB) (key : Str) (qtype : Nat) : HostsOut :=
  let entry := db.hosts.find? (·.key == key)
  if qtype = 1 then
    if (entry.map (·.a)).getD false then .reply [1]
    else if db.wildcards.any (fun w => matchWildcard w.suffix key && w.v4) then .reply [1] else .next
  else if qtype = 28 then
    if (entry.map (·.aaaa)).getD false then .reply [28]
    else if db.wildcards.any (fun w => matchWildcard w.suffix key && w.v6) then .reply [28] else .next
  else if qtype = 5 then
    if (entry.map (·.cname)).getD false then .reply [5] else .next
  else
    if entry.isSome then .reply []
    else if db.wildcards.any (fun w => matchWildcard w.suffix key) then .reply [] else .next

/-- `lookupPTR`: the reverse-IP parser reads the spelling it is given. -/
def lookupPTR (db : HostsDB) (name : Str) : HostsOut := if db.ptrs.contains name then .reply [12] else .next

/-- `Hostsfile.ServeDNS`, decoded body: `lookup(db, q.Name, q.Qtype)`. -/
def hostsMsg (db : HostsDB) (labels : List Str) (qtype : Nat) : HostsOut :=
  if qtype = 12 then lookupPTR db (present labels) else lookupKeyed db (lookupKey (present labels)) qtype

/-- `Hostsfile.serveWire`: PTR keeps the client's spelling, everything else the folded key. -/
def hostsWire (db : HostsDB) (labels : List Str) (qtype : Nat) : HostsOut :=
  if qtype = 12 then lookupPTR db (present labels) else lookupKeyed db (foldedKey labels) qtype

/-! ### what the decoded continuation of a request sees (`Request.materialize`,
`Chain.detachStrictContext`, `dnsutil.SetEdns0` with ECS forwarding off) -/

/-- The request as the handler behind edns reads it after `Chain.Materialize`, and the
request-tree marker on its context. -/
structure Continuation where
  /-- `middleware.HasClientECS(ctx)`: the client sent a client-subnet option -/
  ecsMarker : Bool
  id : Nat
  flags : Nat
  labels : List Bytes
  qtype : Nat
  qclass : Nat
  -- the normalized OPT every continuation carries: one OPT, advertised size, DO forced, no client option
  optUDPSize : Nat
  optDO : Bool
  optVersion : Nat
  optOptions : Nat
deriving DecidableEq, Repr

inductive ContOut where
  | seen (c : Continuation)
  | notimp
  | badvers
deriving DecidableEq, Repr

def normalized (ecs : Bool) (id flags : Nat) (labels : List Bytes) (qtype qclass : Nat) : Continuation :=
  { ecsMarker := ecs, id := id, flags := flags, labels := labels, qtype := qtype, qclass := qclass,
    optUDPSize := DefaultMsgSize, optDO := true, optVersion := 0, optOptions := 0 }

/-- message-born request: `EDNS.ServeDNS` decoded body marks client ECS from the message, `SetEdns0`
rewrites the OPT in place, the next handler reads that message. -/
def contMsg (m : SMsg) : ContOut :=
  if (m.flags >>> 11) % 2 ^ 4 > 0 then .notimp else
  match m.opt with
  | none => .seen (normalized false m.id m.flags m.labels m.qtype m.qclass)
  | some o =>
    if o.version ≠ 0 then .badvers
    else .seen (normalized (o.options.any (fun x => x.code == 8)) m.id m.flags m.labels m.qtype m.qclass)

/-- wire-born request: the edns wire branch marks client ECS from the parsed facts and records the
normalization; `Chain.Materialize` decodes the packet, applies it, and `detachStrictContext` carries
the marker onto the detached context. -/
def contWire (f : Facts) : ContOut :=
  if ednsWireBranch f then
    .seen (normalized ((f.opt.map (·.hasECS)).getD false) f.id f.flags f.labels f.qtype f.qclass)
  else if (f.flags >>> 11) % 2 ^ 4 > 0 then .notimp
  else .badvers

end SdnsVerif.Model.WirePath
