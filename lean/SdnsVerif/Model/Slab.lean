/-
Model of the per-request storage protocol of the owned transports
(/repo/server/udp_engine.go, udp_batch_linux.go, udp_tx.go, tcp_engine.go,
tcp_stream.go, slab_cache.go), of the body lease
(/repo/middleware/wire_response.go BeginWire, /repo/internal/wire/pack.go
TryPack), of the chain rebinding (/repo/middleware/chain.go Reset / ResetWire /
Finish, response_writer.go Reset) and of the shared upstream lookup
(/repo/middleware/resolver/resolver.go groupLookup).  Core Lean only.

Buffers are byte lists that keep their previous contents (the slab is never
zeroed); lengths and flags are the fields the code keeps beside them.  A
handler is a function of the request bytes only.
-/
namespace SdnsVerif.Model.Slab

abbrev Bytes := List UInt8

/-- Buffer classes (`udpJobBufSize`, `udpTXMax`, `tcpJobBufSize`,
`tcpSmallFrame`, `tcpSmallReply`, `tcpDrainSize`, `minTCPFrame`); read from
the compiled code by the driver (Gen facts), arbitrary in the theorems. -/
structure Sizes where
  udpBuf : Nat := 4096
  udpBatch : Nat := 16
  udpTxMax : Nat := 16
  tcpBuf : Nat := 65535
  tcpSmallRx : Nat := 2048
  tcpSmallTx : Nat := 16382
  tcpDrain : Nat := 8192
  tcpMinFrame : Nat := 12
deriving Repr

/-! ### header admission (`acceptHeader`, `rejectInPlace`) -/

inductive Verdict | ok | ignore | notimp | formerr
deriving Repr, DecidableEq

def byteAt (b : Bytes) (i : Nat) : UInt8 := b.getD i 0
def be16 (b : Bytes) (i : Nat) : Nat := (byteAt b i).toNat * 256 + (byteAt b (i + 1)).toNat

/-- `wire.ParseHeader` + `acceptHeader`; `none` = shorter than a header. -/
def acceptHeader (raw : Bytes) : Option Verdict :=
  if raw.length < 12 then none else
  let f := (byteAt raw 2).toNat
  let opcode := (f / 8) % 16
  if f ≥ 128 then some .ignore
  else if opcode ≠ 0 ∧ opcode ≠ 4 then some .notimp
  else if be16 raw 4 ≠ 1 ∨ be16 raw 6 > 1 ∨ be16 raw 8 > 1 ∨ be16 raw 10 > 2 then some .formerr
  else some .ok

/-- `rejectInPlace`: the bare header, id / opcode / RD echoed. -/
def rejectBytes (raw : Bytes) (notimp : Bool) : Bytes :=
  let f := (byteAt raw 2).toNat
  let opcode := (f / 8) % 16
  [byteAt raw 0, byteAt raw 1, UInt8.ofNat (128 + opcode * 8 + f % 2), if notimp then 4 else 1,
   0, 0, 0, 0, 0, 0, 0, 0]

/-! ### handlers -/

inductive Entry | raw | inline | replay
deriving Repr, DecidableEq

/-- What a handler does with the transport, as a function of the request. -/
inductive Act
  | none                       -- returns true, writes nothing (dropped, cancelled)
  | write (b : Bytes)          -- `Write` of bytes that live elsewhere
  | lease (b : Bytes)          -- `LeaseWire`, build in place, `Write` of the lease
  | panic                      -- panics before any write
  | decline                    -- returns false, nothing written
  | leaseAbandon (b : Bytes)   -- builds in the lease, never commits
  | writePanic (b : Bytes)     -- writes, then panics
  | writeMsg (b : Bytes)       -- `WriteMsg`: packs into the job's own buffer, then `Write`
  | writeMsgU (b : Bytes) (ulen : Nat)  -- `WriteMsg` of a compressible message: `PackBuffer` picks the buffer by the
                                        -- UNCOMPRESSED length `ulen`, the packed bytes `b` may be much shorter
deriving Repr, DecidableEq

abbrev Handler := Bytes → Entry → Act

def Entry.code : Entry → UInt8
  | .raw => 0 | .inline => 1 | .replay => 2

def replicate (n : Nat) (b : Bytes) : Bytes :=
  match n with
  | 0 => []
  | n + 1 => b ++ replicate n b

/-- what miekg packs for the scripted `WriteMsg` kind: a header with
`raw[13]` answers `x. 60 IN TXT <255 × fill>` (no compression) -/
def progMsgBytes (raw : Bytes) : Bytes :=
  let k := (byteAt raw 13).toNat
  let fill : UInt8 := UInt8.ofNat (97 + (if raw.length > 14 then (byteAt raw 14).toNat % 26 else 0))
  let rr : Bytes := [1, 120, 0, 0, 16, 0, 1, 0, 0, 0, 60, 1, 0, 255] ++ List.replicate 255 fill
  [byteAt raw 0, byteAt raw 1, 128, 0, 0, 0, UInt8.ofNat (k / 256), UInt8.ofNat (k % 256), 0, 0, 0, 0] ++
    replicate k rr

/-- the compressible scripted `WriteMsg` kind: `raw[13]` A records under one
50-octet owner label; every owner after the first is a pointer to offset 12 -/
def progMsgCBytes (raw : Bytes) : Bytes :=
  let k := (byteAt raw 13).toNat
  let fill : UInt8 := if raw.length > 14 then byteAt raw 14 else 0
  let tail := fun (i : Nat) => ([0, 1, 0, 1, 0, 0, 0, 60, 0, 4, 10, UInt8.ofNat i, fill, 7] : Bytes)
  let owner : Bytes := [50] ++ List.replicate 50 113 ++ [0]
  [byteAt raw 0, byteAt raw 1, 128, 0, 0, 0, UInt8.ofNat (k / 256), UInt8.ofNat (k % 256), 0, 0, 0, 0] ++
    (List.range k).flatMap fun i => (if i = 0 then owner else [192, 12]) ++ tail i

/-- the scripted handler of harness/c10/script.go -/
def program : Handler := fun raw e =>
  if raw.length < 14 then .none else
  let kind := (byteAt raw 12).toNat % 10
  let reply : Bytes := [byteAt raw 0, byteAt raw 1, UInt8.ofNat (128 + kind), e.code] ++
    replicate (byteAt raw 13).toNat (raw.drop 14)
  match kind with
  | 0 => .none
  | 1 => .write reply
  | 2 => .lease reply
  | 3 => .panic
  | 4 => .decline
  | 5 => if e = .inline then .decline else .write reply
  | 6 => .leaseAbandon reply
  | 7 => .writePanic reply
  | 8 => .writeMsg (progMsgBytes raw)
  | _ => .writeMsgU (progMsgCBytes raw) (12 + 66 * (byteAt raw 13).toNat)

/-! ### the UDP job slab -/

inductive JState | free | reading | queued | serving
deriving Repr, DecidableEq

/-- `udpJob`: the fields that carry per-request data. Addresses are opaque
naturals. -/
structure UdpJob where
  state : JState := .free
  rx : Bytes := []
  rxLen : Nat := 0
  tx : Bytes := []
  raddr : Nat := 0
  rawSA : Nat := 0
  rawSALen : Nat := 0
  pktinfo : Bytes := []
  pktinfoLen : Nat := 0
  txLen : Nat := 0
  burst : Bool := false
  written : Bool := false
  replay : Bool := false
deriving Repr, DecidableEq

/-- one datagram leaving the process -/
structure Datagram where
  dest : Nat
  ctl : Bytes
  body : Bytes
deriving Repr, DecidableEq

/-- a buffer after `copy(buf, b)` / the kernel writing `b` at its start -/
def overlay (buf b : Bytes) : Bytes := b ++ buf.drop b.length

/-- `udpJob.release`: the scrub. -/
def UdpJob.release (j : UdpJob) : UdpJob :=
  { j with state := .free, written := false, rxLen := 0, pktinfoLen := 0, txLen := 0, replay := false }

/-- what the two readers store for a received datagram
(`udpBatchReader.finishRecv` / `udpEngine.reader`). `ctl` is the prepared
pktinfo control message of a wildcard bind (empty on a specific bind). -/
def UdpJob.fill (j : UdpJob) (batch : Bool) (pkt : Bytes) (src : Nat) (ctl : Bytes) : UdpJob :=
  { j with rx := overlay j.rx pkt, rxLen := pkt.length, raddr := src,
           rawSA := if batch then src else j.rawSA,
           rawSALen := if batch then 16 else 0,
           pktinfo := overlay j.pktinfo ctl, pktinfoLen := ctl.length }

/-- where a staged reply goes: `sendGroup` uses the raw sockaddr when one was
armed for this read and `sendDirect` (the netip view) otherwise. -/
def UdpJob.dest (j : UdpJob) : Nat := if j.rawSALen = 0 then j.raddr else j.rawSA

def UdpJob.datagram (j : UdpJob) (body : Bytes) : Datagram :=
  { dest := j.dest, ctl := j.pktinfo.take j.pktinfoLen, body := body }

/-- `udpJob.Write`. With a burst attached the reply is staged in `tx`
(copied unless it already lives there); without one it is sent at once to
`raddr`. -/
def UdpJob.write (sz : Sizes) (j : UdpJob) (b : Bytes) (inPlace : Bool) : UdpJob × List Datagram :=
  let j := { j with written := true }
  if b.length > sz.udpBuf then (j, [])
  else if j.burst then
    ({ j with tx := if inPlace then j.tx else overlay j.tx b, txLen := b.length }, [])
  else (j, [{ dest := j.raddr, ctl := j.pktinfo.take j.pktinfoLen, body := b }])

/-- `udpJob.LeaseWire` + the caller building `b` in the lease: the bytes land
at the start of `tx`. `none` = the lease was declined. -/
def UdpJob.buildInLease (sz : Sizes) (j : UdpJob) (b : Bytes) : Option UdpJob :=
  if b.length > sz.udpBuf then none else some { j with tx := overlay j.tx b }

/-- the transport-side effect of a handler action; the Bool is the handler's
return value (`false` = undecodable / decline). -/
def UdpJob.act (sz : Sizes) (j : UdpJob) : Act → UdpJob × List Datagram × Bool
  | .none => (j, [], true)
  | .write b => let (j, o) := j.write sz b false; (j, o, true)
  | .lease b =>
    match j.buildInLease sz b with
    | some j' => let (j', o) := j'.write sz b true; (j', o, true)
    | none => let (j, o) := j.write sz b false; (j, o, true)
  | .panic => (j, [], true)
  | .decline => (j, [], false)
  | .leaseAbandon b =>
    match j.buildInLease sz b with
    | some j' => (j', [], true)
    | none => (j, [], true)
  | .writePanic b => let (j, o) := j.write sz b false; (j, o, true)
  | .writeMsg b =>
    -- PackBuffer(j.tx[:]) packs into tx when it fits, then Write of that slice
    if b.length ≤ sz.udpBuf then
      let (j', o) := ({ j with tx := overlay j.tx b }).write sz b true; (j', o, true)
    else let (j, o) := j.write sz b false; (j, o, true)
  | .writeMsgU b ulen =>
    -- packed in place only when the UNCOMPRESSED form fits `tx`; otherwise PackBuffer's own
    -- buffer is handed to Write, which copies it in
    if ulen ≤ sz.udpBuf ∧ b.length ≤ sz.udpBuf then
      let (j', o) := ({ j with tx := overlay j.tx b }).write sz b true; (j', o, true)
    else let (j, o) := j.write sz b false; (j, o, true)

/-- body of `udpEngine.serve` / `serveInline` between the transition and the
deferred epilogue: header verdict, handler, in-place rejection. -/
def UdpJob.serveBody (sz : Sizes) (h : Handler) (j : UdpJob) (e : Entry) : UdpJob × List Datagram × Bool :=
  let raw := j.rx.take j.rxLen
  match acceptHeader raw with
  | none => (j, [], true)
  | some .ignore => (j, [], true)
  | some .notimp => let (j, o) := j.write sz (rejectBytes raw true) false; (j, o, true)
  | some .formerr => let (j, o) := j.write sz (rejectBytes raw false) false; (j, o, true)
  | some .ok =>
    let (j', o, ret) := j.act sz (h raw e)
    if ret then (j', o, true)
    else if e = .inline then (j', o, false)
    else let (j'', o') := j'.write sz (rejectBytes raw false) false; (j'', o ++ o', true)

/-- `udpEngine.serve(j, burst)`: Queued → Serving, run, then the deferred
epilogue: a staged reply keeps the job (it joins the burst), anything else
releases it. Returns the job, what was sent directly, and whether the job is
now staged. -/
def UdpJob.serve (sz : Sizes) (h : Handler) (j : UdpJob) (withBurst : Bool) : UdpJob × List Datagram × Bool :=
  let j := { j with state := .serving, burst := withBurst }
  let (j, o, _) := j.serveBody sz h (if j.replay then .replay else .raw)
  let j := { j with burst := false }
  if j.txLen > 0 then (j, o, true) else (j.release, o, false)

inductive InlineFate | staged | released | handoff
deriving Repr, DecidableEq

/-- `udpEngine.serveInline`: Reading → Serving on the reader's burst. -/
def UdpJob.serveInline (sz : Sizes) (h : Handler) (j : UdpJob) : UdpJob × InlineFate :=
  let j := { j with state := .serving, burst := true }
  let (j, _, done) := j.serveBody sz h .inline
  let j := { j with burst := false }
  if j.txLen > 0 then (j, .staged)
  else if !done then ({ j with replay := true, state := .reading }, .handoff)
  else (j.release, .released)

/-- `flushTX` for one staged job: the datagram, then `release(Serving)`. -/
def UdpJob.flush (j : UdpJob) : UdpJob × List Datagram :=
  (j.release, if j.txLen = 0 then [] else [j.datagram (j.tx.take j.txLen)])

/-- `udpEngine.sendGroup`: the jobs of one socket. A job without a staged
reply is skipped, a job the portable reader filled (`rawSALen == 0`) is sent
directly at once; the others arm slot `k` of the sender — header (name,
control) and iovec (payload) — and `k` advances for both together. Returns
the direct sends and the two armed arrays. -/
def sendGroupArm : List UdpJob → List Datagram × List (Nat × Bytes) × List Bytes
  | [] => ([], [], [])
  | j :: t =>
    let (d, hdrs, iovs) := sendGroupArm t
    if j.txLen = 0 then (d, hdrs, iovs)
    else if j.rawSALen = 0 then (j.datagram (j.tx.take j.txLen) :: d, hdrs, iovs)
    else (d, (j.rawSA, j.pktinfo.take j.pktinfoLen) :: hdrs, j.tx.take j.txLen :: iovs)

/-- what `sendmmsg` then sends: message `k` = header `k` with payload `k` -/
def sendGroup (jobs : List UdpJob) : List Datagram :=
  let (d, hdrs, iovs) := sendGroupArm jobs
  d ++ List.zipWith (fun h b => ({ dest := h.1, ctl := h.2, body := b } : Datagram)) hdrs iovs

/-- what the kernel may do with one `sendmmsg` call -/
inductive TxAns
  | sent (n : Nat)   -- n ≥ 1 of the armed messages went out (a partial send when fewer than asked)
  | refused          -- EPERM & co.: the engine sends the unsent rest directly, job by job
  | retired          -- ENOSYS / EOPNOTSUPP: as refused, and batched TX is retired for good
deriving Repr, DecidableEq

/-- `sendDirect`: the job's own staged bytes to the job's own peer -/
def UdpJob.direct (j : UdpJob) : Datagram :=
  { dest := j.raddr, ctl := j.pktinfo.take j.pktinfoLen, body := j.tx.take j.txLen }

/-- the retry loop of `sendGroup` over the armed jobs (`done += sent`; on a
refusal the rest goes out directly). Returns the datagrams, the unused plan,
and whether batched TX was retired. With the plan used up the kernel sends
everything it is handed. -/
def sendArmed : Nat → List TxAns → List UdpJob → List Datagram × List TxAns × Bool
  | 0, plan, armed => (armed.map fun j => j.datagram (j.tx.take j.txLen), plan, false)
  | _, plan, [] => ([], plan, false)
  | _, [], armed => (armed.map fun j => j.datagram (j.tx.take j.txLen), [], false)
  | fuel + 1, .sent n :: plan, armed =>
    let n := if n = 0 then 1 else n
    let (o, plan', r) := sendArmed fuel plan (armed.drop n)
    ((armed.take n).map (fun j => j.datagram (j.tx.take j.txLen)) ++ o, plan', r)
  | _, .refused :: plan, armed => (armed.map UdpJob.direct, plan, false)
  | _, .retired :: plan, armed => (armed.map UdpJob.direct, plan, true)

/-- `sendGroup` with a scripted kernel: jobs without a reply are skipped,
portable-read jobs (and every job once TX is retired) are sent directly, the
others are armed and sent by `sendArmed` -/
def sendGroupPlan (retired : Bool) (plan : List TxAns) (jobs : List UdpJob) : List Datagram × List TxAns × Bool :=
  let live := jobs.filter fun j => j.txLen != 0
  if retired then (live.map UdpJob.direct, plan, true)
  else
    let direct := (live.filter fun j => j.rawSALen == 0).map UdpJob.direct
    let armed := live.filter fun j => j.rawSALen != 0
    let (o, plan', r) := sendArmed (armed.length + 1) plan armed
    (direct ++ o, plan', r)

/-- a recycled slab as the cache hands it out: the lengths and flags
`release` owns are clear, everything else is whatever the previous occupant
left. -/
structure Residue where
  rx : Bytes
  tx : Bytes
  pktinfo : Bytes
  raddr : Nat
  rawSA : Nat
  rawSALen : Nat
deriving Repr

def recycled (r : Residue) : UdpJob :=
  { state := .free, rx := r.rx, tx := r.tx, pktinfo := r.pktinfo, raddr := r.raddr,
    rawSA := r.rawSA, rawSALen := r.rawSALen }

/-- the road a request takes through the engine -/
inductive Path
  | ring (batch : Bool)      -- read (batch / portable), queue, worker with a burst, flush
  | overflow (batch : Bool)  -- read, queue full, own goroutine without a burst
  | inline                   -- batch read, served on the reader; a handoff continues on the ring
deriving Repr, DecidableEq

structure Req where
  pkt : Bytes
  src : Nat
  ctl : Bytes := []
deriving Repr

/-- a worker's (or overflow goroutine's) whole turn with a queued job: serve,
and when a reply was staged, the burst's send and release -/
def UdpJob.serveFlush (sz : Sizes) (h : Handler) (j : UdpJob) (withBurst : Bool) : UdpJob × List Datagram :=
  match j.serve sz h withBurst with
  | (j, o, true) => ((j.flush).1, o ++ (j.flush).2)
  | (j, o, false) => (j, o)

/-- one whole life cycle of a request on a slab: take → read → … → release.
Returns the slab as it is parked again and every datagram that left. -/
def lifeCycle (sz : Sizes) (h : Handler) (j : UdpJob) (q : Req) (p : Path) : UdpJob × List Datagram :=
  if q.pkt.length > sz.udpBuf then
    -- MSG_TRUNC: released from Reading, never parsed
    (({ j with state := .reading }).release, [])
  else
  match p with
  | .ring batch =>
    ({ ({ j with state := .reading }).fill batch q.pkt q.src q.ctl with state := .queued }).serveFlush sz h true
  | .overflow batch =>
    ({ ({ j with state := .reading }).fill batch q.pkt q.src q.ctl with state := .queued }).serveFlush sz h false
  | .inline =>
    match (({ j with state := .reading }).fill true q.pkt q.src q.ctl).serveInline sz h with
    | (j, .staged) => j.flush
    | (j, .released) => (j, [])
    | (j, .handoff) => ({ j with state := .queued }).serveFlush sz h true

/-- what a handler action hands to `Write` -/
def Act.wrote : Act → Option Bytes
  | .write b | .lease b | .writePanic b | .writeMsg b | .writeMsgU b _ => some b
  | _ => Option.none

/-- `Write` refuses what exceeds the buffer class; a staged reply of length
zero is never sent (`txLen == 0`), a direct one is. -/
def fits (sz : Sizes) (direct : Bool) (b : Bytes) : Option Bytes :=
  if b.length > sz.udpBuf ∨ (direct = false ∧ b.length = 0) then none else some b

/-- The specification of what one serve pass may cause to be sent — a
function of the request bytes and the handler only, no slab in sight — and
whether the pass reached a terminal (`false` = inline handoff). -/
def specReply (sz : Sizes) (h : Handler) (raw : Bytes) (e : Entry) (direct : Bool) : Option Bytes × Bool :=
  match acceptHeader raw with
  | Option.none => (Option.none, true)
  | some .ignore => (Option.none, true)
  | some .notimp => (fits sz direct (rejectBytes raw true), true)
  | some .formerr => (fits sz direct (rejectBytes raw false), true)
  | some .ok =>
    match h raw e with
    | .decline => if e = .inline then (Option.none, false) else (fits sz direct (rejectBytes raw false), true)
    | a => (a.wrote.bind (fits sz direct), true)

/-- The specification of a whole request: the reply (if any) goes to the
source of this request, with this request's control data. -/
def specOut (sz : Sizes) (h : Handler) (q : Req) (p : Path) : List Datagram :=
  if q.pkt.length > sz.udpBuf then [] else
  let dg := fun (b : Bytes) => ({ dest := q.src, ctl := q.ctl, body := b } : Datagram)
  match p with
  | .ring _ => ((specReply sz h q.pkt .raw false).1.map dg).toList
  | .overflow _ => ((specReply sz h q.pkt .raw true).1.map dg).toList
  | .inline =>
    match specReply sz h q.pkt .inline false with
    | (some b, _) => [dg b]
    | (Option.none, true) => []
    | (Option.none, false) => ((specReply sz h q.pkt .replay false).1.map dg).toList

/-- sequential use of one slab by a list of requests -/
def runMany (sz : Sizes) (h : Handler) (j : UdpJob) : List (Req × Path) → UdpJob × List Datagram
  | [] => (j, [])
  | (q, p) :: t =>
    let (j, o) := lifeCycle sz h j q p
    let (j, o') := runMany sz h j t
    (j, o ++ o')

/-! ### ownership: who holds which slab

The engine's containers hold slab pointers: the idle cache, the slabs armed
by each reader, the ready queue, and what each worker (or overflow goroutine,
or a reader serving inline) is serving or has staged in its burst. A step
moves one pointer from the container its actor owns to another. -/

inductive Actor
  | cache
  | reader (i : Nat)
  | queue
  | worker (i : Nat)
deriving Repr, DecidableEq

structure Sys where
  idle : List Nat := []      -- the slab cache (Free)
  armed : List Nat := []     -- armed by a reader (Reading)
  ready : List Nat := []     -- the ready queue (Queued)
  serving : List Nat := []   -- being served or staged in a burst (Serving)
  state : Nat → JState := fun _ => .free
  /-- the goroutine a slab was handed to when it left a shared container -/
  holder : Nat → Actor := fun _ => .cache

def Sys.all (s : Sys) : List Nat := s.idle ++ s.armed ++ s.ready ++ s.serving

inductive Step
  | take (j r : Nat)          -- reader r: cache.get, Free→Reading
  | readFail (j r : Nat)      -- reader r: release(Reading)
  | enqueue (j r : Nat)       -- reader r: Reading→Queued, into the ready queue
  | serveBegin (j w : Nat)    -- worker w: receives from the queue, Queued→Serving
  | finish (j : Nat) (a : Actor)  -- its server: release(Serving) (directly or after the burst's send)
  | inlineBegin (j r : Nat)   -- reader r: Reading→Serving on its own burst
  | handoff (j r : Nat)       -- reader r: Serving→Reading (replay), then enqueueCounted
deriving Repr, DecidableEq

/-- who performs the step -/
def Step.actor : Step → Actor
  | .take _ r | .readFail _ r | .enqueue _ r | .inlineBegin _ r | .handoff _ r => .reader r
  | .serveBegin _ w => .worker w
  | .finish _ a => a

def Step.slab : Step → Nat
  | .take j _ | .readFail j _ | .enqueue j _ | .serveBegin j _ | .finish j _ | .inlineBegin j _ | .handoff j _ => j

/-- the step is possible: the pointer is in the container the actor takes it
from (a shared one — cache, queue — or its own hands), and
`transition(from, …)` would not panic -/
def Step.enabled (s : Sys) : Step → Bool
  | .take j _ => s.idle.contains j && s.state j == .free
  | .readFail j r => s.armed.contains j && s.holder j == .reader r && s.state j == .reading
  | .enqueue j r => s.armed.contains j && s.holder j == .reader r && s.state j == .reading
  | .serveBegin j _ => s.ready.contains j && s.state j == .queued
  | .finish j a => s.serving.contains j && s.holder j == a && s.state j == .serving
  | .inlineBegin j r => s.armed.contains j && s.holder j == .reader r && s.state j == .reading
  | .handoff j r => s.serving.contains j && s.holder j == .reader r && s.state j == .serving

def setAt {α : Type} (f : Nat → α) (j : Nat) (v : α) : Nat → α := fun k => if k = j then v else f k

def Step.apply (s : Sys) : Step → Sys
  | .take j r => { s with idle := s.idle.erase j, armed := j :: s.armed,
                          state := setAt s.state j .reading, holder := setAt s.holder j (.reader r) }
  | .readFail j _ => { s with armed := s.armed.erase j, idle := j :: s.idle,
                              state := setAt s.state j .free, holder := setAt s.holder j .cache }
  | .enqueue j _ => { s with armed := s.armed.erase j, ready := s.ready ++ [j],
                             state := setAt s.state j .queued, holder := setAt s.holder j .queue }
  | .serveBegin j w => { s with ready := s.ready.erase j, serving := j :: s.serving,
                                state := setAt s.state j .serving, holder := setAt s.holder j (.worker w) }
  | .finish j _ => { s with serving := s.serving.erase j, idle := j :: s.idle,
                            state := setAt s.state j .free, holder := setAt s.holder j .cache }
  | .inlineBegin j _ => { s with armed := s.armed.erase j, serving := j :: s.serving,
                                 state := setAt s.state j .serving }
  | .handoff j _ => { s with serving := s.serving.erase j, ready := s.ready ++ [j],
                             state := setAt s.state j .queued, holder := setAt s.holder j .queue }

def Sys.step (s : Sys) (st : Step) : Sys := if st.enabled s then st.apply s else s

def Sys.run (s : Sys) (l : List Step) : Sys := l.foldl Sys.step s

/-- `n` slabs, all parked -/
def Sys.init (n : Nat) : Sys := { idle := List.range n }

/-- the send state (`udpTXSender`) an actor's burst uses: workers take slots
`0 … workers-1`, the batch reader of socket `i` takes `workers + i`
(`newUDPBatchReader`: `r.txBurst.slot = e.workers + idx`) -/
def senderSlot (workers : Nat) : Actor → Option Nat
  | .worker i => if i < workers then some i else none
  | .reader i => some (workers + i)
  | _ => none

/-! ### the body lease (`responseWriter.BeginWire`, `wire.TryPack`) -/

/-- a Go slice header over some backing array: offset, length, capacity;
`fresh` = the backing array is private to this slice -/
structure Slice where
  off : Nat
  len : Nat
  cap : Nat
  fresh : Bool
deriving Repr, DecidableEq

/-- `udpJob.LeaseWire` / `tcpJob.LeaseWire`: `tx[p:p]` with the slab's whole
remaining capacity, or nil. -/
def leaseWire (txLen prefixLen capacity : Nat) : Option Slice :=
  if capacity > txLen - prefixLen then none
  else some { off := prefixLen, len := 0, cap := txLen - prefixLen, fresh := false }

/-- `responseWriter.BeginWire(size, reserve)`: `transport` is what the
transport's `LeaseWire(need)` returned (`none` = nil / no leaser). -/
def beginWire (written : Bool) (transport : Option Slice) (size reserve : Nat) : Option Slice :=
  if written then none else
  let need := size + reserve
  match transport with
  | some buf => if buf.cap < need then none else some { buf with len := 0, cap := need }
  | none => some { off := 0, len := 0, cap := need, fresh := true }

/-- `append(s, bytes…)` on the backing array `mem`: in place while the
capacity lasts, a private copy afterwards. Returns the new slice, the
backing array it lives in now, and the (possibly modified) original array. -/
def sliceAppend (mem : Bytes) (s : Slice) (b : Bytes) : Slice × Bytes × Bytes :=
  if s.len + b.length ≤ s.cap then
    let mem' := mem.take (s.off + s.len) ++ b ++ mem.drop (s.off + s.len + b.length)
    ({ s with len := s.len + b.length }, mem', mem')
  else
    let cur := (mem.drop s.off).take s.len ++ b
    ({ off := 0, len := cur.length, cap := cur.length, fresh := true }, cur, mem)

/-- the slab after a sequence of appends to a lease: once an append exceeds
the capacity the slice lives in private memory and the slab is out of reach -/
def slabAfter (slab : Bytes) (s : Slice) : List Bytes → Bytes
  | [] => slab
  | b :: t =>
    if s.len + b.length ≤ s.cap then slabAfter (sliceAppend slab s b).2.2 (sliceAppend slab s b).1 t
    else slab

/-- what the holder of the slice sees (`s[0:len]`) -/
def view (mem : Bytes) (s : Slice) : Bytes := (mem.drop s.off).take s.len

/-- every byte reachable by reslicing `s` up to its capacity -/
def reachable (mem : Bytes) (s : Slice) : Bytes := (mem.drop s.off).take s.cap

/-- `TryPack` hands out `buf[:off:off]` -/
def tryPackSlice (off : Nat) : Slice := { off := 0, len := off, cap := off, fresh := false }

/-! ### the stream connection (`tcpEngine.serveConn`, `tcpStream`, `tcpJob`) -/

def prefix16 (n : Nat) : Bytes := [UInt8.ofNat (n / 256), UInt8.ofNat (n % 256)]
def frame (p : Bytes) : Bytes := prefix16 p.length ++ p

/-- the connection's outbound side: bytes already written to the socket and
the drain buffer -/
structure Out where
  wire : Bytes := []
  drain : Bytes := []
deriving Repr

def Out.flush (o : Out) : Out := { wire := o.wire ++ o.drain, drain := [] }

/-- `tcpStream.stage` -/
def Out.stage (sz : Sizes) (o : Out) (p : Bytes) : Out :=
  if p.length > sz.tcpBuf then o
  else if 2 + p.length > sz.tcpDrain then
    let o := o.flush
    { o with wire := o.wire ++ frame p }
  else if o.drain.length + 2 + p.length > sz.tcpDrain then
    let o := o.flush
    { o with drain := frame p }
  else { o with drain := o.drain ++ frame p }

def Out.total (o : Out) : Bytes := o.wire ++ o.drain

/-- the outbound side with the sticky write error: `failAt` is the (1-based)
write that times out after the peer took only `accept` bytes of it -/
structure OutS where
  wire : Bytes := []
  drain : Bytes := []
  writes : Nat := 0
  werr : Bool := false
  failAt : Nat := 0
  accept : Nat := 0
deriving Repr

/-- `tcpStream.flush`: nothing once `werr` is set; a failing write leaves what
the peer accepted on the wire and latches the error — for EVERY error -/
def OutS.flush (o : OutS) : OutS :=
  if o.werr then o
  else if o.drain.isEmpty then o
  else if o.writes + 1 = o.failAt then
    { o with wire := o.wire ++ o.drain.take o.accept, drain := [], writes := o.writes + 1, werr := true }
  else { o with wire := o.wire ++ o.drain, drain := [], writes := o.writes + 1 }

/-- `tcpStream.stage` (replies that fit the drain buffer) -/
def OutS.stage (sz : Sizes) (o : OutS) (p : Bytes) : OutS :=
  if o.werr then o
  else if p.length > sz.tcpBuf ∨ 2 + p.length > sz.tcpDrain then o
  else if o.drain.length + 2 + p.length > sz.tcpDrain then
    let o := o.flush
    if o.werr then o else { o with drain := frame p }
  else { o with drain := o.drain ++ frame p }

/-- `tcpJob.Write` / `WriteMsg` / `rejectInPlace` → `stage`; the reply bytes a
frame causes (`none` = nothing is staged). `txCap` is the slab class's reply
capacity (only decides whether a lease is granted, never the bytes). -/
def tcpReply (sz : Sizes) (h : Handler) (raw : Bytes) : Option Bytes :=
  let fits (b : Bytes) : Option Bytes := if b.length > sz.tcpBuf then none else some b
  match acceptHeader raw with
  | none => none
  | some .ignore => none
  | some .notimp => fits (rejectBytes raw true)
  | some .formerr => fits (rejectBytes raw false)
  | some .ok =>
    match h raw .raw with
    | .decline => fits (rejectBytes raw false)
    | a => a.wrote.bind fits

/-- does serving this frame end the connection (a handler panic unwinds
`serveConn`)? -/
def tcpFatal (h : Handler) (raw : Bytes) : Bool :=
  match acceptHeader raw with
  | some .ok => match h raw .raw with
    | .panic | .writePanic _ => true
    | _ => false
  | _ => false

/-- `serveConn` over a burst delivered in one read (flushes: displacement and the end) -/
def serveStreamS (sz : Sizes) (h : Handler) : Nat → Bytes → OutS → OutS
  | 0, _, o => o.flush
  | fuel + 1, input, o =>
    if input.length < 2 then o.flush else
    let n := be16 input 0
    if n < sz.tcpMinFrame then o.flush else
    let rest := input.drop 2
    if rest.length < n then o.flush else
    let raw := rest.take n
    let o := match tcpReply sz h raw with
      | some p => o.stage sz p
      | none => o
    if tcpFatal h raw then o.flush else
    serveStreamS sz h fuel (rest.drop n) o

/-- `serveConn` over the client's byte stream. `blocks` says, for each frame
boundary, whether the fill buffer was empty there (the connection flushes
before it blocks): flush points are the environment's choice. -/
def serveStream (sz : Sizes) (h : Handler) : Nat → Bytes → List Bool → Out → Out
  | 0, _, _, o => o.flush
  | fuel + 1, input, blocks, o =>
    let (blk, blocks) := match blocks with
      | [] => (false, [])
      | b :: t => (b, t)
    let o := if blk then o.flush else o
    if input.length < 2 then o.flush else
    let n := be16 input 0
    if n < sz.tcpMinFrame then o.flush else
    let rest := input.drop 2
    if rest.length < n then o.flush else
    let raw := rest.take n
    let o := match tcpReply sz h raw with
      | some p => o.stage sz p
      | none => o
    if tcpFatal h raw then o.flush else
    serveStream sz h fuel (rest.drop n) blocks o

/-- the specification: the replies of the answered queries, framed whole, in
query order -/
def specStream (sz : Sizes) (h : Handler) : List Bytes → Bytes
  | [] => []
  | q :: t =>
    (match tcpReply sz h q with | some p => frame p | none => []) ++
    (if tcpFatal h q then [] else specStream sz h t)

def clientStream : List Bytes → Bytes
  | [] => []
  | q :: t => frame q ++ clientStream t

/-! ### the chain and its base writer (`Chain.Reset/ResetWire/Finish`, `responseWriter.Reset`) -/

structure Writer where
  transport : Nat := 0     -- which client transport it is bound to
  size : Int := -1          -- -1 = nothing written
  hasMsg : Bool := false
  hasWire : Bool := false
  rcode : Nat := 0
  proto : Nat := 0          -- derived from the transport at Reset
  internal : Bool := false
  directPack : Bool := false
deriving Repr, DecidableEq

structure Chain where
  base : Writer := {}
  wrapped : Bool := false    -- Writer points at a middleware's wrapper, not at base
  reqOwn : Bool := false     -- Request = &reqStorage
  reqMsg : Nat := 0          -- identity of the decoded message, 0 = undecoded
  metaCut : Bool := false
  handlers : Nat := 0        -- immutable: len(handlers)
  pos : Nat := 0
  count : Nat := 0
  detach : Bool := false
  inlineOnly : Bool := false
  handoff : Bool := false
  replay : Bool := false
deriving Repr, DecidableEq

/-- `responseWriter.Reset(w)`; proto/internal are functions of the transport -/
def Writer.reset (_ : Writer) (transport proto : Nat) : Writer :=
  { transport := transport, size := -1, hasMsg := false, hasWire := false, rcode := 0,
    proto := proto, internal := false, directPack := false }

/-- `Chain.Reset(w, r)` (finishDetach, rebindWriter, reqStorage.SetMsg, Meta.Reset, …) -/
def Chain.reset (c : Chain) (transport proto msg : Nat) : Chain :=
  { c with base := c.base.reset transport proto, wrapped := false, reqOwn := true, reqMsg := msg,
           metaCut := false, pos := 0, count := c.handlers, detach := false,
           inlineOnly := false, handoff := false, replay := false }

/-- `Chain.ResetWire(w, r)` -/
def Chain.resetWire (c : Chain) (transport proto : Nat) : Chain :=
  { c with base := c.base.reset transport proto, wrapped := false, reqOwn := false, reqMsg := 0,
           metaCut := false, pos := 0, count := c.handlers, detach := false,
           inlineOnly := false, handoff := false, replay := false }

/-- `Chain.Finish` -/
def Chain.finish (c : Chain) : Chain :=
  { c with detach := false, metaCut := false, reqMsg := 0,
           base := if c.wrapped then c.base else { c.base with hasMsg := false, hasWire := false } }

/-! ### the shared upstream lookup (`Resolver.groupLookup`) -/

/-- a heap-allocated message: its address, its id, its content -/
structure Msg where
  addr : Nat
  id : Nat
  body : Nat
deriving Repr, DecidableEq

/-- one caller's view of the flight's result: `resp.Copy()` when the result
is shared (a fresh allocation at `next`), the message itself otherwise; the
id is rewritten to the caller's. Returns the message and the next free
address. -/
def groupLookupResult (shared : Bool) (_owned : Bool) (leader : Msg) (reqId next : Nat) : Msg × Nat :=
  -- `owned` (the REQUEST is lookup-owned: a QNAME-minimised copy) plays no part in what happens to the RESPONSE
  if shared then ({ addr := next, id := reqId, body := leader.body }, next + 1)
  else ({ leader with id := reqId }, next)

/-- every caller of one shared flight, in any order; each with its own id and
its own `owned` flag -/
def shareAll (leader : Msg) : List (Nat × Bool) → Nat → List Msg
  | [], _ => []
  | (id, owned) :: t, next =>
    let (m, next') := groupLookupResult true owned leader id next
    m :: shareAll leader t next'

/-! ### job-owned strict-path storage: the context carrier and the edns writer slot
(`server/strict.go jobCarrier`, `middleware/edns serveWire`) -/

/-- `jobCarrier`: four pin slots (key 0 = free) and a provider hook -/
structure Carrier where
  slots : List (Nat × Nat) := [(0, 0), (0, 0), (0, 0), (0, 0)]
  provider : Bool := false
  deadline : Nat := 0
deriving Repr, DecidableEq

def setFirstFree (k v : Nat) : List (Nat × Nat) → Option (List (Nat × Nat))
  | [] => none
  | (k', v') :: t => if k' = 0 then some ((k, v) :: t) else (setFirstFree k v t).map ((k', v') :: ·)

/-- `TryPin` -/
def Carrier.tryPin (c : Carrier) (k v : Nat) : Carrier × Bool :=
  if k = 0 ∨ v = 0 then (c, false)
  else if c.slots.any (·.1 == k) then (c, false)
  else match setFirstFree k v c.slots with
    | some s => ({ c with slots := s }, true)
    | none => (c, false)

/-- `Pinned` -/
def Carrier.pinned (c : Carrier) (k : Nat) : Option Nat :=
  (c.slots.find? (·.1 == k)).map (·.2)

/-- `TrySetProvider` -/
def Carrier.trySetProvider (c : Carrier) : Carrier × Bool :=
  if c.provider then (c, false) else ({ c with provider := true }, true)

/-- `reset(deadline)`: what the engine calls before every strict serve -/
def Carrier.reset (_ : Carrier) (deadline : Nat) : Carrier :=
  { slots := [(0, 0), (0, 0), (0, 0), (0, 0)], provider := false, deadline := deadline }

/-- the per-request facts of `edns.ResponseWriter` on the strict path -/
structure EdnsSlot where
  bound : Bool := false       -- ResponseWriter / EDNS set
  size : Nat := 0
  doBit : Bool := false
  nsid : Bool := false
  noedns : Bool := false
  hasCookie : Bool := false
  cookie : Nat := 0
deriving Repr, DecidableEq

/-- `cookie` is the request's client cookie as the strict parser and the edns
layer see it: a COOKIE option of fewer than 8 bytes is NOT a cookie (the
strict parser declines the packet, the decoded entry ignores the option) -/
structure EdnsReq where
  hasOpt : Bool
  doBit : Bool := false
  nsid : Bool := false
  cookie : Option Nat := none
deriving Repr, DecidableEq

/-- `serveWire` on entry: every fact is restated from the request — except the
cookie, which is only ever SET (when the request carries one) -/
def EdnsSlot.enter (s : EdnsSlot) (q : EdnsReq) : EdnsSlot :=
  let s := { s with bound := true, size := if q.hasOpt then 1232 else 512, doBit := q.doBit, nsid := q.nsid,
                    noedns := !q.hasOpt }
  match q.cookie with
  | some c => { s with hasCookie := true, cookie := c }
  | none => s

/-- the COOKIE option of the reply OPT (`appendOPT`: no OPT at all without EDNS) -/
def EdnsSlot.replyCookie (s : EdnsSlot) : Option Nat :=
  if s.noedns then none else if s.hasCookie then some s.cookie else none

/-- the deferred cleanup: `*rw = ResponseWriter{}` -/
def EdnsSlot.exit (_ : EdnsSlot) : EdnsSlot := {}

def ednsServe (s : EdnsSlot) (q : EdnsReq) : Option Nat × EdnsSlot :=
  let s1 := s.enter q
  (s1.replyCookie, s1.exit)

def ednsMany (s : EdnsSlot) : List EdnsReq → List (Option Nat)
  | [] => []
  | q :: t => (ednsServe s q).1 :: ednsMany (ednsServe s q).2 t

/-! ### replies a transport keeps after the serve (`Chain.CancelWithRcode`, `views.ServeDNS`, DoH's `mock.Writer`)

The heap of reply messages handed to transports that only keep the pointer
(DoH / DoH3 pack after `ServeMsg` returned): every reply-producing path
allocates its message (`new(dns.Msg)`, `dns.Copy(rr)`), so serving a request
appends to the heap and never writes to an entry already there. `none` = the
request ended without a reply. -/

def retainServe (heap : List (Option Msg)) (req : Nat × Bool) : List (Option Msg) :=
  heap ++ [if req.2 then some { addr := heap.length, id := req.1, body := req.1 } else none]

def retainMany (heap : List (Option Msg)) (reqs : List (Nat × Bool)) : List (Option Msg) :=
  reqs.foldl retainServe heap

/-! ### the pooled sub-query writer (`pipelineQueryer.Query`, `BufferWriter`, `putBufferWriter`) -/

/-- what a sub-query's handler does: writes a response, writes nothing, or
writes a response that is a marked request-local failure (Query returns the
error) -/
inductive SubKind | wrote | silent | localFail
deriving Repr, DecidableEq

/-- `BufferWriter.msg` (the id stands for the captured message) -/
structure BufW where
  msg : Option Nat := none
deriving Repr, DecidableEq

/-- one `Query` on a writer drawn from the pool: the handler runs, the result
is decided (`RequestLocalFailureForResponse` → error, `!Written()` →
ErrNoResponse, else the message), and the deferred `putBufferWriter` clears
the writer on EVERY path -/
def subQuery (w : BufW) (k : SubKind) (id : Nat) : Option Nat × BufW :=
  let w1 : BufW := match k with
    | .silent => w
    | _ => { msg := some id }
  let res := match k with
    | .localFail => none
    | _ => w1.msg
  (res, { msg := none })

def subMany (w : BufW) : List (SubKind × Nat) → List (Option Nat)
  | [] => []
  | (k, id) :: t => (subQuery w k id).1 :: subMany (subQuery w k id).2 t

/-! ### cache hits served as bytes (`serveHitFromWire`, `composeWireChase`) and answers built on
another message (`dns64 buildAResponseAsBasis`): what is the request's stays the request's -/

structure WireReq where
  id : Nat
  question : Bytes          -- the client's question section, its spelling included
deriving Repr, DecidableEq

structure WireEntry where
  question : Bytes          -- the question the entry was admitted under (another client's spelling)
  answers : Bytes
deriving Repr, DecidableEq

structure WireReply where
  id : Nat
  question : Bytes
  answers : Bytes
deriving Repr, DecidableEq

/-- a flat hit and the chase composer alike: header from the entry with the
reply identity overwritten, then THE CLIENT'S OWN question section
(`req.Raw()[12:WireQuestionEnd()]`), then the stored answers -/
def hitReply (q : WireReq) (e : WireEntry) : WireReply :=
  { id := q.id, question := q.question, answers := e.answers }

/-- a chase over several cached segments: still one question, the client's -/
def chaseReply (q : WireReq) (segs : List WireEntry) : WireReply :=
  { id := q.id, question := q.question, answers := segs.flatMap (·.answers) }

/-- `buildAResponseAsBasis`: `SetReply(w.req)` — the CLIENT's header and question —
then rcode / RA / records of the internal A sub-response -/
def basisReply (client : WireReq) (sub : WireReply) : WireReply :=
  { id := client.id, question := client.question, answers := sub.answers }

/-- `ratelimit`: the client half of the COOKIE a reply carries. `onRecord` is
the cookie the limiter holds for the source ADDRESS (possibly another client's
behind the same address). Pass or BADCOOKIE alike, the server cookie is minted
from THIS query's client cookie (`GenerateServerCookie(secret, ip, clientcookie)`). -/
def rlReplyCookie (client : Option Nat) (_onRecord : Option Nat) : Option Nat := client

/-! ### the failover writer (`middleware/failover` `ResponseWriter.WriteMsg`) -/

/-- a reply as far as the client can tell replies apart: transaction id, rcode, content mark -/
structure FoMsg where
  id : Nat
  rcode : Nat
  mark : Nat
deriving Repr, DecidableEq

/-- one fallback server's exchange: an error, or a response that arrives under
the id the exchange was made with -/
inductive FoOutcome
  | err
  | resp (exchangeId rcode mark : Nat)
deriving Repr, DecidableEq

/-- the loop over the fallback servers; `fr` is the retained failure response -/
def failoverLoop (m : FoMsg) : List FoOutcome → Option FoMsg → FoMsg
  | [], fr => fr.getD m
  | .err :: t, fr => failoverLoop m t fr
  | .resp _ rc mk :: t, fr =>
    -- `resp.Id = m.Id` comes first, then the classification (`ClassifyResponse`: SERVFAIL)
    let r : FoMsg := { id := m.id, rcode := rc, mark := mk }
    if rc = 2 then failoverLoop m t (if fr.isNone then some r else fr) else r

/-- `WriteMsg(m)`: what reaches the client. `m` is the primary's reply (it
carries the client's id), `rd` its RD bit. -/
def failoverWrite (servers : List FoOutcome) (m : FoMsg) (rd : Bool) : FoMsg :=
  if servers.isEmpty || m.rcode != 2 || !rd then m else failoverLoop m servers none

/-- `forwarder.ServeDNS`: the same loop over the configured upstreams (UDP, DoT,
DoH); `resp.Id = req.Id` with the CLIENT's request, whose id no exchange may
change; when nothing usable came back the retained failure or the
`CancelWithRcode(SERVFAIL)` reply leaves -/
def forwardWrite (servers : List FoOutcome) (reqId : Nat) : FoMsg :=
  failoverLoop { id := reqId, rcode := 2, mark := 0 } servers none

/-! ### the pipeline's chain pool (`Pipeline.NewChain / PutChain`, `Server.serveMsgBy`, `pipelineQueryer.Query`)

`sync.Pool` as a bag of chain pointers; a request draws one (or a fresh one)
and returns it exactly once. -/

structure ChainPool where
  pooled : List Nat := []   -- pointers parked in the pool
  held : List Nat := []     -- pointers in a running request's hands
  next : Nat := 0           -- next fresh allocation
deriving Repr

inductive PoolStep
  | get                -- NewChain: a parked pointer or a fresh one
  | put (c : Nat)      -- PutChain by the request that holds c
deriving Repr

def ChainPool.step (p : ChainPool) : PoolStep → ChainPool
  | .get => match p.pooled with
    | c :: t => { p with pooled := t, held := c :: p.held }
    | [] => { p with held := p.next :: p.held, next := p.next + 1 }
  | .put c => if p.held.contains c then { p with held := p.held.erase c, pooled := c :: p.pooled } else p

def ChainPool.run (p : ChainPool) (l : List PoolStep) : ChainPool := l.foldl ChainPool.step p

/-! ### DNS-over-QUIC (`doq.Server.handleConnection / handleStream`, `doq.ResponseWriter`)

Every accepted stream gets its own goroutine, and that goroutine allocates its
own `ResponseWriter{Conn, Stream}`; goroutine `i` (accept order) serves
`streams[i]` and writes through `writers[i]`. Handlers complete in any order. -/

structure DoqConn where
  streams : List Nat := []
  writers : List Nat := []          -- writers[i].Stream
  out : List (Nat × Bytes) := []    -- (stream, bytes) in write order
deriving Repr

inductive DoqEvent
  | accept (sid : Nat)
  | complete (i : Nat) (reply : Option Bytes)   -- goroutine i's handler returns, having written `reply` or nothing
deriving Repr

/-- `ResponseWriter.WriteMsg`: the id leaves as 0, length-prefixed -/
def doqFrame (b : Bytes) : Bytes := frame (0 :: 0 :: b.drop 2)

def DoqConn.step (c : DoqConn) : DoqEvent → DoqConn
  | .accept sid => { c with streams := c.streams ++ [sid], writers := c.writers ++ [sid] }
  | .complete i (some b) =>
    match c.writers[i]? with
    | some s => { c with out := c.out ++ [(s, doqFrame b)] }
    | none => c
  | .complete _ none => c

def DoqConn.run (c : DoqConn) (evs : List DoqEvent) : DoqConn := evs.foldl DoqConn.step c

/-- the specification: goroutine `i`'s reply leaves on the `i`-th accepted stream -/
def specDoq : List Nat → List DoqEvent → List (Nat × Bytes)
  | _, [] => []
  | acc, .accept sid :: t => specDoq (acc ++ [sid]) t
  | acc, .complete i (some b) :: t =>
    (match acc[i]? with | some s => [(s, doqFrame b)] | none => []) ++ specDoq acc t
  | acc, .complete _ none :: t => specDoq acc t

end SdnsVerif.Model.Slab
