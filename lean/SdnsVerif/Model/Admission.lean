namespace SdnsVerif.Model.Admission
end SdnsVerif.Model.Admission
