import SdnsVerif.Model.Nsec
import SdnsVerif.Model.Nsec3
/-
Decision-logic model of where a validated denial may become SHARED state:

* `Resolver.authority` (middleware/resolver/resolver.go): which validator
  outcomes lead to an accepted response, to AD, to a provenance mark and to
  `Aggressive = true`;
* `cache.ResponseWriter.WriteMsg` / the prefetch write-back
  (middleware/cache/cache.go, prefetch_queue.go): when `RecordDenialProof`
  and `RecordNXDomainCut` are reached;
* `denialProofEvaluate` (middleware/cache/denial_proof_cache.go): what a
  classifier error means on the synthesis side.
Core Lean only.
-/
namespace SdnsVerif.Model.Admission
open SdnsVerif.Spec.Zone SdnsVerif.Model.Nsec

/-! ### cache.ResponseWriter.WriteMsg -/

/-- one response reaching the cache's response writer. -/
structure WriteIn where
  reqCD : Bool    -- the client request had CD=1            (rw.requestCD)
  respCD : Bool   -- the response has CD=1                   (res.CheckingDisabled)
  ecs : Bool      -- the client request carried ECS          (rw.requestHasECS; the tree then bypasses shared denial)
  hasScope : Bool   -- an ECS cache scope was derived          (rw.clientScope.IsValid())
  marked : Bool   -- the resolver marked a response in this request tree
  copied : Bool   -- … but what is written is another dns.Msg (a copy)
  kind : Nat      -- 0 = legacy mark without proof family, 1 = NSEC, 2 = NSEC3
  agg : Bool      -- ValidatedNegativeProof.Aggressive
  fam : Nat       -- record family actually in the authority section: 1 NSEC, 2 NSEC3
  nx : Bool       -- the proof is an NXDOMAIN (else NODATA)
  optout : Bool   -- an in-zone NSEC3 of the proof has the Opt-Out flag
deriving Repr, DecidableEq

/-- `middleware.ValidatedNegativeProofForResponse`: provenance is bound to the
exact response pointer. -/
def provenance (i : WriteIn) : Option (Nat × Bool) :=
  if i.marked && !i.copied then some (i.kind, if i.kind = 0 then false else i.agg) else none

/-- the `if` around RecordDenialProof / RecordNXDomainCut in WriteMsg. -/
def admitted (i : WriteIn) : Bool :=
  !i.hasScope && !i.ecs && !i.reqCD && !i.respCD &&
  match provenance i with
  | some (_, a) => a
  | none => false

/-- `Store.RecordDenialProof` is reached and keeps the bundle: the retained
record family must be the provenance's proof kind. -/
def proofRecorded (i : WriteIn) : Bool := admitted i && (i.kind == 1 || i.kind == 2) && i.fam == i.kind

/-- `Store.RecordNXDomainCut` is reached and `nxDomainCutProof` keeps it:
NXDOMAIN only, never over an Opt-Out span. -/
def cutRecorded (i : WriteIn) : Bool := admitted i && i.nx && !(i.fam == 2 && i.optout)

/-! ### prefetch write-back (prefetch_queue.go) and the RFC 8020 stop (processAuthoritySection) -/

/-- a successful background refresh reaching the write-back. -/
structure PrefetchIn where
  entryScoped : Bool   -- the refreshed entry was admitted under an ECS scope
  reqCD : Bool         -- the original client request had CD=1
  hadECS : Bool        -- … carried ECS when the entry was claimed (req.RequestHadECS)
  reqECSOpt : Bool     -- … still carries an ECS option (hasEDNSClientSubnet(req.Request))
  respCD : Bool
  marked : Bool        -- provenance found for this exact response
  agg : Bool
  nx : Bool
deriving Repr, DecidableEq

/-- the guard around RecordDenialProof / RecordNXDomainCut in the prefetch worker. -/
def prefetchAdmitted (i : PrefetchIn) : Bool :=
  !i.entryScoped && !i.reqCD && !i.hadECS && !i.reqECSOpt && !i.respCD && i.marked && i.agg

def prefetchCut (i : PrefetchIn) : Bool := prefetchAdmitted i && i.nx

/-- `processAuthoritySection`: stop QNAME minimisation at a minimised NXDOMAIN
(RFC 8020) only for locally validated, aggressive-eligible, non-Opt-Out proofs. -/
def rfc8020Stop (marked aggressive proofNX optOutInProof : Bool) : Bool :=
  marked && aggressive && proofNX && !optOutInProof

/-! ### Resolver.authority, negative branch (r.dnssec && verified) -/

inductive Family | nsec | nsec3
deriving Repr, DecidableEq

/-- what authority() does with one negative response whose RRSIGs verified. -/
structure AuthOut where
  servfail : Bool      -- `return nil, err`
  ad : Bool            -- resp.AuthenticatedData
  marked : Bool        -- MarkValidatedNegativeProofResponse reached
  aggressive : Bool    -- … with Aggressive = true
deriving Repr, DecidableEq

/-- `exact`: verdict of the exact validator (`ok secure`); `agg`: verdict of the
RFC 8198 evaluator on the same records (`ok rcode`); `respNX`: the response's
RCODE is NXDOMAIN; `reqCD`: the request had CD=1 (then authority() skips all of
this; modelled as "no AD, no mark"). -/
def authority (fam : Family) (exact : Except Err Bool) (agg : Except Err Rcode) (respNX reqCD : Bool) : AuthOut :=
  if reqCD then { servfail := false, ad := false, marked := false, aggressive := false } else
  match exact with
  | .error _ => { servfail := true, ad := false, marked := false, aggressive := false }
  | .ok secure =>
    -- NSEC3: the evaluator is only consulted when the exact proof is secure
    let consulted := match fam with | .nsec => true | .nsec3 => secure
    let eligible := consulted && (match agg with
      | .ok rc => (rc == Rcode.nxdomain) == respNX
      | .error _ => false)
    { servfail := false, ad := secure, marked := secure, aggressive := secure && eligible }

/-! ### Resolver.authority end to end: from the upstream response to (error | AD, provenance) -/

/-- one negative upstream response (empty answer section) from a zone whose DS
the resolver holds, as `Resolver.authority` sees it. -/
structure AuthIn where
  signer : Name                       -- the RRSIGs' signer name = the zone authority() validates under
  q : Name
  t : Nat
  nx : Bool                           -- RCODE is NXDOMAIN (else NOERROR with an empty answer)
  reqCD : Bool                        -- the request had CD=1
  haveDS : Bool                       -- the resolver holds a (supported) DS for the signer zone: the zone is secure
  signed : Bool                       -- some RRSIG of a record in the section names `signer` (findRRSIGSigners)
  sigsGood : Bool                     -- every in-zone RRset of the section carries an RRSIG that verifies
  nsec : List Nsec                    -- the NSEC records of the authority section, as sent
  nsec3 : List SdnsVerif.Model.Nsec3.Nsec3   -- the NSEC3 records of the authority section, as sent
  -- what the resolver's own `<cut> DS` lookup brings back when the response carries no signature at all
  -- (`provenInsecureDelegation` → `authenticatedDelegationDS`): no DS RRset, these denial records
  dsSigsGood : Bool := false            -- … and every in-zone RRset of that DS response verifies
  dsNsec : List Nsec := []
  dsNsec3 : List SdnsVerif.Model.Nsec3.Nsec3 := []
  -- … or a DS RRset for the first cut in its answer section: 0 none, 1 a DS this validator supports
  -- (digest SHA-1/256/384 and a DNSKEY algorithm it verifies), 2 only unsupported ones (RFC 6840 §5.2)
  dsAtCut : Nat := 0

def authServfail : AuthOut := { servfail := true, ad := false, marked := false, aggressive := false }
def authPassed : AuthOut := { servfail := false, ad := false, marked := false, aggressive := false }

/-- the records authority() hands to the validators: `FilterRRsToZone(resp.Ns, chosenSigner)`. -/
def authNsec3Set (i : AuthIn) : List SdnsVerif.Model.Nsec3.Nsec3 := i.nsec3.filter fun r => nameInZone r.owner i.signer
def authNsecSet (i : AuthIn) : List Nsec := filterToZone i.signer i.nsec

/-- verdict of the exact validator authority() picks: NSEC3 records take
precedence; no denial record at all is `ErrNSECMissingCoverage`. -/
def authExact (H : SdnsVerif.Model.Nsec3.HashFn) (i : AuthIn) : Except Err Bool :=
  if !(authNsec3Set i).isEmpty then
    (if i.nx then SdnsVerif.Model.Nsec3.verifyNameError H (authNsec3Set i) i.signer i.q 1
     else SdnsVerif.Model.Nsec3.verifyNODATA H (authNsec3Set i) i.signer i.q i.t 1)
  else if !(authNsecSet i).isEmpty then
    match (if i.nx then verifyNameErrorNSEC i.q (authNsecSet i) else verifyNODATANSEC i.q i.t (authNsecSet i)) with
    | .ok _ => .ok true
    | .error e => .error e
  else .error .missing

def authFamily (i : AuthIn) : Family := if !(authNsec3Set i).isEmpty then .nsec3 else .nsec

def authAgg (H : SdnsVerif.Model.Nsec3.HashFn) (i : AuthIn) : Except Err Rcode :=
  match (if !(authNsec3Set i).isEmpty then SdnsVerif.Model.Nsec3.evaluateAggressiveNSEC3 H i.q i.t 1 i.signer (authNsec3Set i)
         else evaluateAggressiveNSEC i.q i.t 1 i.signer (authNsecSet i)) with
  | .ok (rc, _) => .ok rc
  | .error e => .error e

/-- `insecureProofName`: a DS question is answered from the parent side of the
cut it names, so the walk stops one label above. -/
def insecureProofName (q : Name) (t : Nat) : Name := if t = 43 ∧ q ≠ [] then q.dropLast else q

/-- the first zone-cut candidate below `zone` on the way to `pn`. -/
def firstCut (zone pn : Name) : Name := pn.take (zone.length + 1)

/-- `provenInsecureDelegation` as far as ONE signed zone goes (no DS RRset is
ever returned, so no secure delegation is descended into): the name must lie
strictly below the zone, and the DS lookup for the first cut candidate must
come back validly signed, either with a DS RRset none of whose records this
validator supports (RFC 6840 §5.2: treated as insecure), or without DS and with
records that prove "delegation, no DS" (`VerifyDelegationForZoneWithWork` if it
carries in-zone NSEC3, else `VerifyDelegationNSEC`). A supported DS means a
SECURE child: the walk descends and, the child's key being unavailable, fails
closed. Any error is `false`. -/
def provenInsecure (H : SdnsVerif.Model.Nsec3.HashFn) (i : AuthIn) : Bool :=
  let pn := insecureProofName i.q i.t
  if !nameInZone pn i.signer || pn == i.signer then false else
  if !i.dsSigsGood then false else
  -- a DS RRset at the cut: only unsupported digests / algorithms = insecure (RFC 6840 §5.2); a supported one
  -- makes the child secure and the walk descends into it, where — with no key of the child at hand — the
  -- next lookup fails closed (and a name that IS the cut has no further candidate): not excused
  if i.dsAtCut = 2 then true else
  if i.dsAtCut = 1 then false else
  let s3 := i.dsNsec3.filter fun r => nameInZone r.owner i.signer
  let s := filterToZone i.signer i.dsNsec
  if !s3.isEmpty then SdnsVerif.Model.Nsec3.verifyDelegation H s3 i.signer (firstCut i.signer pn) == .ok ()
  else if !s.isEmpty then verifyDelegationNSEC (firstCut i.signer pn) s == .ok ()
  else false

/-- `Resolver.authority` on such a response. Without a DS for the zone the zone
is insecure (nothing to validate against). CD=1 skips validation (the response
travels on without AD and without provenance); a signer that is not an
ancestor-or-self of the question (`ValidateSigner`), missing or failing RRSIGs
are errors; otherwise the exact validator decides and the RFC 8198 evaluator
only adds the `Aggressive` flag. -/
def authorityStep (H : SdnsVerif.Model.Nsec3.HashFn) (i : AuthIn) : AuthOut :=
  if i.reqCD then authPassed else
  -- no signer: in a secure zone only a PROVEN insecure delegation above the name excuses it, else ErrNoSignatures
  if !i.signed then (if i.haveDS then (if provenInsecure H i then authPassed else authServfail) else authPassed) else
  if !nameInZone i.q i.signer then authServfail else       -- ValidateSigner
  if !i.haveDS then authPassed else                        -- no DS for the signer: insecure zone, passed on without AD
  if !i.sigsGood then authServfail else
  authority (authFamily i) (authExact H i) (authAgg H i) i.nx false

/-! ### Resolver.answer on a positive answer whose RRSIGs may claim wildcard expansion -/

/-- one positive upstream response as `Resolver.answer` sees it (zone secure:
the resolver holds the signer's DS). The question name is the first answer
RRset's owner. -/
structure AnsIn where
  signer : Name
  gs : List AnsSig                    -- answer RRsets: owner and the Labels field of its RRSIG
  reqCD : Bool
  sigsGood : Bool                     -- every in-zone RRset of answer and authority section verifies
  nsec : List Nsec                    -- NSEC records of the authority section, AS SENT (foreign records included)
  nsec3 : List SdnsVerif.Model.Nsec3.Nsec3

/-- the next-closer proof for every expanded RRSIG, over the authority section
FILTERED to the signer zone (`FilterRRsToZone` runs before the wildcard check:
out-of-zone authority records were skipped by `VerifyRRSIG`, nothing
authenticated them). -/
def ansWildcard (H : SdnsVerif.Model.Nsec3.HashFn) (i : AnsIn) : Except Err Bool :=
  let s3 := i.nsec3.filter fun r => nameInZone r.owner i.signer
  if !s3.isEmpty then SdnsVerif.Model.Nsec3.verifyWildcardNSEC3 H s3 i.signer i.gs
  else verifyWildcardNSEC i.gs (filterToZone i.signer i.nsec)

/-- `Resolver.answer`, validation part: error (`servfail`) or the AD bit. An
answer record owned outside the signer zone is fatal in `VerifyRRSIG`. -/
def answerStep (H : SdnsVerif.Model.Nsec3.HashFn) (i : AnsIn) : AuthOut :=
  if i.reqCD then authPassed else
  match i.gs with
  | [] => authServfail
  | g :: _ =>
    if !nameInZone g.owner i.signer then authServfail else            -- ValidateSigner(signer, qname)
    if !(i.gs.all fun x => nameInZone x.owner i.signer) then authServfail else
    if !i.sigsGood then authServfail else
    match ansWildcard H i with
    | .error _ => authServfail
    | .ok secure => { servfail := false, ad := secure, marked := false, aggressive := false }

/-- what reaches `cache.ResponseWriter.WriteMsg` when the resolver hands the
response `authority` returned to the writer: provenance and `Aggressive` are
authority()'s, the remaining guard bits are the request's / the cache's. -/
def pipelineWrite (H : SdnsVerif.Model.Nsec3.HashFn) (i : AuthIn) (respCD ecs hasScope copied optout : Bool) : WriteIn :=
  let o := authorityStep H i
  let k := match authFamily i with | .nsec => 1 | .nsec3 => 2
  { reqCD := i.reqCD, respCD := respCD, ecs := ecs, hasScope := hasScope, marked := o.marked, copied := copied,
    kind := k, agg := o.aggressive, fam := k, nx := i.nx, optout := optout }

/-! ### synthesis side -/

inductive Synth | nxdomain | nodata | miss
deriving Repr, DecidableEq

/-- `denialProofEvaluate`: only `err == nil` synthesises; every error is a miss
(the request goes on to ordinary resolution). -/
def synth (r : Except Err (Rcode × List Nat)) : Synth :=
  match r with
  | .ok (.nxdomain, _) => .nxdomain
  | .ok (.nodata, _) => .nodata
  | .error _ => .miss

end SdnsVerif.Model.Admission
