/-
Model for C12 (bounded work per request).  Core Lean only.

Mirrors
  /repo/middleware/recursion_work.go         RecursionWorkLedger (debit / checkLocal / reject /
                                             markExhausted / EnforcementError / Retain / finish / release)
  /repo/middleware/recursion_work_policy.go  MustRecursionWorkPolicyFromConfig (+ config Normalize)
  /repo/middleware/resolution_attempt.go     ResolutionAttemptGuard.begin
  /repo/middleware/queryer.go                pipelineQueryer.Query (nesting bound, debit before dispatch)
  /repo/middleware/cache/cache.go            cacheableResolutionFailure, ResponseWriter.recursionWorkFailure
  /repo/middleware/resolver/resolver.go      checkLoop, minimize, and the recursive structure of
                                             resolve / handleLookupError / processAuthoritySection /
                                             processDelegation / resolveWithCachedNameservers as an
                                             adversarial transition system.

The ledger is a labelled transition system whose steps are the single atomic
operations of the Go code (one `Load`, one `CompareAndSwap`, one `Add`, one
`Or`): "every interleaving of any number of goroutines" is "every list of
labels".  The sequential API used by the line-protocol driver is *defined* as
running one thread of that system to completion, so the executable model and
the system the theorems talk about are the same object.

Not modelled: the two immutable control ledgers (pending / closed sentinels),
uint32 wrap-around of the shadow counters (needs 2^32 debits in one request
tree), metrics publication.
-/
namespace SdnsVerif.Model.Work

/-! ### kinds, modes, policy -/

/-- `RecursionWorkMode`. -/
inductive Mode | off | shadow | enforce
deriving Repr, DecidableEq

/-- `RecursionWorkKind` in declaration order (the numeric value is the index). -/
inductive Kind
  | outbound | internal | dnskeyCand | rrsetSig | signature | dsDigest | nsec3Hash | concCrypto
deriving Repr, DecidableEq

def Kind.idx : Kind → Nat
  | .outbound => 0 | .internal => 1 | .dnskeyCand => 2 | .rrsetSig => 3
  | .signature => 4 | .dsDigest => 5 | .nsec3Hash => 6 | .concCrypto => 7

def Kind.ofIdx : Nat → Option Kind
  | 0 => some .outbound | 1 => some .internal | 2 => some .dnskeyCand | 3 => some .rrsetSig
  | 4 => some .signature | 5 => some .dsDigest | 6 => some .nsec3Hash | 7 => some .concCrypto
  | _ => none

def Kind.all : List Kind :=
  [.outbound, .internal, .dnskeyCand, .rrsetSig, .signature, .dsDigest, .nsec3Hash, .concCrypto]

/-- `aggregateDimension` succeeds (graph-wide counter exists). -/
def Kind.isAggregate : Kind → Bool
  | .outbound | .internal | .signature | .dsDigest | .nsec3Hash => true
  | _ => false

/-- `func (k RecursionWorkKind) isDNSSEC() bool`. -/
def Kind.isDNSSEC : Kind → Bool
  | .outbound | .internal => false
  | _ => true

/-- a table indexed by `Kind` (eight plain fields: cheap to evaluate, no closures). -/
structure KTab (α : Type) where
  a0 : α
  a1 : α
  a2 : α
  a3 : α
  a4 : α
  a5 : α
  a6 : α
  a7 : α
deriving Repr, DecidableEq

def KTab.const {α : Type} (v : α) : KTab α := ⟨v, v, v, v, v, v, v, v⟩

def KTab.get {α : Type} (t : KTab α) : Kind → α
  | .outbound => t.a0 | .internal => t.a1 | .dnskeyCand => t.a2 | .rrsetSig => t.a3
  | .signature => t.a4 | .dsDigest => t.a5 | .nsec3Hash => t.a6 | .concCrypto => t.a7

def KTab.set {α : Type} (t : KTab α) (k : Kind) (v : α) : KTab α :=
  match k with
  | .outbound => { t with a0 := v } | .internal => { t with a1 := v }
  | .dnskeyCand => { t with a2 := v } | .rrsetSig => { t with a3 := v }
  | .signature => { t with a4 := v } | .dsDigest => { t with a5 := v }
  | .nsec3Hash => { t with a6 := v } | .concCrypto => { t with a7 := v }

def KTab.ofList {α : Type} (d : α) (l : List α) : KTab α :=
  ⟨l.getD 0 d, l.getD 1 d, l.getD 2 d, l.getD 3 d, l.getD 4 d, l.getD 5 d, l.getD 6 d, l.getD 7 d⟩

def KTab.toList {α : Type} (t : KTab α) : List α := [t.a0, t.a1, t.a2, t.a3, t.a4, t.a5, t.a6, t.a7]

/-- `RecursionWorkPolicy`. -/
structure Policy where
  mode : Mode
  caps : KTab Nat
deriving Repr, DecidableEq

/-- `func (p RecursionWorkPolicy) Enabled() bool`. -/
def Policy.enabled (p : Policy) : Bool := p.mode != .off

/-- `RecursionFirewallConfig.Normalize` + `MustRecursionWorkPolicyFromConfig`:
an empty mode string is shadow, a zero cap is the default cap.  `none` is the
panic on an unknown mode. -/
def parseMode (s : String) : Option Mode :=
  if s == "" || s == "-" || s == "shadow" then some .shadow
  else if s == "off" then some .off
  else if s == "enforce" then some .enforce
  else none

def normCap (raw dflt : Nat) : Nat := if raw = 0 then dflt else raw

def policyFromConfig (mode : String) (raw dflt : KTab Nat) : Option Policy :=
  match parseMode mode with
  | none => none
  | some m => some { mode := m, caps := KTab.ofList 0 ((raw.toList.zip dflt.toList).map fun (r, d) => normCap r d) }

/-! ### the ledger as a transition system of atomic steps -/

/-- result of one ledger API call: `nil` or `*RecursionWorkLimitError{Kind, Limit}`. -/
inductive Res
  | ok
  | limit (k : Kind) (lim : Nat)
deriving Repr, DecidableEq

def Res.isOk : Res → Bool
  | .ok => true
  | _ => false

/-- shared words of one `RecursionWorkLedger` (each field is one atomic word),
plus the ghost table `acc` that counts accepted (nil-returning) aggregate debits. -/
structure Shared where
  ctr : KTab Nat := KTab.const 0        -- outbound / internal / signatures / dsDigests / nsec3Hashes
  acc : KTab Nat := KTab.const 0        -- ghost
  exh : KTab Bool := KTab.const false   -- `exhausted` bit set
  first : Nat := 0                      -- `first`: 0 or kind+1
  refs : Nat := 1
  rootDone : Bool := false
  published : Bool := false             -- `finished`
deriving Repr, DecidableEq

/-- where one goroutine stands inside `debit`. -/
inductive PC
  | idle
  | loaded (k : Kind) (used : Nat) (latch : Bool)   -- after `used := counter.Load()`, `used < limit`
  | added (k : Kind) (now : Nat)                    -- shadow: after `counter.Add(1)` returned `limit+1`
  | rejOr (k : Kind) (latch : Bool)                 -- enforce: saw `used >= limit`, before `exhausted.Or`
  | rejFirst (k : Kind) (latch : Bool)              -- after `Or`, before `first.CompareAndSwap`
  | done (r : Res)
deriving Repr, DecidableEq

structure LState where
  sh : Shared := {}
  pc : Nat → PC := fun _ => .idle

def setPC (pc : Nat → PC) (t : Nat) (v : PC) : Nat → PC := fun x => if x = t then v else pc x

inductive Label
  | start (tid : Nat) (k : Kind) (latch : Bool)   -- a goroutine enters `debit(kind, latchRejection)`
  | tick (tid : Nat)                              -- it performs its next atomic operation
  | reset (tid : Nat)                             -- the caller consumed the result
  | mark (k : Kind) (latch : Bool)                -- `markExhausted` from `checkLocal` / `reject` (local kinds)
deriving Repr, DecidableEq

/-- one atomic step.  Labels that are not enabled leave the state unchanged. -/
def lstep (p : Policy) (s : LState) : Label → LState
  | .start t k latch =>
    match s.pc t with
    | .idle =>
      if !p.enabled || !k.isAggregate then { s with pc := setPC s.pc t (.done .ok) }
      else if p.mode = .shadow then
        -- `counter.Add(1)` is the first atomic operation and it is unconditional
        let n := s.sh.ctr.get k + 1
        let sh := { s.sh with ctr := s.sh.ctr.set k n, acc := s.sh.acc.set k (s.sh.acc.get k + 1) }
        if n = p.caps.get k + 1 then { sh := sh, pc := setPC s.pc t (.added k n) }
        else { sh := sh, pc := setPC s.pc t (.done .ok) }
      else
        -- enforce: `used := counter.Load()`
        let used := s.sh.ctr.get k
        if used ≥ p.caps.get k then { s with pc := setPC s.pc t (.rejOr k latch) }
        else { s with pc := setPC s.pc t (.loaded k used latch) }
    | _ => s
  | .tick t =>
    match s.pc t with
    | .loaded k used latch =>
      -- `counter.CompareAndSwap(used, used+1)`
      if s.sh.ctr.get k = used then
        { sh := { s.sh with ctr := s.sh.ctr.set k (used + 1), acc := s.sh.acc.set k (s.sh.acc.get k + 1) },
          pc := setPC s.pc t (.done .ok) }
      else
        -- lost the race: loop, load again
        let u := s.sh.ctr.get k
        if u ≥ p.caps.get k then { s with pc := setPC s.pc t (.rejOr k latch) }
        else { s with pc := setPC s.pc t (.loaded k u latch) }
    | .added k _ =>
      -- shadow `markExhausted(kind, bit, false)`: only the `Or`
      { sh := { s.sh with exh := s.sh.exh.set k true }, pc := setPC s.pc t (.done .ok) }
    | .rejOr k latch =>
      { sh := { s.sh with exh := s.sh.exh.set k true }, pc := setPC s.pc t (.rejFirst k latch) }
    | .rejFirst k latch =>
      let f := if latch ∧ s.sh.first = 0 then k.idx + 1 else s.sh.first
      { sh := { s.sh with first := f }, pc := setPC s.pc t (.done (.limit k (p.caps.get k))) }
    | _ => s
  | .reset t =>
    match s.pc t with
    | .done _ => { s with pc := setPC s.pc t .idle }
    | _ => s
  | .mark k latch =>
    -- shadow mode never latches (`checkLocal` / `reject` pass `false` there); off mode never gets here
    if !p.enabled then s
    else
      let eff := latch && p.mode == .enforce
      { s with sh := { s.sh with exh := s.sh.exh.set k true,
                                 first := if eff ∧ s.sh.first = 0 then k.idx + 1 else s.sh.first } }

def lrun (p : Policy) (s : LState) (ls : List Label) : LState := ls.foldl (lstep p) s

/-! ### sequential API (what one goroutine sees when nobody interferes) -/

def resultOf : PC → Res
  | .done r => r
  | _ => .ok

/-- `Debit` / `DebitBestEffort` run alone: enter, at most three atomic steps. -/
def debit (p : Policy) (sh : Shared) (k : Kind) (latch : Bool) : Shared × Res :=
  let s := lrun p { sh := sh } [.start 0 k latch, .tick 0, .tick 0, .tick 0]
  (s.sh, resultOf (s.pc 0))

/-- `localDimension` succeeds. -/
def Kind.isLocal (k : Kind) : Bool := !k.isAggregate

/-- `markExhausted`. -/
def markExhausted (sh : Shared) (k : Kind) (latch : Bool) : Shared :=
  { sh with exh := sh.exh.set k true, first := if latch ∧ sh.first = 0 then k.idx + 1 else sh.first }

/-- `checkLocal(kind, used, latchRejection)` for a local kind. -/
def checkLocal (p : Policy) (sh : Shared) (k : Kind) (used : Nat) (latch : Bool) : Shared × Res :=
  if !p.enabled then (sh, .ok)
  else if used < p.caps.get k then (sh, .ok)
  else if p.mode = .shadow then
    (if used = p.caps.get k then markExhausted sh k false else sh, .ok)
  else (markExhausted sh k latch, .limit k (p.caps.get k))

/-- `reject(kind, latchRejection)` for a local kind. -/
def reject (p : Policy) (sh : Shared) (k : Kind) (latch : Bool) : Shared × Res :=
  if !p.enabled then (sh, .ok)
  else if p.mode = .shadow then (markExhausted sh k false, .ok)
  else (markExhausted sh k latch, .limit k (p.caps.get k))

/-- `EnforcementError`. -/
def enforcementError (p : Policy) (sh : Shared) : Res :=
  if p.mode ≠ .enforce then .ok
  else if sh.first = 0 then .ok
  else match Kind.ofIdx (sh.first - 1) with
    | some k => .limit k (p.caps.get k)
    | none => .ok

/-- `Retain`: succeeds while the policy is enabled and a reference is left. -/
def retain (p : Policy) (sh : Shared) : Shared × Bool :=
  if !p.enabled || sh.refs = 0 then (sh, false) else ({ sh with refs := sh.refs + 1 }, true)

/-- `release`. -/
def release (sh : Shared) : Shared :=
  let r := sh.refs - 1
  if r = 0 ∧ !sh.published then { sh with refs := r, published := true } else { sh with refs := r }

/-- `finish`: the root owner's one-shot release. -/
def finish (p : Policy) (sh : Shared) : Shared :=
  if !p.enabled || sh.rootDone then sh else release { sh with rootDone := true }

/-- one call of the ledger's error-returning API (everything whose result
steers the resolver's control flow). -/
inductive ApiOp
  | debit (k : Kind) (latch : Bool)                  -- `Debit` / `DebitBestEffort`
  | check (k : Kind) (used : Nat) (latch : Bool)     -- `CheckLocal` / best-effort `checkLocal`
  | reject (k : Kind) (latch : Bool)                 -- `Reject` / best-effort `reject`
  | enf                                              -- `EnforcementError`
deriving Repr, DecidableEq

def apiStep (p : Policy) (sh : Shared) : ApiOp → Shared × Res
  | .debit k latch => if k.isAggregate then debit p sh k latch else (sh, .ok)
  | .check k used latch => if k.isAggregate then (sh, .ok) else checkLocal p sh k used latch
  | .reject k latch => if k.isAggregate then (sh, .ok) else reject p sh k latch
  | .enf => (sh, enforcementError p sh)

/-- results of a sequential history of API calls. -/
def apiRun (p : Policy) : Shared → List ApiOp → List Res
  | _, [] => []
  | sh, op :: t => let (sh', r) := apiStep p sh op; r :: apiRun p sh' t

/-- EDE info-code of a limit error: `RecursionWorkLimitError.EDECode`
(`ExtendedErrorCodeOther` = 0, `ExtendedErrorCodeDNSSECIndeterminate` = 5). -/
def edeCode (k : Kind) : Nat := if k.isDNSSEC then 5 else 0

/-! ### `ResolutionAttemptGuard.begin` -/

/-- the guard's table: canonical tuple id ↦ attempts recorded (slots and the
overflow map are one association list here). -/
abbrev Guard := List (Nat × Nat)

def Guard.count (g : Guard) (key : Nat) : Nat :=
  match g with
  | [] => 0
  | (k, c) :: t => if k = key then c else Guard.count t key

def Guard.bump (g : Guard) (key : Nat) : Guard :=
  match g with
  | [] => [(key, 1)]
  | (k, c) :: t => if k = key then (k, c + 1) :: t else (k, c) :: Guard.bump t key

/-- `begin(hash)`: admitted iff fewer than `maxAttempts` attempts were recorded. -/
def Guard.begin (maxAttempts : Nat) (g : Guard) (key : Nat) : Guard × Bool :=
  if g.count key ≥ maxAttempts then (g, false) else (g.bump key, true)

/-! ### `Resolver.checkLoop` -/

/-- the per-qtype name list carried in the context: a name already present
twice is a loop, otherwise it is appended. -/
def checkLoop (l : List String) (name : String) : List String × Bool :=
  if (l.filter (· == name)).length > 1 then (l, true) else (l ++ [name], false)

/-! ### `Resolver.minimize` -/

/-- whether `minimize` sends a shortened name at `level` for a name of
`labels` labels: minimisation on, not disabled for this frame, below the
configured level, and the shortened name is a proper suffix. -/
def minimized (minLevel labels level : Nat) (nomin : Bool) : Bool :=
  minLevel ≠ 0 && !nomin && decide (level < minLevel) && decide (level + 1 < labels)

/-! ### one `resolve` frame as an adversarial transition system -/

/-- the part of `resolveState` (plus `servers.ErrorCount`-gated `checkHosts`)
that decides whether `resolve` calls itself again. -/
structure Frame where
  labels : Nat      -- label count of the question name (fixed)
  minLevel : Nat    -- `r.qnameMinLevel` (fixed)
  nomin : Bool      -- `rs.nomin`
  depth : Nat       -- `rs.depth`
  hosts : Bool      -- `checkHosts` not yet spent for the current server set
  level : Nat       -- `rs.level`
  work : Bool := true   -- `rs.work != nil`: the frame carries the request tree's ledger
deriving Repr, DecidableEq

/-- `Resolver.exchange`: the outbound debit happens exactly when the frame carries the ledger
(`if rs.work != nil { … Debit(RecursionWorkOutboundQuery) … }`). -/
def Frame.exchangeDebits (f : Frame) : Bool := f.work

/-- every way `resolve` re-enters itself.  The environment (the upstream
servers, the delegation cache) chooses which one and with which data. -/
inductive FStep : Frame → Frame → Prop
  /-- `rs.level++; return r.resolve(ctx, rs)` (resolve ×3, processAuthoritySection,
  processDelegation with no reachable server): only reachable while `minimized`. -/
  | levelUp (f : Frame) (h : minimized f.minLevel f.labels f.level f.nomin = true) :
      FStep f { f with level := f.level + 1 }
  /-- `handleLookupError`: a minimised lookup failed, retry without minimisation. -/
  | nominRetry (f : Frame) (h : minimized f.minLevel f.labels f.level f.nomin = true) :
      FStep f { f with nomin := true }
  /-- `handleLookupError`: all servers failed for the fifth time, `checkHosts` found new addresses. -/
  | checkHosts (f : Frame) (h : f.hosts = true) (hm : minimized f.minLevel f.labels f.level f.nomin = false) :
      FStep f { f with hosts := false }
  /-- `processDelegation` parent detection: restart at the root without minimisation. -/
  | parentRestart (f : Frame) (h : f.minLevel ≠ 0 ∧ f.nomin = false) (hosts : Bool) :
      FStep f { f with nomin := true, level := 0, hosts := hosts }
  /-- `processDelegation`: descend into the referral (`rs.depth--`, must stay positive),
  new server set, level = label count of the cut. -/
  | descend (f : Frame) (lvl : Nat) (hosts : Bool) (h : 1 < f.depth) :
      FStep f { f with depth := f.depth - 1, level := lvl, hosts := hosts }
  /-- `resolveWithCachedNameservers`: `rs.depth` drops by 1, or by 10 on a suspected loop. -/
  | cached (f : Frame) (d : Nat) (hosts : Bool) (hd : d = 1 ∨ d = 10) (h : d < f.depth) :
      FStep f { f with depth := f.depth - d, level := f.level + 1, hosts := hosts }

/-- levels still available to the minimiser. -/
def Frame.lim (f : Frame) : Nat := min f.minLevel (f.labels - 1)

/-- the termination measure of one frame. -/
def Frame.mu (f : Frame) : Nat :=
  let c := f.lim + 1
  (if f.nomin then 0 else 2 * c) + f.depth * (2 * c) + (if f.hosts then c else 0) + (f.lim - f.level)

/-! ### the request tree: nested frames behind `Queryer.Query` -/

/-- one activation of the resolver inside the request tree. -/
structure Act where
  frame : Frame
  credit : Nat     -- sub-queries this activation may still start before its next `resolve` step
  room : Nat       -- `maxQueryerRecursion - depth`: nesting levels left below this activation
deriving Repr, DecidableEq

/-- parameters of the tree: `frameCap` bounds `Frame.mu` of a fresh activation,
`fanout` bounds the sub-queries one `resolve` step can start (NS names of a
referral, DS / DNSKEY lookups, one DNAME target). -/
structure TreeCfg where
  frameCap : Nat
  fanout : Nat

def TreeCfg.k (c : TreeCfg) : Nat := c.frameCap * (c.fanout + 1) + c.fanout + 1

/-- weight of an activation with `room` nesting levels below it. -/
def TreeCfg.weight (c : TreeCfg) : Nat → Nat
  | 0 => 1
  | r + 1 => 1 + c.k * c.weight r

def Act.phi (c : TreeCfg) (a : Act) : Nat := a.frame.mu * (c.fanout + 1) + a.credit

def Act.pot (c : TreeCfg) (a : Act) : Nat := (a.phi c + 1) * c.weight a.room

def potential (c : TreeCfg) (st : List Act) : Nat := (st.map (Act.pot c)).sum

/-- steps of the whole request tree; the head of the list is the running activation. -/
inductive TStep (c : TreeCfg) : List Act → List Act → Prop
  /-- the running activation re-enters `resolve`; its sub-query credit is refilled. -/
  | frame (a : Act) (f' : Frame) (cr : Nat) (rest : List Act)
      (h : FStep a.frame f') (hc : cr ≤ c.fanout) :
      TStep c (a :: rest) ({ a with frame := f', credit := cr } :: rest)
  /-- `Queryer.Query` admitted: a nested activation starts (`depth < maxQueryerRecursion`). -/
  | spawn (a : Act) (child : Frame) (cr : Nat) (rest : List Act)
      (hcredit : 0 < a.credit) (hroom : 0 < a.room)
      (hmu : child.mu ≤ c.frameCap) (hc : cr ≤ c.fanout) :
      TStep c (a :: rest)
        ({ frame := child, credit := cr, room := a.room - 1 } :: { a with credit := a.credit - 1 } :: rest)
  /-- `Queryer.Query` refused (`ErrMaxRecursion`, budget, loop guard): the credit is spent, nothing starts. -/
  | refused (a : Act) (rest : List Act) (hcredit : 0 < a.credit) :
      TStep c (a :: rest) ({ a with credit := a.credit - 1 } :: rest)
  /-- the running activation returns. -/
  | ret (a : Act) (rest : List Act) : TStep c (a :: rest) rest

/-! ### DNSSEC: the two nested local counters of `verifyRRSIGWithWork` / `verifyOneSigWithWork` -/

/-- the three limits a signature check runs against: `MaxDNSKEYCandidates`
(per signature), `MaxRRsetSignatureChecks` (per RRset), and what is left of
the request tree's aggregate `MaxSignatureChecks`. -/
structure SigCaps where
  cand : Nat
  rrset : Nat
  budget : Nat
deriving Repr, DecidableEq

inductive SigOut
  | verified
  | failed
  | work (k : Kind)      -- a `WorkError`: the validation stops here
deriving Repr, DecidableEq

/-- the candidate loop of `verifyOneSigWithWork` for one RRSIG: `rem` eligible
same-tag keys are left, `i` = `candidateUsed`, `used` = `*rrsetUsed`, `spent` =
the tree's signature counter; `hit` is the index (in the validator's candidate
order) of the key that verifies this signature, if any.  Every public-key
operation (`BeginSignature` + `cryptoVerify`) advances `used` and `spent` by one. -/
def tryCands (enf : Bool) (c : SigCaps) (hit : Option Nat) : Nat → Nat → Nat → Nat → Nat × Nat × SigOut
  | 0, _, used, spent => (used, spent, .failed)
  | rem + 1, i, used, spent =>
    if enf && decide (c.cand ≤ i) then (used, spent, .work .dnskeyCand)
    else if enf && decide (c.rrset ≤ used) then (used, spent, .work .rrsetSig)
    else if enf && decide (c.budget ≤ spent) then (used, spent, .work .signature)
    else if hit = some i then (used + 1, spent + 1, .verified)
    else tryCands enf c hit rem (i + 1) (used + 1) (spent + 1)

/-- the signature loop of `verifyRRSIGWithWork` for one RRset: signatures in the
validator's order, each with its number of eligible candidates and its `hit`. -/
def verifyRRset (enf : Bool) (c : SigCaps) : List (Nat × Option Nat) → Nat → Nat → Nat × Nat × SigOut
  | [], used, spent => (used, spent, .failed)
  | (k, hit) :: t, used, spent =>
    match tryCands enf c hit k 0 used spent with
    | (u, s, .failed) => verifyRRset enf c t u s
    | r => r

/-! ### DNSSEC: the DS walk (`verifyDS`, plain and anchored) -/

/-- the candidate loop of `verifyDS` for one DS record: `rem` usable same-tag KSKs left,
`i` = `candidateUsed`, `spent` = the tree's DS-digest counter, `hit` = index of the KSK whose
digest matches (if any).  Every candidate examined costs one digest and one candidate slot,
the matching one included; the plain walk stops at the match, the anchored walk goes on.
Result: (spent', matched, work error). -/
def dsCands (enf anchored : Bool) (candCap budget : Nat) (hit : Option Nat) :
    Nat → Nat → Nat → Bool → Nat × Bool × Option Kind
  | 0, _, spent, m => (spent, m, none)
  | rem + 1, i, spent, m =>
    if enf && decide (candCap ≤ i) then (spent, m, some .dnskeyCand)
    else if enf && decide (budget ≤ spent) then (spent, m, some .dsDigest)
    else if hit = some i then
      (if anchored then dsCands enf anchored candCap budget hit rem (i + 1) (spent + 1) true
       else (spent + 1, true, none))
    else dsCands enf anchored candCap budget hit rem (i + 1) (spent + 1) m

/-- the DS loop of `verifyDS`: records in the validator's order, each with its number of
usable candidates and its `hit`.  Result: (spent', verdict ok?, work error). -/
def dsWalk (enf anchored : Bool) (candCap budget : Nat) : List (Nat × Option Nat) → Nat → Bool → Nat × Bool × Option Kind
  | [], spent, any => (spent, any, none)
  | (k, hit) :: t, spent, any =>
    match dsCands enf anchored candCap budget hit k 0 spent false with
    | (s, _, some e) => (s, false, some e)
    | (s, true, none) => if anchored then dsWalk enf anchored candCap budget t s true else (s, true, none)
    | (s, false, none) => dsWalk enf anchored candCap budget t s any

/-! ### DNSSEC: hashed denial (`nsec3RingEvaluator.hash`, `verifyNameErrorWithRing`, `VerifyNODATAForZoneWithWork`) -/

/-- the request tree's hash memo of the required scope (`NSEC3HashMemoFromContext`): `none` when
the context carries none, else the keys stored so far. -/
abbrev N3Memo := Option (List String)

/-- `nsec3RingEvaluator.hash` for a name that is not in the evaluator's own table:
a memo hit costs nothing; otherwise `BeginNSEC3Hash`, which is one debit of the tree's
NSEC3 counter through `dnssecWorkBudget.begin`.  A refused debit stores nothing
(`loadOrCompute` deletes the entry); a full memo (`maxNSEC3HashMemoEntries`) computes
without storing. -/
def n3Hash (p : Policy) (memoCap : Nat) (sh : Shared) (memo : N3Memo) (key : String) : Shared × N3Memo × Res :=
  match memo with
  | some m =>
    if m.contains key then (sh, memo, .ok)
    else match debit p sh .nsec3Hash true with
      | (sh', .ok) => (sh', some (if m.length < memoCap then m ++ [key] else m), .ok)
      | (sh', r) => (sh', memo, r)
  | none => match debit p sh .nsec3Hash true with
    | (sh', r) => (sh', none, r)

/-- the hash requests of one proof, in order, through the evaluator's own table `seen`;
the first refused request ends the proof. -/
def n3Run (p : Policy) (memoCap : Nat) : List String → List String → Shared → N3Memo → Shared × N3Memo × Res
  | [], _, sh, memo => (sh, memo, .ok)
  | n :: t, seen, sh, memo =>
    if seen.contains n then n3Run p memoCap t seen sh memo
    else match n3Hash p memoCap sh memo n with
      | (sh', memo', .ok) => n3Run p memoCap t (n :: seen) sh' memo'
      | (sh', memo', r) => (sh', memo', r)

/-- `labels` below `base`, from the full name upwards (`dnsname.Suffixes`), `base` last. -/
def n3Suffixes (base : String) : List String → List String
  | [] => [base]
  | l :: t => (".".intercalate (l :: t) ++ "." ++ base) :: n3Suffixes base t

/-- the queried name itself: the first name every proof hashes. -/
def n3Full (base : String) : List String → String
  | [] => base
  | l :: t => ".".intercalate (l :: t) ++ "." ++ base

/-- `findClosestEncloserWithWork`: names are hashed upwards until one owns a record of the ring. -/
def n3Climb (ring : List String) : List String → List String × Option String
  | [] => ([], none)
  | n :: t =>
    if ring.contains n then ([n], some n)
    else ((n :: (n3Climb ring t).1), (n3Climb ring t).2)

/-- the hash requests of one denial proof and the verdict it reaches when all of them are
admitted.  Name error: the climb, the next closer name (already in the evaluator's table: not
listed), the wildcard at the closest encloser; proved iff the name itself is not an owner and
the wildcard is not one.  NODATA: the name alone if it is an owner; else the same walk, proved
iff the wildcard is an owner.  (`ring` = original owner names of the NSEC3 ring; no delegation
or DNAME owners, no Opt-Out.) -/
def n3Plan (nodata : Bool) (ring : List String) (names : List String) : List String × Bool :=
  match names with
  | [] => ([], false)
  | full :: _ =>
    if ring.contains full then ([full], nodata)
    else match n3Climb ring names with
      | (ns, some ce) => (ns ++ ["*." ++ ce], if nodata then ring.contains ("*." ++ ce) else !ring.contains ("*." ++ ce))
      | (ns, none) => (ns, false)

inductive N3Out
  | secure | bogus | work (k : Kind) (lim : Nat)
deriving Repr, DecidableEq

/-- one required denial validation on the tree's ledger. -/
def n3Verify (p : Policy) (memoCap : Nat) (nodata : Bool) (ring : List String) (base : String) (labels : List String)
    (sh : Shared) (memo : N3Memo) : Shared × N3Memo × N3Out :=
  match n3Run p memoCap (n3Plan nodata ring (n3Suffixes base labels)).1 [] sh memo with
  | (sh', memo', .ok) => (sh', memo', if (n3Plan nodata ring (n3Suffixes base labels)).2 then .secure else .bogus)
  | (sh', memo', .limit k lim) => (sh', memo', .work k lim)

/-- `prepareNSEC3Set` in front of the proof: records advertising more than `maxIter`
iterations (`maxNSEC3Iterations`) are dropped before any work accounting, so a ring above the
ceiling is an empty ring — `ErrNSECMissingCoverage`, no hash requested. (All records of the
fixture ring advertise the same count; a mixed ring is refused as a whole either way.) -/
def n3VerifyIter (p : Policy) (memoCap maxIter iters : Nat) (nodata : Bool) (ring : List String) (base : String)
    (labels : List String) (sh : Shared) (memo : N3Memo) : Shared × N3Memo × N3Out :=
  if maxIter < iters then (sh, memo, .bogus)
  else n3Verify p memoCap nodata ring base labels sh memo

/-! ### the cache's alias chase and the request deadline -/

/-- what the chase loop of `cache.additionalAnswer` (all nesting levels of one
request share the context) can observe: how many internal exchanges it has
started, and whether the request deadline has passed. -/
structure ChaseState where
  started : Nat := 0
  expired : Bool := false
deriving Repr, DecidableEq

inductive ChaseEv
  | hop        -- some level reaches the top of its `lookup:` loop and wants another hop
  | deadline   -- the request deadline passes (`contextutil.EffectiveError(ctx) != nil` from now on)
deriving Repr, DecidableEq

/-- `if contextutil.EffectiveError(ctx) != nil { return SERVFAIL }` precedes
`c.internalExchange` on every iteration. -/
def chaseStep (s : ChaseState) : ChaseEv → ChaseState
  | .hop => if s.expired then s else { s with started := s.started + 1 }
  | .deadline => { s with expired := true }

def chaseRun (s : ChaseState) (evs : List ChaseEv) : ChaseState := evs.foldl chaseStep s

/-- one level of the chase (`additionalAnswer` from `lookup:` to the last `goto lookup`): `fuel` is
`cnameDepth`, `vis` the `targets` slice, `next` what the sub-query for a target reveals as the next
alias target (the environment).  The result is the list of targets an internal exchange was started
for, newest first. -/
def chaseLevel (next : Nat → Option Nat) : Nat → List Nat → Nat → List Nat
  | 0, vis, _ => vis
  | d + 1, vis, t =>
    if vis.contains t then vis            -- "Check for loops": SERVFAIL, no exchange
    else match next t with
      | none => t :: vis                  -- the target resolved (or failed) without a further alias
      | some t' => chaseLevel next d (t :: vis) t'

/-! ### failure classification and the over-budget reply -/

/-- inputs of `cacheableResolutionFailure`. -/
structure FailCtx where
  ctxErr : Bool        -- `contextutil.EffectiveError(ctx) != nil` (cancelled / deadline)
  bestEffort : Bool    -- `IsBestEffortRecursionWork(ctx)`
  enforced : Bool      -- `RecursionWorkEnforcementError(ctx) != nil`
  localMark : Bool     -- `RequestLocalFailureForResponse(ctx, res) != nil`
deriving Repr, DecidableEq

/-- `cacheableResolutionFailure`. -/
def cacheableFailure (c : FailCtx) : Bool :=
  !c.ctxErr && !c.bestEffort && !c.enforced && !c.localMark

/-- the error classes `MarkRequestLocalFailureResponse` accepts
(`IsRequestLocalResolutionError`). -/
inductive ErrClass
  | workLimit | attemptLimit | probeLimit | maxRecursion | canceled | deadline | other
deriving Repr, DecidableEq

def ErrClass.isRequestLocal : ErrClass → Bool
  | .other => false
  | _ => true

/-- client-visible shape of a reply. -/
structure Reply where
  rcode : Nat
  ede : Option Nat
deriving Repr, DecidableEq

/-- `ResponseWriter.WriteMsg` on a downstream SERVFAIL: when the request tree
latched an enforcement error the reply is rebuilt by `recursionWorkFailure`
(`SetRcodeWithEDE`: SERVFAIL, EDE only when the request carried OPT);
otherwise the downstream reply goes out unchanged. -/
def servfailReply (p : Policy) (sh : Shared) (reqHasOpt : Bool) (downstreamEde : Option Nat) : Reply :=
  match enforcementError p sh with
  | .limit k _ => { rcode := 2, ede := if reqHasOpt then some (edeCode k) else none }
  | .ok => { rcode := 2, ede := if reqHasOpt then downstreamEde else none }

/-- `cache.ResponseWriter.WriteMsg` on a response whose alias the cache chases itself: the chase
(`additionalAnswer` → internal sub-queries) spends `chase` against the tree's ledger first; whether the
resulting failure may enter the shared failure cache is decided on the ledger state AFTER the chase
(`cacheableResolutionFailure` reads `RecursionWorkEnforcementError(ctx)` when it is called). -/
def chasedFailureCacheable (p : Policy) (sh : Shared) (chase : List ApiOp) (ctxErr bestEffort localMark : Bool) : Bool :=
  let sh' := chase.foldl (fun s op => (apiStep p s op).1) sh
  cacheableFailure { ctxErr := ctxErr, bestEffort := bestEffort,
                     enforced := enforcementError p sh' != .ok, localMark := localMark }

/-! ### who owns the ledger: the request-lifetime pin of the outer Chain -/

/-- the pin slot of the server's request context (`beginLazyRecursionWorkOwner`,
`ensurePendingRecursionWork`, `finishLazyRecursionWork`): `pending` until real recursive work
materialises the one ledger of the tree, `closed` when the request completed without any. -/
inductive Pin
  | pending
  | live (sh : Shared)
  | closed
deriving Repr, DecidableEq

/-- result of a debit through a (possibly stale) request context. -/
inductive PinRes
  | ok
  | limit (k : Kind) (lim : Nat)
  | canceled          -- `context.Canceled` from the closed control ledger
deriving Repr, DecidableEq

inductive PinOp
  | debit (k : Kind) (latch : Bool)   -- `DebitRecursionWork(ctx, kind)` (aggregate kinds)
  | finish                            -- the outer Chain's deferred `finishLazyRecursionWork`
deriving Repr, DecidableEq

/-- one operation on the pin.  A materialised ledger stays the tree's ledger for ever — also after
`finish`, so that helpers outliving the request keep charging the budget they started under — and
a request that closed without a ledger refuses everything afterwards. -/
def pinStep (p : Policy) : Pin → PinOp → Pin × PinRes
  | .pending, .debit k latch =>
    if p.enabled then
      match debit p {} k latch with
      | (sh, .ok) => (.live sh, .ok)
      | (sh, .limit k' l) => (.live sh, .limit k' l)
    else (.pending, .ok)
  | .live sh, .debit k latch =>
    match debit p sh k latch with
    | (sh', .ok) => (.live sh', .ok)
    | (sh', .limit k' l) => (.live sh', .limit k' l)
  | .closed, .debit _ _ => (.closed, .canceled)
  | .pending, .finish => (.closed, .ok)
  | .live sh, .finish => (.live (finish p sh), .ok)
  | .closed, .finish => (.closed, .ok)

def pinRun (p : Policy) : Pin → List PinOp → Pin × List PinRes
  | pin, [] => (pin, [])
  | pin, op :: t => let (pin', r) := pinStep p pin op; let (pin'', rs) := pinRun p pin' t; (pin'', r :: rs)

/-- accepted debits of kind `k` in a result list (the ops list tells the kind). -/
def pinAccepted (k : Kind) : List PinOp → List PinRes → Nat
  | .debit k' _ :: ops, .ok :: rs => (if k' = k then 1 else 0) + pinAccepted k ops rs
  | _ :: ops, _ :: rs => pinAccepted k ops rs
  | _, _ => 0

/-! ### `pickFallbackResponse`: what `lookup` hands back when no authority answered cleanly -/

inductive LookupErr | workLimit | attemptLimit | other
deriving Repr, DecidableEq

inductive Picked
  | work | attempt | resp (i : Nat) | config | conn | none
deriving Repr, DecidableEq

def firstNX : List Nat → Nat → Option Nat
  | [], _ => .none
  | rc :: t, i => if rc = 3 then some i else firstNX t (i + 1)

/-- `pickFallbackResponse(responseErrors, configErrors, fatalErrors)`: rcodes of the error responses in
arrival order, number of bogus-referral responses, the errors of the attempts. -/
def pickFallback (rcodes : List Nat) (nconfig : Nat) (errs : List LookupErr) : Picked :=
  if errs.contains .workLimit then .work
  else match firstNX rcodes 0 with
    | some i => .resp i
    | .none =>
      if errs.contains .attemptLimit then .attempt
      else if rcodes ≠ [] then .resp 0
      else if nconfig ≠ 0 then .config
      else if errs ≠ [] then .conn
      else .none

/-- `recordResolutionZoneFailure`'s own guard: which causes may publish a zone-wide failure. -/
def zoneFailureRecordable (zoneKnown bestEffort ctxErr : Bool) (cause : Option ErrClass) : Bool :=
  zoneKnown && !bestEffort && !ctxErr &&
    (match cause with
     | some .canceled | some .deadline | some .workLimit | some .attemptLimit | some .maxRecursion => false
     | _ => true)

/-! ### `Resolver.Resolve` / `subQuery`: the latched rejection replaces any outcome -/

/-- what `resolve()` handed back. -/
inductive Inner | answer | failure
deriving Repr, DecidableEq

inductive Outcome | answer | failure | policy (k : Kind) (lim : Nat)
deriving Repr, DecidableEq

/-- after `resolve()` returned, `Resolve` re-reads the tree's latch: a required debit refused
anywhere in the tree — also in a branch that swallowed its error (the per-host lookups of the
nameserver-address refresh, a losing parallel branch) — turns the outcome into the policy error. -/
def resolveOutcome (p : Policy) (sh : Shared) (inner : Inner) : Outcome :=
  match enforcementError p sh with
  | .limit k l => .policy k l
  | .ok => match inner with
    | .answer => .answer
    | .failure => .failure

/-- `ResponseMeta.detachedCopy`: the meta a wire-born request continues on keeps the pipeline's
work policy whether or not request-tree state exists yet. -/
def detachedPolicy (p : Policy) (_hasLedgerHost : Bool) : Policy := p

/-! ### forwarder mode: every hop of an alias chain is an upstream query of the same tree -/

def ApiOp.isOutboundDebit : ApiOp → Bool
  | .debit .outbound _ => true
  | _ => false

/-- run API calls in order until one is refused; count the admitted outbound debits (each is one
query that really goes upstream: `BeforeAttempt` precedes the dial). -/
def runOps (p : Policy) : Shared → List ApiOp → Shared × Nat × Bool
  | sh, [] => (sh, 0, true)
  | sh, op :: t =>
    match apiStep p sh op with
    | (sh', .ok) =>
      let r := runOps p sh' t
      (r.1, r.2.1 + (if op.isOutboundDebit then 1 else 0), r.2.2)
    | (sh', .limit _ _) => (sh', 0, false)

/-- the work of resolving an alias chain of `len` bare CNAMEs through the forwarder with a cold cache:
the client's question goes upstream (`Forwarder.ServeDNS`: outbound debit), then for every hop the cache's
chase starts an internal sub-query (`Queryer.Query`: internal debit) that goes upstream again. -/
def forwardOps (len : Nat) : List ApiOp :=
  .debit .outbound true :: (List.range len).flatMap fun _ => [.debit .internal true, .debit .outbound true]

/-- `failover.ResponseWriter.WriteMsg` on a downstream SERVFAIL (RD set, one fallback server that
answers): a request tree that already latched an enforcement error — whichever budget ran out —
gets the policy SERVFAIL and no fallback query; otherwise the fallback attempt is one more
transport attempt of the same tree (`BeforeAttempt`: outbound debit) and is refused when that
debit is.  Result: the reply and whether the fallback server was queried. -/
def failoverReply (p : Policy) (sh : Shared) (reqHasOpt : Bool) : Reply × Bool :=
  match enforcementError p sh with
  | .limit k _ => ({ rcode := 2, ede := if reqHasOpt then some (edeCode k) else none }, false)
  | .ok =>
    match (apiStep p sh (.debit .outbound true)).2 with
    | .limit k _ => ({ rcode := 2, ede := if reqHasOpt then some (edeCode k) else none }, false)
    | .ok => ({ rcode := 0, ede := none }, true)

end SdnsVerif.Model.Work
