import SdnsVerif.Spec.Zone
/-
Executable model of the NSEC side of
/repo/middleware/resolver/dnssec/nsec.go and aggressive_negative.go, of
/repo/internal/dnsutil/rrset.go (FilterRRsToZone / NameInZone) and of
/repo/internal/dnsname/dnsname.go (CanonicalCompare / CompareSuffix).
Core Lean only.

Names are canonical (folded) root-side-first label lists (see Spec/Zone.lean);
the Go code folds inside its comparisons (exact validators) or when it builds
`aggressiveCanonicalName` (aggressive classifier); the line-protocol driver
applies `foldName` where a name enters, which is the same thing.  Every error
of the Go code is mapped to the small enum `Err` (`errors.Is`), since all the
`aggressiveFallback(..)` reasons wrap `ErrNSECMissingCoverage`.
-/
namespace SdnsVerif.Model.Nsec
open SdnsVerif.Spec.Zone

inductive Err
  | missing        -- ErrNSECMissingCoverage (and every aggressiveFallback)
  | typeExists     -- ErrNSECTypeExists
  | badDelegation  -- ErrNSECBadDelegation
  | nsMissing      -- ErrNSECNSMissing
  | optOut         -- ErrNSECOptOut
  | noDenial       -- ErrWildcardNoDenial
deriving Repr, DecidableEq

def Err.str : Err → String
  | .missing => "missing"
  | .typeExists => "typeexists"
  | .badDelegation => "baddeleg"
  | .nsMissing => "nsmissing"
  | .optOut => "optout"
  | .noDenial => "nodenial"

instance {ε α : Type} [DecidableEq ε] [DecidableEq α] : DecidableEq (Except ε α)
  | .ok a, .ok b => if h : a = b then isTrue (by rw [h]) else isFalse (by intro e; cases e; exact h rfl)
  | .error a, .error b => if h : a = b then isTrue (by rw [h]) else isFalse (by intro e; cases e; exact h rfl)
  | .ok _, .error _ => isFalse (by intro e; cases e)
  | .error _, .ok _ => isFalse (by intro e; cases e)

/-- `dnsname.CanonicalCompare` (on unfolded input). -/
def canonicalCompare (a b : Name) : Ordering := cmpName (foldName a) (foldName b)

/-- `dnsutil.NameInZone` / `aggressiveCanonicalName.isSubdomainOf`: apex or descendant. -/
def nameInZone (name zone : Name) : Bool := zone.isPrefixOf name

/-- `aggressiveCanonicalName.isStrictSubdomainOf`. -/
def isStrictSub (name parent : Name) : Bool := parent.isPrefixOf name && parent.length < name.length

/-- `dnsutil.FilterRRsToZone` restricted to NSEC records: owner and
NextDomain must both be in the zone. -/
def filterToZone (zone : Name) (s : List Nsec) : List Nsec :=
  s.filter fun r => nameInZone r.owner zone && nameInZone r.next zone

/-- `dnssec.nsecCovers`. -/
def nsecCovers (owner next name : Name) : Bool :=
  let cmpON := cmpName owner next
  let cmpNameOwner := cmpName name owner
  let cmpNameNext := cmpName name next
  if cmpON = .eq then cmpNameOwner != .eq
  else if cmpON = .lt then cmpNameOwner = .gt && cmpNameNext = .lt
  else cmpNameOwner = .gt || cmpNameNext = .lt

/-- `dnssec.closestEncloserFromNSEC`: the longest run of labels `q` shares
with the covering record's owner or next name, capped to a proper ancestor;
`[]` is the root (`"."`). -/
def closestEncloserFromNSEC (q : Name) (r : Nsec) : Name :=
  let n := max (lcp q r.owner) (lcp q r.next)
  let n := if n ≥ q.length then q.length - 1 else n
  q.take n

def typesSet (bitmap : List Nat) (ts : List Nat) : Bool := bitmap.any fun t => ts.contains t

/-- `aggressiveDelegationBitmap`: NS set, SOA clear. -/
def aggressiveDelegationBitmap (b : List Nat) : Bool := typesSet b [tNS] && !typesSet b [tSOA]

/-- `dnssec.nsecMisusedFor` (RFC 6840 §4.1): the record's owner is a proper
ancestor of `name` and it is an ancestor-delegation NSEC or carries DNAME. -/
def nsecMisusedFor (r : Nsec) (name : Name) : Bool :=
  isStrictSub name r.owner && (aggressiveDelegationBitmap r.types || typesSet r.types [tDNAME])

/-- `dnssec.nsecProvesENT`: the next name lies strictly below `name`. -/
def nsecProvesENT (r : Nsec) (name : Name) : Bool := isStrictSub r.next name

/-- `dnssec.VerifyNameErrorNSEC` (no DNAME in the answer section). -/
def verifyNameErrorNSEC (q : Name) (s : List Nsec) : Except Err Unit :=
  if s.isEmpty then .error .missing else
  match s.find? fun r => nsecCovers r.owner r.next q with
  | none => .error .missing
  | some c =>
    if nsecMisusedFor c q then .error .badDelegation
    else if nsecProvesENT c q then .error .missing
    else
    let ce := closestEncloserFromNSEC q c
    if ce = [] then .ok ()
    else match s.find? fun r => nsecCovers r.owner r.next (ce ++ [star]) with
      | none => .error .missing
      | some w =>
        if nsecMisusedFor w (ce ++ [star]) then .error .badDelegation
        else if nsecProvesENT w (ce ++ [star]) then .error .missing
        else .ok ()

/-- the bitmap test of the wildcard NODATA branch of `VerifyNODATANSEC`. -/
def nodataBitmap (t : Nat) (bitmap : List Nat) : Except Err Unit :=
  if typesSet bitmap [t, tCNAME] then .error .typeExists
  else if t = tDS && typesSet bitmap [tSOA] then .error .badDelegation
  else .ok ()

/-- the bitmap test of the exact-owner branch: additionally, a delegation
point's record (NS set, SOA clear) denies DS only. -/
def nodataBitmapExact (t : Nat) (bitmap : List Nat) : Except Err Unit :=
  if typesSet bitmap [t, tCNAME] then .error .typeExists
  else if t = tDS && typesSet bitmap [tSOA] then .error .badDelegation
  else if t ≠ tDS && aggressiveDelegationBitmap bitmap then .error .badDelegation
  else .ok ()

/-- `dnssec.VerifyNODATANSEC`. -/
def verifyNODATANSEC (q : Name) (t : Nat) (s : List Nsec) : Except Err Unit :=
  if s.isEmpty then .error .missing else
  match s.find? fun r => r.owner == q with
  | some r => nodataBitmapExact t r.types
  | none =>
    match s.find? fun r => nsecCovers r.owner r.next q with
    | none => .error .missing
    | some c =>
      if nsecMisusedFor c q then .error .badDelegation else
      let w := closestEncloserFromNSEC q c ++ [star]
      match s.find? fun r => r.owner == w with
      | some r => nodataBitmap t r.types
      | none => .error .missing

/-- `dnssec.VerifyDelegationNSEC`. -/
def verifyDelegationNSEC (d : Name) (s : List Nsec) : Except Err Unit :=
  match s.find? fun r => r.owner == d with
  | none => .error .missing
  | some r =>
    if !typesSet r.types [tNS] then .error .nsMissing
    else if typesSet r.types [tDS, tSOA] then .error .badDelegation
    else .ok ()

/-- `dnsutil.DnameTarget`: the FIRST DNAME of the answer section decides; it
rewrites the question name only when its owner is a proper ancestor, label
by label, and then substitutes the target for the owner. -/
def dnameTarget (q : Name) (dnames : List (Name × Name)) : Option Name :=
  match dnames with
  | [] => none
  | (owner, target) :: _ =>
    if owner.length = 0 || q.length ≤ owner.length then none
    else if !owner.isPrefixOf q then none
    else some (target ++ q.drop owner.length)

/-- the name the exact validators deny: the question name, or its DNAME rewriting. -/
def proofName (q : Name) (dnames : List (Name × Name)) : Name := (dnameTarget q dnames).getD q

/-! ### which RRSIG may vouch for which RRset (`signatureMatchesRRset`, label rule) -/

/-- labels an RRSIG over `owner` counts when the RRset is NOT an expansion:
the owner's labels, a leading `*` not counted (RFC 4034 §3.1.3). -/
def effectiveLabels (owner : Name) : Nat :=
  if owner.getLast? = some star then owner.length - 1 else owner.length

/-- `wildcardExpanded`: the signature can only verify as a wildcard expansion. -/
def wildcardExpanded (owner : Name) (sigLabels : Nat) : Bool := sigLabels < effectiveLabels owner

/-- the name-and-label part of `signatureMatchesRRset` (class / type / owner
equality of RRSIG and RRset are the harness's by construction): the owner has
at least `Labels` labels, lies in the signer zone, and — for NSEC / NSEC3 —
the RRset is not a wildcard expansion. -/
def signatureMatches (signer owner : Name) (sigLabels typeCovered : Nat) : Bool :=
  owner.length ≥ sigLabels && nameInZone owner signer &&
  !((typeCovered == tNSEC || typeCovered == 50) && wildcardExpanded owner sigLabels)

/-- the owner name the signature was actually computed over (RFC 4035 §5.3.2):
`*.<last Labels labels>` when the RRSIG counts fewer labels than the owner. -/
def signedOwner (owner : Name) (sigLabels : Nat) : Name :=
  if sigLabels < owner.length then owner.take sigLabels ++ [star] else owner

/-! ### wildcard-expanded answers (wildcard.go) -/

/-- one RRSIG of the answer section: owner name and its Labels field. -/
structure AnsSig where
  owner : Name
  labels : Nat
deriving Repr, DecidableEq

/-- the next closer name of a wildcard-expanded RRSIG: one label longer than
the closest encloser (the last `labels` labels of the owner). -/
def AnsSig.nextCloser (g : AnsSig) : Name := g.owner.take (g.labels + 1)

/-- `dnssec.VerifyWildcardAnswerForZoneWithWork` over NSEC records (the
authority section after `FilterRRsToZone`): EVERY RRSIG whose Labels field is
smaller than its owner's label count needs an NSEC covering ITS next closer
name — a span whose next name lies below the next closer (`nsecProvesENT`:
the name is an empty non-terminal and exists) does not count; a missing
denial is `ErrWildcardNoDenial`.  NSEC covers are always secure. -/
def verifyWildcardNSEC : List AnsSig → List Nsec → Except Err Bool
  | [], _ => .ok true
  | g :: rest, s =>
    if g.labels ≥ g.owner.length then verifyWildcardNSEC rest s
    else if s.any fun r => nsecCovers r.owner r.next g.nextCloser && !nsecProvesENT r g.nextCloser then
      verifyWildcardNSEC rest s
    else .error .noDenial

/-! ### the RFC 8198 classifier (aggressive_negative.go) -/

/-- an admitted record with its position in the caller's list (the proof the
evaluator hands back is a list of the caller's records). -/
structure Entry where
  idx : Nat
  r : Nsec
deriving Repr, DecidableEq

/-- `aggressiveNODATAType`: the meta / pseudo types never synthesise NODATA. -/
def nodataExceptions : List Nat := [0, 41, 249, 250, 251, 252, 253, 254, 255]
def aggressiveNODATAType (t : Nat) : Bool := !nodataExceptions.contains t

/-- `validateAggressiveExactNODATA`. -/
def validateAggressiveExactNODATA (t : Nat) (b : List Nat) : Except Err Unit :=
  if typesSet b [t, tCNAME] then .error .typeExists
  else if t = tDS && typesSet b [tSOA] then .error .badDelegation
  else if t ≠ tDS && aggressiveDelegationBitmap b then .error .badDelegation
  else .ok ()

/-- `aggressiveTypeBitmapsEqual` (as sets). -/
def bitmapsEqual (a b : List Nat) : Bool := a.all (fun t => b.contains t) && b.all (fun t => a.contains t)

/-- `validateAggressiveQuestionSigner`. -/
def validQuestion (q : Name) (t qclass : Nat) (signer : Name) : Bool :=
  t != 0 && qclass != 0 && qclass != 255 && qclass != 254 && nameInZone q signer

/-- `appendAggressiveNSECEntry` folded over the records
(`newAggressiveNSECEntries`): class homogeneity, signer containment, no
singleton interval below the apex, no conflicting owner, exact repeats dropped. -/
def addEntry (qclass : Nat) (zone : Name) (acc : List Entry) (e : Entry) : Except Err (List Entry) :=
  if e.r.cls != qclass then .error .missing
  else if !(nameInZone e.r.owner zone && nameInZone e.r.next zone) then .error .missing
  else if e.r.owner == e.r.next && e.r.owner != zone then .error .missing
  else match acc.find? fun x => x.r.owner == e.r.owner with
    | some x => if x.r.next != e.r.next || !bitmapsEqual x.r.types e.r.types then .error .missing else .ok acc
    | none => .ok (acc ++ [e])

def addEntries (qclass : Nat) (zone : Name) : List Entry → List Entry → Except Err (List Entry)
  | acc, [] => .ok acc
  | acc, e :: t => match addEntry qclass zone acc e with
    | .error x => .error x
    | .ok acc' => addEntries qclass zone acc' t

def indexed (i : Nat) : List Nsec → List Entry
  | [] => []
  | r :: t => { idx := i, r := r } :: indexed (i + 1) t

def newEntries (records : List Nsec) (qclass : Nat) (zone : Name) : Except Err (List Entry) :=
  if records.isEmpty then .error .missing else addEntries qclass zone [] (indexed 0 records)

inductive NState
  | exact | ent | absent
deriving Repr, DecidableEq

/-- the second test of `aggressiveNSECClassifyInterval`: `name` is at or past
NextDomain (normal span), resp. not below NextDomain (wrap-around span). -/
def beyondNext (name : Name) (r : Nsec) : Bool :=
  if cmpName r.next r.owner = .gt then cmpName name r.next != .lt else !nameInZone name r.next

/-- `aggressiveNSECClassifyInterval` (RFC 8198 Appendix B): `none` = not covered. -/
def classifyInterval (name : Name) (r : Nsec) : Option NState :=
  if cmpName name r.owner != .gt || name == r.next then none
  else if beyondNext name r then none
  else if isStrictSub r.next name then some .ent
  else some .absent

/-- `classifyAggressiveNSECName`.  All the consistency failures of the Go loop
(multiple exact, overlapping intervals, exact-and-covered, nothing found) are
`ErrNSECMissingCoverage`, so the loop is modelled by the two selections. -/
def classify (name : Name) (es : List Entry) : Except Err (NState × Entry) :=
  if es.any fun e => isStrictSub name e.r.owner &&
      (aggressiveDelegationBitmap e.r.types || typesSet e.r.types [tDNAME]) then .error .badDelegation
  else
    let exacts := es.filter fun e => e.r.owner == name
    let covers := es.filter fun e => e.r.owner != name && (classifyInterval name e.r).isSome
    match exacts, covers with
    | [x], [] => .ok (.exact, x)
    | [], [c] =>
      match classifyInterval name c.r with
      | some st => .ok (st, c)
      | none => .error .missing
    | _, _ => .error .missing

/-- `closestEncloserFromAggressiveNSEC`; `none` when the question is the root. -/
def closestEncloserFromAggressiveNSEC (q : Name) (c : Nsec) : Option Name :=
  if q.length = 0 then none else
  let shared := max (lcp q c.owner) (lcp q c.next)
  let shared := if shared ≥ q.length then q.length - 1 else shared
  some (q.take shared)

inductive Rcode
  | nxdomain | nodata
deriving Repr, DecidableEq

def proofOf (a b : Entry) : List Nat := if a.idx = b.idx then [a.idx] else [a.idx, b.idx]

/-- `evaluateAggressiveNSECEntries`: the verdict and the positions of the
proof records. -/
def evaluateEntries (q : Name) (t : Nat) (signer : Name) (es : List Entry) : Except Err (Rcode × List Nat) :=
  match classify q es with
  | .error e => .error e
  | .ok (.exact, x) =>
    if !aggressiveNODATAType t then .error .missing
    else match validateAggressiveExactNODATA t x.r.types with
      | .error e => .error e
      | .ok _ => .ok (.nodata, [x.idx])
  | .ok (.ent, x) =>
    if !aggressiveNODATAType t then .error .missing else .ok (.nodata, [x.idx])
  | .ok (.absent, c) =>
    if q == signer then .error .missing else
    match closestEncloserFromAggressiveNSEC q c.r with
    | none => .error .missing
    | some ce =>
      if !nameInZone ce signer then .error .missing else
      match classify (ce ++ [star]) es with
      | .error e => .error e
      | .ok (.exact, w) =>
        if !aggressiveNODATAType t || t == tDS then .error .missing
        else if aggressiveDelegationBitmap w.r.types || typesSet w.r.types [tDNAME] then .error .badDelegation
        else match validateAggressiveExactNODATA t w.r.types with
          | .error e => .error e
          | .ok _ => .ok (.nodata, proofOf c w)
      | .ok (.ent, w) =>
        if !aggressiveNODATAType t || t == tDS then .error .missing
        else .ok (.nodata, proofOf c w)
      | .ok (.absent, w) => .ok (.nxdomain, proofOf c w)

/-- `dnssec.EvaluateAggressiveNSEC` (and its Prepared / Set variants, which
the correspondence run checks to agree). -/
def evaluateAggressiveNSEC (q : Name) (t qclass : Nat) (signer : Name) (records : List Nsec) :
    Except Err (Rcode × List Nat) :=
  if !validQuestion q t qclass signer then .error .missing else
  match newEntries records qclass signer with
  | .error e => .error e
  | .ok es => evaluateEntries q t signer es

end SdnsVerif.Model.Nsec
