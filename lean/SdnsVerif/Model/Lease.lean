/-
Model of the delegation-lease machinery of sdns (property C08).  Core Lean only.

* `/repo/internal/authority/cache.go`      — `Cache.Set / SetUntil / Get / Remove` (`ACache`)
* `/repo/middleware/resolver/resolver.go`  — `minNonZero`, `minCut`, `minRRSetTTL`,
  the NS-TTL part of `extractDelegationInfo`, the lease computation of
  `processDelegation`, and an abstract event system for the descent
  (`resolve` seed, `processDelegation`, `resolveWithCachedNameservers`, `noteCut`)
* `/repo/middleware/chain.go`              — `ResponseMeta.BoundCutFor / Cut` (`Meta`)
* `/repo/middleware/cache/types.go`        — `CacheEntry.remaining`

Time is `Int` nanoseconds with an explicit `now`; a zero `time.Time`
("unbounded") is `none`.  TTLs are `Nat` seconds.
-/
namespace SdnsVerif.Model.Lease

/-- an absolute deadline; `none` is the zero `time.Time` = unbounded -/
abbrev Deadline := Option Int

/-- one second in the model's time unit (ns) -/
def sec : Int := 1000000000

/-- `func minNonZero(a, b time.Time) time.Time` -/
def minNonZero (a b : Deadline) : Deadline :=
  match a, b with
  | none, _ => b
  | some x, none => some x
  | some x, some y => if x < y then some x else some y

/-- `func minCut(a time.Time, aKey uint64, b time.Time, bKey uint64) (time.Time, uint64)` -/
def minCut (a : Deadline) (aKey : Nat) (b : Deadline) (bKey : Nat) : Deadline × Nat :=
  match a, b with
  | none, _ => (b, bKey)
  | some x, none => (some x, aKey)
  | some x, some y => if y < x then (some y, bKey) else (some x, aKey)

/-- `func minRRSetTTL(rrs []dns.RR) uint32` over the TTLs of the set -/
def minRRSetTTL : List Nat → Nat
  | [] => 0
  | t :: rest => rest.foldl (fun m x => if x < m then x else m) t

/-- NS part of `extractDelegationInfo`: the first NS anchors the RRset, later
records of another owner/class (`false`) are skipped and mark the referral
incoherent, the lease TTL is the minimum over the coherent ones.
Returns (nsTTL, hasNS, incoherent). -/
def nsInfo : List (Nat × Bool) → Nat × Bool × Bool
  | [] => (0, false, false)
  | (t, _) :: rest =>
    let r := rest.foldl (fun (acc : Nat × Bool) (x : Nat × Bool) =>
      if x.2 then ((if x.1 < acc.1 then x.1 else acc.1), acc.2) else (acc.1, true)) (t, false)
    (r.1, true, r.2)

/-! ### authority.Cache -/

structure Deleg where
  tag : Nat          -- identity of the Servers / DS payload
  expiresAt : Int
deriving Repr, DecidableEq

structure ACache where
  entries : List (Nat × Deleg) := []

inductive GetRes
  | ok (d : Deleg)
  | notFound
  | expired
deriving Repr, DecidableEq

/-- `Cache.Get`: an entry is invisible at and after its expiry (`!now.Before(ExpiresAt)`). -/
def ACache.get (c : ACache) (now : Int) (key : Nat) : GetRes :=
  match c.entries.lookup key with
  | none => .notFound
  | some d => if now < d.expiresAt then .ok d else .expired

def ACache.store (c : ACache) (key : Nat) (d : Deleg) : ACache :=
  { entries := (key, d) :: c.entries }

/-- the deadline `Cache.Set` stores for `ttl` (none: nothing is stored) -/
def clampTTL (maxTTL now ttl : Int) : Option Int :=
  if ttl ≤ 0 then none else some (now + (if ttl > maxTTL then maxTTL else ttl))

/-- the deadline `Cache.SetUntil` stores for `expiresAt` (none: nothing is stored) -/
def clampUntil (maxTTL now : Int) : Deadline → Option Int
  | none => none
  | some e => if now < e then some (if now + maxTTL < e then now + maxTTL else e) else none

/-- `Cache.Set` -/
def ACache.set (c : ACache) (maxTTL now : Int) (key tag : Nat) (ttl : Int) : ACache :=
  match clampTTL maxTTL now ttl with
  | none => c
  | some e => c.store key ⟨tag, e⟩

/-- `Cache.SetUntil` -/
def ACache.setUntil (c : ACache) (maxTTL now : Int) (key tag : Nat) (expiresAt : Deadline) : ACache :=
  match clampUntil maxTTL now expiresAt with
  | none => c
  | some e => c.store key ⟨tag, e⟩

/-- `Cache.Remove` -/
def ACache.remove (c : ACache) (key : Nat) : ACache :=
  { entries := c.entries.filter (fun p => p.1 != key) }

/-! ### the lease computation of `processDelegation` -/

/-- `leaseDeadline` after the ceiling and the DS bound: `observedAt + NS TTL`,
lowered to `observedAt + maxTTL` (`authority.MaximumTTL`, the 12 h ceiling
measured from the observation), then lowered to `observedAt + min DS TTL` when a
DS set is retained (`len(rs.parentDS) > 0`). -/
def leaseDeadline (maxTTL : Int) (observedAt : Int) (nsTTL : Nat) (dsTTLs : List Nat) : Int :=
  let lease0 := observedAt + (nsTTL : Int) * sec
  let lease := if observedAt + maxTTL < lease0 then observedAt + maxTTL else lease0
  if dsTTLs.isEmpty then lease else
    let ds := observedAt + (minRRSetTTL dsTTLs : Int) * sec
    if ds < lease then ds else lease

/-- `childDeadline, childKey := minCut(rs.cutDeadline, rs.cutKey, leaseDeadline, key)` -/
def childCut (maxTTL : Int) (cut : Deadline) (cutKey : Nat) (observedAt : Int) (nsTTL : Nat) (dsTTLs : List Nat)
    (key : Nat) : Deadline × Nat :=
  minCut cut cutKey (some (leaseDeadline maxTTL observedAt nsTTL dsTTLs)) key

/-! ### middleware.ResponseMeta -/

structure Meta where
  cut : Deadline := none
  key : Nat := 0
deriving Repr, DecidableEq

/-- `ResponseMeta.BoundCutFor`: min-only fold, zero deadlines ignored -/
def Meta.boundCutFor (m : Meta) (d : Deadline) (key : Nat) : Meta :=
  match d with
  | none => m
  | some x =>
    match m.cut with
    | none => ⟨some x, key⟩
    | some c => if x < c then ⟨some x, key⟩ else m

/-! ### cache.CacheEntry -/

/-- `CacheEntry.remaining(now)` -/
def remaining (stored ttl : Int) (cutUntil : Deadline) (now : Int) : Int :=
  let rem := ttl - (now - stored)
  match cutUntil with
  | none => rem
  | some c => if c - now < rem then c - now else rem

/-- `Store.ReplaceIfCurrent` (the prefetch write-back): the CAS stays within one
sub-cache (`samePartition`: claimed entry and refresh both answer-like, or both
SERVFAIL); the replacement carries the REFRESH's cut and identity verbatim,
whatever kind of answer (positive, NXDOMAIN, NODATA, SERVFAIL) it is. -/
def replaceIfCurrent (samePartition : Bool) (cut : Deadline) (cutKey : Nat) : Option (Deadline × Nat) :=
  if samePartition then some (cut, cutKey) else none

/-- `boundRequestToEntryLifetime`: a cache hit folds the EARLIER of the entry's own expiry
(`stored + ttl`) and its delegation cut into the request tree's meta (identity: the cut's
key when the cut decides, else 0). -/
def entryBound (m : Meta) (stored ttl : Int) (cut : Deadline) (cutKey : Nat) : Meta :=
  match cut with
  | some c => if c ≤ stored + ttl then m.boundCutFor (some c) cutKey else m.boundCutFor (some (stored + ttl)) 0
  | none => m.boundCutFor (some (stored + ttl)) 0

/-- `checkGlueRR` for one glued name server: the servers a referral yields, and what the
(lease-less) glue address cache holds afterwards, are the addresses of THIS referral
whatever the cache held before; without glue the cache is left alone and nothing is yielded. -/
def glueFromReferral (cached : List Nat) (referral : List Nat) : List Nat × List Nat :=
  if referral.isEmpty then ([], cached) else (referral, referral)

/-- what every write entry point of the answer cache (`SetFromResponseWithKey`,
`SetFromResponseWithCut`, `SetFromResponseScoped`, the prefetch worker's write-back)
stores as `cutUntil` / `cutKey`: the delegation cut it was handed, verbatim — an ECS
TTL cap, the kind of answer or the client that claimed a refresh never replace it. -/
def storeCut (cut : Deadline) (cutKey : Nat) : Deadline × Nat := (cut, cutKey)

/-- `denialProofExpiry` (and the same bounds in `nxDomainCutCache.record`): how long the
cache may SYNTHESIZE answers from a validated denial (RFC 8198 proof index, RFC 8020
subtree cut). `maxTTL` is the configured ceiling (non-positive or above `hardMax` ↦
`hardMax`), `bounds` the durations the proof's records contribute (TTLs, SOA minimum,
signature lifetimes); the delegation cut bounds it like every other component.
`none`: nothing is recorded (the doc belongs to `denialExpiry` below). -/
def denialCeil (hardMax maxTTL : Int) : Int := if maxTTL ≤ 0 ∨ maxTTL > hardMax then hardMax else maxTTL

def boundByCut (now m : Int) : Deadline → Int
  | none => m
  | some c => if c - now < m then c - now else m

def denialExpiry (hardMax now maxTTL : Int) (cut : Deadline) (bounds : List Int) : Option Int :=
  let ttl := bounds.foldl (fun acc b => if b < acc then b else acc) (boundByCut now (denialCeil hardMax maxTTL) cut)
  if ttl ≤ 0 then none else some (now + ttl)

/-! ### abstract event system of the descent

Zones are names (labels root side first, `[]` is the root); an ancestor is a
proper prefix.  The state holds the delegation cache, the stack of
resolutions in progress (`resolveState`, innermost first: sub-queries for
DS / DNSKEY / NS addresses run inside a request and share its `ResponseMeta`;
alias chases of the cache run under a forked one and fold back on `finish true`),
the `ResponseMeta` of the innermost request segment and what the answer cache learned.  Ghost fields (`observedAt`,
`grant`, `path`) record where a value came from; they never influence a step. -/

abbrev Name := List Nat

/-- one delegation a descent went through -/
structure PathElem where
  zone : Name
  /-- the deadline folded into the cut when descending through it
      (`childDeadline`, or `cached.ExpiresAt` for a cached delegation) -/
  deadline : Int
  /-- the expiry the delegation cache holds for it (after the ceiling) -/
  stored : Int
  /-- when its referral was observed -/
  obs : Int
deriving Repr, DecidableEq

structure Entry where
  zone : Name
  expiresAt : Int
  observedAt : Int        -- ghost
  grant : Int             -- ghost: min(NS TTL, retained DS TTL) in ns
  path : List PathElem    -- ghost: every shallower delegation the descent went through
deriving Repr, DecidableEq

/-- `resolveState` -/
structure RS where
  qname : Name
  zone : Name             -- rs.servers.Zone
  cut : Deadline          -- rs.cutDeadline
  path : List PathElem    -- ghost
  /-- ghost: the lineage of every sub-query whose records / provenance were
  consumed into this request's response (alias targets, DNAME targets) -/
  used : List PathElem := []
  /-- `some m`: this resolution is a cache-level sub-query (CNAME/DNAME chase) running
  under its own forked cut (`ResponseMeta.ForkCut`); `m` is the deriving request's
  ResponseMeta, untouched while the sub-query runs -/
  outer : Option Meta := none
deriving Repr, DecidableEq

structure Ans where
  via : Name
  stored : Int
  ttl : Int
  cutUntil : Deadline
  path : List PathElem    -- ghost: the delegations it was learned through
deriving Repr, DecidableEq

structure Sys where
  now : Int := 0
  delegs : List Entry := []     -- newest first
  stack : List RS := []
  cut : Meta := {}              -- the request tree's ResponseMeta
  answers : List Ans := []
deriving Repr

inductive Ev
  /-- time passes -/
  | tick (d : Nat)
  /-- a client request (or a prefetch) starts: fresh ResponseMeta, `resolve` with `isRoot` -/
  | start (qname : Name)
  /-- a sub-query of the running request starts (same ResponseMeta) -/
  | substart (qname : Name)
  /-- the servers of `rs.servers.Zone` return a referral for `z` (any NS / DS TTLs) -/
  | referral (z : Name) (nsTTLs : List Nat) (dsTTLs : List Nat)
  /-- the servers of `rs.servers.Zone` answer; whatever they say (own NS set,
      any TTL) ends in the answer cache with this TTL (after floor/ceiling) -/
  | answer (ttl : Int)
  /-- the cache chases an alias target: a sub-query with a FORKED cut
      (`Cache.subQuery` → `WithForkedCut`); its answer is cached under its own key
      with its own lineage -/
  | chase (qname : Name)
  /-- the innermost resolution returns. For a chase, `used` says whether its records
      or provenance (incl. a bare rcode) reached the deriving response:
      `subQueryLineage.inherit()` folds the fork's cut back into the deriving request -/
  | finish (used : Bool)
  /-- `delegations.Remove` (all servers failing) -/
  | purge (z : Name)
deriving Repr

def findEntry (ds : List Entry) (z : Name) : Option Entry := ds.find? (fun e => e.zone == z)

/-- `delegations.Get` by zone: only a live entry is visible -/
def liveEntry (ds : List Entry) (now : Int) (z : Name) : Option Entry :=
  match findEntry ds z with
  | some e => if now < e.expiresAt then some e else none
  | none => none

/-- `searchCache`: the deepest LIVE cached delegation at or above `q`
(walks up label by label; expired entries are skipped like missing ones). -/
def searchFrom (ds : List Entry) (now : Int) (q : Name) : Nat → Option Entry
  | 0 => none
  | k + 1 =>
    match findEntry ds (q.take (k + 1)) with
    | some e => if now < e.expiresAt then some e else searchFrom ds now q k
    | none => searchFrom ds now q k

/-- `validReferral` / `progressingReferral`: strictly below the zone asked, on the path to qname -/
def progressing (auth z qname : Name) : Bool :=
  auth.isPrefixOf z && decide (auth.length < z.length) && z.isPrefixOf qname

/-- `validReferral`: one coherent NS RRset, of the question's class, that progresses -/
def validReferral (hasNS incoherent classOk : Bool) (auth z qname : Name) : Bool :=
  hasNS && !incoherent && classOk && progressing auth z qname

def elemOf (e : Entry) : PathElem := ⟨e.zone, e.expiresAt, e.expiresAt, e.observedAt⟩

/-- the seed of `resolve()` (`isRoot`): `searchCache` + `minCut` + `noteCut` -/
def seed (s : Sys) (m : Meta) (q : Name) : RS × Meta :=
  match searchFrom s.delegs s.now q q.length with
  | some e =>
    let c := (minCut none 0 (some e.expiresAt) 0).1
    ({ qname := q, zone := e.zone, cut := c, path := elemOf e :: e.path }, m.boundCutFor c 0)
  | none => ({ qname := q, zone := [], cut := none, path := [] }, m)

def step (maxTTL : Int) (s : Sys) : Ev → Sys
  | .tick d => { s with now := s.now + d }
  | .start q => { s with stack := [(seed s {} q).1], cut := (seed s {} q).2 }
  | .substart q => { s with stack := (seed s s.cut q).1 :: s.stack, cut := (seed s s.cut q).2 }
  | .chase q =>
    { s with stack := { (seed s {} q).1 with outer := some s.cut } :: s.stack, cut := (seed s {} q).2 }
  | .finish used =>
    match s.stack with
    | [] => s
    | r :: rest =>
      match r.outer with
      | none => { s with stack := rest }                   -- shared ResponseMeta: nothing to fold
      | some m =>
        if used then
          -- lineage.inherit(): the deriving request is bounded by the sub-query's cut too
          { s with stack := (match rest with
                             | [] => []
                             | o :: t => { o with used := r.path ++ r.used ++ o.used } :: t),
                   cut := m.boundCutFor s.cut.cut s.cut.key }
        else { s with stack := rest, cut := m }
  | .purge z => { s with delegs := s.delegs.filter (fun e => e.zone != z) }
  | .answer ttl =>
    match s.stack with
    | [] => s
    | r :: _ => { s with answers := ⟨r.zone, s.now, ttl, s.cut.cut, r.path ++ r.used⟩ :: s.answers }
  | .referral z nsTTLs dsTTLs =>
    match s.stack with
    | [] => s
    | r :: rest =>
      if !progressing r.zone z r.qname then s      -- errParentDetection: nothing is touched
      else
        let nsTTL := minRRSetTTL nsTTLs
        let lease := leaseDeadline maxTTL s.now nsTTL dsTTLs
        let child := (minCut r.cut 0 (some lease) 0).1
        let m1 := s.cut.boundCutFor child 0
        match child with
        | none => s     -- unreachable: minCut with a bounded second argument is bounded
        | some cd =>
          match liveEntry s.delegs s.now z with
          | some e =>
            -- live cached delegation: resolveWithCachedNameservers, nothing is stored
            let c2 := (minCut (some cd) 0 (some e.expiresAt) 0).1
            let r' : RS := { r with zone := z, cut := c2, path := elemOf e :: (e.path ++ (⟨z, cd, cd, s.now⟩ :: r.path)) }
            { s with stack := r' :: rest, cut := m1.boundCutFor c2 0 }
          | none =>
            match clampUntil maxTTL s.now (some cd) with
            | some v =>
              let ne : Entry := ⟨z, v, s.now, lease - s.now, r.path⟩
              let r' : RS := { r with zone := z, cut := some cd, path := ⟨z, cd, v, s.now⟩ :: r.path }
              { s with delegs := ne :: s.delegs, stack := r' :: rest, cut := m1 }
            | none =>
              -- a past deadline is not cached (SetUntil skips it); the descent continues
              let r' : RS := { r with zone := z, cut := some cd, path := ⟨z, cd, cd, s.now⟩ :: r.path }
              { s with stack := r' :: rest, cut := m1 }

def run (maxTTL : Int) (s : Sys) (evs : List Ev) : Sys := evs.foldl (step maxTTL) s

end SdnsVerif.Model.Lease
