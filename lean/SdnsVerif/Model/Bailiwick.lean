/-
Model of the bailiwick guards and filters of sdns (property C07).  Core Lean only.

  internal/dnsname/dnsname.go      CompareSuffix, Sub (with miekg NextLabel / PrevLabel / CountLabel)
  internal/dnsclient/conn.go       (*Conn).Exchange, QuestionMatches
  middleware/resolver/utils.go     usableAddr, isLocalIP
  middleware/resolver/resolver.go  checkGlueRR, extractDelegationInfo, progressingReferral,
                                   validReferral, filterAuthorityRecords, clearAdditional
  middleware/cache/cache.go        filterCacheableAnswer
  middleware/resolver/utils.go     searchAddrs
  middleware/cache/cache.go        additionalAnswer, searchAdditionalAnswer, respCnameHasType (the alias chase)
  internal/dnsutil/rrset.go        NameInZone, escapedDot, FilterRRsToZone (as called by Resolver.answer)

Names are presentation strings as the wire codec produces them (ASCII, miekg
escapes `\.` and `\DDD`, fully qualified), held as `List Char`.  A name is
split into labels exactly where `dns.NextLabel` splits it; every label keeps
its separating dot (that is what `CompareSuffix` compares), so
`a.example.com.` is `["a.", "example.", "com."]`, the root `.` is `[]`, and
`evil-example.com.` is `["evil-example.", "com."]`.
-/
namespace SdnsVerif.Model.Bailiwick

abbrev Str := List Char
abbrev Label := List Char
abbrev Name := List Label

/-- ASCII-only case folding (`equalFold`, `dns.CanonicalName`, `strings.ToLower`
on ASCII input). -/
def lower (s : Str) : Str := s.map Char.toLower

/-- `dnsname.equalFold`: same length, byte-wise equal after ASCII folding. -/
def eqFold (a b : Str) : Bool := lower a == lower b

/-! ### labels (`dns.NextLabel`, `dns.CountLabel`, `dns.PrevLabel`) -/

/-- Walk of `dns.NextLabel` over the whole string: a dot separates when it is
not in the last position and is preceded by an even number of backslashes.
`bs` is the length of the backslash run just before the current character,
`cur` the reversed characters of the label being read. -/
def splitLabels : Str → Nat → Str → Name
  | [], _, cur => [cur.reverse]
  | [c], _, cur => [(c :: cur).reverse]
  | c :: d :: rest, bs, cur =>
    if c = '.' ∧ bs % 2 = 0 then (c :: cur).reverse :: splitLabels (d :: rest) 0 []
    else splitLabels (d :: rest) (if c = '\\' then bs + 1 else 0) (c :: cur)

/-- The labels of a presentation name; `.` has none (`dns.CountLabel(".") = 0`),
the empty string has one empty label (`dns.CountLabel("") = 1`). -/
def labelsOf (s : Str) : Name := if s = ['.'] then [] else splitLabels s 0 []

/-- The lock-step pass of `CompareSuffix` over the aligned labels: the counter
resets on every mismatch and the final label decides. -/
def suffixRun : Name → Name → Nat → Nat
  | [x], [y], n => if eqFold x y then n + 1 else 0
  | x :: xs, y :: ys, n => suffixRun xs ys (if eqFold x y then n + 1 else 0)
  | _, _, _ => 0

/-- `dnsname.CompareSuffix`: how many labels `a` and `b` share from the right. -/
def compareSuffix (a b : Name) : Nat :=
  if a = [] ∨ b = [] then 0
  else suffixRun (a.drop (a.length - b.length)) (b.drop (b.length - a.length)) 0

/-- `dnsname.Sub(zone, name)`: `CompareSuffix(zone, name) == dns.CountLabel(zone)`. -/
def sub (zone name : Name) : Bool := compareSuffix zone name == zone.length

/-- `qname[i:]` for `i, _ := dns.PrevLabel(qname, level)`: the last `level`
labels of `qname` (all of it when it has fewer); the empty string for level 0. -/
def prevSuffix (q : Name) (level : Nat) : Name :=
  if level = 0 then [[]] else q.drop (q.length - level)

/-! ### `dnsclient.(*Conn).Exchange` -/

structure Question where
  name : Str
  qtype : Nat
  qclass : Nat
deriving Repr, DecidableEq

/-- One candidate reply arriving on the socket: `bad` = `ReadMsg` fails on it
(short datagram, unpack error). -/
structure Cand where
  bad : Bool := false
  id : Nat := 0
  qs : List Question := []
  /-- header bits of the reply (TC, AA, QR, rcode …) as one word: carried so
  that the theorems quantify over them; `Exchange` never looks at them. -/
  hdr : Nat := 0
  /-- the TC bit, which `dnsclient.Client.Exchange` (not `Conn.Exchange`) does look at:
  a truncated datagram sends it to the stream leg. -/
  tc : Bool := false
deriving Repr, DecidableEq

inductive XRes
  | ok (idx : Nat)      -- the candidate at this position is returned with err == nil
  | errRead             -- read / unpack error, or the deadline passed
  | errId               -- dns.ErrId (stream transports)
  | errQuestion         -- dnsclient.ErrQuestion
deriving Repr, DecidableEq

/-- `QuestionMatches`: exactly one question, same type and class, names equal
after `dns.CanonicalName` (ASCII lower case; names are fully qualified). -/
def questionMatches (req : Question) (resp : List Question) : Bool :=
  match resp with
  | [r] => r.qtype == req.qtype && r.qclass == req.qclass && lower r.name == lower req.name
  | _ => false

/-- The UDP read loop: skip datagrams with another ID, stop at the first read
error or matching ID. Returns the index reached and the candidate, or `none`
on a read error / when nothing is left before the deadline. The second
component counts the datagrams consumed. -/
def udpLoop (qid : Nat) : List Cand → Nat → Option (Nat × Cand) × Nat
  | [], i => (none, i)
  | c :: t, i =>
    if c.bad then (none, i + 1)
    else if c.id = qid then (some (i, c), i + 1)
    else udpLoop qid t (i + 1)

/-- The stream branch: a single read; another ID is `dns.ErrId`. -/
inductive Picked
  | readErr
  | idErr
  | got (idx : Nat) (c : Cand)
deriving Repr, DecidableEq

def pick (udp : Bool) (qid : Nat) (cands : List Cand) : Picked × Nat :=
  if udp then
    match udpLoop qid cands 0 with
    | (none, used) => (Picked.readErr, used)
    | (some (i, c), used) => (Picked.got i c, used)
  else
    match cands with
    | [] => (Picked.readErr, 0)
    | c :: _ =>
      if c.bad then (Picked.readErr, 1)
      else if c.id = qid then (Picked.got 0 c, 1)
      else (Picked.idErr, 1)

/-- `(*Conn).Exchange` after the write: which candidate comes back, and how
many messages were consumed. `udp` = the connection is a `net.PacketConn`;
`q = none` = the request carried no question (the guard is skipped). -/
def exchange (udp : Bool) (qid : Nat) (q : Option Question) (cands : List Cand) : XRes × Nat :=
  match pick udp qid cands with
  | (Picked.readErr, used) => (XRes.errRead, used)
  | (Picked.idErr, used) => (XRes.errId, used)
  | (Picked.got i c, used) =>
    match q with
    | none => (XRes.ok i, used)
    | some qq => if questionMatches qq c.qs then (XRes.ok i, used) else (XRes.errQuestion, used)

/-- One leg of `dnsclient.Client.Exchange`: `Conn.Exchange` on that transport,
then `toleratedQuestionMismatch`: only `ErrQuestion`, and only when the caller
set `SkipQuestionCheck`, is tolerated (the reply is kept); every other error is
fatal. `inl` = the error returned, `inr` = the reply accepted on this leg. -/
def clientLeg (udp : Bool) (qid : Nat) (q : Option Question) (skipQuestion : Bool)
    (cands : List Cand) : XRes ⊕ (Nat × Cand) :=
  match pick udp qid cands with
  | (Picked.readErr, _) => Sum.inl XRes.errRead
  | (Picked.idErr, _) => Sum.inl XRes.errId
  | (Picked.got i c, _) =>
    match q with
    | none => Sum.inr (i, c)
    | some qq => if skipQuestion || questionMatches qq c.qs then Sum.inr (i, c) else Sum.inl XRes.errQuestion

/-- Result of `Client.Exchange` with `Proto = "udp"`: the reply accepted and the leg it came on. -/
inductive CliRes
  | err (e : XRes)
  | udp (idx : Nat)
  | tcp (idx : Nat)
deriving Repr, DecidableEq

/-- `dnsclient.Client.Exchange` for a udp upstream: the datagram leg; a
truncated accepted reply retries the same request over TCP **with the same
client settings** (the same `SkipQuestionCheck`), and that leg's reply is final. -/
def clientExchange (qid : Nat) (q : Option Question) (skipQuestion : Bool)
    (udpCands tcpCands : List Cand) : CliRes :=
  match clientLeg true qid q skipQuestion udpCands with
  | Sum.inl e => CliRes.err e
  | Sum.inr (i, c) =>
    if c.tc then
      match clientLeg false qid q skipQuestion tcpCands with
      | Sum.inl e => CliRes.err e
      | Sum.inr (j, _) => CliRes.tcp j
    else CliRes.udp i

/-- `dohExchange` + the guard of `Client.Exchange` for `Proto == "doh"`: one
HTTP response body; RFC 8484 lets the server normalise the ID to 0, so the
reply's ID must be the query's or 0; the question guard follows unless the
caller opted out (`SkipQuestionCheck`). -/
def dohExchange (qid : Nat) (q : Option Question) (skipQuestion : Bool) (c : Cand) : XRes :=
  if c.bad then XRes.errRead
  else if c.id ≠ qid ∧ c.id ≠ 0 then XRes.errId
  else match q with
    | none => XRes.ok 0
    | some qq => if skipQuestion || questionMatches qq c.qs then XRes.ok 0 else XRes.errQuestion

/-- `Resolver.answer` on a DNAME answer: the filtered upstream section, then the
answer section of the target's own resolution (`checkDname` → `internalExchange`). -/
def composeDnameAnswer {α : Type} (inZone : α → Bool) (upstream target : List α) : List α :=
  upstream.filter inZone ++ target

/-! ### `usableAddr` -/

abbrev IP := List UInt8

def bAt (l : IP) (i : Nat) : UInt8 := l.getD i 0

/-- `::ffff:a.b.c.d` held in 16 bytes. -/
def isMapped (a : IP) : Bool :=
  a.length == 16 && (a.take 10).all (· == 0) && bAt a 10 == 255 && bAt a 11 == 255

/-- `netip.AddrFromSlice(ip)` followed by `Unmap()`: only 4 and 16 byte slices
are addresses. -/
def unmap (ip : IP) : Option IP :=
  if ip.length == 4 then some ip
  else if ip.length == 16 then some (if isMapped ip then ip.drop 12 else ip)
  else none

/-- `netip.Addr.IsLoopback` on an unmapped address: 127/8 or ::1. -/
def isLoopback (a : IP) : Bool :=
  if a.length == 4 then bAt a 0 == 127
  else a == [0, 0, 0, 0, 0, 0, 0, 0, 0, 0, 0, 0, 0, 0, 0, 1]

/-- `isLocalIP`: `net.IP.Equal` against every captured interface address
(4-byte and 16-byte spellings of an IPv4 address are equal). `local` holds the
interface addresses already unmapped. -/
def isLocal (locals : List IP) (a : IP) : Bool := locals.contains a

/-- `usableAddr`: the canonical (unmapped) address, or `none` when malformed,
loopback or one of the machine's own interface addresses. -/
def usableAddr (locals : List IP) (ip : IP) : Option IP :=
  match unmap ip with
  | none => none
  | some a => if isLoopback a || isLocal locals a then none else some a

/-! ### `Resolver.checkGlueRR` -/

structure Extra where
  owner : Str
  rtype : Nat        -- 1 = A, 28 = AAAA, anything else is ignored
  addr : IP
deriving Repr, DecidableEq

/-- What one additional-section address record contributes: `(host, address)`
when it is accepted. `hosts` is the referral's NS target set (lower case). -/
def glueOne (locals : List IP) (level : Nat) (qname : Str) (hosts : List Str) (e : Extra) :
    Option (Str × IP) :=
  let name := lower e.owner
  if compareSuffix (labelsOf name) (prevSuffix (labelsOf qname) level) < level then none
  else if hosts.contains name then
    match usableAddr locals e.addr with
    | none => none
    | some a => some (name, a)
  else none

/-- One pass of `checkGlueRR` over `resp.Extra` for one record type. -/
def gluePass (locals : List IP) (level : Nat) (qname : Str) (hosts : List Str) (rtype : Nat)
    (extras : List Extra) : List (Str × IP) :=
  extras.filterMap fun e => if e.rtype = rtype then glueOne locals level qname hosts e else none

/-- Keep the first occurrence of every element (`seenServers`, `appendUniqueAddr`). -/
def dedup {α : Type} [BEq α] : List α → List α
  | [] => []
  | x :: t => x :: (dedup t).filter (fun y => !(y == x))

structure GlueResult where
  v6 : List (Str × IP)      -- accepted AAAA glue, in order (empty when IPv6 access is off)
  v4 : List (Str × IP)      -- accepted A glue, in order
  servers : List IP         -- `authservers.List`: first occurrence of every endpoint, AAAA pass first
deriving Repr

/-- `Resolver.checkGlueRR`. -/
def checkGlue (locals : List IP) (ipv6 : Bool) (level : Nat) (qname : Str) (hosts : List Str)
    (extras : List Extra) : GlueResult :=
  let v6 := if ipv6 then gluePass locals level qname hosts 28 extras else []
  let v4 := gluePass locals level qname hosts 1 extras
  { v6 := v6, v4 := v4, servers := dedup ((v6 ++ v4).map (·.2)) }

/-! ### `extractDelegationInfo`, `progressingReferral`, `validReferral` -/

inductive AuthRR
  | soa
  | ns (owner : Str) (cls ttl : Nat) (target : Str)
  | proof            -- NSEC / NSEC3 / RRSIG
  | other            -- anything else (A, DS, …)
deriving Repr, DecidableEq

structure DelegInfo where
  ns : Option (Str × Nat) := none     -- owner and class of the first NS record
  ttl : Nat := 0
  hosts : List Str := []              -- lower-cased targets, first occurrence order
  hasSOA : Bool := false
  incoherent : Bool := false
deriving Repr, DecidableEq

def addHost (hs : List Str) (h : Str) : List Str := if hs.contains h then hs else hs ++ [h]

/-- The loop body of `extractDelegationInfo`. -/
def extractStep (info : DelegInfo) : AuthRR → DelegInfo
  | AuthRR.soa => { info with hasSOA := true }
  | AuthRR.ns owner cls ttl target =>
    match info.ns with
    | none => { info with ns := some (owner, cls), ttl := ttl, hosts := addHost info.hosts (lower target) }
    | some (o, c) =>
      if !(eqFold owner o) || cls != c then { info with incoherent := true }
      else { info with ttl := if ttl < info.ttl then ttl else info.ttl,
                       hosts := addHost info.hosts (lower target) }
  | _ => info

def extractFrom (info : DelegInfo) : List AuthRR → DelegInfo
  | [] => info
  | rr :: t => extractFrom (extractStep info rr) t

/-- `Resolver.extractDelegationInfo(resp)` over `resp.Ns`. -/
def extractDelegationInfo (ns : List AuthRR) : DelegInfo := extractFrom {} ns

/-- `progressingReferral(referral, authZone, qname)`. -/
def progressingReferral (referral authZone qname : Str) : Bool :=
  if !(sub (labelsOf authZone) (labelsOf referral)) then false
  else if lower referral == lower authZone then false
  else sub (labelsOf referral) (labelsOf qname)

/-- `validReferral(info, authZone, q)`. -/
def validReferral (info : DelegInfo) (authZone qname : Str) (qclass : Nat) : Bool :=
  match info.ns with
  | none => false
  | some (owner, cls) =>
    !info.incoherent && cls == qclass && progressingReferral owner authZone qname

/-- the type switch of `filterAuthorityRecords`: SOA, NSEC, NSEC3, RRSIG. -/
def keepAuthority : AuthRR → Bool
  | AuthRR.soa => true
  | AuthRR.proof => true
  | _ => false

/-- `filterAuthorityRecords`: what a negative answer keeps of the authority section. -/
def filterAuthority (rrs : List AuthRR) : List AuthRR := rrs.filter keepAuthority

/-- `clearAdditional(req, resp, extra...)` on section sizes: authority is
always emptied; additional is emptied (the request's OPT re-attached) unless
the caller passed `true`. Returns (authority, non-OPT additional, OPT present). -/
def clearAdditional (reqHasOpt : Bool) (keepExtra : Bool) (_nNs nExtra : Nat) : Nat × Nat × Bool :=
  if keepExtra then (0, nExtra, false) else (0, 0, reqHasOpt)

/-! ### `filterCacheableAnswer` -/

structure AnsRR where
  owner : Str
  rtype : Nat
  covered : Nat := 0     -- `TypeCovered` of an RRSIG
deriving Repr, DecidableEq

def typeDNAME : Nat := 39
def typeRRSIG : Nat := 46

/-- the `keep` closure of `filterCacheableAnswer`. -/
def keepCacheable (qname : Str) (r : AnsRR) : Bool :=
  r.rtype == typeDNAME || eqFold qname r.owner || (r.rtype == typeRRSIG && r.covered == typeDNAME)

/-- `filterCacheableAnswer(res).Answer` for the question name `qname`. -/
def filterCacheable (qname : Str) (answer : List AnsRR) : List AnsRR :=
  answer.filter (keepCacheable qname)

/-! ### `dnsutil.NameInZone`, `dnsutil.FilterRRsToZone` as used by `Resolver.answer` -/

/-- How many backslashes end `p`: what the backward loop of
`dnsutil.escapedDot(name, i)` counts for `p = name[:i]`. -/
def trailingRun : Str → Nat
  | [] => 0
  | c :: t =>
    if t.all (· == '\\') then (if c == '\\' then t.length + 1 else t.length) else trailingRun t

/-- `dnsutil.NameInZone(name, zone)` on canonical (lower-case, fully
qualified) names: the root contains everything; otherwise `name` is `zone`,
or ends in `"." ++ zone` where that dot is a separator (an even number of
backslashes precedes it). -/
def nameInZone (name zone : Str) : Bool :=
  if zone = ['.'] ∨ zone = [] then true
  else if name = zone then true
  else if name.length ≤ zone.length then false
  else
    let cut := name.length - zone.length
    name.getD (cut - 1) ' ' == '.' && name.drop cut == zone &&
      trailingRun (name.take (cut - 1)) % 2 == 0

/-- `dnsutil.FilterRRsToZone(resp.Answer, zone)` in `Resolver.answer`: only
answer records owned inside the zone whose servers were asked survive (names
are compared in `dns.CanonicalName` form). The additional clause of the Go
function — an NSEC whose next-domain lies outside the zone is dropped as
well — only removes more and is not modelled. -/
def filterToZone (zone : Str) (answer : List AnsRR) : List AnsRR :=
  answer.filter fun r => nameInZone (lower r.owner) (lower zone)

/-- The records of one upstream answer section that can reach the client's
answer section: `Resolver.answer` filters them to the asked zone
(`zone != ""` on every resolver path), `clearAdditional` touches only the
other sections, and `Cache.additionalAnswer` only ever *appends* records it
resolved itself through the target's own servers. -/
def relayedFromUpstream (zone : Str) (answer : List AnsRR) : List AnsRR := filterToZone zone answer

/-! ### `searchAddrs` (name-server address sub-lookups) -/

structure AddrRR where
  owner : Str
  rtype : Nat        -- 1 = A, 28 = AAAA, anything else is skipped
  addr : IP
deriving Repr, DecidableEq

/-- `searchAddrs(msg)` over `msg.Answer`: an A record contributes its usable
address when that is an IPv4 address, an AAAA record its usable address
(whatever family it unmaps to); owners are not looked at — the section has
already been cut down to the asked zone by `Resolver.answer`. -/
def searchAddrs (locals : List IP) (answer : List AddrRR) : List IP :=
  answer.filterMap fun r =>
    if r.rtype = 1 then
      match usableAddr locals r.addr with
      | some a => if a.length == 4 then some a else none
      | none => none
    else if r.rtype = 28 then usableAddr locals r.addr
    else none

/-- What `checkGlueRR` left in the glue cache of one family for `host`
(`appendUniqueAddr` over the accepted records of that host). -/
def glueCached (accepted : List (Str × IP)) (host : Str) : Option (List IP) :=
  let l := dedup ((accepted.filter fun p => p.1 == host).map (·.2))
  if l.isEmpty then none else some l

/-- `lookupNSAddrV4` / `lookupNSAddrV6` after a referral was processed on the
same resolver: the glue cache of the family is read first; otherwise the host's
own address question goes to the sub-pipeline (`sub = none`: it failed) and
`searchAddrs` picks the usable addresses; the rcode of the sub-response plays
no part; nothing found = error. -/
def lookupNSAddr (locals : List IP) (cached : Option (List IP)) (sub : Option (List AddrRR)) : Option (List IP) :=
  match cached with
  | some l => some l
  | none =>
    match sub with
    | none => none
    | some ans =>
      let l := searchAddrs locals ans
      if l.isEmpty then none else some l

/-! ### `Resolver.processDelegation` over a history of referrals -/

/-- association list with replacement (the caches are maps keyed by the lower-cased name). -/
def setKey {β : Type} (l : List (Str × β)) (k : Str) (v : β) : List (Str × β) :=
  l.filter (fun p => !(p.1 == k)) ++ [(k, v)]

def getKey {β : Type} (l : List (Str × β)) (k : Str) : Option β :=
  (l.find? fun p => p.1 == k).map (·.2)

/-- What the resolver has stored: delegations (zone → server addresses) and
the IPv4 name-server address cache (host → addresses). -/
structure DelegState where
  delegs : List (Str × List IP) := []
  glue4 : List (Str × List IP) := []
deriving Repr, DecidableEq

/-- One referral as `processDelegation` meets it: received from the servers of
`authZone` at `level`, for `qname`/`qclass`; `subs` = what the sub-pipeline
answers when a name server's own address is looked up (`none` = it fails). -/
structure Referral where
  authZone : Str
  level : Nat
  qname : Str
  qclass : Nat
  ns : List AuthRR
  extras : List Extra
  subs : List (Str × Option (List AddrRR))

def appendUniqueAll (srv : List IP) (l : List IP) : List IP :=
  l.foldl (fun acc a => if acc.contains a then acc else acc ++ [a]) srv

/-- the `lookupV4Nss` loop body for one name server without accepted glue. -/
def lookupHost (locals : List IP) (subs : List (Str × Option (List AddrRR)))
    (acc : List (Str × List IP) × List IP) (h : Str) : List (Str × List IP) × List IP :=
  match lookupNSAddr locals (getKey acc.1 h) ((getKey subs h).getD none) with
  | none => acc
  | some l => (setKey acc.1 h l, appendUniqueAll acc.2 l)

/-- `processDelegation` for a CD=1 request on a resolver without DNSSEC and
IPv6, QNAME minimisation off, at recursion depth 1 (it returns right after
storing): the referral rule, the parent-detection level test, the
cached-delegation hit, `checkGlueRR` (whose accepted glue REPLACES the cache
entries of those hosts), `lookupV4Nss` for the hosts without accepted glue
(glue cache first, then the host's own lookup), and the store. The string is
the error the real function returns. -/
def delegStep (locals : List IP) (st : DelegState) (rf : Referral) : DelegState × String :=
  let info := extractDelegationInfo rf.ns
  match info.ns with
  | none => (st, "nons")
  | some (owner, _) =>
    if !(validReferral info rf.authZone rf.qname rf.qclass) then (st, "parent")
    else if rf.level > (labelsOf owner).length then (st, "parent")
    else if (getKey st.delegs (lower owner)).isSome then (st, "maxdepth")
    else
      let g := checkGlue locals false rf.level rf.qname info.hosts rf.extras
      let found := dedup (g.v4.map (·.1))
      let glue1 := found.foldl (fun gl h => setKey gl h ((glueCached g.v4 h).getD [])) st.glue4
      let r := (info.hosts.filter fun h => !(found.contains h)).foldl (lookupHost locals rf.subs) (glue1, g.servers)
      if r.2.isEmpty then ({ st with glue4 := r.1 }, "noauth")
      else ({ delegs := setKey st.delegs (lower owner) r.2, glue4 := r.1 }, "maxdepth")

/-! ### `Resolver.lookup` winner selection and `pickFallbackResponse` -/

inductive FatalKind
  | workLimit      -- middleware.ErrRecursionWorkLimit
  | attemptLimit   -- middleware.ErrResolutionAttemptLimit
  | network        -- any other failure of one authority
deriving Repr, DecidableEq

inductive Fallback
  | resp (idx : Nat)      -- responseErrors[idx]
  | config (idx : Nat)    -- configErrors[idx]: a referral validReferral refused
  | err (kind : String)   -- "work" | "attempt" | "conn" | "noroots"
deriving Repr, DecidableEq

/-- index of the first NXDOMAIN among the negative replies. -/
def firstNX : List Nat → Nat → Option Nat
  | [], _ => none
  | rc :: t, i => if rc = 3 then some i else firstNX t (i + 1)

/-- `pickFallbackResponse(responseErrors, configErrors, fatalErrors)`:
`responseErrors` by rcode, `nConfig` invalid referrals, the failures by kind. -/
def pickFallback (responseErrors : List Nat) (nConfig : Nat) (fatal : List FatalKind) : Fallback :=
  if fatal.contains FatalKind.workLimit then Fallback.err "work"
  else match firstNX responseErrors 0 with
    | some i => Fallback.resp i
    | none =>
      if fatal.contains FatalKind.attemptLimit then Fallback.err "attempt"
      else if !responseErrors.isEmpty then Fallback.resp 0
      else if nConfig > 0 then Fallback.config 0
      else if !fatal.isEmpty then Fallback.err "conn"
      else Fallback.err "noroots"

/-- What one authority's attempt delivered to `lookup`'s result loop. -/
inductive Arrival
  | failed (k : FatalKind)
  | negative (rcode : Nat)          -- a reply with rcode ≠ NOERROR
  | invalidReferral                 -- NOERROR, authority only, an NS set that validReferral refuses
  | usable                          -- anything else with NOERROR: an answer, NODATA, a referral validReferral accepts
deriving Repr, DecidableEq

inductive LookupOutcome
  | winner (pos : Nat)              -- the arrival at this position is returned at once
  | fallback (f : Fallback)
deriving Repr, DecidableEq

/-- The result loop of `Resolver.lookup` over the arrivals in the order they
come in (`level` = label count of the zone asked): a work-limit failure ends
the lookup; failures and negative replies are collected (an NXDOMAIN ends the
waiting once three negatives are in or the zone is the root / a TLD); a
NOERROR referral that `validReferral` refuses is set aside as a config error
and the loop goes on; any other NOERROR reply wins on the spot; when the
arrivals run out, `pickFallbackResponse` decides. -/
def lookupSelect (level : Nat) : List Arrival → Nat → List Nat → Nat → List FatalKind → LookupOutcome
  | [], _, resps, ncfg, fatal => LookupOutcome.fallback (pickFallback resps ncfg fatal)
  | a :: t, pos, resps, ncfg, fatal =>
    match a with
    | Arrival.failed FatalKind.workLimit => LookupOutcome.fallback (Fallback.err "work")
    | Arrival.failed k => lookupSelect level t (pos + 1) resps ncfg (fatal ++ [k])
    | Arrival.negative rc =>
      let resps' := resps ++ [rc]
      if (resps'.length > 2 || level < 2) && rc = 3 then
        LookupOutcome.fallback (pickFallback resps' ncfg fatal)
      else lookupSelect level t (pos + 1) resps' ncfg fatal
    | Arrival.invalidReferral => lookupSelect level t (pos + 1) resps (ncfg + 1) fatal
    | Arrival.usable => LookupOutcome.winner pos

/-! ### `Cache.additionalAnswer` (the alias chase) -/

/-- A record as the chase sees it: owner, type and, for a CNAME, its target. -/
structure ChRR where
  owner : Str
  rtype : Nat
  target : Str := []
deriving Repr, DecidableEq

def typeCNAME : Nat := 5
def typeDS : Nat := 43
def rcodeServFail : Nat := 2
def rcodeNXDomain : Nat := 3

/-- What the sub-pipeline (`internalExchange`) returned for one target. -/
structure SubResp where
  rcode : Nat
  answer : List ChRR
  nsCount : Nat          -- size of the authority section
deriving Repr, DecidableEq

inductive SubResult
  | limit                -- ErrRecursionWorkLimit / ErrResolutionAttemptLimit
  | fail                 -- any other error (no response)
  | resp (r : SubResp)
deriving Repr, DecidableEq

/-- The outer message as far as the chase changes it, plus the targets it asked. -/
structure ChaseOut where
  rcode : Nat
  answer : List ChRR
  asked : List Str := []
deriving Repr, DecidableEq

/-- `searchAdditionalAnswer`'s walk: the target of the last CNAME of a section. -/
def lastCnameTarget : List ChRR → Option Str
  | [] => none
  | r :: t => match lastCnameTarget t with
    | some x => some x
    | none => if r.rtype = typeCNAME then some r.target else none

inductive Scan
  | answered                 -- a record of the query type comes first: nothing to chase
  | selfLoop                 -- a CNAME pointing back at the question name
  | target (t : Option Str)  -- the last CNAME target seen (none: no alias at all)
deriving Repr, DecidableEq

/-- The first loop of `additionalAnswer` over `msg.Answer`. -/
def scanAnswer (qname : Str) (qtype : Nat) : List ChRR → Option Str → Scan
  | [], cur => Scan.target cur
  | r :: t, cur =>
    if r.rtype = qtype then Scan.answered
    else if r.rtype = typeCNAME then
      if r.target = qname then Scan.selfLoop else scanAnswer qname qtype t (some r.target)
    else scanAnswer qname qtype t cur

def servFail (asked : List Str) : ChaseOut := { rcode := rcodeServFail, answer := [], asked := asked }

/-- The `lookup:` loop of `additionalAnswer`; `n + 1` = the value of
`cnameDepth` on entry to the body. -/
def chaseLoop (resolve : Str → SubResult) (qname : Str) (qtype : Nat) :
    Nat → Str → ChaseOut → ChaseOut
  | 0, _, msg => msg
  | n + 1, target, msg =>
    if msg.asked.contains target then servFail msg.asked
    else
      let asked := msg.asked ++ [target]
      match resolve target with
      | SubResult.limit => servFail asked
      | SubResult.fail =>
        if target = qname then servFail asked else { msg with asked := asked }
      | SubResult.resp r =>
        let merged := !r.answer.isEmpty || r.nsCount > 0
        let msg' : ChaseOut :=
          { msg with answer := if merged then msg.answer ++ r.answer else msg.answer, asked := asked }
        let next : Str := if merged then (lastCnameTarget r.answer).getD [] else target
        let child : Bool := merged && (lastCnameTarget r.answer).isSome
        if r.rcode = rcodeNXDomain then { msg' with rcode := rcodeNXDomain }
        else if r.rcode ≠ 0 then servFail asked
        else if next = qname then servFail asked
        else if child && n > 0 && !(r.answer.any fun x => x.rtype == qtype) then
          chaseLoop resolve qname qtype n next msg'
        else msg'

/-- `Cache.additionalAnswer(ctx, msg)` for a plain context (no validated
negative-proof marker, no cancelled context): the outer message's rcode and
answer section afterwards, and the alias targets it sent to the sub-pipeline. -/
def additionalAnswer (resolve : Str → SubResult) (qname : Str) (qtype : Nat) (rcode : Nat)
    (answer : List ChRR) : ChaseOut :=
  let msg : ChaseOut := { rcode := rcode, answer := answer }
  if qtype = typeCNAME ∨ qtype = typeDS then msg
  else if rcode = rcodeNXDomain then msg
  else match scanAnswer qname qtype answer none with
    | Scan.answered => msg
    | Scan.selfLoop => servFail []
    | Scan.target none => msg
    | Scan.target (some t) => chaseLoop resolve qname qtype 10 t msg

/-! ### `Resolver.searchCache` (which cached zone's servers are asked) -/

/-- The text of a name given by its labels (`.` for none). -/
def nameText (l : Name) : Str := if l = [] then ['.'] else l.flatten

/-- The upward walk of `searchCache`: the current name is looked up in the
delegation cache (keys are case-insensitive); otherwise one label is dropped
(`dns.NextLabel`), and a name of a single label that is not cached ends at the
root servers (`[]`). -/
def searchCacheWalk (cached : List Str) : Name → Name
  | [] => []
  | x :: t =>
    if cached.contains (lower (nameText (x :: t))) then x :: t
    else match t with
      | [] => []
      | _ :: _ => searchCacheWalk cached t

/-- `searchCache(q, cd, origin)`: a DS question starts one label up (the parent
side answers it); returns the labels of the zone whose servers are asked and
the level `CompareSuffix(origin, zone)`. -/
def searchCache (cached : List Str) (qname : Str) (isDS : Bool) : Name × Nat :=
  let l := labelsOf qname
  let start := if isDS then l.drop 1 else l
  let found := searchCacheWalk cached start
  (found, compareSuffix l found)

/-! ### the level bookkeeping of the descent (`rs.level` vs `rs.servers.Zone`) -/

/-- The writes to `rs.level` / `rs.servers` in resolver.go, as the go/ast fact
`shape_level_is_zone_depth` pins them. -/
inductive LevelStep
  | seed (zoneDepth : Nat)        -- resolve(), isRoot: searchCache's deepest cached zone (or the root, 0)
  | delegate (zoneDepth : Nat)    -- processDelegation: rs.level = nlevel = CountLabel(new zone)
  | cachedHit (zoneDepth : Nat)   -- resolveWithCachedNameservers: rs.level = CountLabel(cached zone)
  | minimiseUp                    -- a QNAME-minimisation step: rs.level++ at the same servers
deriving Repr, DecidableEq

structure Descent where
  level : Nat := 0
  zoneDepth : Nat := 0            -- label count of rs.servers.Zone
deriving Repr, DecidableEq

def levelStep (d : Descent) : LevelStep → Descent
  | LevelStep.seed z => { level := z, zoneDepth := z }
  | LevelStep.delegate z => { level := z, zoneDepth := z }
  | LevelStep.cachedHit z => { level := z, zoneDepth := z }
  | LevelStep.minimiseUp => { d with level := d.level + 1 }

/-- the step `resolveWithCachedNameservers` took before /repo 97282c4 (`rs.level++`). -/
def levelStepOld (d : Descent) : LevelStep → Descent
  | LevelStep.cachedHit z => { level := d.level + 1, zoneDepth := z }
  | st => levelStep d st

end SdnsVerif.Model.Bailiwick
