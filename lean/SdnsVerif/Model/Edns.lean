/-
Model of the client-facing reply shaping of sdns (property C06).  Core Lean only.

Mirrors, function by function:
  /repo/internal/dnsutil/helpers.go   SetEdns0, ClearDNSSEC, ClearOPT, NotSupported
  /repo/middleware/edns/edns.go       EDNS.ServeDNS, EDNS.serveWire, ResponseWriter.WriteMsg,
                                      stripECS, stripKeepalive, keepOPTOnly, udpOverflow,
                                      setCookie / setNSID
  /repo/middleware/chain.go           Chain.CancelWithRcode
  /repo/middleware/cache/types.go     NewCacheEntryWithKey (what is stored), CacheEntry.ToMsg
  /repo/server/udp_engine.go          acceptHeader, udpJob.rejectInPlace (tcpJob.rejectInPlace is the same bytes)
  github.com/miekg/dns                Msg.SetReply / SetRcode / IsEdns0 (only what the above use)

Messages are abstract: header flags as booleans, opcode / rcode numbers, one
question, three sections of records carrying a kind tag, an OPT with its
option list.  Wire lengths are NOT computed by the shaping functions: they take
the two length functions (`L` compressed = `Msg.Len()` with Compress, `Lu`
uncompressed) as parameters, and the theorems hold for arbitrary ones.
-/
namespace SdnsVerif.Model.Edns

/-! ### constants (the values are pinned against the tree by Gen facts) -/

structure Consts where
  /-- `dns.MinMsgSize` -/
  minSize : Nat := 512
  /-- `dnsutil.DefaultMsgSize` -/
  defSize : Nat := 1232
  /-- `dns.MaxMsgSize` -/
  maxSize : Nat := 65535
deriving Repr

def codeNSID : Nat := 3
def codeECS : Nat := 8
def codeCookie : Nat := 10
def codeKeepalive : Nat := 11
def codePadding : Nat := 12
def codeEDE : Nat := 15
def rcodeFormErr : Nat := 1
def rcodeNotImp : Nat := 4
def rcodeBadVers : Nat := 16
def typeRRSIG : Nat := 46

/-! ### messages -/

/-- An EDNS option with its provenance: `raw` is an option as some peer
(client or upstream) put it on the wire; the other three are the ones this
server builds itself. -/
inductive EOpt where
  | raw (code : Nat) (data : List UInt8)
  /-- `GenerateServerCookie(secret, remote ip, client half)`: the client half
  followed by a keyed hash (the hash is opaque to the model). -/
  | srvCookie (client : List UInt8)
  /-- the configured NSID string -/
  | srvNsid (data : List UInt8)
  /-- the server's own idle-timeout advertisement -/
  | srvKeepalive (units : Nat)
deriving Repr, DecidableEq

def EOpt.code : EOpt → Nat
  | .raw c _ => c
  | .srvCookie _ => codeCookie
  | .srvNsid _ => codeNSID
  | .srvKeepalive _ => codeKeepalive

def EOpt.dataLen : EOpt → Nat
  | .raw _ d => d.length
  | .srvCookie c => c.length + 32
  | .srvNsid d => d.length
  | .srvKeepalive _ => 2

structure Opt where
  udp : Nat := 0
  doBit : Bool := false
  version : Nat := 0
  options : List EOpt := []
deriving Repr, DecidableEq

inductive DKind | rrsig | nsec | nsec3 | other | cname
deriving Repr, DecidableEq

/-- A record of a section.  `opt o own`: an OPT record; `own = true` means it
is the very object the edns writer holds as `w.opt` (the request's OPT,
re-attached by a downstream handler). -/
inductive RR where
  | data (kind : DKind) (id clen ulen : Nat)
  | opt (o : Opt) (own : Bool)
deriving Repr, DecidableEq

def RR.isOpt : RR → Bool
  | .opt _ _ => true
  | _ => false

/-- `isDNSSEC`: RRSIG, NSEC, NSEC3. -/
def RR.isDnssec : RR → Bool
  | .data .rrsig _ _ _ => true
  | .data .nsec _ _ _ => true
  | .data .nsec3 _ _ _ => true
  | _ => false

structure Flags where
  qr : Bool := false
  aa : Bool := false
  tc : Bool := false
  rd : Bool := false
  ra : Bool := false
  z : Bool := false
  ad : Bool := false
  cd : Bool := false
deriving Repr, DecidableEq

structure Question where
  name : Nat
  qtype : Nat
  qlen : Nat
deriving Repr, DecidableEq

structure Msg where
  id : Nat := 0
  opcode : Nat := 0
  rcode : Nat := 0
  fl : Flags := {}
  question : Option Question := none
  answer : List RR := []
  ns : List RR := []
  extra : List RR := []
deriving Repr, DecidableEq

/-- What the client sent. -/
structure Query where
  id : Nat
  opcode : Nat
  rd : Bool
  ad : Bool
  cd : Bool
  question : Question
  opt : Option Opt
deriving Repr, DecidableEq

def Query.clientDO (q : Query) : Bool := match q.opt with | some o => o.doBit | none => false

def hasCode (c : Nat) (os : List EOpt) : Bool := os.any (fun o => o.code == c)

def Query.hasOption (q : Query) (c : Nat) : Bool :=
  match q.opt with | some o => hasCode c o.options | none => false

/-- the client half (first 8 bytes) of the LAST cookie option of at least 8
bytes — `SetEdns0`'s option loop keeps overwriting. -/
def clientCookie : List EOpt → Option (List UInt8)
  | [] => none
  | o :: t =>
    match clientCookie t with
    | some c => some c
    | none => if o.code == codeCookie then
        (match o with
         | .raw _ d => if d.length ≥ 8 then some (d.take 8) else none
         | _ => none) else none

/-- `Msg.IsEdns0`: the LAST OPT record of the additional section. -/
def lastOpt : List RR → Option (Opt × Bool)
  | [] => none
  | r :: t =>
    match lastOpt t with
    | some x => some x
    | none => match r with
      | .opt o own => some (o, own)
      | _ => none

def Msg.isEdns0 (m : Msg) : Option Opt := (lastOpt m.extra).map (·.1)

/-- replace the last OPT record (the one `IsEdns0` returned) — the code mutates it in place. -/
def setLastOpt (n : Opt) : List RR → List RR
  | [] => []
  | r :: t =>
    if t.any RR.isOpt then r :: setLastOpt n t
    else match r with
      | .opt _ own => .opt n own :: t
      | d => d :: t

/-! ### dnsutil -/

/-- the size clamp of `SetEdns0`. -/
def clampSize (c : Consts) (adv : Nat) : Nat :=
  let s := if adv < c.minSize then c.minSize else adv
  if s > c.defSize then c.defSize else s

structure Set0 where
  opt : Opt
  size : Nat
  cookie : Option (List UInt8)
  nsid : Bool
  do_ : Bool
  /-- the request had no OPT: a fresh one was appended -/
  fresh : Bool
deriving Repr

/-- the clamped copy `policy.Clamp` re-attaches when the policy allows the
client: the LAST client-subnet option (harness inputs are already within the
policy's prefix ceiling, so the clamp is the identity on them). -/
def forwardedECS (ecsAllowed : Bool) (os : List EOpt) : List EOpt :=
  if ecsAllowed then
    match (os.filter (fun o => o.code == codeECS)).getLast? with
    | some e => [e]
    | none => []
  else []

/-- `dnsutil.SetEdns0`. -/
def setEdns0 (c : Consts) (ecsAllowed : Bool) : Option Opt → Set0
  | none =>
    { opt := { udp := c.defSize, doBit := true, version := 0, options := [] },
      size := c.defSize, cookie := none, nsid := false, do_ := false, fresh := true }
  | some o =>
    let size := clampSize c o.udp
    let cookie := clientCookie o.options
    let nsid := hasCode codeNSID o.options
    let kept := forwardedECS ecsAllowed o.options
    if o.version ≠ 0 then
      { opt := { o with udp := c.defSize, options := kept }, size, cookie, nsid, do_ := false, fresh := false }
    else
      { opt := { udp := c.defSize, doBit := true, version := 0, options := kept },
        size, cookie, nsid, do_ := o.doBit, fresh := false }

/-- `dnsutil.ClearDNSSEC` (keyed on the RESPONSE's own question). -/
def clearDNSSEC (m : Msg) : Msg :=
  match m.question with
  | some qq => if qq.qtype == typeRRSIG then m else
      { m with answer := m.answer.filter (fun r => !r.isDnssec), ns := m.ns.filter (fun r => !r.isDnssec) }
  | none => { m with answer := m.answer.filter (fun r => !r.isDnssec), ns := m.ns.filter (fun r => !r.isDnssec) }

/-- `dnsutil.ClearOPT`. -/
def clearOPT (m : Msg) : Msg := { m with extra := m.extra.filter (fun r => !r.isOpt) }

/-- `dnsutil.NotSupported`: a bare header. -/
def notSupported (q : Query) : Msg :=
  { id := q.id, opcode := q.opcode, rcode := rcodeNotImp, fl := { qr := true, rd := true, ad := true } }

/-! ### the edns response writer -/

inductive Proto | udp | tcp | doh | doq
deriving Repr, DecidableEq

structure Cfg where
  /-- configured NSID bytes, `[]` = not configured -/
  nsid : List UInt8 := []
  /-- the ECS forwarding policy is enabled and allows this client -/
  ecs : Bool := false
  kaUnits : Nat := 80
deriving Repr

/-- `edns.ResponseWriter` (the fields WriteMsg reads). -/
structure Writer where
  proto : Proto
  /-- `w.opt`: the request's normalised OPT (decoded path), `none` on the wire-born path -/
  opt : Option Opt
  size : Nat
  do_ : Bool
  cookie : Option (List UInt8)
  nsid : Bool
  noedns : Bool
  noad : Bool
  keepalive : Bool
  respUDP : Nat
deriving Repr

def stripECS (os : List EOpt) : List EOpt := os.filter (fun o => o.code != codeECS)
def stripKeepalive (os : List EOpt) : List EOpt := os.filter (fun o => o.code != codeKeepalive)

/-- `cookieOption` / `setCookie`. -/
def cookieOpts (w : Writer) : List EOpt :=
  match w.cookie with | some c => [.srvCookie c] | none => []

/-- `nsidOption` / `setNSID`. -/
def nsidOpts (cfg : Cfg) (w : Writer) : List EOpt :=
  if cfg.nsid ≠ [] ∧ w.nsid then [.srvNsid cfg.nsid] else []

def keepaliveOpts (cfg : Cfg) (w : Writer) : List EOpt :=
  if w.keepalive then [.srvKeepalive cfg.kaUnits] else []

/-- what `w.opt.Option` holds after `setCookie` / `setNSID` ran (`ensureOpt` builds an empty OPT when there was none). -/
def writerOptions (cfg : Cfg) (w : Writer) : List EOpt :=
  (match w.opt with | some o => o.options | none => []) ++ cookieOpts w ++ nsidOpts cfg w

/-- `dropOtherOPTs(extra, opt)` with `opt` the last OPT record (the one
`IsEdns0` returned): every other OPT record goes. -/
def dropOtherOPTs : List RR → List RR
  | [] => []
  | r :: t => if r.isOpt && t.any RR.isOpt then dropOtherOPTs t else r :: dropOtherOPTs t

/-- `keepExtendedErrors`: an OPT that arrived with the response keeps only its
extended errors (and ECS, which `stripECS` removes right after). -/
def keepExtendedErrors (os : List EOpt) : List EOpt :=
  os.filter (fun o => o.code == codeEDE || o.code == codeECS)

def finishOptions (cfg : Cfg) (w : Writer) (os : List EOpt) : List EOpt :=
  stripKeepalive (stripECS os) ++ keepaliveOpts cfg w

/-- the `!w.noedns` arm of WriteMsg: get-or-attach the OPT, set DO / size, add the server's options, merge, strip. -/
def shapeOpt (cfg : Cfg) (w : Writer) (m : Msg) : Msg :=
  match lastOpt m.extra with
  | none =>
    let base : Opt := w.opt.getD {}
    let o : Opt := { udp := w.respUDP, doBit := w.do_, version := base.version,
                     options := finishOptions cfg w (writerOptions cfg w) }
    { m with extra := m.extra ++ [.opt o true] }
  | some (ro, own) =>
    let merged := if own then writerOptions cfg w else keepExtendedErrors ro.options ++ writerOptions cfg w
    let base : Opt := if own then w.opt.getD ro else ro
    let o : Opt := { udp := w.respUDP, doBit := w.do_, version := base.version,
                     options := finishOptions cfg w merged }
    { m with extra := setLastOpt o (dropOtherOPTs m.extra) }

/-- `keepOPTOnly`: the FIRST OPT record, alone. -/
def keepOPTOnly : List RR → List RR
  | [] => []
  | r :: t => if r.isOpt then [r] else keepOPTOnly t

/-- `udpOverflow`: uncompressed length first, exact length only when that bound does not settle it. -/
def udpOverflow (L Lu : Msg → Nat) (m : Msg) (limit : Nat) : Bool :=
  if Lu m ≤ limit then false else decide (L m > limit)

/-- WriteMsg, step 1: `if !w.do { m = ClearDNSSEC(m) }`. -/
def stageDnssec (w : Writer) (m : Msg) : Msg := if !w.do_ then clearDNSSEC m else m

/-- WriteMsg, step 2: the EDNS arm, or `ClearOPT` for a client without EDNS. -/
def stageOpt (cfg : Cfg) (w : Writer) (m : Msg) : Msg := if !w.noedns then shapeOpt cfg w m else clearOPT m

/-- WriteMsg, step 3: `if w.noad { m.AuthenticatedData = false }`. -/
def stageAD (w : Writer) (m : Msg) : Msg := if w.noad then { m with fl := { m.fl with ad := false } } else m

/-- WriteMsg, step 4: UDP overflow ⇒ TC=1 with only question and OPT. -/
def stageTruncate (L Lu : Msg → Nat) (w : Writer) (m : Msg) : Msg :=
  if w.proto == .udp && udpOverflow L Lu m w.size then
    { m with fl := { m.fl with tc := true, ad := false }, answer := [], ns := [], extra := keepOPTOnly m.extra }
  else m

/-- `(*ResponseWriter).WriteMsg`: what reaches the transport. -/
def writeMsg (L Lu : Msg → Nat) (cfg : Cfg) (w : Writer) (m : Msg) : Msg :=
  stageTruncate L Lu w (stageAD w (stageOpt cfg w (stageDnssec w m)))

/-! ### Chain.CancelWithRcode, EDNS.ServeDNS -/

/-- `Chain.CancelWithRcode`: `Msg.SetRcode(req, rcode)` + the two forced bits;
the additional section is BUILT, not copied: one OPT if the request has one,
with the request OPT's header (size, version), DO as given, and of its options
only the COOKIE ones (a caller may have completed one with the server's half).
Whether "the request has one" means the client's own packet is the caller's
`clientView` below. -/
def cancelWithRcode (q : Query) (rcode : Nat) (do_ : Bool) : Msg :=
  { id := q.id, opcode := q.opcode, rcode := rcode,
    fl := { qr := true, rd := true, ra := true, cd := if q.opcode = 0 then q.cd else false },
    question := some q.question,
    extra := match q.opt with
      | some o => [.opt { o with doBit := do_, options := o.options.filter (fun x => x.code == codeCookie) } true]
      | none => [] }

/-- `Request.clientSentOPT` applied to the request as it stands: an OPT that a
later materialisation appended for the upstream query does not count. -/
def clientView (reqNow : Query) (clientSentOPT : Bool) : Query :=
  if clientSentOPT then reqNow else { reqNow with opt := none }

def streamProto : Proto → Bool
  | .tcp => true | .doq => true | .doh => true | .udp => false

/-- the writer `EDNS.ServeDNS` (decoded path) builds. -/
def writerDecoded (c : Consts) (proto : Proto) (q : Query) (s : Set0) : Writer :=
  let noedns := q.opt.isNone
  let size := if streamProto proto then c.maxSize else s.size
  let size := if noedns then c.minSize else size
  { proto, opt := some s.opt, size, do_ := s.do_, cookie := s.cookie, nsid := s.nsid, noedns,
    noad := q.cd || (!q.ad && !s.do_),
    keepalive := q.hasOption codeKeepalive && proto == .tcp,
    respUDP := s.opt.udp }

/-- the writer `EDNS.serveWire` (wire-born path) builds from the parsed facts. -/
def writerWire (c : Consts) (proto : Proto) (q : Query) : Writer :=
  let noedns := q.opt.isNone
  let adv := match q.opt with | some o => o.udp | none => 0
  let size := min (max adv c.minSize) c.defSize
  let size := if streamProto proto then c.maxSize else size
  let size := if noedns then c.minSize else size
  { proto, opt := none, size, do_ := q.clientDO,
    cookie := (match q.opt with | some o => clientCookie o.options | none => none),
    nsid := q.hasOption codeNSID, noedns,
    noad := q.cd || (!q.ad && !q.clientDO),
    keepalive := q.hasOption codeKeepalive && proto == .tcp,
    respUDP := c.defSize }

/-- the request as the handlers behind edns see it (after SetEdns0). -/
def normalised (q : Query) (s : Set0) : Query := { q with opt := some s.opt }

/-- `EDNS.ServeDNS` on a decoded request; `next` is the rest of the chain
(returns what it writes, if anything). -/
def serveDNS (L Lu : Msg → Nat) (c : Consts) (cfg : Cfg) (proto : Proto) (q : Query)
    (next : Query → Option Msg) : Option Msg :=
  if q.opcode > 0 then some (notSupported q) else
  let s := setEdns0 c cfg.ecs q.opt
  if s.opt.version ≠ 0 then
    some (cancelWithRcode (normalised q { s with opt := { s.opt with version := 0, options := stripECS s.opt.options } })
            rcodeBadVers s.do_)
  else
    (next (normalised q s)).map (writeMsg L Lu cfg (writerDecoded c proto q s))

/-- what the rest of the chain did: returned (having written `m`, or nothing), or panicked. -/
inductive Outcome where
  | done (m : Option Msg)
  /-- panicked after the request was decoded (or on a message-born request) -/
  | panic
  /-- panicked while a wire-born request was still undecoded -/
  | panicUndecoded
deriving Repr

def rcodeServFail : Nat := 2

/-- `restoreClientView`: when a downstream panic unwinds past edns, the
request is handed back the way the client sent it as far as a reply built
from it would show: the appended OPT goes, the forwarded subnet goes. -/
def restoreClientView (q : Query) (noedns : Bool) : Query :=
  if noedns then { q with opt := none }
  else { q with opt := q.opt.map (fun o => { o with options := stripECS o.options }) }

/-- `recovery.ServeDNS` around `EDNS.ServeDNS` (decoded or wire-born request
alike): a panic of the rest of the chain is answered with
`CancelWithRcode(SERVFAIL, false)` through the base writer, from the request as
edns left it. -/
def serveGuarded (L Lu : Msg → Nat) (c : Consts) (cfg : Cfg) (proto : Proto) (q : Query)
    (wireBorn : Bool) (next : Query → Outcome) : Option Msg :=
  if q.opcode > 0 then some (notSupported q) else
  let s := setEdns0 c cfg.ecs q.opt
  if s.opt.version ≠ 0 then
    some (cancelWithRcode (normalised q { s with opt := { s.opt with version := 0, options := stripECS s.opt.options } })
            rcodeBadVers s.do_)
  else
    match next (normalised q s) with
    | .done m => m.map (writeMsg L Lu cfg (if wireBorn then writerWire c proto q else writerDecoded c proto q s))
    | .panic =>
      some (cancelWithRcode (clientView (restoreClientView (normalised q s) q.opt.isNone) q.opt.isSome) rcodeServFail false)
    | .panicUndecoded =>
      -- edns's restore is skipped; recovery materialises the request through SetEdns0
      some (cancelWithRcode (clientView (normalised q s) q.opt.isSome) rcodeServFail false)

/-- `EDNS.serveWire`: only entered for opcode 0 and (no OPT or version 0). -/
def serveWireBorn (L Lu : Msg → Nat) (c : Consts) (cfg : Cfg) (proto : Proto) (q : Query)
    (next : Query → Option Msg) : Option Msg :=
  (next (normalised q (setEdns0 c cfg.ecs q.opt))).map (writeMsg L Lu cfg (writerWire c proto q))

/-- `doq.ResponseWriter.WriteMsg`: whatever ID the handler worked under (the
server replaces the client's with a random one), the reply leaves with ID 0. -/
def doqWriteMsg (m : Msg) : Msg := { m with id := 0 }

/-! ### Msg.SetReply, the cache's ToMsg -/

/-- `Msg.SetReply(req)` applied to a message `m` (fields it does not touch stay). -/
def setReply (m : Msg) (q : Query) : Msg :=
  { m with id := q.id, opcode := q.opcode, rcode := 0,
           fl := { m.fl with qr := true,
                             rd := if q.opcode = 0 then q.rd else m.fl.rd,
                             cd := if q.opcode = 0 then q.cd else m.fl.cd },
           question := some q.question }

structure Entry where
  /-- the stored message (OPT records removed at admission) -/
  msg : Msg
  /-- the Extended DNS Error option kept aside -/
  ede : Option EOpt
deriving Repr

def firstEDE (os : List EOpt) : Option EOpt := os.find? (fun o => o.code == codeEDE)

/-- the EDE `NewCacheEntryWithKey` extracts: first EDE of an OPT, a later OPT overriding. -/
def extractEDE : List RR → Option EOpt → Option EOpt
  | [], acc => acc
  | .opt o _ :: t, acc => extractEDE t (match firstEDE o.options with | some e => some e | none => acc)
  | _ :: t, acc => extractEDE t acc

/-- `NewCacheEntryWithKey`: `none` when the stored form cannot be packed (an
extended rcode without an OPT to carry it). -/
def newCacheEntry (m : Msg) : Option Entry :=
  if m.rcode > 15 then none else
  some { msg := { m with extra := m.extra.filter (fun r => !r.isOpt) }, ede := extractEDE m.extra none }

/-- `CacheEntry.ToMsg(req)`. -/
def toMsg (e : Entry) (q : Query) : Msg :=
  let r := setReply e.msg q
  let r := { r with rcode := e.msg.rcode, extra := e.msg.extra, id := q.id,
                    fl := { r.fl with aa := false, ad := if q.cd then false else r.fl.ad } }
  match e.ede, q.opt with
  | some ede, some qo =>
    (match lastOpt r.extra with
     | none => { r with extra := r.extra ++ [.opt { udp := qo.udp, options := [ede] } false] }
     | some (o, _) => if hasCode codeEDE o.options then r
                      else { r with extra := setLastOpt { o with options := o.options ++ [ede] } r.extra })
  | some ede, none =>
    (match lastOpt r.extra with
     | none => r
     | some (o, _) => if hasCode codeEDE o.options then r
                      else { r with extra := setLastOpt { o with options := o.options ++ [ede] } r.extra })
  | none, _ => r

/-! ### header admission of the datagram / stream engines -/

inductive Verdict | ok | ignore | notimp | formerr
deriving Repr, DecidableEq

def Verdict.toNat : Verdict → Nat
  | .ok => 0 | .ignore => 1 | .notimp => 2 | .formerr => 3

/-- header word accessors (`wire.Header.QR`, `.Opcode`). -/
def flagQR (flags : Nat) : Bool := flags / 2 ^ 15 % 2 == 1
def flagOpcode (flags : Nat) : Nat := flags / 2 ^ 11 % 16
def flagAD (flags : Nat) : Bool := flags / 2 ^ 5 % 2 == 1
def flagRcode (flags : Nat) : Nat := flags % 16

/-- `server.acceptHeader`. -/
def acceptHeader (flags qd an ns ar : Nat) : Verdict :=
  if flagQR flags then .ignore
  else if flagOpcode flags ≠ 0 ∧ flagOpcode flags ≠ 4 then .notimp
  else if qd ≠ 1 ∨ an > 1 ∨ ns > 1 ∨ ar > 2 then .formerr
  else .ok

/-- `udpJob.rejectInPlace` / `tcpJob.rejectInPlace`: the 12 reply bytes, from
the first three bytes of the packet. -/
def rejectBytes (b0 b1 b2 : Nat) (v : Verdict) : List Nat :=
  let opcode := b2 / 8 % 16
  let rcode := if v = .notimp then rcodeNotImp else rcodeFormErr
  [b0, b1, 128 + opcode * 8 + b2 % 2, rcode, 0, 0, 0, 0, 0, 0, 0, 0]

/-- what a datagram/stream listener does with a packet on its header alone:
`none` = it goes on to `ServeRaw`; `some none` = silence; `some (some bytes)` = in-place rejection. -/
def listenerHeaderStep (pkt : List Nat) : Option (Option (List Nat)) :=
  match pkt with
  | b0 :: b1 :: b2 :: b3 :: q0 :: q1 :: a0 :: a1 :: n0 :: n1 :: r0 :: r1 :: _ =>
    match acceptHeader (b2 * 256 + b3) (q0 * 256 + q1) (a0 * 256 + a1) (n0 * 256 + n1) (r0 * 256 + r1) with
    | .ok => none
    | .ignore => some none
    | v => some (some (rejectBytes b0 b1 b2 v))
  | _ => some none

/-- the whole decision a datagram / stream listener takes before the pipeline
runs (`udpEngine.serve`, `tcpEngine.serveFrame`): the header step, then
`ServeRaw`, whose `false` ("the body does not decode") the engine answers with
the in-place FORMERR. `decodable` is the DNS library's verdict on the packet.
`none` = the pipeline answers. -/
def listenerStep (pkt : List Nat) (decodable : Bool) : Option (Option (List Nat)) :=
  match listenerHeaderStep pkt with
  | some out => some out
  | none =>
    if decodable then none
    else some (some (rejectBytes (pkt.getD 0 0) (pkt.getD 1 0) (pkt.getD 2 0) .formerr))

/-! ### a concrete length function for the executable driver

The harness writes each record's measured contribution on the op line, so
`Msg.Len()` of the shaped message is a sum. -/

def rrLen (compressed : Bool) : RR → Nat
  | .data _ _ cl ul => if compressed then cl else ul
  | .opt o _ => 11 + (o.options.map (fun x => 4 + x.dataLen)).sum

def msgLen (compressed : Bool) (m : Msg) : Nat :=
  12 + (match m.question with | some q => q.qlen | none => 0)
    + (m.answer.map (rrLen compressed)).sum + (m.ns.map (rrLen compressed)).sum + (m.extra.map (rrLen compressed)).sum

/-! ### `middleware.Request.ParseWire`: which raw packets may enter the chain undecoded

Bytes are `Nat`s below 256.  `none` = the packet takes the decoded entry. -/

def be16 (raw : List Nat) (off : Nat) : Nat := raw.getD off 0 * 256 + raw.getD (off + 1) 0

/-- the uncompressed question name: offset just past it, or `none`
(compression pointer, label running past the packet). -/
def skipPlainName : Nat → List Nat → Nat → Option Nat
  | 0, _, _ => none
  | fuel + 1, raw, off =>
    if off ≥ raw.length then none else
    let c := raw.getD off 0
    if c = 0 then some (off + 1)
    else if c / 64 ≠ 0 then none
    else if off + 1 + c > raw.length then none
    else skipPlainName fuel raw (off + 1 + c)

/-- the option list of an OPT RDATA `[off, end_)`: `none` when an option header or payload runs past the end. -/
def scanOptions : Nat → List Nat → Nat → Nat → Option (List (Nat × List Nat))
  | 0, _, off, end_ => if off = end_ then some [] else none
  | fuel + 1, raw, off, end_ =>
    if off ≥ end_ then (if off = end_ then some [] else none) else
    if off + 4 > end_ then none else
    let code := be16 raw off
    let len := be16 raw (off + 2)
    if off + 4 + len > end_ then none else
    match scanOptions fuel raw (off + 4 + len) end_ with
    | some rest => some ((code, (raw.drop (off + 4)).take len) :: rest)
    | none => none

/-- the per-option checks of `parseWireOPT` (the library's own checks for the
options this parser knows; anything else refuses). -/
def wireOptionOk (code : Nat) (d : List Nat) : Bool :=
  if code = codeCookie then decide (8 ≤ d.length ∧ d.length ≤ 40)
  else if code = codeNSID then true
  else if code = codeECS then
    decide (d.length ≥ 4) &&
    (let family := d.getD 0 0 * 256 + d.getD 1 0
     let netmask := d.getD 2 0
     let scope := d.getD 3 0
     if family = 0 then netmask == 0
     else if family = 1 then decide (netmask ≤ 32 ∧ scope ≤ 32)
     else if family = 2 then decide (netmask ≤ 128 ∧ scope ≤ 128)
     else false)
  else if code = codePadding then true
  else if code = codeKeepalive then (d.length == 0 || d.length == 2)
  else false

structure WireFacts where
  id : Nat
  flags : Nat
  qtype : Nat
  qclass : Nat
  nameLen : Nat
  hasOPT : Bool := false
  udp : Nat := 0
  doBit : Bool := false
  version : Nat := 0
  options : List (Nat × List Nat) := []
deriving Repr, DecidableEq

/-- `Request.ParseWire` (+ `parseWireOPT`). -/
def parseWire (raw : List Nat) : Option WireFacts :=
  if raw.length < 12 then none else
  let flags := be16 raw 2
  if flagOpcode flags ≠ 0 ∨ flagQR flags then none else
  if be16 raw 4 ≠ 1 ∨ be16 raw 6 ≠ 0 ∨ be16 raw 8 ≠ 0 ∨ be16 raw 10 > 1 then none else
  match skipPlainName raw.length raw 12 with
  | none => none
  | some off =>
    if off - 12 > 255 ∨ off + 4 > raw.length then none else
    let base : WireFacts := { id := be16 raw 0, flags, qtype := be16 raw off, qclass := be16 raw (off + 2), nameLen := off - 12 }
    let off := off + 4
    if be16 raw 10 = 1 then
      if off + 11 > raw.length ∨ raw.getD off 0 ≠ 0 ∨ be16 raw (off + 1) ≠ 41 then none else
      let rdlen := be16 raw (off + 9)
      if off + 11 + rdlen ≠ raw.length ∨ raw.getD (off + 5) 0 ≠ 0 then none else
      match scanOptions raw.length raw (off + 11) raw.length with
      | none => none
      | some opts =>
        if opts.all (fun o => wireOptionOk o.1 o.2) && decide ((opts.filter (fun o => o.1 == codeCookie)).length ≤ 1) then
          some { base with hasOPT := true, udp := be16 raw (off + 3), version := raw.getD (off + 6) 0,
                           doBit := raw.getD (off + 7) 0 / 128 % 2 == 1, options := opts }
        else none
    else if off ≠ raw.length then none else some base

/-! ### the byte path: `edns.ResponseWriter.WireReady / WriteWire / appendWireOPT`
and what the cache hands it (`prepareWireServe`, `wireBodyFor`, `serveWireInto`, `wireInfoFor`) -/

/-- `middleware.WireInfo`. -/
structure WireInfo where
  rcode : Nat := 0
  ad : Bool := false
  hasDnssec : Bool := false
  ede : Option EOpt := none
deriving Repr, DecidableEq

/-- `middleware.WireCapability`. -/
structure Capability where
  do_ : Bool
  reserve : Nat
  maxSize : Nat
deriving Repr, DecidableEq

/-- `wireOPTLen`: the exact encoded length of the OPT this layer appends, or
`none` when it declines (a leftover request option it has no encoder for, a
cookie of another shape, a secret too long for the preimage buffer). -/
def wireOPTLen (cfg : Cfg) (secretLen : Nat) (w : Writer) : Option Nat :=
  if w.noedns then some 0 else
  if (match w.opt with | some o => o.options.all (fun x => x.code == codeECS) | none => true) = false then none else
  match (match w.cookie with
         | some c => if c.length ≠ 8 ∨ 45 + 16 + secretLen > 256 then none else some 44
         | none => some 0) with
  | none => none
  | some ck =>
    some (11 + ck + (if cfg.nsid ≠ [] ∧ w.nsid then 4 + cfg.nsid.length else 0) + (if w.keepalive then 6 else 0))

/-- `WireReady`; `baseReady` is the transport's own answer (an owned UDP/TCP sink). -/
def wireReady (cfg : Cfg) (secretLen : Nat) (w : Writer) (baseReady : Bool) : Option Capability :=
  if !baseReady then none else
  match wireOPTLen cfg secretLen w with
  | none => none
  | some r => some { do_ := w.do_, reserve := r, maxSize := if w.proto == .udp then w.size else 0 }

/-- `appendWireOPT`: the record the byte path appends. -/
def wireOPT (cfg : Cfg) (w : Writer) (info : WireInfo) : Opt :=
  { udp := w.respUDP, doBit := w.do_, version := 0,
    options := cookieOpts w ++ nsidOpts cfg w ++ keepaliveOpts cfg w ++ (match info.ede with | some e => [e] | none => []) }

/-- WriteWire's AD step: `if w.noad && info.AuthenticatedData { wire.ClearAD(body) }`. -/
def wireBody (w : Writer) (body : Msg) (info : WireInfo) : Msg :=
  if w.noad && info.ad then { body with fl := { body.fl with ad := false } } else body

/-- the reply with the per-client OPT appended (`appendWireOPT` + `SetARCount`). -/
def withWireOPT (cfg : Cfg) (w : Writer) (info : WireInfo) (b : Msg) : Msg :=
  { b with extra := b.extra ++ [.opt (wireOPT cfg w info) true] }

/-- `WriteWire`: `none` = `ErrWireFallback` (nothing was written; the caller
retakes the message path). `body` is the packed response without OPT. -/
def writeWire (L : Msg → Nat) (cfg : Cfg) (w : Writer) (body : Msg) (info : WireInfo) : Option Msg :=
  if !w.do_ && info.hasDnssec then none else
  let out := if w.noedns then wireBody w body info else withWireOPT cfg w info (wireBody w body info)
  if w.proto == .udp && decide (L out > w.size) then none else some out

/-- a cache entry as the byte path sees it: the stored message, the
admission-time "carries DNSSEC records" verdict (`prepareWireServe`, answer and
authority only), and the stripped body prepared for DO=0 clients. -/
structure WEntry where
  stored : Msg
  hasDnssec : Bool
  stripped : Option Msg
  ede : Option EOpt
deriving Repr

def storedQtype (m : Msg) : Nat := match m.question with | some q => q.qtype | none => 0

/-- `NewCacheEntryWithKey` + `prepareWireServe` + `prepareStripped`. -/
def newWEntry (m : Msg) : Option WEntry :=
  match newCacheEntry m with
  | none => none
  | some e =>
    let has := (e.msg.answer ++ e.msg.ns).any RR.isDnssec
    some { stored := e.msg, hasDnssec := has, ede := e.ede,
           stripped := if has && storedQtype e.msg != typeRRSIG then some (clearDNSSEC e.msg) else none }

/-- `wireBodyFor(do)`. -/
def wireBodyFor (e : WEntry) (do_ : Bool) : Option (Msg × Bool) :=
  if do_ || !e.hasDnssec || storedQtype e.stored == typeRRSIG then some (e.stored, e.hasDnssec)
  else e.stripped.map (fun b => (b, false))

/-- `serveWireInto` / `serveWireIntoRequest` + `wireInfoFor`: the body with the
reply header stamped (`wire.ApplyReply`: ID, QR, opcode, RD, CD, AA cleared),
the client's question spelling, AD cleared for a CD client; and the facts. -/
def serveWireInto (e : WEntry) (q : Query) (do_ : Bool) : Option (Msg × WireInfo) :=
  match wireBodyFor e do_ with
  | none => none
  | some (b, flag) =>
    let ad := b.fl.ad && !q.cd
    some ({ b with id := q.id, opcode := q.opcode, question := some q.question,
                   fl := { b.fl with qr := true, aa := false, rd := q.rd, cd := q.cd, ad := ad } },
          { rcode := b.rcode, ad := ad, hasDnssec := flag && storedQtype e.stored != typeRRSIG, ede := e.ede })

/-! ### the byte-path alias chase (`composeWireChase`) -/

/-- the merged authentication verdict of a composed chain: every segment was
authenticated, and the client did not set CD. -/
def chaseAD (segAD : List Bool) (cd : Bool) : Bool := segAD.all id && !cd

/-- `composeWireChase`: the alias entry's stored header with the reply stamp
(`wire.ApplyReply`), the concatenated answers of the segments, no authority or
additional records, AD = the merged verdict; and the facts handed to the writer
chain. `segAD` are the stored AD bits of the alias and of every entry chased through. -/
def composeChase (alias : Msg) (segAD : List Bool) (answers : List RR) (segDnssec : Bool) (q : Query) : Msg × WireInfo :=
  let ad := chaseAD segAD q.cd
  ({ alias with id := q.id, opcode := q.opcode, rcode := 0, question := some q.question,
                fl := { alias.fl with qr := true, aa := false, rd := q.rd, cd := q.cd, ad := ad },
                answer := answers, ns := [], extra := [] },
   { rcode := 0, ad := ad, hasDnssec := segDnssec && q.question.qtype != typeRRSIG, ede := none })

/-! ### the rate limiter's cookie exchange (ahead of edns) -/

inductive RLOut | next | badcookie | drop
deriving Repr, DecidableEq

def rcodeBadCookie : Nat := 23

/-- `ratelimit.ServeDNS` for an external client under an active limit (decision
only). `known`: the limiter remembers a cookie for this client; `same`: the
cookie option the client sent is that one; `allow`: the token bucket's answer.
The cookie exchange applies to EDNS version 0 only; BADCOOKIE is
`CancelWithRcode(BADCOOKIE, false)` with the client's cookie completed. -/
def ratelimitStep (proto : Proto) (q : Query) (known same allow : Bool) : RLOut :=
  match q.opt with
  | some o =>
    if o.version = 0 ∧ (clientCookie o.options).isSome then
      if !known || same then .next
      else if proto == .udp then (if allow then .badcookie else .drop)
      else (if allow then .next else .drop)
    else if allow then .next else .drop
  | none => if allow then .next else .drop

/-! ### the cached-failure byte route (`Cache.serveFailureFromWire`) -/

/-- the synthesised SERVFAIL: a ZEROED header with one question, the client's
question bytes, `wire.ApplyReply` (ID, QR, opcode, RD, CD), rcode SERVFAIL, RA;
and the facts: AD not set, the "cached error" extended error. Nothing of the
client's AD / TC / Z bits is carried over. -/
def failureWire (q : Query) (ede : EOpt) : Msg × WireInfo :=
  ({ id := q.id, opcode := q.opcode, rcode := rcodeServFail,
     fl := { qr := true, rd := q.rd, cd := q.cd, ra := true }, question := some q.question },
   { rcode := rcodeServFail, ad := false, hasDnssec := false, ede := some ede })

/-! ### the cache handler serving a plain hit (`serveHitFromWire` / `handleCacheHit`) -/

/-- the encoded length of the entry's extended-error option (`wireEDEReserve`). -/
def edeReserve (e : WEntry) : Nat := match e.ede with | some x => 4 + x.dataLen | none => 0

/-- A plain cache hit behind the edns writer `w`: the byte route when the
writer chain is a byte sink (`WireReady`), a body exists for this client's DO
(`wireBodyFor`) and it fits the transport (`wireFitsChain`: packed body +
reserve + EDE ≤ MaxSize), and `WriteWire` does not fall back; the message
route (`ToMsg` + `WriteMsg`) otherwise. `Lp` is the packed length of a body. -/
def cacheHit (L Lu Lp : Msg → Nat) (cfg : Cfg) (secretLen : Nat) (w : Writer) (baseReady : Bool)
    (m : Msg) (q' : Query) : Option Msg :=
  match newWEntry m, newCacheEntry m with
  | some we, some e =>
    let msgRoute := some (writeMsg L Lu cfg w (toMsg e q'))
    match wireReady cfg secretLen w baseReady with
    | none => msgRoute
    | some cp =>
      match serveWireInto we q' cp.do_ with
      | none => msgRoute
      | some (b, info) =>
        if cp.maxSize > 0 ∧ Lp b + cp.reserve + edeReserve we > cp.maxSize then msgRoute
        else match writeWire (fun x => Lp b + ((x.extra.filter RR.isOpt).map (rrLen true)).sum) cfg w b info with
          | some r => some r
          | none => msgRoute
  | _, _ => none

/-! ### the failover middleware (`failover.ResponseWriter.WriteMsg`) and the DoH wire-format reply -/

/-- what leaves failover for a downstream reply `m`, given what each
configured fallback server answered (`none` = no usable DNS response). Only an
RD=1 SERVFAIL with a question is retried; the first fallback answer that is not
itself SERVFAIL wins, else the first SERVFAIL one, else `m`. Whatever is
taken from a fallback is stamped with the downstream reply's ID and CD. -/
def failoverPick (m : Msg) : List (Option Msg) → Option Msg → Msg
  | [], firstFail => (match firstFail with | some f => f | none => m)
  | none :: t, firstFail => failoverPick m t firstFail
  | some r :: t, firstFail =>
    let r' := { r with id := m.id, fl := { r.fl with cd := m.fl.cd } }
    if r'.rcode = rcodeServFail then failoverPick m t (match firstFail with | some f => some f | none => some r')
    else r'

def failover (m : Msg) (fallbacks : List (Option Msg)) : Msg :=
  if m.question.isNone || fallbacks.isEmpty then m
  else if m.rcode ≠ rcodeServFail || !m.fl.rd then m
  else failoverPick m fallbacks none

/-- `doh.HandleWireFormat`: the reply body is the handler's message, packed as it is (GET and POST alike). -/
def dohWireReply (m : Msg) : Msg := m

/-- the cache handler serving a bare-alias entry from bytes (`serveChaseHit`:
`collectWireChase` over the alias and its cached target, `composeWireChase`,
`CommitWire`); `none` = the byte route declines (the message route, which needs
the internal queryer, takes over). Sizes are not modelled here (inputs stay far
from any limit). -/
def chaseHit (cfg : Cfg) (secretLen : Nat) (w : Writer) (baseReady : Bool) (alias target : Msg) (q' : Query) : Option Msg :=
  match newWEntry alias, newWEntry target with
  | some a, some t =>
    (match wireReady cfg secretLen w baseReady with
     | none => none
     | some cp =>
       match wireBodyFor a cp.do_, wireBodyFor t cp.do_ with
       | some (ab, af), some (tb, tf) =>
         let p := composeChase ab [ab.fl.ad, tb.fl.ad] (ab.answer ++ tb.answer) (af || tf) q'
         writeWire (fun _ => 0) cfg w p.1 { p.2 with ede := a.ede }
       | _, _ => none)
  | _, _ => none

/-! ### the AS112 empty zones (`as112.ServeDNS` / `serveWire`) -/

/-- the answer for a name strictly below one of the empty zones: NXDOMAIN,
authoritative, the zone's SOA in the authority section, and the header and
QUESTION (name spelling, type AND class) of the request — on the decoded body
through `SetReply`, on the wire body field by field. -/
def as112Reply (q' : Query) : Msg :=
  { id := q'.id, opcode := q'.opcode, rcode := 3,
    fl := { qr := true, aa := true, rd := q'.rd, ra := true, cd := q'.cd },
    question := some q'.question, ns := [.data .other 0 0 0] }

/-- the BADCOOKIE the rate limiter writes (`CancelWithRcode(BADCOOKIE, false)`
ahead of edns, on the request as the client sent it): the client's COOKIE
option completed with the server's half, every other option dropped. -/
def badCookieReply (q : Query) : Msg :=
  cancelWithRcode
    (clientView { q with opt := q.opt.map (fun o => { o with options := o.options.map (fun x =>
        match x with
        | .raw c d => if c == codeCookie && decide (d.length ≥ 8) then .srvCookie (d.take 8) else x
        | y => y) }) } true)
    rcodeBadCookie false

/-- the rate limiter in front of the guarded edns handler. -/
def ratelimitServe (L Lu : Msg → Nat) (c : Consts) (cfg : Cfg) (proto : Proto) (q : Query) (wb : Bool)
    (known same allow : Bool) (next : Query → Outcome) : Option Msg :=
  match ratelimitStep proto q known same allow with
  | .next => serveGuarded L Lu c cfg proto q wb next
  | .badcookie => some (badCookieReply q)
  | .drop => none

end SdnsVerif.Model.Edns
