/-
xxHash64 (seed 0) over a byte list — executable only.

Used by the C03 line-protocol driver so that real `internal/cache.Key*`
values can be compared with `xxh64 (preimage …)`.  No theorem mentions this
file: every C03 theorem quantifies over an ARBITRARY `H : List UInt8 → UInt64`.
Core Lean only (linked into `model_c03`).
-/
namespace SdnsVerif.Model.XXH64

def prime1 : UInt64 := 0x9E3779B185EBCA87
def prime2 : UInt64 := 0xC2B2AE3D27D4EB4F
def prime3 : UInt64 := 0x165667B19E3779F9
def prime4 : UInt64 := 0x85EBCA77C2B2AE63
def prime5 : UInt64 := 0x27D4EB2F165667C5

@[inline] def rotl (x : UInt64) (r : UInt64) : UInt64 := (x <<< r) ||| (x >>> (64 - r))

@[inline] def round (acc input : UInt64) : UInt64 :=
  rotl (acc + input * prime2) 31 * prime1

@[inline] def mergeRound (acc val : UInt64) : UInt64 :=
  (acc ^^^ round 0 val) * prime1 + prime4

/-- little-endian read of `n` (≤ 8) bytes at `off`. -/
def readLE (b : ByteArray) (off n : Nat) : UInt64 :=
  (List.range n).foldl (fun acc i => acc ||| ((b.get! (off + i)).toUInt64 <<< (UInt64.ofNat (8 * i)))) 0

def avalanche (h : UInt64) : UInt64 :=
  let h := (h ^^^ (h >>> 33)) * prime2
  let h := (h ^^^ (h >>> 29)) * prime3
  h ^^^ (h >>> 32)

/-- stripe loop over full 32-byte blocks: returns the four lanes and the offset reached. -/
def stripes (b : ByteArray) : Nat → Nat → UInt64 × UInt64 × UInt64 × UInt64 → (UInt64 × UInt64 × UInt64 × UInt64) × Nat
  | 0, off, v => (v, off)
  | fuel + 1, off, (v1, v2, v3, v4) =>
    if off + 32 ≤ b.size then
      stripes b fuel (off + 32)
        (round v1 (readLE b off 8), round v2 (readLE b (off + 8) 8),
         round v3 (readLE b (off + 16) 8), round v4 (readLE b (off + 24) 8))
    else ((v1, v2, v3, v4), off)

def tail8 (b : ByteArray) : Nat → Nat → UInt64 → UInt64 × Nat
  | 0, off, h => (h, off)
  | fuel + 1, off, h =>
    if off + 8 ≤ b.size then
      let k := round 0 (readLE b off 8)
      tail8 b fuel (off + 8) (rotl (h ^^^ k) 27 * prime1 + prime4)
    else (h, off)

def tail1 (b : ByteArray) : Nat → Nat → UInt64 → UInt64
  | 0, _, h => h
  | fuel + 1, off, h =>
    if off < b.size then
      tail1 b fuel (off + 1) (rotl (h ^^^ ((b.get! off).toUInt64 * prime5)) 11 * prime1)
    else h

/-- `xxhash.Sum64` (seed 0). -/
def sum64 (input : List UInt8) : UInt64 :=
  let b : ByteArray := ⟨input.toArray⟩
  let n := b.size
  let (h, off) :=
    if n ≥ 32 then
      let ((v1, v2, v3, v4), off) :=
        stripes b (n / 32 + 1) 0 (prime1 + prime2, prime2, 0, 0 - prime1)
      let h := rotl v1 1 + rotl v2 7 + rotl v3 12 + rotl v4 18
      let h := mergeRound h v1
      let h := mergeRound h v2
      let h := mergeRound h v3
      let h := mergeRound h v4
      (h, off)
    else (prime5, 0)
  let h := h + UInt64.ofNat n
  let (h, off) := tail8 b 5 off h
  let (h, off) :=
    if off + 4 ≤ n then
      (rotl (h ^^^ (readLE b off 4 * prime1)) 23 * prime2 + prime3, off + 4)
    else (h, off)
  avalanche (tail1 b 4 off h)

end SdnsVerif.Model.XXH64
