/-
Model of /repo/internal/wire/pack.go (the pooled packer) and of the part of
github.com/miekg/dns `Msg.Pack` it has to agree with.  Core Lean only.

What is concrete here is the glue package `wire` owns: the header word
(`msgBits`), the section counts, `selectOPT`, the admission / decline ladder of
`TryPack`, the extended-rcode rewrite on a COPY of the OPT, `packQuestion`,
the record loop of `packInto` with its guards, the writes into the pooled
4 KiB buffer, the capacity-pinned slice and `release`.

What is abstract (a parameter, shared by both encoders — see `Lib`): the
library primitives `packRR` (one record at an offset, with a compression
dictionary and a buffer length) and `PackDomainName`, the admission predicate
on a record's dynamic type, the library's length estimate.  Theorems quantify
over an ARBITRARY `Lib`.

Records live in a heap (`Nat → Obj`): a section is a list of pointers
(`none` = nil interface), so that one `*dns.OPT` appearing several times — and
the library's write into it — is expressible.
-/
namespace SdnsVerif.Model.Packer

abbrev Bytes := List UInt8

/-- `const packBufferSize = 4096`. -/
def packBufferSize : Nat := 4096
/-- `const headerLen = 12`. -/
def headerLen : Nat := 12
/-- `const maxPooledCompressionEntries = 64`. -/
def maxPooledCompressionEntries : Nat := 64
/-- `dns.TypeOPT`. -/
def typeOPT : Nat := 41

/-! ### header word -/

/-- `dns.MsgHdr` (Opcode and Rcode are Go `int`s). -/
structure Hdr where
  id : Nat := 0
  response : Bool := false
  opcode : Int := 0
  authoritative : Bool := false
  truncated : Bool := false
  recursionDesired : Bool := false
  recursionAvailable : Bool := false
  zero : Bool := false
  authenticatedData : Bool := false
  checkingDisabled : Bool := false
  rcode : Int := 0
deriving Repr, DecidableEq

/-- Go's `uint16(x)` of an `int`. -/
def u16 (i : Int) : Nat := (i % 65536).toNat

/-- `uint16(msg.Opcode)<<11 | uint16(msg.Rcode&0xF)` (the shift is in uint16). -/
def bitsBase (h : Hdr) : Nat := ((u16 h.opcode <<< 11) % 65536) ||| u16 (h.rcode % 16)

/-- the `[...]struct{set bool; bit uint16}` table of `msgBits`. -/
def flagTable (h : Hdr) : List (Bool × Nat) :=
  [ (h.response, 1 <<< 15), (h.authoritative, 1 <<< 10), (h.truncated, 1 <<< 9),
    (h.recursionDesired, 1 <<< 8), (h.recursionAvailable, 1 <<< 7), (h.zero, 1 <<< 6),
    (h.authenticatedData, 1 <<< 5), (h.checkingDisabled, 1 <<< 4) ]

/-- `func msgBits(msg *dns.Msg) uint16` (pack.go). -/
def msgBits (h : Hdr) : Nat :=
  (flagTable h).foldl (fun bits f => if f.1 then bits ||| f.2 else bits) (bitsBase h)

/-- the library's constants `_QR … _CD` (msg.go). -/
def QR : Nat := 1 <<< 15
def AA : Nat := 1 <<< 10
def TC : Nat := 1 <<< 9
def RD : Nat := 1 <<< 8
def RA : Nat := 1 <<< 7
def Z : Nat := 1 <<< 6
def AD : Nat := 1 <<< 5
def CD : Nat := 1 <<< 4

/-- `dh.Bits` as `packBufferWithCompressionMap` assembles it (msg.go). -/
def libBits (h : Hdr) : Nat :=
  let b := bitsBase h
  let b := if h.response then b ||| QR else b
  let b := if h.authoritative then b ||| AA else b
  let b := if h.truncated then b ||| TC else b
  let b := if h.recursionDesired then b ||| RD else b
  let b := if h.recursionAvailable then b ||| RA else b
  let b := if h.zero then b ||| Z else b
  let b := if h.authenticatedData then b ||| AD else b
  let b := if h.checkingDisabled then b ||| CD else b
  b

/-- a flag as a number. -/
def b2n (b : Bool) : Nat := if b then 1 else 0

/-- RFC 1035 §4.1.1 layout, written as a sum of disjoint fields (the
specification the word is checked against when opcode is a 4-bit value):
QR(1) OPCODE(4) AA TC RD RA Z AD CD RCODE(4). -/
def specBits (h : Hdr) : Nat :=
  32768 * b2n h.response + 2048 * (u16 h.opcode % 16) + 1024 * b2n h.authoritative +
  512 * b2n h.truncated + 256 * b2n h.recursionDesired + 128 * b2n h.recursionAvailable +
  64 * b2n h.zero + 32 * b2n h.authenticatedData + 16 * b2n h.checkingDisabled + u16 (h.rcode % 16)

/-- big-endian uint16 (`binary.BigEndian.PutUint16` of `uint16(n)`). -/
def be16 (n : Nat) : Bytes := [UInt8.ofNat (n / 256 % 256), UInt8.ofNat (n % 256)]

/-! ### extended rcode -/

/-- `o.Hdr.Ttl&0x00FFFFFF | uint32(msg.Rcode>>4)<<24` (pack.go, rcode already
range-checked, so it is a natural number here). -/
def extTtl (ttl rc : Nat) : Nat := (ttl &&& 0x00FFFFFF) ||| (((rc >>> 4) % 4294967296) <<< 24) % 4294967296

/-- `OPT.SetExtendedRcode(uint16(dns.Rcode))` (edns.go):
`rr.Hdr.Ttl = rr.Hdr.Ttl&0x00FFFFFF | uint32(v>>4)<<24`. -/
def libExtTtl (ttl rc : Nat) : Nat := (ttl &&& 0x00FFFFFF) ||| ((((rc % 65536) >>> 4) % 4294967296) <<< 24) % 4294967296

/-! ### records, heap, message -/

/-- the fields of `dns.RR_Header` the glue reads or writes. -/
structure RRHdr where
  rrtype : Nat
  ttl : Nat
  rdlength : Nat
deriving Repr, DecidableEq

/-- one record object: dynamic type (is it `*dns.OPT`), header fields, and
everything else (owner name, class, rdata) opaque. -/
structure Obj (β : Type) where
  isOPT : Bool
  hdr : RRHdr
  rest : β

def Obj.withTtl {β : Type} (o : Obj β) (t : Nat) : Obj β := { o with hdr := { o.hdr with ttl := t } }

abbrev Heap (β : Type) := Nat → Obj β
/-- a `dns.RR` interface value: `none` = nil, `some p` = pointer `p`. -/
abbrev Slot := Option Nat

def Heap.set {β : Type} (h : Heap β) (p : Nat) (o : Obj β) : Heap β := fun q => if q = p then o else h q

structure Question (ν : Type) where
  name : ν
  qtype : Nat
  qclass : Nat

structure Msg (ν : Type) where
  hdr : Hdr
  compress : Bool
  question : List (Question ν)
  answer : List Slot
  ns : List Slot
  extra : List Slot

/-- the three sections in packing order (`[3][]dns.RR{msg.Answer, msg.Ns, msg.Extra}`). -/
def Msg.records {ν : Type} (m : Msg ν) : List Slot := m.answer ++ m.ns ++ m.extra

/-- result of a library packing primitive: on success the bytes written at
`msg[off:]`, the dictionary afterwards and the computed RDLENGTH; a failure
may still have inserted names into the (in-place mutated) dictionary. -/
inductive PR (δ : Type) where
  | ok (bs : Bytes) (d : δ) (rdlength : Nat)
  | fail (d : δ)

/-- The library primitives and predicates both encoders share.  `δ` is the
compression argument (`nilDict` = no compression requested, `emptyDict` = a
fresh / cleared map). -/
structure Lib (β ν δ : Type) where
  /-- `admissibleRR` on a non-nil record (type provenance, nested values). -/
  adm : Obj β → Bool
  /-- internal `packRR(rr, msg, off, compression, compress)`, `bufLen = len(msg)`. -/
  packRR : Obj β → (bufLen off : Nat) → δ → PR δ
  /-- `packDomainName(name, msg, off, compression, compress)`. -/
  packName : ν → (bufLen off : Nat) → δ → PR δ
  /-- `rr.len(off, nil)`: uncompressed length estimate. -/
  rrLen : Obj β → Nat
  /-- `Question.len(off, nil)`. -/
  qLen : Question ν → Nat
  nilDict : δ
  emptyDict : δ
  /-- `len(map)`. -/
  dictLen : δ → Nat

/-- `r.len(off, nil)` of one slot (`msgLenWithCompressionMap` skips nil records). -/
def slotLen {β ν δ : Type} (lib : Lib β ν δ) (heap : Heap β) : Slot → Nat
  | none => 0
  | some p => lib.rrLen (heap p)

/-- `admissibleRR(rr)`: nil is refused, anything else is the type's business. -/
def admSlot {β ν δ : Type} (lib : Lib β ν δ) (heap : Heap β) : Slot → Bool
  | none => false
  | some p => lib.adm (heap p)

/-- `msgLenWithCompressionMap(dns, nil)`. -/
def msgLen {β ν δ : Type} (lib : Lib β ν δ) (heap : Heap β) (m : Msg ν) : Nat :=
  headerLen + (m.question.map lib.qLen).sum + (m.records.map (slotLen lib heap)).sum

/-- `msgIsCompressible` / `dns.Msg.isCompressible`. -/
def msgIsCompressible {ν : Type} (m : Msg ν) : Bool :=
  decide (m.question.length > 1) || decide (m.answer.length > 0) ||
    decide (m.ns.length > 0) || decide (m.extra.length > 0)

/-- the 12 header bytes with a given flag word (counts truncated to uint16). -/
def headerBytes {ν : Type} (m : Msg ν) (bits : Nat) : Bytes :=
  be16 m.hdr.id ++ be16 bits ++ be16 (m.question.length % 65536) ++ be16 (m.answer.length % 65536) ++
    be16 (m.ns.length % 65536) ++ be16 (m.extra.length % 65536)

/-! ### OPT selection -/

/-- backwards scan shared shape: argument is `Extra` REVERSED. -/
def selectOPTRev {β : Type} (heap : Heap β) : List Slot → Option Nat × Bool
  | [] => (none, true)
  | none :: _ => (none, false)
  | some p :: t =>
    if (heap p).hdr.rrtype ≠ typeOPT then selectOPTRev heap t
    else if (heap p).isOPT then (some p, true) else (none, false)

/-- `func selectOPT(msg *dns.Msg) (opt *dns.OPT, safe bool)`. -/
def selectOPT {β : Type} (heap : Heap β) (extra : List Slot) : Option Nat × Bool :=
  selectOPTRev heap extra.reverse

/-- `dns.Msg.IsEdns0` on the reversed Extra; outer `none` = the library panics
(nil dereference, or failed type assertion on an OPT-typed non-OPT). -/
def isEdns0Rev {β : Type} (heap : Heap β) : List Slot → Option (Option Nat)
  | [] => some none
  | none :: _ => none
  | some p :: t =>
    if (heap p).hdr.rrtype = typeOPT then (if (heap p).isOPT then some (some p) else none)
    else isEdns0Rev heap t

def isEdns0 {β : Type} (heap : Heap β) (extra : List Slot) : Option (Option Nat) :=
  isEdns0Rev heap extra.reverse

/-! ### pooled state -/

/-- what the shim's embedded `dns.RR` refers to. -/
inductive Target where
  | heapObj (p : Nat)
  | stateOpt
deriving Repr, DecidableEq

/-- `type packState struct` — `none` stands for the zero value of a field. -/
structure PState (β δ : Type) where
  compression : Option δ := none
  rrRef : Option Target := none
  rrHdr : Option RRHdr := none
  opt : Option (Obj β) := none
  buf : Bytes

/-- `buf[lo:hi:max]` with `lo = 0`: the bytes, the capacity, and the array
behind it (what reslicing up to capacity can reach). -/
structure Slice where
  data : Bytes
  cap : Nat
  backing : Bytes

/-- everything a holder of the slice can read by reslicing to capacity. -/
def Slice.reachable (s : Slice) : Bytes := s.backing.take s.cap

/-- `state.buf[:off:off]`. -/
def slice3 (buf : Bytes) (off : Nat) : Slice := { data := buf.take off, cap := off, backing := buf }

/-- store `bs` at `buf[off:]`; the array keeps its length (a write that does
not fit cannot happen in Go — the primitives bounds-check — and is cut off here). -/
def writeAt (buf : Bytes) (off : Nat) (bs : Bytes) : Bytes :=
  (buf.take off ++ bs ++ buf.drop (off + bs.length)).take buf.length

/-- where `rr.Header()` of the value handed to the exported `dns.PackRR`
points: the shim's own header copy, or a record of the message. -/
inductive HdrRef where
  | shim
  | obj (p : Nat)

/-- loop-carried state of `packInto`. -/
structure Cursor (β δ : Type) where
  off : Nat
  dict : δ
  st : PState β δ
  heap : Heap β

/-- the exported `dns.PackRR`: internal `packRR` into `state.buf`, then
`rr.Header().Rdlength = uint16(off1 - headerEnd)` THROUGH the argument's
`Header()`. -/
def exportedPackRR {β ν δ : Type} (lib : Lib β ν δ) (content : Obj β) (href : HdrRef)
    (c : Cursor β δ) : Option (Cursor β δ) × δ :=
  match lib.packRR content c.st.buf.length c.off c.dict with
  | .fail d => (none, d)
  | .ok bs d rdl =>
    let st1 := { c.st with buf := writeAt c.st.buf c.off bs }
    match href with
    | .shim =>
      (some { off := c.off + bs.length, dict := d, heap := c.heap,
              st := { st1 with rrHdr := st1.rrHdr.map fun h => { h with rdlength := rdl % 65536 } } }, d)
    | .obj p =>
      (some { off := c.off + bs.length, dict := d, st := st1,
              heap := c.heap.set p { c.heap p with hdr := { (c.heap p).hdr with rdlength := rdl % 65536 } } }, d)

/-- the record `packInto` actually encodes for pointer `p`: the selected OPT
is replaced by a copy carrying the rewritten TTL, everything else is itself. -/
def targetOf {β : Type} (heap : Heap β) (opt : Option Nat) (rc : Nat) (p : Nat) : Obj β :=
  if (heap p).isOPT && opt == some p then (heap p).withTtl (extTtl (heap p).hdr.ttl rc) else heap p

/-- the record loop of `packState.packInto` over `Answer ++ Ns ++ Extra`.
Result: the cursor on success; the dictionary as left behind in any case. -/
def packRecs {β ν δ : Type} (lib : Lib β ν δ) (opt : Option Nat) (rc : Nat) :
    List Slot → Cursor β δ → Option (Cursor β δ) × Cursor β δ
  | [], c => (some c, c)
  | none :: _, c => (none, c)          -- excluded by the preflight (would be a nil dereference)
  | some p :: t, c =>
    if c.off ≥ c.st.buf.length then (none, c) else
    let sel := (c.heap p).isOPT && opt == some p
    let target := targetOf c.heap opt rc p
    -- `state.opt = *o; state.opt.Hdr.Ttl = …; target = &state.opt` (only for the selected OPT), then
    -- `state.rr.RR = target; state.rr.hdr = *target.Header()`
    let st2 : PState β δ :=
      { c.st with opt := if sel then some target else c.st.opt,
                  rrRef := some (if sel then Target.stateOpt else Target.heapObj p), rrHdr := some target.hdr }
    match exportedPackRR lib target HdrRef.shim { c with st := st2 } with
    | (none, d) => (none, { c with st := { st2 with rrRef := none }, dict := d })
    | (some c1, _) =>
      -- `state.rr.RR = nil`
      let c1 := { c1 with st := { c1.st with rrRef := none } }
      if c1.off ≤ c.off ∨ c1.off > c1.st.buf.length then (none, c1) else packRecs lib opt rc t c1

/-- `func packQuestion(q, out, off, compression, compress)`: the name through
the library, then one bounds check for the two fixed fields. -/
def packQuestion {β ν δ : Type} (lib : Lib β ν δ) (q : Question ν) (c : Cursor β δ) :
    Option (Cursor β δ) × δ :=
  match lib.packName q.name c.st.buf.length c.off c.dict with
  | .fail d => (none, d)
  | .ok nb d _ =>
    let off := c.off + nb.length
    if off + 4 > c.st.buf.length then (none, d) else
    (some { c with off := off + 4, dict := d,
                   st := { c.st with buf := writeAt (writeAt c.st.buf c.off nb) off (be16 q.qtype ++ be16 q.qclass) } }, d)

def packQuestions {β ν δ : Type} (lib : Lib β ν δ) :
    List (Question ν) → Cursor β δ → Option (Cursor β δ) × Cursor β δ
  | [], c => (some c, c)
  | q :: t, c =>
    match packQuestion lib q c with
    | (none, d) => (none, { c with dict := d })
    | (some c1, _) => packQuestions lib t c1

/-- the six `PutUint16` of the header. -/
def putHeader {ν : Type} (m : Msg ν) (buf : Bytes) : Bytes :=
  let b := writeAt buf 0 (be16 m.hdr.id)
  let b := writeAt b 2 (be16 (msgBits m.hdr))
  let b := writeAt b 4 (be16 (m.question.length % 65536))
  let b := writeAt b 6 (be16 (m.answer.length % 65536))
  let b := writeAt b 8 (be16 (m.ns.length % 65536))
  writeAt b 10 (be16 (m.extra.length % 65536))

/-- `func (state *packState) packInto(msg, opt, compression, compress) (int, bool)`.
Returns `(some off)` for `(off, true)`, the state, heap and dictionary afterwards. -/
def packInto {β ν δ : Type} (lib : Lib β ν δ) (m : Msg ν) (heap : Heap β) (opt : Option Nat)
    (d : δ) (st : PState β δ) : Option Nat × Cursor β δ :=
  let c0 : Cursor β δ := { off := headerLen, dict := d, heap := heap, st := { st with buf := putHeader m st.buf } }
  match packQuestions lib m.question c0 with
  | (none, c) => (none, c)
  | (some c1, _) =>
    match packRecs lib opt m.hdr.rcode.toNat m.records c1 with
    | (none, c) => (none, c)
    | (some c2, _) => (some c2.off, c2)

/-- `func (state *packState) release()` (the `packStatePool.Put` is the caller's `pool` step). -/
def release {β ν δ : Type} (lib : Lib β ν δ) (st : PState β δ) : PState β δ :=
  { st with
    rrRef := none, rrHdr := none, opt := none,
    compression := match st.compression with
      | none => none
      | some d => if lib.dictLen d > maxPooledCompressionEntries then none else some lib.emptyDict }

/-- outcome of `TryPack`: `consumed` is the slice `consume` was called with
(`none`: it was never called); `st` is the pooled state as it goes back to the
pool (unchanged if none was taken); `heap` the message's records afterwards. -/
structure TryResult (β δ : Type) where
  handled : Bool
  consumed : Option Slice
  st : PState β δ
  heap : Heap β

/-- why `TryPack` declined, for the line protocol. -/
inductive Decline where
  | rcodeRange | inadmissible | unsafeOpt | extNoOpt | tooBig | packFailed
deriving Repr, DecidableEq

/-- the ladder of `TryPack` up to (not including) `packStatePool.Get`. -/
def preflight {β ν δ : Type} (lib : Lib β ν δ) (m : Msg ν) (heap : Heap β) : Except Decline (Option Nat) :=
  if m.hdr.rcode < 0 ∨ m.hdr.rcode > 0xFFF then .error .rcodeRange
  else if !(m.records.all (admSlot lib heap)) then .error .inadmissible
  else match selectOPT heap m.extra with
    | (_, false) => .error .unsafeOpt
    | (opt, true) =>
      if opt.isNone ∧ m.hdr.rcode > 0xF then .error .extNoOpt
      else if msgLen lib heap m > packBufferSize then .error .tooBig
      else .ok opt

/-- `func TryPack(msg, consume) (handled bool, err error)` run on the pooled
state `st` that `packStatePool.Get` hands out. -/
def tryPack {β ν δ : Type} (lib : Lib β ν δ) (m : Msg ν) (heap : Heap β) (st : PState β δ) :
    TryResult β δ :=
  match preflight lib m heap with
  | .error _ => { handled := false, consumed := none, st := st, heap := heap }
  | .ok opt =>
    let compress := m.compress && msgIsCompressible m
    let st1 : PState β δ :=
      if compress then (match st.compression with
        | none => { st with compression := some lib.emptyDict }
        | some _ => st) else st
    let d : δ := if compress then st1.compression.getD lib.emptyDict else lib.nilDict
    match packInto lib m heap opt d st1 with
    | (none, c) =>
      -- the map is mutated in place: the state's dictionary is whatever packing left
      let st2 := if compress then { c.st with compression := some c.dict } else c.st
      { handled := false, consumed := none, st := release lib st2, heap := c.heap }
    | (some off, c) =>
      let st2 := if compress then { c.st with compression := some c.dict } else c.st
      { handled := true, consumed := some (slice3 c.st.buf off), st := release lib st2, heap := c.heap }

/-! ### the library's `Msg.Pack` over the same primitives -/

inductive LibErr where
  | rcode | extRcode | nilRR | pack
deriving Repr, DecidableEq

inductive LibOut where
  | ok (b : Bytes)
  | err (e : LibErr)
  | panic
deriving Repr, DecidableEq

/-- `Question.pack`: name, then two `packUint16` each with its own bounds check. -/
def libQuestion {β ν δ : Type} (lib : Lib β ν δ) (L : Nat) (q : Question ν) (off : Nat) (d : δ) :
    Option (Bytes × δ) :=
  match lib.packName q.name L off d with
  | .fail _ => none
  | .ok nb d' _ =>
    let off1 := off + nb.length
    if off1 + 2 > L then none
    else if off1 + 2 + 2 > L then none
    else some (nb ++ be16 q.qtype ++ be16 q.qclass, d')

/-- the question loop; `acc` is `msg[:off]`, so the running offset is `acc.length`. -/
def libQuestions {β ν δ : Type} (lib : Lib β ν δ) (L : Nat) :
    List (Question ν) → δ → Bytes → Option (Bytes × δ)
  | [], d, acc => some (acc, d)
  | q :: t, d, acc =>
    match libQuestion lib L q acc.length d with
    | none => none
    | some (bs, d') => libQuestions lib L t d' (acc ++ bs)

/-- the three record loops (`packRR` on each of Answer, Ns, Extra in turn). -/
def libRecs {β ν δ : Type} (lib : Lib β ν δ) (L : Nat) (heap : Heap β) :
    List Slot → δ → Bytes → LibOut
  | [], _, acc => .ok acc
  | none :: _, _, _ => .err .nilRR
  | some p :: t, d, acc =>
    match lib.packRR (heap p) L acc.length d with
    | .fail _ => .err .pack
    | .ok bs d' _ => libRecs lib L heap t d' (acc ++ bs)

/-- the heap after `opt.SetExtendedRcode(uint16(dns.Rcode))`. -/
def libSetExt {β : Type} (heap : Heap β) (p : Nat) (rc : Nat) : Heap β :=
  heap.set p ((heap p).withTtl (libExtTtl (heap p).hdr.ttl rc))

/-- `packBufferWithCompressionMap` packing into a buffer of length `L`;
returns the outcome and the heap (the library writes into the caller's OPT). -/
def libPackWith {β ν δ : Type} (lib : Lib β ν δ) (m : Msg ν) (heap : Heap β) (L : Nat) : LibOut × Heap β :=
  if m.hdr.rcode < 0 ∨ m.hdr.rcode > 0xFFF then (.err .rcode, heap) else
  match isEdns0 heap m.extra with
  | none => (.panic, heap)
  | some none =>
    if m.hdr.rcode > 0xF then (.err .extRcode, heap) else
    let d := if m.compress && msgIsCompressible m then lib.emptyDict else lib.nilDict
    if L < headerLen then (.err .pack, heap) else
    match libQuestions lib L m.question d (headerBytes m (libBits m.hdr)) with
    | none => (.err .pack, heap)
    | some (acc, d') => (libRecs lib L heap m.records d' acc, heap)
  | some (some p) =>
    let heap' := libSetExt heap p m.hdr.rcode.toNat
    let d := if m.compress && msgIsCompressible m then lib.emptyDict else lib.nilDict
    if L < headerLen then (.err .pack, heap') else
    match libQuestions lib L m.question d (headerBytes m (libBits m.hdr)) with
    | none => (.err .pack, heap')
    | some (acc, d') => (libRecs lib L heap' m.records d' acc, heap')

/-- the heap the library packs from (after its write into the OPT). -/
def libHeap {β : Type} (heap : Heap β) (extra : List Slot) (rc : Nat) : Heap β :=
  match isEdns0 heap extra with
  | some (some p) => libSetExt heap p rc
  | _ => heap

/-- `uncompressedLen + 1`: the buffer `Msg.Pack` allocates for itself. -/
def libBufLen {β ν δ : Type} (lib : Lib β ν δ) (m : Msg ν) (heap : Heap β) : Nat :=
  msgLen lib (libHeap heap m.extra m.hdr.rcode.toNat) m + 1

/-- `dns.Msg.Pack()`. -/
def libPack {β ν δ : Type} (lib : Lib β ν δ) (m : Msg ν) (heap : Heap β) : LibOut × Heap β :=
  libPackWith lib m heap (libBufLen lib m heap)

/-! ### the immutable library fallback and `PackClone` -/

/-- `replaceOPT` inside `libraryPackImmutable`: every slot holding the selected
OPT (`o == opt`) becomes the copy; everything else is shared. -/
def replaceOPT (p fresh : Nat) (sec : List Slot) : List Slot :=
  sec.map fun s => if s = some p then some fresh else s

/-- `func libraryPackImmutable(msg *dns.Msg) ([]byte, error)`; `fresh` is the
address of its local `optCopy` (an address no record of the message has). -/
def libraryPackImmutable {β ν δ : Type} (lib : Lib β ν δ) (m : Msg ν) (heap : Heap β) (fresh : Nat) :
    LibOut × Heap β :=
  if m.hdr.rcode < 0 ∨ m.hdr.rcode > 0xFFF then libPack lib m heap
  else if !(m.records.all (admSlot lib heap)) then libPack lib m heap
  else match selectOPT heap m.extra with
    | (some p, true) =>
      libPack lib { m with answer := replaceOPT p fresh m.answer, ns := replaceOPT p fresh m.ns,
                           extra := replaceOPT p fresh m.extra } (heap.set fresh (heap p))
    | _ => libPack lib m heap

/-- `func PackClone(msg *dns.Msg) ([]byte, error)`: the outcome, the heap and
the pooled state afterwards. -/
def packClone {β ν δ : Type} (lib : Lib β ν δ) (m : Msg ν) (heap : Heap β) (st : PState β δ) (fresh : Nat) :
    LibOut × Heap β × PState β δ :=
  let r := tryPack lib m heap st
  if r.handled then
    ((match r.consumed with | some s => LibOut.ok s.data | none => LibOut.ok []), r.heap, r.st)
  else
    let o := libraryPackImmutable lib m r.heap fresh
    (o.1, o.2, r.st)

/-! ### the consumers: reply path and cache admission -/

/-- what the transport beneath a `responseWriter` is asked to do. -/
inductive WireEv where
  | write (b : Bytes)   -- `Transport.Write(body)`: raw bytes, called INSIDE `TryPack`'s consumer
  | writeMsg            -- `Transport.WriteMsg(m)`: the transport packs with the library
deriving Repr, DecidableEq

structure WriteOut (β δ : Type) where
  events : List WireEv
  size : Nat              -- `w.size` afterwards
  st : PState β δ
  heap : Heap β

/-- `func (w *responseWriter) WriteMsg(m *dns.Msg) error` on a writer that has
not written yet (`directPack`: the chain declared `AllowDirectPack`;
`internal`: an internal sub-query's writer). -/
def writeMsg {β ν δ : Type} (lib : Lib β ν δ) (m : Msg ν) (heap : Heap β) (st : PState β δ)
    (directPack internal : Bool) : WriteOut β δ :=
  if directPack && !internal then
    let r := tryPack lib m heap st
    match r.handled, r.consumed with
    | true, some s => { events := [.write s.data], size := s.data.length, st := r.st, heap := r.heap }
    | _, _ => { events := [.writeMsg], size := 0, st := r.st, heap := r.heap }
  else { events := [.writeMsg], size := 0, st := st, heap := heap }

/-- the storable view `NewCacheEntryWithKey` assembles: same header, question,
answer and authority; the additional section without the records whose
dynamic type is `*dns.OPT` (a nil record is kept); always compressed. -/
def storableView {β ν : Type} (heap : Heap β) (m : Msg ν) : Msg ν :=
  { m with compress := true,
           extra := m.extra.filter fun s => match s with | none => true | some p => !(heap p).isOPT }

/-- cache admission: the bytes the entry keeps (`none`: the message is not admitted). -/
def admitWire {β ν δ : Type} (lib : Lib β ν δ) (m : Msg ν) (heap : Heap β) (st : PState β δ) (fresh : Nat) :
    LibOut × Heap β × PState β δ :=
  packClone lib (storableView heap m) heap st fresh

/-- `dnsutil.ClearDNSSEC` on the storable view: RRSIG / NSEC / NSEC3 records
(by dynamic type — `isSec`) leave Answer and Ns; a nil record is kept; the
additional section is not filtered. -/
def strippedView {β ν : Type} (isSec : Obj β → Bool) (heap : Heap β) (m : Msg ν) : Msg ν :=
  let keep : Slot → Bool := fun s => match s with | none => true | some p => !isSec (heap p)
  let v := storableView heap m
  { v with answer := v.answer.filter keep, ns := v.ns.filter keep }

/-- `func (e *CacheEntry) prepareStripped(msgCopy)`: the body a DO=0 client is
served from bytes. `due`: the stored wire carries DNSSEC records and the
question is not RRSIG; `servable`: `prepareWireServe`'s verdict on a body
(eligible, chase-safe, no DNSSEC left). -/
def prepareStripped {β ν δ : Type} (lib : Lib β ν δ) (isSec : Obj β → Bool) (servable : Bytes → Bool) (due : Bool)
    (m : Msg ν) (heap : Heap β) (st : PState β δ) (fresh : Nat) : Option Bytes × Heap β × PState β δ :=
  if !due then (none, heap, st) else
  match packClone lib (strippedView isSec heap m) heap st fresh with
  | (.ok b, h, s) => (if servable b then some b else none, h, s)
  | (_, h, s) => (none, h, s)

/-! ### `prepareWireServe` (middleware/cache/entry_wire.go) on the skeleton of a body -/

/-- RRSIG, NSEC, NSEC3. -/
def secTypes : List Nat := [46, 47, 50]

structure ServeFlags where
  eligible : Bool
  hasDNSSEC : Bool
  chaseSafe : Bool
deriving Repr, DecidableEq

/-- `func prepareWireServe(body) wireServeFlags` as a function of what it
parses out of the body: QDCOUNT, the question type, the header's 4-bit rcode
and the record types of the answer and authority sections (the additional
section is walked but never inspected). A body that does not parse, or does
not carry exactly one question, gets no flag at all. -/
def wireServeFlags (qd qtype rcode : Nat) (an ns : List Nat) : ServeFlags :=
  if qd ≠ 1 then ⟨false, false, false⟩ else
  let hasSec := (an ++ ns).any fun t => secTypes.contains t
  let hasQtypeAnswer := an.contains qtype
  let hasCNAMEAnswer := an.contains 5
  ⟨true, hasSec, rcode == 3 || qtype == 5 || qtype == 43 || hasQtypeAnswer || !hasCNAMEAnswer⟩

/-- `flags&ready == ready && flags&wireHasDNSSEC == 0` in `prepareStripped`. -/
def ServeFlags.servable (f : ServeFlags) : Bool := f.eligible && f.chaseSafe && !f.hasDNSSEC

/-- the record types `ClearDNSSEC` leaves (records whose header type agrees with their dynamic type). -/
def stripTypes (l : List Nat) : List Nat := l.filter fun t => !secTypes.contains t

/-! ### the owned transports beneath the writer (server/udp_engine.go, tcp_engine.go) -/

/-- the part of `udpJob` a reply touches: the TX slab (still holding whatever
the previous request staged there), the staged length, `written`. -/
structure UdpJob where
  tx : Bytes
  txLen : Nat := 0
  written : Bool := false

/-- the datagram the worker's burst will send. -/
def UdpJob.staged (j : UdpJob) : Bytes := j.tx.take j.txLen

/-- `func (j *udpJob) Write(b)` on a burst job; `aliasTx`: `&b[0] == &j.tx[0]`
(the bytes already live in the slab). Returns the job and whether it succeeded. -/
def udpWrite (j : UdpJob) (b : Bytes) (aliasTx : Bool) : UdpJob × Bool :=
  if b.length > j.tx.length then ({ j with written := true }, false)
  else ({ j with written := true, txLen := b.length,
                 tx := if b.length > 0 && !aliasTx then writeAt j.tx 0 b else j.tx }, true)

/-- `func (j *udpJob) WriteMsg(m)`: `m.PackBuffer(j.tx[:])` packs in place when
the slab is at least `Len()+1` long and into a fresh allocation otherwise,
then `j.Write(out)`. `out` is the library's outcome for `m`, `ulen` its `Len()`. -/
def udpWriteMsg (j : UdpJob) (out : LibOut) (ulen : Nat) : UdpJob × Bool :=
  match out with
  | .ok b =>
    if ulen + 1 ≤ j.tx.length then udpWrite { j with tx := writeAt j.tx 0 b } b true
    else udpWrite j b false
  | _ => (j, false)

/-- the wire fast path on the same job: `LeaseWire` hands out `j.tx[:0]` (no
state changes), the builder appends `body` into it, and either `CommitWire`
→ `Write(body)` with the bytes already home, or `AbortWire` — which never
reaches the transport: all it leaves is `junk` in the slab. -/
def udpCommit (j : UdpJob) (body : Bytes) : UdpJob × Bool :=
  if body.length > j.tx.length then udpWrite j body false   -- the lease was refused: a buffer of the writer's own
  else udpWrite { j with tx := writeAt j.tx 0 body } body true

def udpAbort (j : UdpJob) (junk : Bytes) : UdpJob := { j with tx := writeAt j.tx 0 junk }

/-- a reply through `responseWriter.WriteMsg` onto a burst `udpJob`. -/
def udpReply {β ν δ : Type} (lib : Lib β ν δ) (m : Msg ν) (heap : Heap β) (st : PState β δ)
    (directPack : Bool) (j : UdpJob) : UdpJob × Bool :=
  match (writeMsg lib m heap st directPack false).events with
  | [.write b] => udpWrite j b false          -- pooled bytes: never the slab's own
  | _ => udpWriteMsg j (libPack lib m heap).1 (libBufLen lib m heap - 1)

/-- a connection's stream: the frames staged or written so far, in order. -/
structure TcpStream where
  frames : List Bytes := []

/-- `tcpJob.Write` / `tcpJob.WriteMsg` → `tcpStream.stage(payload)`: one frame
per reply, copied out of the caller's buffer (`dns.MaxMsgSize` = 65535). -/
def tcpStage (s : TcpStream) (b : Bytes) : TcpStream × Bool :=
  if b.length > 65535 then (s, false) else ({ frames := s.frames ++ [b] }, true)

def tcpReply {β ν δ : Type} (lib : Lib β ν δ) (m : Msg ν) (heap : Heap β) (st : PState β δ)
    (directPack : Bool) (s : TcpStream) : TcpStream × Bool :=
  match (writeMsg lib m heap st directPack false).events with
  | [.write b] => tcpStage s b
  | _ => match (libPack lib m heap).1 with
    | .ok b => tcpStage s b
    | _ => (s, false)

/-! ### what the byte-level model of a primitive takes for granted

`PR.ok bs` says a primitive WRITES `bs`.  A primitive may instead account for
a span it does not write (`packDataA` on a 16-byte non-IPv4 address:
`copy(msg[off:], a.To4())` copies nothing, `off += 4`).  A masked write makes
that expressible: `none` = the position is skipped, the buffer keeps its byte. -/

/-- store a partly written span at `buf[off:]`. -/
def writeMasked (buf : Bytes) (off : Nat) (span : List (Option UInt8)) : Bytes :=
  writeAt buf off ((span.zipIdx).map fun (o, i) => o.getD (buf.getD (off + i) 0))

/-- the primitives at the level of what they actually write, with the admission
predicate next to them. -/
structure MaskedLib (β : Type) where
  adm : Obj β → Bool
  span : Obj β → List (Option UInt8)

/-- what the refusal in `admissibleRR` (`writesItsIPv4`) establishes: whatever
the pooled packer admits is packed by a primitive that writes every byte it
accounts for. -/
def AdmitsOnlyFullWriters {β : Type} (ml : MaskedLib β) : Prop :=
  ∀ o, ml.adm o = true → ∀ x ∈ ml.span o, x.isSome = true

/-- the span as a fresh zeroed buffer shows it (what `dns.Msg.Pack` returns). -/
def spanInFresh (span : List (Option UInt8)) : Bytes := span.map fun o => o.getD 0

/-! ### DNS-over-QUIC (server/doq/response_writer.go) -/

def Msg.withId {ν : Type} (m : Msg ν) (id : Nat) : Msg ν := { m with hdr := { m.hdr with id := id } }

/-- `func (w *ResponseWriter) WriteMsg(m)`: `m.Id = 0` (RFC 9250 §4.2.1), the
library's `Pack`, then `Write(addPrefixLen(packed))`: what goes on the stream. -/
def doqWriteMsg {β ν δ : Type} (lib : Lib β ν δ) (m : Msg ν) (heap : Heap β) : Option Bytes :=
  match (libPack lib (m.withId 0) heap).1 with
  | .ok b => some (be16 b.length ++ b)
  | _ => none

/-! ### DNS-over-HTTPS (server.ServeHTTP → doh.HandleWireFormat) -/

/-- what the HTTP client receives: status and body. The reply goes through the
chain's base writer onto a mock "doh" writer that never declared
`AllowDirectPack` (`writeMsg … false false`), which keeps the message; the
handler then packs it with the library: 200 + the bytes, or 500. -/
def dohResponse {β ν δ : Type} (lib : Lib β ν δ) (m : Msg ν) (heap : Heap β) (st : PState β δ) : Nat × Bytes :=
  match (writeMsg lib m heap st false false).events with
  | [.writeMsg] =>
    (match (libPack lib m heap).1 with
      | .ok b => (200, b)
      | _ => (500, []))
  | _ => (500, [])   -- a raw write would hand the mock writer bytes it re-decodes: not this transport's path

/-! ### the pool -/

/-- pooled states are clean: nothing of a message left, dictionary absent or empty. -/
def Clean {β ν δ : Type} (lib : Lib β ν δ) (st : PState β δ) : Prop :=
  st.rrRef = none ∧ st.rrHdr = none ∧ st.opt = none ∧
  (st.compression = none ∨ st.compression = some lib.emptyDict) ∧ st.buf.length = packBufferSize

/-- one `TryPack` against a pool: `pick = some i` reuses pooled state `i`
(`sync.Pool.Get` may return any), otherwise `New` allocates a zeroed one; a
state that was taken goes back to the pool. -/
def poolStep {β ν δ : Type} (lib : Lib β ν δ) (pool : List (PState β δ))
    (pick : Option Nat) (m : Msg ν) (heap : Heap β) : List (PState β δ) × TryResult β δ :=
  let fresh : PState β δ := { buf := List.replicate packBufferSize 0 }
  match pick with
  | some i =>
    if h : i < pool.length then
      let r := tryPack lib m heap pool[i]
      (pool.set i r.st, r)
    else
      let r := tryPack lib m heap fresh
      (r.st :: pool, r)
  | none =>
    let r := tryPack lib m heap fresh
    (r.st :: pool, r)

/-! ### who holds a pooled state

`sync.Pool` is a bag of states; a pack `Get`s one (any pooled one, or a new
one), and on its way out `Put`s it back.  Packs overlap in time — concurrent
requests, or a pack started from inside another pack's consumer — so the
pool's discipline is a property of ALL interleavings of `get` / `finish`
events.  States are identities (`Nat`). -/

/-- the ways a `TryPack` that has taken a state can end. -/
inductive Exit where
  | packFailed      -- `packInto` reported `ok = false`
  | consumed        -- `consume` returned nil
  | consumerError   -- `consume` returned an error (the transport write failed)
  | consumerPanic   -- `consume` panicked
deriving Repr, DecidableEq

/-- how often `TryPack` puts its state back on each way out:
`defer state.release()` right after the `Get` — exactly once, whatever happens. -/
def tryPackPuts : Exit → Nat := fun _ => 1

structure Own where
  pool : List Nat := []       -- resting in the pool (with multiplicity)
  borrowed : List Nat := []   -- held by packs in flight
  next : Nat := 0             -- `New` allocates this identity
  /-- whose message's bytes are in the state's buffer right now (a message tag). -/
  content : Nat → Nat := fun _ => 0
  /-- the message the pack currently holding the state is packing. -/
  holder : Nat → Nat := fun _ => 0

inductive OwnEv where
  /-- a pack of message `tag` starts: `Get` returns pooled state `pick`, or a
  new one, and the pack writes its bytes into that state's buffer. -/
  | get (pick : Option Nat) (tag : Nat)
  /-- the pack holding `id` ends through exit `e`. -/
  | finish (id : Nat) (e : Exit)
deriving Repr

/-- take state `id` for message `tag`. -/
def Own.take (s : Own) (id tag : Nat) : Own :=
  { s with borrowed := id :: s.borrowed,
           content := fun x => if x = id then tag else s.content x,
           holder := fun x => if x = id then tag else s.holder x }

def ownStep (puts : Exit → Nat) (s : Own) : OwnEv → Own
  | .get (some id) tag =>
    if id ∈ s.pool then { s with pool := s.pool.erase id }.take id tag
    else { s with next := s.next + 1 }.take s.next tag
  | .get none tag => { s with next := s.next + 1 }.take s.next tag
  | .finish id e =>
    if id ∈ s.borrowed then
      { s with borrowed := s.borrowed.erase id, pool := List.replicate (puts e) id ++ s.pool }
    else s

def ownRun (puts : Exit → Nat) (evs : List OwnEv) : Own := evs.foldl (ownStep puts) {}

end SdnsVerif.Model.Packer
