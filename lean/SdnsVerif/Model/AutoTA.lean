/-
Model of `Resolver.AutoTA` (/repo/middleware/resolver/auto_trust_anchor.go),
the RFC 5011 trust-anchor refresh, over an abstract disk, crash points and
read / write faults.  Core Lean only (linked into `model_c09`).

What is abstracted
* a DNSKEY is `Key`: key material id (`dnskeyMaterialFP`: algorithm, protocol,
  public key), the flag word split into SEP (0x0001), REVOKE (0x0080) and the
  remaining bits, and the 16-bit key tag **as data** (the theorems therefore
  hold for an arbitrary key-tag function, collisions included);
* the DNSKEY fetch is an input (`Fetch.keys`, in answer order) and signature
  verification is an oracle: `Fetch.signers` lists the keys that produced an
  RRSIG that validly covers exactly the fetched RRset;
* time is `Nat` seconds with an explicit `now`;
* a file is `absent`, `corrupt` (bytes that do not decode) or `ok v`; a write
  is an atomic replacement (`atomicGobWrite`: temp file + rename + dir sync).
-/
namespace SdnsVerif.Model.AutoTA

/-- `*dns.DNSKEY` restricted to what `AutoTA` looks at. -/
structure Key where
  mat : Nat          -- dnskeyMaterialFP
  sep : Bool         -- Flags & DNSKEYFlagKSK (0x0001)
  revoke : Bool      -- Flags & DNSKEYFlagRevoke (0x0080)
  other : Nat        -- Flags with those two bits cleared (0x0100 = ZONE)
  tag : Nat          -- dnssec.KeyTag
  owner : Nat := 0   -- owner name of the record: 0 = "." (the root), n > 0 = some other name
deriving DecidableEq, Repr, Inhabited

/-- `type State int` -/
inductive St | start | addPend | valid | missing | revoked | removed
deriving DecidableEq, Repr, Inhabited

/-- `type TrustAnchor struct`; the map key of `TrustAnchors` is `key.tag`. -/
structure TA where
  key : Key
  st : St
  firstSeen : Nat
deriving DecidableEq, Repr, Inhabited

/-- content of one file: `absent` (NotExist), `empty` (exists, zero length: the
gob decoder returns `io.EOF`), `corrupt` (bytes that do not decode: garbage or a
truncated stream, `io.ErrUnexpectedEOF` etc.), or `ok v`. -/
inductive FileC (α : Type) where
  | absent
  | empty
  | corrupt
  | ok (v : α)
deriving DecidableEq, Repr

/-- the file exists and its bytes do not decode (for `readTombstones`: every
`gob` error, `io.EOF` of a zero-length file included, is `errCorruptTombstones`). -/
def FileC.undecodable {α : Type} : FileC α → Bool
  | .empty => true
  | .corrupt => true
  | _ => false

/-- the two files under `cfg.Directory`. Tombstones are kept by material. -/
structure Disk where
  state : FileC (List TA) := .absent
  tomb : FileC (List Nat) := .absent
deriving DecidableEq, Repr

/-- any other RRset of the answer section besides the root's DNSKEY RRset: a
DNSKEY RRset under another owner name (`keys`), or an RRset of another type
(`keys = []`). `signers`: keys with a valid RRSIG (signer name ".") that covers
exactly this RRset. -/
structure Extra where
  keys : List Key := []
  signers : List Key := []
deriving DecidableEq, Repr

/-- the answer section of the `. DNSKEY` query, RRset by RRset. -/
structure Fetch where
  keys : List Key      -- the DNSKEY records owned by ".", answer order
  signers : List Key   -- keys with a valid RRSIG (signer name ".") over exactly that RRset
  extras : List Extra := []   -- every other RRset of the answer section, answer order
deriving DecidableEq, Repr

/-- an RRSIG over the root DNSKEY RRset that is cryptographically sound, with its
validity window in seconds relative to the moment of validation (`Inception -
now`, `Expiration - now`). -/
structure TimedSig where
  key : Key
  notBefore : Int
  notAfter : Int
  /-- the RRSIG's Signer's Name field: 0 = "." (the zone of the RRset), n > 0 = some other name. -/
  signer : Nat := 0
deriving DecidableEq, Repr

/-- `verifyOneSigWithWork`: `sig.ValidityPeriod(time.Time{})` — inside the window,
no margin on either side — and the signer-name checks (`usableSignatureCandidate`:
the key's owner name must equal the RRSIG's signer name; `signatureMatchesRRset`:
the RRset must lie in the signer's zone): for the root's DNSKEY RRset and anchors
owned by "." only a signer name "." passes. -/
def TimedSig.valid (t : TimedSig) : Bool := t.notBefore ≤ 0 && 0 ≤ t.notAfter && t.signer == 0

/-- the keys whose RRSIG counts: the unconditionally valid ones plus the
time-bounded ones that are inside their window. -/
def effectiveSigners (signers : List Key) (timed : List TimedSig) : List Key :=
  signers ++ (timed.filter (·.valid)).map (·.key)

/-- an RRSIG over one of the extra RRsets with an explicit Signer's Name (0 = ".",
n > 0 another name), cryptographically sound and inside its window. -/
structure NamedSig where
  key : Key
  signer : Nat
deriving DecidableEq, Repr

/-- which of them can count for anchors owned by ".": `usableSignatureCandidate`
wants the key's owner name to equal the signer name, so only those signed as ".". -/
def namedSigners (named : List NamedSig) : List Key :=
  (named.filter (fun s => s.signer == 0)).map (·.key)

/-- every DNSKEY record of the answer section, whatever its owner:
`ExtractRRSet(rrs, "", TypeDNSKEY)` and the `for _, rr := range resp.Answer`
loop that builds `kskFetched` do not look at owner names. -/
def Fetch.all (f : Fetch) : List Key := f.keys ++ f.extras.flatMap (·.keys)

/-- read / write faults of one run (`true` = the operation fails). -/
structure Faults where
  stateRead : Bool := false   -- readFromTAFile fails (any error)
  tombRead : Bool := false    -- readTombstones: open/read fails, not NotExist, not a decode error ("unreadable")
  tombWrite : Bool := false   -- writeTombstones fails
  stateWrite : Bool := false  -- writeToTAFile fails
deriving DecidableEq, Repr

/-- hold-down literals (seconds): `720*time.Hour`, `2160*time.Hour`. -/
structure Params where
  addHold : Nat := 720 * 3600
  remHold : Nat := 2160 * 3600
deriving DecidableEq, Repr

inductive Write where
  | tomb (ms : List Nat)
  | state (tas : List TA)
deriving DecidableEq, Repr

inductive Auth | none | full | revOnly
deriving DecidableEq, Repr

/-- terminal counter of the run (`refreshResult`). -/
inductive Outcome | ok | verr | perr
deriving DecidableEq, Repr

def isMarker (s : St) : Bool := s == .revoked || s == .removed
def isTrusted (s : St) : Bool := s == .valid || s == .missing

/-- `tag - DNSKEYFlagRevoke` in `uint16` arithmetic. -/
def tagSub128 (t : Nat) : Nat := (t + 65536 - 128) % 65536

/-- `kskCurrent[t]` -/
def lookup (cur : List TA) (t : Nat) : Option TA := cur.find? (fun ta => ta.key.tag == t)

/-- `kskCurrent[ta.key.tag] = ta` -/
def insertTA (cur : List TA) (ta : TA) : List TA :=
  cur.filter (fun x => x.key.tag != ta.key.tag) ++ [ta]

/-- Algorithm, Protocol, PublicKey and Flags all equal. -/
def identical (a b : Key) : Bool :=
  a.mat == b.mat && a.sep == b.sep && a.revoke == b.revoke && a.other == b.other

/-- `sameKeyExceptRevoke(currentKey, revokedKey)`:
`currentKey.Flags == revokedKey.Flags ^ DNSKEYFlagRevoke`. -/
def sameKeyExceptRevoke (c r : Key) : Bool :=
  c.mat == r.mat && c.sep == r.sep && c.other == r.other && c.revoke == !r.revoke

/-- ZONE bit (0x0100) of the flag word: `usableSignatureCandidate`. -/
def zoneBit (k : Key) : Bool := (k.other / 256) % 2 == 1

/-- some RRSIG verifies under `k`: same key tag (`sig.KeyTag`), same public
key, usable as a zone key (`verifyOneSigWithWork`). -/
def signedBy (signers : List Key) (k : Key) : Bool :=
  zoneBit k && k.owner == 0 && signers.any (fun s => s.mat == k.mat && s.tag == k.tag)

/-- `dnssec.VerifyRRSIGWithWork(rootzone, keys, msg)` over the whole answer
section: EVERY RRset in it (all names are inside "."), not only the DNSKEY
RRset that was asked for, must carry an RRSIG that verifies under one of `ks`. -/
def coveredBy (f : Fetch) (ks : List Key) : Bool :=
  (f.keys.isEmpty || ks.any (signedBy f.signers)) &&
  f.extras.all (fun e => ks.any (signedBy e.signers))

/-- `Resolver.verifyRootKeys`: how validation uses the live trust set. The keys
with `Flags == 257` of `r.rootKeys` must cover every RRset of the root DNSKEY
response; with no such key (`ErrTrustAnchorsUnavailable`, e.g. the set was
cleared) nothing validates: the lookup fails, it is never answered unvalidated. -/
def validates (live : List Key) (f : Fetch) : Bool :=
  let ks := live.filter (fun k => k.sep && !k.revoke && k.other == 256)
  !ks.isEmpty && !f.all.isEmpty && coveredBy f ks

/-- what a client gets for a name whose data is genuine (`secure`: it lies under
a signed chain of delegations; otherwise in an unsigned zone). -/
inductive Served | answered (ad : Bool) | servfail
deriving DecidableEq, Repr

/-- the consumer side of the live trust set — `Resolver.answer` / `authority` /
`rootParentDS` with `hasTrustAnchors`: a client that sets CD gets the data
unvalidated (AD clear); otherwise, with no trust anchor, EVERY lookup fails
(whatever is cached: delegation cuts, DS sets), and with anchors genuine data
is answered, authenticated iff its chain is signed. -/
def serve (live : List Key) (cd secure : Bool) : Served :=
  if cd then .answered false
  else if live.isEmpty then .servfail
  else .answered secure

/-- `revocationIsSelfSignedWithWork`: the whole answer section verifies under
the revoked key alone (zone = that key's owner name). -/
def selfSigned (f : Fetch) (k : Key) : Bool := coveredBy f [k]

/-- first-run fallback: seed `kskCurrent` from `r.rootKeys`. -/
def seedFromLive (live : List Key) (now : Nat) : List TA :=
  live.foldl (fun acc k =>
    if k.sep then insertTA acc { key := k, st := if k.revoke then .revoked else .valid, firstSeen := now }
    else acc) []

/-- legacy Revoked/Removed entries are copied into the tombstone store. -/
def migrate (cur : List TA) (tomb : List Nat) : List Nat :=
  cur.foldl (fun t ta => if isMarker ta.st && !t.contains ta.key.mat then t ++ [ta.key.mat] else t) tomb

/-- tombstone precedence over every non-marker entry of `kskCurrent`. -/
def precedence (cur : List TA) (tomb : List Nat) : List TA :=
  cur.filter (fun ta => isMarker ta.st || !tomb.contains ta.key.mat)

def mergeStep (now : Nat) (acc : List TA × List Nat) (k : Key) : List TA × List Nat :=
  if !k.sep then acc
  else if (lookup acc.1 k.tag).isSome then acc
  else if acc.2.contains k.mat then acc
  else if k.revoke then (acc.1, acc.2 ++ [k.mat])
  else (acc.1 ++ [{ key := k, st := .valid, firstSeen := now }], acc.2)

/-- merge of `r.configuredRootKeys`. -/
def mergeCfg (cfg : List Key) (cur : List TA) (tomb : List Nat) (now : Nat) : List TA × List Nat :=
  cfg.foldl (mergeStep now) (cur, tomb)

/-- `candidate` / `finalRootKeys`: Valid and Missing entries. -/
def candidate (cur : List TA) : List Key :=
  (cur.filter (fun ta => isTrusted ta.st)).map (·.key)

/-- `revokedBootstrap` of `verifyFetchedKeysWithWork`. -/
def bootstrap (current : List Key) (f : Fetch) : List Key :=
  f.all.filter (fun k => k.revoke &&
    current.any (fun c => c.tag == tagSub128 k.tag && sameKeyExceptRevoke c k))

/-- `verifyFetchedKeysWithWork(candidate, resp.Answer)` -/
def verifyFetched (cand : List Key) (f : Fetch) : Auth :=
  if f.all.isEmpty then .none else
  let current := cand.filter (·.sep)
  if current.isEmpty then .none
  else if coveredBy f current then .full
  else if !(bootstrap current f).isEmpty && coveredBy f (bootstrap current f) then .revOnly
  else .none

/-- `kskFetched`: SEP keys of the answer by tag, a later record replaces an
earlier one with the same tag. -/
def fetchedMap (ks : List Key) : List Key :=
  ks.foldl (fun acc k => if k.sep then acc.filter (fun x => x.tag != k.tag) ++ [k] else acc) []

def insertByTag (k : Key) : List Key → List Key
  | [] => [k]
  | x :: t => if k.tag ≤ x.tag then k :: x :: t else x :: insertByTag k t

/-- `sort.Slice(fetchedTags, …)`: ascending tag order. -/
def sortByTag : List Key → List Key
  | [] => []
  | x :: t => insertByTag x (sortByTag t)

def sameAsExisting (cur : List TA) (k : Key) : Bool :=
  match lookup cur k.tag with
  | some e => identical e.key k
  | none => false

/-- one iteration of `stageRevocationSelfSignatures`: is the revocation carried
by fetched key `k` actionable and self-signed? -/
def stageOne (cur : List TA) (tomb : List Nat) (f : Fetch) (k : Key) : Bool :=
  k.revoke && !tomb.contains k.mat && !sameAsExisting cur k &&
  (match lookup cur (tagSub128 k.tag) with
   | some old => isTrusted old.st && sameKeyExceptRevoke old.key k && selfSigned f k
   | none => false)

/-- the fetched keys `k` with `revocationSelfSigned[k.tag] == true` (the Go map
is indexed by tag; `kskFetched` holds exactly one key per tag, so indexing by
the fetched key is the same thing). -/
def stage (cur : List TA) (tomb : List Nat) (f : Fetch) (fetched : List Key) : List Key :=
  fetched.filter (stageOne cur tomb f)

/-- `oldTA.State = StateRevoked; oldTA.FirstSeen = time.Now()` on the entry
`kskCurrent[t]` (the first and, in a Go map, only entry with that tag). -/
def setRevoked : List TA → Nat → Nat → List TA
  | [], _, _ => []
  | ta :: rest, t, now =>
    if ta.key.tag == t then { ta with st := .revoked, firstSeen := now } :: rest
    else ta :: setRevoked rest t now

structure Loop where
  cur : List TA
  tomb : List Nat
  revoked : List Nat := []   -- materials revoked in this run (`newRevocation`)
deriving Repr

/-- body of `for _, tag := range fetchedTags`. -/
def procFetched (staged : List Key) (revOnly : Bool) (now : Nat) (s : Loop) (k : Key) : Loop :=
  if s.tomb.contains k.mat then s
  else if sameAsExisting s.cur k then s
  else if k.revoke then
    match lookup s.cur (tagSub128 k.tag) with
    | some old =>
      if isTrusted old.st && sameKeyExceptRevoke old.key k && staged.contains k then
        { cur := setRevoked s.cur (tagSub128 k.tag) now, tomb := s.tomb ++ [k.mat],
          revoked := s.revoked ++ [k.mat] }
      else s
    | none => s
  else if revOnly then s
  else if (lookup s.cur k.tag).isSome then s
  else { s with cur := s.cur ++ [{ key := k, st := .addPend, firstSeen := now }] }

/-- body of the KeyRem / KeyPres / hold-down loop; `none` = `delete`. -/
def holdStep (P : Params) (fetchedTags : List Nat) (now : Nat) (ta : TA) : Option TA :=
  if !fetchedTags.contains ta.key.tag then
    match ta.st with
    | .addPend => none
    | .start => none
    | .valid => some { ta with st := .missing, firstSeen := now }
    | .missing => if now - ta.firstSeen > P.remHold then none else some ta
    | _ => some ta
  else
    let ta1 := if ta.st == .addPend && now - ta.firstSeen > P.addHold then { ta with st := .valid } else ta
    some (if ta1.st == .missing then { ta1 with st := .valid } else ta1)

def holdDown (P : Params) (fetchedTags : List Nat) (now : Nat) (cur : List TA) : List TA :=
  cur.filterMap (holdStep P fetchedTags now)

structure Result where
  live : List Key
  writes : List Write := []
  outcome : Outcome
  auth : Auth := .none
  cand : List Key := []       -- pre-fetch candidate = the anchors used to authenticate
  revoked : List Nat := []    -- materials whose revocation was accepted by this run
  curFinal : List TA := []    -- kskCurrent at the end of the run (before marker cleanup)
  /-- `r.rootKeys` while the DNSKEY query is in flight (after the pre-fetch
  publication); `none`: the run returned before it. -/
  pre : Option (List Key) := none
deriving Repr

/-- `kskCurrent` after the state read / reseed. -/
def readState (d : Disk) (live : List Key) (fl : Faults) (now : Nat) : List TA :=
  if fl.stateRead then seedFromLive live now else
  match d.state with
  | .ok tas => tas
  | _ => seedFromLive live now

inductive TombRead where
  | corrupt
  | ok (ms : List Nat)

/-- `readTombstones` and the error handling around it: NotExist is an empty
store; EVERY other error — bytes that do not decode, or a file that exists but
cannot be opened / read — clears the trust set and aborts the refresh (since
/repo 1cde6e3; before, an open error yielded an empty map). -/
def readTomb (d : Disk) (fl : Faults) : TombRead :=
  if fl.tombRead then .corrupt else
  match d.tomb with
  | .absent => .ok []
  | .empty => .corrupt
  | .corrupt => .corrupt
  | .ok ms => .ok ms

/-- everything up to the pre-fetch publication: `(kskCurrent, tombstones)`. -/
def prepare (cfg : List Key) (cur0 : List TA) (tomb0 : List Nat) (now : Nat) : List TA × List Nat :=
  let tomb1 := migrate cur0 tomb0
  let cur1 := precedence cur0 tomb1
  mergeCfg cfg cur1 tomb1 now

/-- the part of `AutoTA` after a successfully authenticated fetch. -/
def process (P : Params) (f : Fetch) (revOnly : Bool) (now : Nat) (cur : List TA) (tomb : List Nat) : Loop :=
  let fetched := sortByTag (fetchedMap f.all)
  let staged := stage cur tomb f fetched
  let l := fetched.foldl (procFetched staged revOnly now) { cur := cur, tomb := tomb }
  if revOnly then l else { l with cur := holdDown P (fetched.map (·.tag)) now l.cur }

/-- the persistence tail and the publication policy: tombstones first, the
`StateRevoked`/`StateRemoved` markers are dropped only when that write landed,
then the state file; fail-closed clear when a new revocation could not be
recorded at all. `live1` is the live set after the pre-fetch publication. -/
def finish (fl : Faults) (live1 : List Key) (a : Auth) (cand : List Key) (l : Loop) : Result :=
  let tombErr := fl.tombWrite
  let stateErr := fl.stateWrite
  let cur' := if tombErr then l.cur else l.cur.filter (fun ta => !isMarker ta.st)
  let writes := (if tombErr then [] else [Write.tomb l.tomb]) ++
                (if stateErr then [] else [Write.state cur'])
  let live' :=
    if tombErr && stateErr && !l.revoked.isEmpty then []
    else if tombErr && stateErr then live1
    else candidate cur'
  { live := live', writes := writes,
    outcome := if tombErr || stateErr then .perr else .ok,
    auth := a, cand := cand, revoked := l.revoked, curFinal := l.cur, pre := some live1 }

/-- `func (r *Resolver) AutoTA()` -/
def autoTA (P : Params) (cfg : List Key) (d : Disk) (live : List Key) (f : Option Fetch)
    (fl : Faults) (now : Nat) : Result :=
  let priorTrustValid := !live.isEmpty
  let cur0 := readState d live fl now
  match readTomb d fl with
  | .corrupt => { live := [], outcome := .perr }
  | .ok tomb0 =>
    let (cur, tomb) := prepare cfg cur0 tomb0 now
    let cand := candidate cur
    let live1 := if priorTrustValid then cand else live
    match f with
    | none => { live := live1, outcome := .verr, cand := cand, curFinal := cur, pre := some live1 }
    | some f =>
      match verifyFetched cand f with
      | .none => { live := live1, outcome := .verr, cand := cand, curFinal := cur, pre := some live1 }
      | a => finish fl live1 a cand (process P f (a == .revOnly) now cur tomb)

def applyWrite (d : Disk) : Write → Disk
  | .tomb ms => { d with tomb := .ok ms }
  | .state tas => { d with state := .ok tas }

def applyWrites (d : Disk) (ws : List Write) : Disk := ws.foldl applyWrite d

/-! ### histories -/

/-- disk + running process (`none`: no process — crashed or stopped; the next
run starts a new one whose live set is `startupKeys`) + clock. -/
structure Sys where
  disk : Disk := {}
  proc : Option (List Key) := none
  now : Nat := 0
deriving DecidableEq, Repr

/-- damage to a file between runs: garbage / truncated stream (`tomb`, `state`)
or truncation to zero length (`tombEmpty`, `stateEmpty`: post-crash or
full-disk artefact). -/
inductive Damage | tomb | state | tombEmpty | stateEmpty
deriving DecidableEq, Repr

inductive Ev where
  | tick (dt : Nat)
  | restart
  | damage (d : Damage)
  /-- one `AutoTA` run; `crash = some k`: the process dies after `k` of the
  run's file replacements have landed. -/
  | run (f : Option Fetch) (fl : Faults) (crash : Option Nat)
  /-- `NewResolver` alone: a new process exists and has not refreshed yet
  (`run()` waits for the middleware and calls `checkPriming` before the first
  `AutoTA`); its trust set is `startupKeys`. -/
  | boot (fl : Faults)
deriving DecidableEq, Repr

/-- `startupRootKeys(cfg.Directory, configured)`: the trust set of a starting
process (`NewResolver`, since /repo 24304ea): the configured keys minus those
on record as revoked — tombstone store, `StateRevoked`/`StateRemoved` markers
of a readable state file — and minus keys that carry the REVOKE bit; a
tombstone store that exists but does not load leaves nothing to trust. -/
def startupKeys (cfg : List Key) (d : Disk) (fl : Faults := {}) : List Key :=
  -- `fl`: read faults at process start. ANY `readTombstones` error (open error included, not
  -- only undecodable bytes) leaves nothing to trust; an unreadable state file contributes no markers.
  if fl.tombRead then [] else
  let markers : List Nat := if fl.stateRead then [] else match d.state with
    | .ok tas => (tas.filter (fun ta => isMarker ta.st)).map (·.key.mat)
    | _ => []
  match d.tomb with
  | .empty => []
  | .corrupt => []
  | .absent => cfg.filter (fun k => !(markers.contains k.mat || k.revoke))
  | .ok ms => cfg.filter (fun k => !((ms ++ markers).contains k.mat || k.revoke))

/-- live set a run starts from: that of the running process, or of a new one. -/
def startLive (cfg : List Key) (s : Sys) : List Key := s.proc.getD (startupKeys cfg s.disk)

def runResult (P : Params) (cfg : List Key) (s : Sys) (f : Option Fetch) (fl : Faults) : Result :=
  autoTA P cfg s.disk (startLive cfg s) f fl s.now

def step (P : Params) (cfg : List Key) (s : Sys) : Ev → Sys
  | .tick dt => { s with now := s.now + dt }
  | .restart => { s with proc := none }
  | .damage .tomb => { s with disk := { s.disk with tomb := .corrupt } }
  | .damage .state => { s with disk := { s.disk with state := .corrupt } }
  | .damage .tombEmpty => { s with disk := { s.disk with tomb := .empty } }
  | .damage .stateEmpty => { s with disk := { s.disk with state := .empty } }
  | .boot fl => { s with proc := some (startupKeys cfg s.disk fl) }
  | .run f fl crash =>
    let r := runResult P cfg s f fl
    match crash with
    | none => { s with disk := applyWrites s.disk r.writes, proc := some r.live }
    | some k => { s with disk := applyWrites s.disk (r.writes.take k), proc := none }

def runHist (P : Params) (cfg : List Key) (s : Sys) (evs : List Ev) : Sys :=
  evs.foldl (step P cfg) s

end SdnsVerif.Model.AutoTA
