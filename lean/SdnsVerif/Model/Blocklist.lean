/-
Model of /repo/middleware/blocklist (blocklist.go, updater.go).  Core Lean only.

Strings are `List Char` (the Go code works on bytes; every name that reaches
the model is ASCII, see notes/C18.md).  The three Go maps `m`, `wild`, `w`
(`map[string]bool`, the value is always `true`) are duplicate-free lists.

Part 1  names:        `dns.IsFqdn`, `dns.Fqdn`, `dns.CanonicalName`
Part 2  matching:     `matchHierarchy`, `Exists`, `setLocked`, `removeLocked`, batches
Part 3  replies:      `ServeDNS`
Part 5  persistence:  `snapshotLocked`, `persist` as a labelled transition system
                      (one step = one critical section / one file-system call)
Part 4  reload:       `parseHostFile`
Part 6  label-level specification (what the property says)
-/
namespace SdnsVerif.Model.Blocklist

abbrev Str := List Char

/-! ### Part 1 — names -/

/-- the mapping function inside `dns.CanonicalName` (ASCII only). -/
def lowerChar (c : Char) : Char :=
  if 'A' ≤ c ∧ c ≤ 'Z' then Char.ofNat (c.toNat + 32) else c

def lower (s : Str) : Str := s.map lowerChar

/-- `dns.IsFqdn`: ends in a dot that is not escaped (an even number of
backslashes in front of it). -/
def isFqdn (s : Str) : Bool :=
  match s.reverse with
  | '.' :: r => (r.takeWhile (· == '\\')).length % 2 == 0
  | _ => false

/-- `dns.Fqdn`. -/
def fqdn (s : Str) : Str := if isFqdn s then s else s ++ ['.']

/-- `dns.CanonicalName`. -/
def canonical (s : Str) : Str := lower (fqdn s)

/-! ### Part 2 — matching -/

/-- The candidates visited by the `nextLabel` walk of `Exists` /
`matchHierarchy`: every NON-EMPTY remainder that follows an UNESCAPED `'.'`, in
order.  `esc = true` means the previous octet was a backslash whose escape is
still open (`nextLabel` skips the octet after a backslash). -/
def dotSuffixesAux : Bool → Str → List Str
  | _, [] => []
  | true, _ :: t => dotSuffixesAux false t
  | false, c :: t =>
    if c = '\\' then dotSuffixesAux true t
    else if c = '.' then (if t = [] then [] else t :: dotSuffixesAux false t)
    else dotSuffixesAux false t

def dotSuffixes (s : Str) : List Str := dotSuffixesAux false s

/-- `matchHierarchy(name, m)`. -/
def matchHierarchy (name : Str) (m : List Str) : Bool :=
  if m.length = 0 then false
  else if name ∈ m then true
  else (dotSuffixes name).any (fun s => decide (s ∈ m))

/-- the mutable maps of `BlockList`. -/
structure Mem where
  m : List Str := []
  wild : List Str := []
  w : List Str := []
deriving Repr, DecidableEq

/-- `Exists` on an already canonical key. -/
def existsCanon (b : Mem) (key : Str) : Bool :=
  if matchHierarchy key b.w then false
  else if key ∈ b.m then true
  else if b.m.length = 0 ∧ b.wild.length = 0 then false
  else (dotSuffixes key).any (fun s => decide (s ∈ b.m) || decide (s ∈ b.wild))

/-- `(*BlockList).Exists`. -/
def «exists» (b : Mem) (key : Str) : Bool := existsCanon b (canonical key)

def insertKey (l : List Str) (k : Str) : List Str := if k ∈ l then l else l ++ [k]

def isWildKey (key : Str) : Bool :=
  match key with
  | '*' :: '.' :: _ => true
  | _ => false

/-- `setLocked`. -/
def setLocked (b : Mem) (key : Str) : Mem × Bool :=
  let key := canonical key
  if matchHierarchy key b.w then (b, false)
  else if isWildKey key then ({ b with wild := insertKey b.wild (key.drop 2) }, true)
  else ({ b with m := insertKey b.m key }, true)

/-- `removeLocked`. -/
def removeLocked (b : Mem) (key : Str) : Mem × Bool :=
  let key := canonical key
  if key ∈ b.m then ({ b with m := b.m.erase key }, true)
  else if isWildKey key ∧ key.drop 2 ∈ b.wild then ({ b with wild := b.wild.erase (key.drop 2) }, true)
  else (b, false)

/-- the loop of `SetBatch`: memory and the number of keys added. -/
def setBatchLocked (b : Mem) : List Str → Mem × Nat
  | [] => (b, 0)
  | k :: ks =>
    let r := setLocked b k
    let r' := setBatchLocked r.1 ks
    (r'.1, (if r.2 then 1 else 0) + r'.2)

/-- the loop of `RemoveBatch`. -/
def removeBatchLocked (b : Mem) : List Str → Mem × Nat
  | [] => (b, 0)
  | k :: ks =>
    let r := removeLocked b k
    let r' := removeBatchLocked r.1 ks
    (r'.1, (if r.2 then 1 else 0) + r'.2)

/-- `Length`. -/
def Mem.length (b : Mem) : Nat := b.m.length + b.wild.length

/-- `loadInitial` without the directory: whitelist first, then `cfg.Blocklist` through `set`. -/
def loadConfig (whitelist blocklist : List Str) : Mem :=
  blocklist.foldl (fun b e => (setLocked b e).1)
    { w := whitelist.foldl (fun l e => insertKey l (canonical e)) [] }

/-! ### Part 3 — `ServeDNS` -/

structure RR where
  name : Str
  rrtype : Nat
  ttl : Nat
  /-- A / AAAA: the address text; SOA: the mname. -/
  data : Str
deriving Repr, DecidableEq

structure Reply where
  rcode : Nat
  authoritative : Bool
  recursionAvailable : Bool
  answer : List RR
  ns : List RR
deriving Repr, DecidableEq

/-- what `ServeDNS` did with the chain. -/
structure Outcome where
  /-- `ch.Next(ctx)` was called: the request goes on, untouched, to the handlers after the blocklist
  (cache, resolver, forwarder …). -/
  next : Bool
  /-- `ch.Cancel()` was called. -/
  cancelled : Bool
  written : Option Reply
deriving Repr, DecidableEq

structure Cfg where
  nullroute : Str
  null6route : Str
deriving Repr, DecidableEq

def typeA : Nat := 1
def typeAAAA : Nat := 28
def typeSOA : Nat := 6

/-- `(*BlockList).ServeDNS` (the request is already materialised; `qname` is
`req.Question[0].Name`). -/
def serveDNS (cfg : Cfg) (b : Mem) (qname : Str) (qtype : Nat) : Outcome :=
  let hasEntries := decide (b.m.length > 0) || decide (b.wild.length > 0)
  if !hasEntries then { next := true, cancelled := false, written := none }
  else if !«exists» b qname then { next := true, cancelled := false, written := none }
  else
    let msg : Reply :=
      if qtype = typeA then
        { rcode := 0, authoritative := true, recursionAvailable := true,
          answer := [{ name := qname, rrtype := typeA, ttl := 3600, data := cfg.nullroute }], ns := [] }
      else if qtype = typeAAAA then
        { rcode := 0, authoritative := true, recursionAvailable := true,
          answer := [{ name := qname, rrtype := typeAAAA, ttl := 3600, data := cfg.null6route }], ns := [] }
      else
        { rcode := 0, authoritative := true, recursionAvailable := true,
          answer := [], ns := [{ name := qname, rrtype := typeSOA, ttl := 86400, data := qname }] }
    { next := false, cancelled := true, written := some msg }

/-- the replies the handler has handed to writers so far, oldest first.  A
writer may still hold (not yet have packed) any of them when the next query is
served, so each must stay what it was: serving only ever appends. -/
def serveLog (cfg : Cfg) (b : Mem) (log : List Outcome) (qname : Str) (qtype : Nat) : List Outcome :=
  log ++ [serveDNS cfg b qname qtype]

/-! ### Part 4 — reload (`parseHostFile`) -/

/-- `unicode.IsSpace` on ASCII. -/
def isSpace (c : Char) : Bool :=
  c = ' ' || c = '\t' || c = '\n' || c = '\x0b' || c = '\x0c' || c = '\r'

/-- `strings.Fields` on ASCII. -/
def fieldsAux : Str → Str → List Str
  | [], cur => if cur = [] then [] else [cur.reverse]
  | c :: t, cur =>
    if isSpace c then (if cur = [] then fieldsAux t [] else cur.reverse :: fieldsAux t [])
    else fieldsAux t (c :: cur)

def fields (s : Str) : List Str := fieldsAux s []

/-- `strings.TrimSpace` on ASCII. -/
def trimSpace (s : Str) : Str :=
  ((s.dropWhile isSpace).reverse.dropWhile isSpace).reverse

/-- the part before the first `#` and whether one was found (`strings.Cut(line, "#")`). -/
def cutHash (s : Str) : Str × Bool := (s.takeWhile (· ≠ '#'), s.any (· = '#'))

/-- the names one line of a host file contributes (body of the scanner loop). -/
def parseLine (line : Str) : List Str :=
  let line := trimSpace line
  if line = [] ∨ line.head? = some '#' then []
  else
    let line := if (cutHash line).2 then trimSpace (cutHash line).1 else line
    let fs := fields line
    let names := if fs.length = 1 then fs else fs.drop 1
    names.takeWhile (fun n => n.head? ≠ some '#')

/-- `bufio.ScanLines`: split at `\n`, drop one trailing `\r`; a final line without `\n` counts. -/
def scanLinesAux : Str → Str → List Str
  | [], cur => if cur = [] then [] else [cur.reverse]
  | c :: t, cur =>
    if c = '\n' then
      (match cur with
       | '\r' :: r => r.reverse
       | _ => cur.reverse) :: scanLinesAux t []
    else scanLinesAux t (c :: cur)

def scanLines (s : Str) : List Str := scanLinesAux s []

/-- the body of the inner loop: `if !b.Exists(canonical) { b.set(canonical) }`. -/
def loadName (b : Mem) (n : Str) : Mem :=
  let c := canonical n
  if «exists» b c then b else (setLocked b c).1

def loadNames (b : Mem) (names : List Str) : Mem := names.foldl loadName b

/-- `parseHostFile` on the bytes of a file. -/
def parseHostFile (b : Mem) (text : Str) : Mem :=
  loadNames b ((scanLines text).flatMap parseLine)

/-- the bytes `persist` produces (every line is followed by `\n`). -/
def fileText (lines : List Str) : Str := lines.flatMap (fun l => l ++ ['\n'])

/-! ### Part 5 — persistence -/

/-- `blockSnapshot`. -/
structure Snap where
  version : Nat
  exact : List Str
  wild : List Str
deriving Repr, DecidableEq

def headerLine : Str := "# The file generated by auto. DO NOT EDIT".toList

/-- the lines `persist` writes for a snapshot, in the order it writes them
(one `WriteString` each). -/
def render (s : Snap) : List Str :=
  headerLine :: (s.exact ++ s.wild.map (fun x => '*' :: '.' :: x))

/-- the names a snapshot stands for, in file order. -/
def snapNames (s : Snap) : List Str := s.exact ++ s.wild.map (fun x => '*' :: '.' :: x)


inductive Stage | writing | synced | closed | renamed
deriving Repr, DecidableEq

/-- a `persist` call that holds `saveMu`: its snapshot, the lines that reached
its temp file so far, and how far it got. -/
structure Inflight where
  snap : Snap
  written : List Str
  stage : Stage
deriving Repr, DecidableEq

inductive MutOp
  | set (k : Str)
  | remove (k : Str)
  | setBatch (ks : List Str)
  | removeBatch (ks : List Str)
deriving Repr, DecidableEq

/-- the in-memory half of `Set` / `Remove` / `SetBatch` / `RemoveBatch`:
new memory and "take a snapshot and persist" (`ok` / `added > 0` / `removed > 0`). -/
def applyOp (b : Mem) : MutOp → Mem × Bool
  | .set k => setLocked b k
  | .remove k => removeLocked b k
  | .setBatch ks => let r := setBatchLocked b ks; (r.1, decide (r.2 > 0))
  | .removeBatch ks => let r := removeBatchLocked b ks; (r.1, decide (r.2 > 0))

/-- the number the API call returns (`true` = 1). -/
def applyOpCount (b : Mem) : MutOp → Nat
  | .set k => if (setLocked b k).2 then 1 else 0
  | .remove k => if (removeLocked b k).2 then 1 else 0
  | .setBatch ks => (setBatchLocked b ks).2
  | .removeBatch ks => (removeBatchLocked b ks).2

/-- Process + file system.  `taken` and `failed` are ghost history (never read
by a step): every snapshot ever taken, and the versions whose `persist` ended
in an I/O error. -/
structure PState where
  mem : Mem := {}
  version : Nat := 0
  lastPersisted : Nat := 0
  /-- content of `<dir>/local` (lines), `none` = the file does not exist -/
  main : Option (List Str) := none
  /-- snapshots taken under `mu` whose `persist` has not yet acquired `saveMu` -/
  pending : List Snap := []
  /-- the `persist` that holds `saveMu`, with its temp file -/
  inflight : Option Inflight := none
  taken : List Snap := []
  failed : List Nat := []
  /-- the blocklist directory does not exist (it was never created, or was removed
  under the running process): `os.CreateTemp` fails by itself.  `New` creates it
  (`loadInitial`: `os.MkdirAll`, since commit 231fcf6), and so does `refreshRemote`. -/
  dirMissing : Bool := false
  /-- staging files stranded in the directory by earlier crashes (nothing removes
  `local.tmp.*`; every directory walk parses them) -/
  orphans : List (List Str) := []
  /-- ghost: a directory reload (`readBlocklists`, which uses the non-persisting
  `set`) has changed memory since the last snapshot was taken -/
  dirty : Bool := false
deriving Repr

/-- Atomic steps.  `ok = false` is the I/O error outcome of that call. -/
inductive Step
  /-- `mu.Lock(); xLocked(..); snapshotLocked(); mu.Unlock()` -/
  | mutate (op : MutOp)
  /-- `saveMu.Lock()` by the call that carries `pending[i]`, version check, `os.CreateTemp` -/
  | begin (i : Nat) (ok : Bool)
  /-- the next `tmp.WriteString` -/
  | write (ok : Bool)
  /-- `tmp.Sync()` -/
  | sync (ok : Bool)
  /-- `tmp.Close()` -/
  | close (ok : Bool)
  /-- `os.Rename(tmpName, path)` -/
  | rename (ok : Bool)
  /-- `b.lastPersisted = s.version; saveMu.Unlock()` -/
  | commit
  /-- `readBlocklists()`: the directory walk of `refreshRemote` (scheduled by `New`
  one second after start-up) or of any other caller, at an arbitrary moment -/
  | dirLoad
  /-- `os.MkdirAll(BlockListDir)` in `loadInitial` / `os.Mkdir` at the head of `refreshRemote` -/
  | mkdir
deriving Repr, DecidableEq

/-- error path of `persist`: temp file removed, `saveMu` released, nothing else changes. -/
def failInflight (s : PState) (f : Inflight) : PState :=
  { s with inflight := none, failed := f.snap.version :: s.failed }

/-- memory after `readBlocklists` over a directory that holds the main file and
staging files (stranded ones, the one of a `persist` in progress); `filepath.Walk`
visits `local` before `local.tmp.*`.  Entries are merged with the non-persisting `set`. -/
def dirLoadMem (mem : Mem) (main : Option (List Str)) (temps : List (List Str)) : Mem :=
  let m1 := match main with
    | some ls => parseHostFile mem (fileText ls)
    | none => mem
  temps.foldl (fun m ls => parseHostFile m (fileText ls)) m1

/-- the staging file a crash right now would strand. -/
def strandedNow (s : PState) : List (List Str) :=
  match s.inflight with
  | some f => if f.stage = .renamed then [] else [f.written]
  | none => []

def step (s : PState) : Step → PState
  | .mutate op =>
    let r := applyOp s.mem op
    if r.2 then
      let snap : Snap := { version := s.version + 1, exact := r.1.m, wild := r.1.wild }
      { s with mem := r.1, version := s.version + 1, pending := s.pending ++ [snap], taken := snap :: s.taken,
               dirty := false }
    else { s with mem := r.1 }
  | .begin i ok =>
    match s.inflight with
    | some _ => s                       -- saveMu is held
    | none =>
      match s.pending[i]? with
      | none => s
      | some snap =>
        let s' := { s with pending := s.pending.eraseIdx i }
        if snap.version ≠ 0 ∧ snap.version ≤ s.lastPersisted then s'      -- stale: dropped
        else if (ok && !s.dirMissing) then { s' with inflight := some { snap := snap, written := [], stage := .writing } }
        else { s' with failed := snap.version :: s'.failed }             -- CreateTemp failed
  | .write ok =>
    match s.inflight with
    | some f =>
      if f.stage = .writing ∧ f.written.length < (render f.snap).length then
        if ok then { s with inflight := some { f with written := (render f.snap).take (f.written.length + 1) } }
        else failInflight s f
      else s
    | none => s
  | .sync ok =>
    match s.inflight with
    | some f =>
      if f.stage = .writing ∧ f.written.length = (render f.snap).length then
        if ok then { s with inflight := some { f with stage := .synced } } else failInflight s f
      else s
    | none => s
  | .close ok =>
    match s.inflight with
    | some f =>
      if f.stage = .synced then
        if ok then { s with inflight := some { f with stage := .closed } } else failInflight s f
      else s
    | none => s
  | .rename ok =>
    match s.inflight with
    | some f =>
      if f.stage = .closed then
        -- the rename moves the TEMP FILE's content over the main file
        if ok then { s with main := some f.written, inflight := some { f with stage := .renamed } }
        else failInflight s f
      else s
    | none => s
  | .commit =>
    match s.inflight with
    | some f =>
      if f.stage = .renamed then { s with lastPersisted := f.snap.version, inflight := none } else s
    | none => s
  | .dirLoad =>
    -- reads `local` and the staging files; writes NO file (it only deletes `*.tmp` downloads)
    let mem' := dirLoadMem s.mem s.main (s.orphans ++ strandedNow s)
    { s with mem := mem', dirty := s.dirty || decide (mem' ≠ s.mem) }
  | .mkdir => { s with dirMissing := false }

def run (s : PState) (steps : List Step) : PState := steps.foldl step s

/-- what is on disk if the process dies now: the main file and the temp file
of the `persist` in progress (if it has not been renamed or removed). -/
def crashImage (s : PState) : Option (List Str) × Option (List Str) :=
  (s.main, match s.inflight with
           | some f => if f.stage = .renamed then none else some f.written
           | none => none)

/-- **Kill and restart**: the process dies now and `New` runs over what is on
disk (`loadInitial`: whitelist, `cfg.Blocklist`, then `readBlocklists` over the
directory).  Memory is rebuilt from the configuration, the main file and every
staging file in the directory; no list file is written, the stranded staging file
stays where it is; a missing directory is created (`dirMissing := false`). -/
def restart (whitelist cfgBlocklist : List Str) (s : PState) : PState :=
  let orph := s.orphans ++ strandedNow s
  { mem := dirLoadMem (loadConfig whitelist cfgBlocklist) s.main orph, main := s.main, orphans := orph,
    dirMissing := false }

/-- a whole life: the first process runs `steps0`, then each element of `epochs`
is "killed at that point, restarted, ran these steps". -/
def runEpochs (whitelist cfgBlocklist : List Str) (s0 : PState) (steps0 : List Step)
    (epochs : List (List Step)) : PState :=
  epochs.foldl (fun s steps => run (restart whitelist cfgBlocklist s) steps) (run s0 steps0)

/-- the whole `persist(snap)` call for `pending[i]`, failing at `failAt`
(`0` = no failure, `1` = CreateTemp, `2` = first write, `3` = sync, `4` = close,
`5` = rename). Used by the line-protocol driver. -/
def persistSteps (s : PState) (i : Nat) (failAt : Nat) : List Step :=
  match s.pending[i]? with
  | none => []
  | some snap =>
    let n := (render snap).length
    if failAt = 1 then [.begin i false]
    else if failAt = 2 then [.begin i true, .write false]
    else
      [.begin i true] ++ List.replicate n (.write true) ++
      (if failAt = 3 then [.sync false]
       else [.sync true] ++
        (if failAt = 4 then [.close false]
         else [.close true] ++ (if failAt = 5 then [.rename false] else [.rename true, .commit])))

/-! ### Part 5b — the HTTP API in front of the list (api/api.go) -/

/-- `(*BlockList).Get`: the exact key in `m` (wildcard suffixes are not looked at). -/
def getExact (b : Mem) (key : Str) : Bool := decide (canonical key ∈ b.m)

/-- the six `/api/v1/block/...` routes with their decoded argument. -/
inductive ApiReq
  | existsKey (k : Str)
  | getKey (k : Str)
  | setKey (k : Str)
  | removeKey (k : Str)
  | setBatch (ks : List Str)
  | removeBatch (ks : List Str)
deriving Repr, DecidableEq

/-- the mutation a request stands for, if any (a batch with no keys is refused with 400). -/
def apiToOp : ApiReq → Option MutOp
  | .setKey k => some (.set k)
  | .removeKey k => some (.remove k)
  | .setBatch ks => if ks.isEmpty then none else some (.setBatch ks)
  | .removeBatch ks => if ks.isEmpty then none else some (.removeBatch ks)
  | _ => none

/-- HTTP status of a request (`checkToken` first, then the handler). -/
def apiStatus (authorized : Bool) (b : Mem) : ApiReq → Nat
  | req =>
    if !authorized then 401 else
    match req with
    | .getKey k => if getExact b k then 200 else 404
    | .setBatch ks => if ks.isEmpty then 400 else 200
    | .removeBatch ks => if ks.isEmpty then 400 else 200
    | _ => 200

/-- the number in the JSON answer (`success`/`exists` as 0/1, `added`, `removed`). -/
def apiValue (b : Mem) : ApiReq → Nat
  | .existsKey k => if «exists» b k then 1 else 0
  | .getKey k => if getExact b k then 1 else 0
  | .setKey k => applyOpCount b (.set k)
  | .removeKey k => applyOpCount b (.remove k)
  | .setBatch ks => applyOpCount b (.setBatch ks)
  | .removeBatch ks => applyOpCount b (.removeBatch ks)

/-- what a request does to the process: an authorized mutating request is one
`mutate` step (its `persist` follows as further steps); everything else is no step. -/
def apiStep (authorized : Bool) (s : PState) (req : ApiReq) : PState :=
  if authorized then
    match apiToOp req with
    | some op => step s (.mutate op)
    | none => s
  else s

/-- what `readBatchKeys` can find in the body of a batch request
(`http.MaxBytesReader` + `json.Decoder` with `DisallowUnknownFields`). -/
inductive BatchBody
  | keys (ks : List Str)     -- a well-formed `{"keys":[...]}` within the size cap
  | malformed                -- not JSON / wrong type for `keys`
  | unknownField             -- a field other than `keys`
  | tooLarge                 -- more than `maxBlockBatchBody` bytes
deriving Repr, DecidableEq

/-- the keys the handler goes on with; `none` = it answered 400 and returned. -/
def readBatchKeys : BatchBody → Option (List Str)
  | .keys ks => if ks.isEmpty then none else some ks
  | _ => none

/-- a batch request as a whole: `checkToken`, `readBatchKeys`, then the batch call. -/
def apiBatch (authorized : Bool) (isSet : Bool) (s : PState) (body : BatchBody) : PState × Nat :=
  if !authorized then (s, 401) else
  match readBatchKeys body with
  | none => (s, 400)
  | some ks => (apiStep true s (if isSet then .setBatch ks else .removeBatch ks), 200)

/-! ### Part 6 — the specification on labels

A name is a list of labels, leftmost first; the root is `[]`.  A parent is a
proper suffix of the label list.  This is what the property text says; it does
not mention strings, dots or escapes. -/

abbrev Name := List Str

/-- `a` is `n` itself or one of its parents. -/
def isSelfOrParent (a n : Name) : Bool := decide (a <:+ n)

/-- `a` is a strict parent of `n`. -/
def isStrictParent (a n : Name) : Bool := decide (a <:+ n) && decide (a ≠ n)

/-- **The property's matching rule**: blocked exactly when the name or one of
its parents is a plain entry, or one of its strict parents is a wildcard entry,
and neither it nor any parent is whitelisted. -/
def specBlocked (plain wild white : List Name) (n : Name) : Bool :=
  !(white.any (isSelfOrParent · n)) &&
    (plain.any (isSelfOrParent · n) || wild.any (isStrictParent · n))

/-- presentation form of a label list: every label followed by a dot; the root is `"."`. -/
def join : Name → Str
  | [] => []
  | l :: t => l ++ '.' :: join t

def pres (n : Name) : Str := if n = [] then ['.'] else join n

def lowerName (n : Name) : Name := n.map lower

/-- the memory the code holds for label-level entry sets. -/
def memOf (plain wild white : List Name) : Mem :=
  { m := plain.map pres, wild := wild.map pres, w := white.map pres }

end SdnsVerif.Model.Blocklist
