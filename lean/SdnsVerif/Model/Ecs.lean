/-
Model of the EDNS Client Subnet handling of sdns (property C19).  Core Lean only.

Mirrors, function by function:
  /repo/internal/ecs/policy.go      Build, Allows, Clamp, ClampScope, ipToAddr
  /repo/internal/ecs/scope.go       ReadResponseScope
  /repo/internal/dnsutil/helpers.go SetEdns0 (option handling only)
  /repo/middleware/edns/edns.go     stripECS, stripKeepalive, ResponseWriter.WriteMsg (option assembly),
                                    hasClientECS / MarkClientECS
  /repo/middleware/cache/cache.go   requestScope, scopedLookup, handleCacheHit (preimage check),
                                    ResponseWriter.WriteMsg (scope keying + shared-denial admission),
                                    lookupNXDomainCut / lookupDenialProof guards, ServeDNS bypass marker
  /repo/middleware/cache/store.go   capTTL (closure of setFromResponseWithKey), GetWithContext guard
  /repo/middleware/cache/types.go   normalizeKeyScope, CacheKey.Hash (as a parameter), PrefetchEligible
  /repo/middleware/cache/prefetch_queue.go  admission guard after a refresh

Addresses are natural numbers (the 32- or 128-bit value) tagged with a family.
-/
namespace SdnsVerif.Model.Ecs

inductive Fam | v4 | v6
deriving Repr, DecidableEq

def Fam.width : Fam → Nat
  | .v4 => 32
  | .v6 => 128

/-- a valid, already unmapped `netip.Addr`. -/
structure Addr where
  fam : Fam
  val : Nat
deriving Repr, DecidableEq

/-- a valid `netip.Prefix`. -/
structure Prefix where
  fam : Fam
  addr : Nat
  bits : Nat
deriving Repr, DecidableEq

/-- clear everything below the first `bits` bits of a `w`-bit value. -/
def maskTo (w bits a : Nat) : Nat := a / 2 ^ (w - bits) * 2 ^ (w - bits)

/-- `netip.Addr.Prefix(b)`: masks; error (none) when `b` exceeds the family width. -/
def Addr.prefix? (a : Addr) (b : Nat) : Option Prefix :=
  if b ≤ a.fam.width then some ⟨a.fam, maskTo a.fam.width b a.val, b⟩ else none

/-- `netip.Prefix.Contains` (the prefix may carry host bits: `ParsePrefix` does not mask). -/
def Prefix.contains (p : Prefix) (a : Addr) : Bool :=
  p.fam == a.fam &&
    a.val / 2 ^ (p.fam.width - p.bits) == p.addr / 2 ^ (p.fam.width - p.bits)

/-- `netip.Prefix.Masked`. -/
def Prefix.masked (p : Prefix) : Prefix := { p with addr := maskTo p.fam.width p.bits p.addr }

/-! ### policy -/

/-- `ecs.Policy`. -/
structure Policy where
  enabled : Bool
  fwd4 : Nat
  fwd6 : Nat
  nets : List Prefix
  min4 : Nat
  min6 : Nat
deriving Repr, DecidableEq

inductive BuildRes
  | disabled                 -- (nil, nil)
  | invalid (field : String) -- (nil, err)
  | ok (p : Policy)
deriving Repr, DecidableEq

/-- the `client_networks` loop of `Build`: first unparsable entry aborts. -/
def parseNets : List (Option Prefix) → Option (List Prefix)
  | [] => some []
  | none :: _ => none
  | some p :: t => (parseNets t).map (p :: ·)

/-- "0 means default" of `Build`. -/
def dflt (v d : Nat) : Nat := if v = 0 then d else v

/-- `ecs.Build`; a `none` network is an entry `netip.ParsePrefix` rejected. -/
def build (enabled : Bool) (f4 f6 m4 m6 : Nat) (nets : List (Option Prefix)) : BuildRes :=
  if !enabled then .disabled else
  if dflt f4 24 > 32 then .invalid "forward_v4" else
  if dflt f6 56 > 128 then .invalid "forward_v6" else
  if dflt m4 (dflt f4 24) > 32 then .invalid "min_scope_v4" else
  if dflt m6 (dflt f6 56) > 128 then .invalid "min_scope_v6" else
  match parseNets nets with
  | none => .invalid "client_networks"
  | some ns => .ok { enabled := true, fwd4 := dflt f4 24, fwd6 := dflt f6 56, nets := ns,
                     min4 := dflt m4 (dflt f4 24), min6 := dflt m6 (dflt f6 56) }

/-- `edns.buildECSPolicy` / `cache.buildCacheECSPolicy`: error ⇒ nil policy. -/
def BuildRes.policy : BuildRes → Option Policy
  | .ok p => some p
  | _ => none

/-- `edns.buildECSPolicy`: the forwarding side's policy, from the whole `[ecs]` block. -/
def ednsPolicy (r : BuildRes) : Option Policy := r.policy

/-- `cache.buildCacheECSPolicy`: the keying side's policy, from the same block the same way. -/
def cachePolicy (r : BuildRes) : Option Policy := r.policy

/-- `(*Policy).Allows`; `none` client = invalid `netip.Addr`. -/
def allows (p : Option Policy) (client : Option Addr) : Bool :=
  match p, client with
  | some p, some c =>
    if !p.enabled then false
    else if p.nets.isEmpty then true
    else p.nets.any (·.contains c)
  | _, _ => false

/-! ### options -/

/-- `dns.EDNS0_SUBNET`; `addr = none` is a nil `net.IP`, otherwise the raw bytes. -/
structure Subnet where
  family : Nat
  mask : Nat
  scope : Nat
  addr : Option (List Nat)
deriving Repr, DecidableEq

/-- an EDNS option: client subnet, or anything else by option code. -/
inductive Opt
  | ecs (s : Subnet)
  | other (code : Nat) (data : String)
deriving Repr, DecidableEq

def Opt.isEcs : Opt → Bool
  | .ecs _ => true
  | _ => false

def Opt.code : Opt → Nat
  | .ecs _ => 8
  | .other c _ => c

def bytesVal (bs : List Nat) : Nat := bs.foldl (fun a b => a * 256 + b) 0

/-- `net.IP.To4() != nil` on a 16-byte slice. -/
def isMapped16 (bs : List Nat) : Bool :=
  (bs.take 10).all (· == 0) && bs.getD 10 0 == 255 && bs.getD 11 0 == 255

/-- `ecs.ipToAddr` (and, with the same result, `netip.AddrFromSlice` followed
by `Unmap` in `requestScope`). -/
def ipToAddr (bs : List Nat) : Option Addr :=
  if bs.length = 4 then some ⟨.v4, bytesVal bs⟩
  else if bs.length = 16 then
    if isMapped16 bs then some ⟨.v4, bytesVal (bs.drop 12)⟩ else some ⟨.v6, bytesVal bs⟩
  else none

/-- big-endian bytes of an `n`-byte value. -/
def natBytes : Nat → Nat → List Nat
  | 0, _ => []
  | n + 1, v => natBytes n (v / 256) ++ [v % 256]

/-- what `Clamp` decided to forward. -/
structure Fwd where
  fam : Fam
  mask : Nat
  val : Nat
deriving Repr, DecidableEq

def Fam.code : Fam → Nat
  | .v4 => 1
  | .v6 => 2

/-- the fresh `dns.EDNS0_SUBNET` `Clamp` returns (SCOPE is always 0). -/
def Fwd.toSubnet (f : Fwd) : Subnet :=
  { family := f.fam.code, mask := f.mask, scope := 0, addr := some (natBytes (f.fam.width / 8) f.val) }

def Policy.fwdMax (p : Policy) : Fam → Nat
  | .v4 => p.fwd4
  | .v6 => p.fwd6

def Policy.minScope (p : Policy) : Fam → Nat
  | .v4 => p.min4
  | .v6 => p.min6

/-- `(*Policy).Clamp`. -/
def clamp (p : Option Policy) (s : Subnet) : Option Fwd :=
  match p, s.addr with
  | some p, some bs =>
    match ipToAddr bs with
    | none => none
    | some a =>
      let fam? : Option Fam :=
        if s.family = 1 then (if a.fam = .v4 then some .v4 else none)
        else if s.family = 2 then (if a.fam = .v6 then some .v6 else none)
        else none
      match fam? with
      | none => none
      | some fam =>
        let source := min s.mask (p.fwdMax fam)
        match a.prefix? source with
        | none => none
        | some pr => some ⟨fam, source, pr.addr⟩
  | _, _ => none

/-! ### what the wire decoder hands to sdns -/

/-- zero-pad / truncate to `n` bytes (`copy(addr, b[4:])` into a fresh `n`-byte slice). -/
def padTo (n : Nat) (bs : List Nat) : List Nat := (bs ++ List.replicate n 0).take n

/-- `dns.EDNS0_SUBNET.unpack` (the library's decoder, which both the decoded
entry and `Request.materialize` go through): `s.addr` holds the address bytes
as they were on the wire (any number of them, host bits and all).  Family 1
yields the 16-byte IPv4-mapped form, family 0 is accepted with netmask 0 only
and reads as 0.0.0.0; out-of-range netmask / scope and other families make the
whole packet undecodable. -/
def decodeWireSubnet (s : Subnet) : Option Subnet :=
  let raw := s.addr.getD []
  if s.family = 0 then
    if s.mask = 0 then some { s with addr := some (List.replicate 10 0 ++ [255, 255, 0, 0, 0, 0]) } else none
  else if s.family = 1 then
    if s.mask > 32 || s.scope > 32 then none
    else some { s with addr := some (List.replicate 10 0 ++ [255, 255] ++ padTo 4 raw) }
  else if s.family = 2 then
    if s.mask > 128 || s.scope > 128 then none
    else some { s with addr := some (padTo 16 raw) }
  else none

/-- the options of one OPT record after decoding (only subnet options change shape). -/
def decodeWireOpts : List Opt → Option (List Opt)
  | [] => some []
  | .ecs s :: t =>
    match decodeWireSubnet s, decodeWireOpts t with
    | some d, some r => some (.ecs d :: r)
    | _, _ => none
  | o :: t => (decodeWireOpts t).map (o :: ·)

/-- a request's OPT records in packet order → the option list sdns works with:
`SetEdns0` keeps the record `IsEdns0` finds (the last one) and drops every
other OPT record from the request, unread. -/
def effectiveOpts : List (List Opt) → Option (List Opt)
  | [] => none
  | [l] => some l
  | _ :: t => effectiveOpts t

/-- the `*dns.EDNS0_SUBNET` case of the scan in `SetEdns0`: the last one wins. -/
def lastEcs (opts : List Opt) : Option Subnet :=
  opts.foldl (fun acc o => match o with | .ecs s => some s | _ => acc) none

/-- first subnet option (`ReadResponseScope`, `requestScope`). -/
def firstEcs : List Opt → Option Subnet
  | [] => none
  | .ecs s :: _ => some s
  | _ :: t => firstEcs t

/-- `dnsutil.SetEdns0`, option list of the outgoing OPT: every client option is
dropped (`opt.Option = nil`), then the clamped copy is re-attached if allowed. -/
def setEdns0 (p : Option Policy) (client : Option Addr) (opts : List Opt) : List Opt :=
  if allows p client then
    match lastEcs opts with
    | some s =>
      match clamp p s with
      | some f => [.ecs f.toSubnet]
      | none => []
    | none => []
  else []

/-- `edns.stripECS`. -/
def stripECS (opts : List Opt) : List Opt := opts.filter (fun o => !o.isEcs)

/-- `edns.stripKeepalive` (option code 11). -/
def stripKeepalive (opts : List Opt) : List Opt := opts.filter (fun o => o.code != 11)

/-- `edns.keepExtendedErrors`: an OPT that came with the downstream response is
the upstream hop's own; only extended errors (code 15) travel on (and ECS, which
`stripECS` removes a few lines later). -/
def keepExtendedErrors (opts : List Opt) : List Opt := opts.filter (fun o => o.isEcs || o.code == 15)

/-- `edns.ResponseWriter.WriteMsg`, option list of the client-facing OPT:
`resp` = options of the OPT the downstream response carried (none: it had no
OPT and the writer's own is used), `own` = options left on the request OPT by
`SetEdns0`, `server` = cookie/NSID the writer adds.  `noedns` clients get no OPT. -/
def replyOptions (noedns : Bool) (resp : Option (List Opt)) (own server : List Opt)
    (keepalive : Bool) : Option (List Opt) :=
  if noedns then none else
  let merged := match resp with
    | some r => keepExtendedErrors r ++ (own ++ server)
    | none => own ++ server
  some (stripKeepalive (stripECS merged) ++ (if keepalive then [.other 11 "srv"] else []))

/-- the BADVERS branch of `edns.ServeDNS`: the rejection is written through the
base writer with the request's own OPT, after `SetEdns0` and a `stripECS`. -/
def badversReplyOptions (p : Option Policy) (client : Option Addr) (opts : List Opt) : List Opt :=
  stripECS (setEdns0 p client opts)

/-- the option filter of `Chain.CancelWithRcode`: of the request OPT's options only COOKIEs survive. -/
def cookiesOnly (opts : List Opt) : List Opt := opts.filter (fun o => o.code == 10)

/-- an rcode rejection written by a handler AHEAD of edns (ratelimit's BADCOOKIE,
reflex's REFUSED, a plugin): through the chain's base writer, past the edns
writer; `copts` = the options of the client's OPT (none: the client sent none). -/
def rejectReplyAhead (copts : Option (List Opt)) : Option (List Opt) := copts.map cookiesOnly

/-- the same rejection written BEHIND edns (BADVERS aside: recovery, cache's RD=0
SERVFAIL, a plugin): the request OPT is what `SetEdns0` left (`fwd`), and the
reply travels through the edns writer. -/
def rejectReplyBehind (noedns : Bool) (fwd server : List Opt) (keepalive : Bool) : Option (List Opt) :=
  replyOptions noedns (some (cookiesOnly fwd)) fwd server keepalive

/-- `edns.hasClientECS` (the `MarkClientECS` trigger), `cache.hasEDNSClientSubnet`. -/
def hasEcs (opts : Option (List Opt)) : Bool :=
  match opts with
  | some l => l.any (·.isEcs)
  | none => false

/-! ### scopes -/

/-- `ecs.ReadResponseScope` on the response OPT's options (`none`: no OPT). -/
def readResponseScope (ro : Option (List Opt)) : Option Prefix :=
  match ro with
  | none => none
  | some opts =>
    match firstEcs opts with
    | none => none
    | some s =>
      if s.scope = 0 then none else
      match s.addr with
      | none => none
      | some bs =>
        match ipToAddr bs with
        | none => none
        | some a =>
          if s.family = 1 then (if a.fam = .v4 then a.prefix? s.scope else none)
          else if s.family = 2 then (if a.fam = .v6 then a.prefix? s.scope else none)
          else none

/-- `(*Policy).ClampScope` (scope valid). -/
def clampScope (p : Option Policy) (scope : Prefix) (source : Option Prefix) : Prefix :=
  match p with
  | none => scope
  | some p =>
    let bits := match source with
      | some src => if scope.bits > src.bits then src.bits else scope.bits
      | none => scope.bits
    let bits := if bits > p.minScope scope.fam then p.minScope scope.fam else bits
    if bits ≤ scope.fam.width then ⟨scope.fam, maskTo scope.fam.width bits scope.addr, bits⟩ else scope

/-- `(*Cache).requestScope`; `reqOpts` are the options on the request as the
cache sees it (after edns). -/
def requestScope (p : Option Policy) (client : Option Addr) (reqOpts : Option (List Opt)) : Option Prefix :=
  if p.isNone || !allows p client then none else
  match reqOpts with
  | none => none
  | some opts =>
    match firstEcs opts with
    | none => none
    | some s =>
      match s.addr with
      | none => none
      | some bs =>
        match ipToAddr bs with
        | none => none
        | some a => a.prefix? s.mask

/-- `normalizeKeyScope`: /0 and invalid both mean the shared key; host bits are not part of it. -/
def normScope : Option Prefix → Option Prefix
  | none => none
  | some p => if p.bits = 0 then none else some p.masked

/-! ### the iterative resolver between the cache and the authorities -/

/-- `Resolver.clearAdditional` (end of `Resolver.answer`): the additional section
handed up to the cache is the REQUEST's OPT; when the query carried a client
subnet option and the authority's response has one, the authority's option
(with the SCOPE it declared) takes the place of the request's. -/
def resolverHandUp (reqOpts : Option (List Opt)) (respOpts : Option (List Opt)) : Option (List Opt) :=
  match reqOpts with
  | none => none
  | some ro =>
    match firstEcs ro, respOpts.bind firstEcs with
    | some _, some d => some (ro.map (fun o => if o.isEcs then Opt.ecs d else o))
    | _, _ => some ro

/-- forwarder mode (`Forwarder.ServeDNS`): the upstream resolver's response is
handed up as it came — its own OPT, the scope it declared included. -/
def forwarderHandUp (respOpts : Option (List Opt)) : Option (List Opt) := respOpts

/-- `config.Load` as far as the `[ecs]` block goes: the values of the operator's
file reach `Build` exactly as written (no folding of over-long lengths, no
defaulting) — every out-of-range value still makes `Build` fail closed. -/
def loadedEcs (enabled : Bool) (f4 f6 m4 m6 : Nat) (nets : List (Option Prefix)) : BuildRes :=
  build enabled f4 f6 m4 m6 nets

/-- `Resolver.groupLookup`'s singleflight key, as far as this property goes:
question, CD and the forwarded subnet (family, source netmask, address). -/
def lookupKey (qid : Nat) (cd : Bool) (reqOpts : List Opt) : Nat × Bool × Option (Nat × Nat × Option (List Nat)) :=
  (qid, cd, (firstEcs reqOpts).map (fun s => (s.family, s.mask, s.addr)))

/-! ### cache entries -/

structure Entry where
  qid : Nat           -- the question (name, type, class)
  cd : Bool
  scope : Option Prefix
  ttl : Nat
  ans : Nat
deriving Repr, DecidableEq

/-- `CacheKey.Hash`: any function of the normalised preimage. -/
abbrev Hash := Nat → Bool → Option Prefix → Nat

/-- `entryMatchesKey` / `entryMatchesPreimage`. -/
def entryMatches (e : Entry) (qid : Nat) (cd : Bool) (scope : Option Prefix) : Bool :=
  e.qid == qid && e.cd == cd && e.scope == normScope scope

/-- the probe loop of `scopedLookup`: `bits` down to 1, first stored key wins. -/
def scopedProbe (H : Hash) (store : Nat → Option Entry) (qid : Nat) (cd : Bool) (fam : Fam) (addr : Nat) :
    Nat → Option (Entry × Prefix)
  | 0 => none
  | b + 1 =>
    match (Addr.mk fam addr).prefix? (b + 1) with
    | none => scopedProbe H store qid cd fam addr b
    | some sc =>
      match store (H qid cd (normScope (some sc))) with
      | some e => some (e, sc)
      | none => scopedProbe H store qid cd fam addr b

/-- `(*Cache).scopedLookup`. -/
def scopedLookup (H : Hash) (store : Nat → Option Entry) (qid : Nat) (cd : Bool) (cp : Prefix) :
    Option (Entry × Prefix) :=
  scopedProbe H store qid cd cp.fam cp.addr cp.bits

/-- the hit ladder of `Cache.ServeDNS` for exact entries: scoped probe, then the
shared key; `handleCacheHit` verifies the full preimage on both. -/
def serveLookup (H : Hash) (store : Nat → Option Entry) (qid : Nat) (cd : Bool) (cs : Option Prefix) :
    Option Entry :=
  let sharedHit : Option Entry :=
    match store (H qid cd none) with
    | some e => if entryMatches e qid cd none then some e else none
    | none => none
  match cs with
  | none => sharedHit
  | some cp =>
    match scopedLookup H store qid cd cp with
    | some (e, sc) => if entryMatches e qid cd (some sc) then some e else sharedHit
    | none => sharedHit

/-- the request-deduplication key of `Cache.ServeDNS`: `CacheKey{q, CD}` and, when a
client scope was derived, `CacheKey{q, CD, Scope: clientScope}` (whose hash folds a /0
scope into the unscoped key).  Cache-missing requests with the same key share one
downstream resolution. -/
def dedupKey (qid : Nat) (cd : Bool) (cs : Option Prefix) : Nat × Bool × Option Prefix :=
  (qid, cd, normScope cs)

/-- `capTTL` inside `Store.setFromResponseWithKey`. -/
def capTTL (isScoped : Bool) (cap ttl : Nat) : Nat :=
  if isScoped && decide (cap > 0) && decide (ttl > cap) then cap else ttl

/-- `TTLManager.Calculate`: the cache's own bounds (`dnsutil.MinCacheTTL` = 5 s,
`dnsutil.MaxCacheTTL` = 24 h; pinned by Gen facts). -/
def clampTTL (ttl : Nat) : Nat := if ttl < 5 then 5 else if ttl > 86400 then 86400 else ttl

/-- the lifetime `Store.setFromResponseWithKey` gives an entry:
`capTTL(s.positive.ttl.Calculate(msgTTL))` — bounds FIRST, scoped limit LAST, so a
limit below the 5 s floor is still honoured. -/
def storedTTL (isScoped : Bool) (cap msgTTL : Nat) : Nat := capTTL isScoped cap (clampTTL msgTTL)

/-- the query `failover` puts to the fallback servers after a SERVFAIL: a fresh
question (name, type, class, CD) with a bare OPT — nothing of the client's OPT,
whatever entry the request came in through. -/
def fallbackQueryOpts (_clientOpts : Option (List Opt)) : List Opt := []

/-- the scope `cache.ResponseWriter.WriteMsg` keys the answer under. -/
def storeScope (p : Option Policy) (cs : Option Prefix) (respOpts : Option (List Opt)) : Option Prefix :=
  match cs with
  | none => none
  | some c =>
    match readResponseScope respOpts with
    | some rs => normScope (some (clampScope p rs (some c)))
    | none => none

/-- how `dnsutil.ClassifyResponse` files a cacheable response; all four take the
same branch of `Store.setFromResponseWithKey` (`case TypeSuccess, TypeReferral,
TypeNXDomain, TypeNoRecords`), so none of them may escape the scoped cap. -/
inductive RespKind | success | referral | nxdomain | nodata
deriving Repr, DecidableEq

/-- the entry `WriteMsg` → `SetFromResponseScoped` / `SetFromResponseWithKey` creates
(`ttl` = the response's own lifetime: min RR TTL, for denials min(SOA TTL, SOA MINIMUM)). -/
def storeEntry (p : Option Policy) (cs : Option Prefix) (respOpts : Option (List Opt))
    (qid : Nat) (cd : Bool) (ttl cap ans : Nat) (_kind : RespKind := .success) : Entry :=
  let sc := storeScope p cs respOpts
  { qid := qid, cd := cd, scope := sc, ttl := storedTTL sc.isSome cap ttl, ans := ans }

/-- the part of `cache.New` that decides prefetch threshold and scoped TTL limit
from the configuration: `CacheConfig.Validate` fails for a cache size below 1024
or a prefetch percentage above 90, and the fallback repairs exactly the fields
that failed (size → 1024, prefetch → 0); 1‥9 % is raised to 10 %; the scoped
limit (`ECSMaxTTL` ← `[ecs] cache_limit_ttl`) is carried through either way. -/
structure CacheKnobs where
  size : Nat
  prefetch : Nat
  ecsMaxTTL : Nat
deriving Repr, DecidableEq

def cacheKnobs (size prefetch capTtl : Nat) : CacheKnobs :=
  let invalid := decide (size < 1024) || decide (prefetch > 90)
  let size' := if invalid && decide (size < 1024) then 1024 else size
  let pf' := if invalid && decide (prefetch > 90) then 0 else prefetch
  let pf'' := if pf' > 0 && pf' < 10 then 10 else pf'
  { size := size', prefetch := pf'', ecsMaxTTL := capTtl }

/-- `(*CacheEntry).PrefetchEligible`. -/
def prefetchEligible (e : Entry) : Bool := e.scope.isNone

/-- the prefetch gate of `handleCacheHit`. -/
def prefetchEnqueues (queueOn : Bool) (e : Entry) (shouldPrefetch : Bool) : Bool :=
  queueOn && prefetchEligible e && shouldPrefetch

/-! ### shared synthesised denials (RFC 8020 cuts, RFC 8198 proofs) -/

/-- what `Cache.ServeDNS` sees of one request of a request tree. -/
structure ReqView where
  cd : Bool          -- req.CheckingDisabled
  optEcs : Bool      -- hasEDNSClientSubnet(req)
  markEcs : Bool     -- middleware.HasClientECS(ctx)
  treeBypass : Bool  -- sharedDenialBypass(ctx) inherited from an ancestor
  scopeValid : Bool  -- clientScope.IsValid()
deriving Repr, DecidableEq

/-- `requestHasECS` in `ServeDNS`. -/
def ReqView.hasECS (r : ReqView) : Bool := r.markEcs || r.optEcs

/-- `sharedDenialBypass(ctx)` after `ServeDNS` installed its marker. -/
def ReqView.bypass (r : ReqView) : Bool := r.treeBypass || r.cd || r.hasECS

/-- `lookupNXDomainCut` consults the shared cut index. -/
def consultsCut (r : ReqView) : Bool := !(r.cd || r.scopeValid || r.bypass)

/-- `lookupDenialProof` consults the shared proof index. -/
def consultsProof (r : ReqView) (rfc8198Off : Bool) : Bool :=
  !(r.cd || r.scopeValid || r.optEcs || r.bypass || rfc8198Off)

/-- `Store.GetWithContext` (resolver-private look-ups) consults cut / proof index. -/
def storeGetConsults (r : ReqView) : Bool := !(r.cd || r.optEcs || r.markEcs || r.treeBypass)

/-- admission guard of `cache.ResponseWriter.WriteMsg`: may publish a cut / proof. -/
def admitsDenial (r : ReqView) (respCD : Bool) : Bool :=
  !r.scopeValid && !r.hasECS && !r.bypass && !r.cd && !respCD

/-- admission guard after a prefetch refresh (`processPrefetch`). -/
def prefetchAdmitsDenial (entryScoped requestCD requestHadECS reqOptEcs respCD : Bool) : Bool :=
  !entryScoped && !requestCD && !requestHadECS && !reqOptEcs && !respCD

/-- the view of a sub-query (alias chase, internal look-up) issued while serving
`parent`: a fresh message (`cd`, `optEcs`, `scopeValid` arbitrary) under the
parent's context. -/
def childView (parent : ReqView) (cd optEcs scopeValid : Bool) : ReqView :=
  { cd := cd, optEcs := optEcs, markEcs := parent.hasECS, treeBypass := parent.bypass, scopeValid := scopeValid }

/-- whether edns pins the client-ECS marker on the request tree: `hasClientECS`
on the decoded path, `Request.HasECS` (the `hasECS` fact of `parseWireOPT`) on
the wire path — ANY subnet option counts, whatever its family, netmask or
address (family 0 / netmask 0, as `dig +subnet=0` sends, included), and
whatever the forwarding policy then does with it. -/
def ednsMarks (clientOpts : Option (List Opt)) : Bool := hasEcs clientOpts

/-- the view of the client's own request at the cache: edns marked the context
iff the client sent a subnet option (whatever the policy then did to it). -/
def rootView (clientSentEcs cd : Bool) (optEcsAfterEdns scopeValid : Bool) : ReqView :=
  { cd := cd, optEcs := optEcsAfterEdns, markEcs := clientSentEcs, treeBypass := false, scopeValid := scopeValid }

/-- a request tree: the client's request at the cache, then any chain of
sub-queries (alias chases, internal look-ups), each a fresh message with
arbitrary CD / option / scope state under its parent's context. -/
def descend (root : ReqView) (path : List (Bool × Bool × Bool)) : ReqView :=
  path.foldl (fun v m => childView v m.1 m.2.1 m.2.2) root

/-! ### background refresh of an entry (prefetch) -/

/-- the address every internal sub-pipeline writer reports (`127.0.0.255`). -/
def internalAddr : Addr := ⟨.v4, 0x7f0000ff⟩

/-- options on the refresh query that reaches upstream: `processPrefetch` drops
every subnet option from its copy of the triggering client's request (as the
cache saw it, i.e. after edns); the copy then runs through edns again in the
prefetch sub-pipeline, with the internal writer as client. -/
def refreshForwarded (p : Option Policy) (queuedReqOpts : List Opt) : List Opt :=
  setEdns0 p (some internalAddr) (stripECS queuedReqOpts)

/-- `Store.ReplaceIfCurrent`: the replacement takes over the key, CD partition and
scope of the entry that claimed the refresh; the response's own SCOPE is not read
and the scoped cap is not applied. -/
def refreshEntry (expected : Entry) (ttl ans : Nat) : Entry :=
  { expected with ttl := ttl, ans := ans }

/-! ### the answer cache as a history of operations -/

/-- the positive cache: key ↦ entry (the concurrent table is an abstract map, C16). -/
abbrev Store := List (Nat × Entry)

def Store.get (s : Store) (k : Nat) : Option Entry := (s.find? (fun x => x.1 == k)).map (·.2)

def Store.put (s : Store) (k : Nat) (e : Entry) : Store := (k, e) :: s.filter (fun x => x.1 != k)

def Store.del (s : Store) (k : Nat) : Store := s.filter (fun x => x.1 != k)

/-- everything that changes the answer cache. -/
inductive CacheOp
  /-- `cache.ResponseWriter.WriteMsg` of a downstream response for a request with client scope `cs`. -/
  | answer (cs : Option Prefix) (respOpts : Option (List Opt)) (qid : Nat) (cd : Bool) (ttl ans : Nat) (kind : RespKind)
  /-- `processPrefetch` → `ReplaceIfCurrent` for the entry under `key` that claimed the refresh
  (`claimedAns` identifies the entry object; only prefetch-eligible entries are ever queued). -/
  | refresh (key claimedAns ttl ans : Nat)
  /-- expiry / eviction / purge: any key may vanish at any time. -/
  | evict (key : Nat)

def cacheStep (H : Hash) (p : Option Policy) (cap : Nat) (s : Store) : CacheOp → Store
  | .answer cs ro qid cd ttl ans kind =>
    let e := storeEntry p cs ro qid cd ttl cap ans kind
    s.put (H qid cd e.scope) e
  | .refresh key claimedAns ttl ans =>
    match s.get key with
    | some cur =>
      if cur.ans == claimedAns && prefetchEligible cur then s.put key (refreshEntry cur ttl ans) else s
    | none => s
  | .evict key => s.del key

/-- the store after a history of operations, starting empty. -/
def runCache (H : Hash) (p : Option Policy) (cap : Nat) (ops : List CacheOp) : Store :=
  ops.foldl (cacheStep H p cap) []

end SdnsVerif.Model.Ecs
