import SdnsVerif.Props.C16
#print axioms SdnsVerif.Props.C16.stub
