import SdnsVerif.Props.C18
#print axioms SdnsVerif.Props.C18.exists_iff_spec
#print axioms SdnsVerif.Props.C18.escaped_dot_not_boundary
#print axioms SdnsVerif.Props.C18.exists_ne_spec_root_entry
#print axioms SdnsVerif.Props.C18.case_insensitive
#print axioms SdnsVerif.Props.C18.case_insensitive_entry
#print axioms SdnsVerif.Props.C18.label_boundary
#print axioms SdnsVerif.Props.C18.label_boundary_example
#print axioms SdnsVerif.Props.C18.wildcard_not_apex
#print axioms SdnsVerif.Props.C18.blocked_reply_shape
#print axioms SdnsVerif.Props.C18.blocklist_before_cache_and_upstream
#print axioms SdnsVerif.Props.C18.persist_converges
#print axioms SdnsVerif.Props.C18.crash_leaves_complete_file
#print axioms SdnsVerif.Props.C18.main_changes_only_by_complete_rename
#print axioms SdnsVerif.Props.C18.persist_converges_example
