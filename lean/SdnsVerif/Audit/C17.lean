import SdnsVerif.Props.C17
#print axioms SdnsVerif.Props.C17.contains_iff_of_sorted
#print axioms SdnsVerif.Props.C17.contains_iff
#print axioms SdnsVerif.Props.C17.lessEq_iff_val_le
#print axioms SdnsVerif.Props.C17.span_contains_iff_prefix
#print axioms SdnsVerif.Props.C17.set_contains_v4_iff
#print axioms SdnsVerif.Props.C17.set_contains_v6_iff
#print axioms SdnsVerif.Props.C17.mapped_counts_as_v4
#print axioms SdnsVerif.Props.C17.bad_entry_never_widens
#print axioms SdnsVerif.Props.C17.acl_next_iff
#print axioms SdnsVerif.Props.C17.viewPick_go_spec
#print axioms SdnsVerif.Props.C17.view_first_match
#print axioms SdnsVerif.Props.C17.view_answer_only_from_first
#print axioms SdnsVerif.Props.C17.accesslist_guards_chain
#print axioms SdnsVerif.Props.C17.client_policies_are_client_only
