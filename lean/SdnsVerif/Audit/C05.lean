import SdnsVerif.Props.C05
#print axioms SdnsVerif.Props.C05.parseWire_refines_spec
#print axioms SdnsVerif.Props.C05.refused_takes_decoded_fallback
#print axioms SdnsVerif.Props.C05.applyReply_eq_setReply
#print axioms SdnsVerif.Props.C05.header_roundtrip
#print axioms SdnsVerif.Props.C05.flag_edits_eq_field_updates
#print axioms SdnsVerif.Props.C05.wireOPT_eq_packedOPT
#print axioms SdnsVerif.Props.C05.wireOPT_options_perm_msgOPT
#print axioms SdnsVerif.Props.C05.wireOPT_len_eq
#print axioms SdnsVerif.Props.C05.ladder_agree
#print axioms SdnsVerif.Props.C05.decline_before_commit
#print axioms SdnsVerif.Props.C05.one_token
#print axioms SdnsVerif.Props.C05.token_spent_then_declined_only_at_backstops
#print axioms SdnsVerif.Props.C05.inline_terminal_rule
#print axioms SdnsVerif.Props.C05.ttl_and_ad_equal
#print axioms SdnsVerif.Props.C05.flag_masks_match_tree
#print axioms SdnsVerif.Props.C05.opt_constants_match_tree
#print axioms SdnsVerif.Props.C05.parsewire_boundaries_within_spec
