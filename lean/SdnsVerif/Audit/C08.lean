import SdnsVerif.Props.C08
#print axioms SdnsVerif.Props.C08.lease_def
#print axioms SdnsVerif.Props.C08.get_invisible_after_expiry
#print axioms SdnsVerif.Props.C08.set_upper_clamp_only
#print axioms SdnsVerif.Props.C08.ceiling_is_12h
#print axioms SdnsVerif.Props.C08.setuntil_ceiling
#print axioms SdnsVerif.Props.C08.descendant_le_ancestor
#print axioms SdnsVerif.Props.C08.descendant_le_stored_ancestor
#print axioms SdnsVerif.Props.C08.no_self_extension
#print axioms SdnsVerif.Props.C08.learned_data_bounded
#print axioms SdnsVerif.Props.C08.seed_reports_cached_lease
#print axioms SdnsVerif.Props.C08.cached_descent_bounded
#print axioms SdnsVerif.Props.C08.alias_lineage_inherited
#print axioms SdnsVerif.Props.C08.refresh_keeps_cut
#print axioms SdnsVerif.Props.C08.remaining_le_cut
#print axioms SdnsVerif.Props.C08.boundcut_min_fold
#print axioms SdnsVerif.Props.C08.deadlines_keep_monotonic_reading
#print axioms SdnsVerif.Props.C08.shape_facts_hold
