//go:build verif

package main

import (
	"context"
	"fmt"
	"go/ast"
	"go/parser"
	"go/printer"
	"go/token"
	"net"
	"os"
	"path/filepath"
	"strings"
	"time"

	"github.com/miekg/dns"
	"github.com/semihalev/sdns/config"
	"github.com/semihalev/sdns/internal/mock"
	"github.com/semihalev/sdns/internal/verif/vlib"
	"github.com/semihalev/sdns/middleware"
	"github.com/semihalev/sdns/middleware/cache"
)

// Admission guard of the shared denial state (cache.ResponseWriter.WriteMsg):
// a real Cache in front of a stub "resolver" that hands back a DNSSEC-shaped
// negative response with or without resolver provenance.
//
//   adm new
//   adm write <k> <reqcd> <respcd> <ecs> <marked> <agg> <kind 0|1|2> <fam 1|2> <nx|nd> <copy> <optout>

type admStub struct {
	respCD, marked, agg, copyMsg, optout bool
	kind, fam                            int
	nx                                   bool
	zone                                 string
	calls                                int
}

func (s *admStub) Name() string { return "c02upstream" }

func admSig(owner string, covered uint16, zone string) *dns.RRSIG {
	exp := uint32(time.Now().Add(2 * time.Hour).Unix())
	return &dns.RRSIG{Hdr: dns.RR_Header{Name: owner, Rrtype: dns.TypeRRSIG, Class: dns.ClassINET, Ttl: 300},
		TypeCovered: covered, Algorithm: dns.RSASHA256, Labels: uint8(dns.CountLabel(owner)), OrigTtl: 300,
		Expiration: exp, Inception: exp - 10800, KeyTag: 1, SignerName: zone, Signature: "AA=="}
}

func (s *admStub) ServeDNS(ctx context.Context, ch *middleware.Chain) {
	s.calls++
	req := ch.Request.Msg()
	zone := s.zone
	m := new(dns.Msg)
	m.SetReply(req)
	m.RecursionAvailable = true
	m.AuthenticatedData = true
	m.CheckingDisabled = s.respCD
	if s.nx {
		m.Rcode = dns.RcodeNameError
	}
	soa := &dns.SOA{Hdr: dns.RR_Header{Name: zone, Rrtype: dns.TypeSOA, Class: dns.ClassINET, Ttl: 300},
		Ns: "ns1." + zone, Mbox: "hostmaster." + zone, Serial: 1, Refresh: 3600, Retry: 600, Expire: 86400, Minttl: 300}
	m.Ns = []dns.RR{soa, admSig(zone, dns.TypeSOA, zone)}
	if s.fam == 1 {
		n1 := &dns.NSEC{Hdr: dns.RR_Header{Name: zone, Rrtype: dns.TypeNSEC, Class: dns.ClassINET, Ttl: 300},
			NextDomain: "c." + zone, TypeBitMap: []uint16{dns.TypeNS, dns.TypeSOA, dns.TypeRRSIG, dns.TypeNSEC}}
		n2 := &dns.NSEC{Hdr: dns.RR_Header{Name: "c." + zone, Rrtype: dns.TypeNSEC, Class: dns.ClassINET, Ttl: 300},
			NextDomain: "e." + zone, TypeBitMap: []uint16{dns.TypeA, dns.TypeRRSIG, dns.TypeNSEC}}
		m.Ns = append(m.Ns, n1, admSig(zone, dns.TypeNSEC, zone), n2, admSig("c."+zone, dns.TypeNSEC, zone))
	} else {
		z3 := &zone3{z: parseZone(fromPres(zone).String(), "1", fromPres(zone).String()+":2,6,46,48,51;"+fromPres("c."+zone).String()+":1,46"), optOut: s.optout, opted: map[string]bool{}}
		for _, r := range z3.ring() {
			rr := r.rr()
			m.Ns = append(m.Ns, rr, admSig(rr.Hdr.Name, dns.TypeNSEC3, zone))
		}
	}
	subject := req.Question[0].Name
	if s.marked {
		switch s.kind {
		case 0:
			// the legacy provenance API: no proof family
			middleware.MarkValidatedDenialResponse(ctx, m, middleware.ValidatedDenial{DeniedName: subject, Zone: zone})
		case 1:
			middleware.MarkValidatedNegativeProofResponse(ctx, m, middleware.ValidatedNegativeProof{
				Subject: subject, Zone: zone, Kind: middleware.ValidatedNegativeProofNSEC, Aggressive: s.agg})
		default:
			middleware.MarkValidatedNegativeProofResponse(ctx, m, middleware.ValidatedNegativeProof{
				Subject: subject, Zone: zone, Kind: middleware.ValidatedNegativeProofNSEC3, Aggressive: s.agg})
		}
	}
	out := m
	if s.copyMsg {
		out = m.Copy() // an equal-looking message is not the validated one
	}
	_ = ch.Writer.WriteMsg(out)
}

var (
	admCache *cache.Cache
	admSt    *admStub
)

func pb(s string) bool { return s == "t" }

func execAdm(f []string) vlib.Res {
	switch f[1] {
	case "new":
		if admCache != nil {
			admCache.Stop()
		}
		admCache = cache.New(&config.Config{CacheSize: 1024, Expire: 600})
		admSt = &admStub{}
		return vlib.Res{Impl: "ok"}
	case "write":
		k := atoi(f[2])
		reqCD, respCD, ecsOn, marked, agg := pb(f[3]), pb(f[4]), pb(f[5]), pb(f[6]), pb(f[7])
		kind, fam, nx, cp, optout := atoi(f[8]), atoi(f[9]), f[10] == "nx", pb(f[11]), pb(f[12])
		*admSt = admStub{respCD: respCD, marked: marked, agg: agg, copyMsg: cp, optout: optout, kind: kind, fam: fam, nx: nx,
			zone: fmt.Sprintf("z%d.c02.test.", k)}
		req := new(dns.Msg)
		req.SetQuestion("d."+admSt.zone, dns.TypeA)
		req.RecursionDesired = true
		req.CheckingDisabled = reqCD
		o := new(dns.OPT)
		o.Hdr.Name, o.Hdr.Rrtype = ".", dns.TypeOPT
		o.SetUDPSize(1232)
		o.SetDo()
		if ecsOn {
			o.Option = append(o.Option, &dns.EDNS0_SUBNET{Code: dns.EDNS0SUBNET, Family: 1, SourceNetmask: 24, Address: net.IPv4(198, 51, 100, 0).To4()})
		}
		req.Extra = append(req.Extra, o)
		cuts0, proofs0 := admCache.Stats()["nxdomain_cut_size"].(int), admCache.Stats()["denial_proof_size"].(int)
		w := mock.NewWriter("udp", "192.0.2.9:4242")
		ch := middleware.NewChain([]middleware.Handler{admCache, admSt})
		ch.Reset(w, req)
		ch.Next(context.Background())
		cuts1, proofs1 := admCache.Stats()["nxdomain_cut_size"].(int), admCache.Stats()["denial_proof_size"].(int)
		gotProof, gotCut := proofs1 > proofs0, cuts1 > cuts0
		// the property, spelled out: shared denial state only for a locally
		// validated (exact response identity), aggressive-eligible, typed
		// proof, request CD=0, response CD=0, no client ECS
		allowed := marked && !cp && agg && kind != 0 && !reqCD && !respCD && !ecsOn
		or := "ok"
		if (gotProof || gotCut) && !allowed {
			var why []string
			if !marked || cp {
				why = append(why, "no-local-provenance")
			}
			if !agg || kind == 0 {
				why = append(why, "not-aggressive-eligible")
			}
			if reqCD || respCD {
				why = append(why, "cd")
			}
			if ecsOn {
				why = append(why, "ecs")
			}
			or = "FAIL sig=adm/shared-state-written/" + strings.Join(why, "+")
		}
		if gotCut && (!nx || (fam == 2 && optout)) {
			or = "FAIL sig=adm/cut-recorded/" + map[bool]string{true: "optout-span", false: "not-nxdomain"}[nx]
		}
		return vlib.Res{Impl: fmt.Sprintf("proof=%s cut=%s up=%d", vlib.B(gotProof), vlib.B(gotCut), admSt.calls), Oracle: or, Tags: "nt"}
	}
	return vlib.Res{Impl: "bad-op"}
}

func genAdmCase(r *vlib.R, emit func(string)) int {
	emit("adm new")
	n := 6 + r.Intn(8)
	for i := 0; i < n; i++ {
		// mostly-admissible inputs with one or two guards flipped
		b := func(num, den int) string { return vlib.B(r.Chance(num, den)) }
		kind := vlib.Pick(r, []int{1, 1, 1, 2, 2, 0})
		fam := kind
		if fam == 0 || r.Chance(1, 8) {
			fam = 1 + r.Intn(2)
		}
		emit(fmt.Sprintf("adm write %d %s %s %s %s %s %d %d %s %s %s", i, b(1, 6), b(1, 8), b(1, 6), b(7, 8), b(5, 6), kind, fam,
			vlib.Pick(r, []string{"nx", "nx", "nd"}), b(1, 8), b(1, 4)))
	}
	return n + 1
}

// ---- shape facts about Resolver.authority (go/ast walk over the tree under test) ----

func exprStr(fset *token.FileSet, e ast.Node) string {
	var sb strings.Builder
	_ = printer.Fprint(&sb, fset, e)
	return strings.Join(strings.Fields(sb.String()), " ")
}

// guardsOfCall returns the conditions of the if-statements enclosing the
// first call of callee inside fn (innermost last).
func guardsOfCall(fset *token.FileSet, fn *ast.FuncDecl, callee string) (guards []string, found bool) {
	var stack []ast.Node
	ast.Inspect(fn.Body, func(n ast.Node) bool {
		if found {
			return false
		}
		if n == nil {
			stack = stack[:len(stack)-1]
			return true
		}
		stack = append(stack, n)
		if c, ok := n.(*ast.CallExpr); ok && strings.HasSuffix(exprStr(fset, c.Fun), callee) {
			found = true
			for i, s := range stack {
				if is, ok := s.(*ast.IfStmt); ok && i+1 < len(stack) && stack[i+1] == is.Body {
					guards = append(guards, exprStr(fset, is.Cond))
				}
			}
			return false
		}
		return true
	})
	return guards, found
}

func admFacts() map[string]any {
	repo := os.Getenv("VERIF_REPO")
	if repo == "" {
		repo = "/repo"
	}
	out := map[string]any{
		"shape_mark_guarded_by_secure_cd_negative": false,
		"shape_ad_is_denial_secure":                false,
		"shape_nsec3_aggressive_needs_secure":      false,
		"shape_aggressive_flag_from_evaluator":     false,
		"shape_validator_error_returns_error":      false,
		"shape_rfc8020_stop_guard":                 false,
		"shape_prefetch_admission_guard":           false,
		"shape_prefetch_cut_needs_nxdomain":        false,
		"shape_writemsg_cut_needs_nxdomain":        false,
	}
	fset := token.NewFileSet()
	file, err := parser.ParseFile(fset, filepath.Join(repo, "middleware/resolver/resolver.go"), nil, 0)
	if err != nil {
		return out
	}
	var fn *ast.FuncDecl
	for _, d := range file.Decls {
		if f, ok := d.(*ast.FuncDecl); ok && f.Name.Name == "authority" && f.Recv != nil {
			fn = f
		}
	}
	if fn == nil {
		return out
	}
	has := func(gs []string, sub string) bool {
		for _, g := range gs {
			if strings.Contains(g, sub) {
				return true
			}
		}
		return false
	}
	if gs, ok := guardsOfCall(fset, fn, "MarkValidatedNegativeProofResponse"); ok {
		out["shape_mark_guarded_by_secure_cd_negative"] = has(gs, "denialSecure") && has(gs, "!req.CheckingDisabled") && has(gs, "isNegative") &&
			has(gs, "r.dnssec && verified")
	}
	if gs, ok := guardsOfCall(fset, fn, "EvaluateAggressiveNSEC3"); ok {
		out["shape_nsec3_aggressive_needs_secure"] = len(gs) > 0 && gs[len(gs)-1] == "denialSecure"
	}
	body := exprStr(fset, fn.Body)
	out["shape_ad_is_denial_secure"] = strings.Contains(body, "resp.AuthenticatedData = denialSecure") &&
		strings.Count(body, "resp.AuthenticatedData =") == 1
	out["shape_aggressive_flag_from_evaluator"] = strings.Contains(body, "Aggressive: aggressiveEligible") &&
		strings.Count(body, "aggressiveEligible = true") == 2 &&
		strings.Count(body, "if err == nil && result.Rcode == resp.Rcode { aggressiveEligible = true }") == 2
	// every exact validator's error leaves authority() with (nil, err): SERVFAIL upstream of the cache
	okAll := true
	for _, v := range []string{"VerifyNameErrorNSEC(resp, nsecSet); err != nil", "VerifyNODATANSEC(resp, nsecSet); err != nil"} {
		i := strings.Index(body, v)
		if i < 0 || !strings.Contains(body[i:min(len(body), i+400)], "return nil, err") {
			okAll = false
		}
	}
	for _, v := range []string{"VerifyNameErrorForZoneWithWork(", "VerifyNODATAForZoneWithWork("} {
		i := strings.Index(body, v)
		if i < 0 || !strings.Contains(body[i:min(len(body), i+500)], "return nil, denialErr") {
			okAll = false
		}
	}
	out["shape_validator_error_returns_error"] = okAll

	// processAuthoritySection: the RFC 8020 stop at a minimised NXDOMAIN
	for _, d := range file.Decls {
		if f, ok := d.(*ast.FuncDecl); ok && f.Name.Name == "processAuthoritySection" && f.Recv != nil {
			// the early `return result, nil` inside `if minimized { if NXDOMAIN { if hasSOA {` is guarded by …
			var conds []string
			ast.Inspect(f.Body, func(n ast.Node) bool {
				if is, ok := n.(*ast.IfStmt); ok {
					c := exprStr(fset, is.Cond)
					if strings.Contains(c, "negative.Aggressive") {
						conds = append(conds, c)
					}
				}
				return true
			})
			out["shape_rfc8020_stop_guard"] = len(conds) == 1 && strings.Contains(conds[0], "secure") &&
				strings.Contains(conds[0], "negative.Proof.Rcode == dns.RcodeNameError") &&
				strings.Contains(conds[0], "!dnsutil.HasNSEC3OptOut(") && strings.Contains(conds[0], "negative.Proof != nil")
		}
	}
	// prefetch write-back (middleware/cache/prefetch_queue.go): same admission guard as WriteMsg
	if pf, err := parser.ParseFile(fset, filepath.Join(repo, "middleware/cache/prefetch_queue.go"), nil, 0); err == nil {
		for _, d := range pf.Decls {
			f, ok := d.(*ast.FuncDecl)
			if !ok || f.Body == nil {
				continue
			}
			if gs, found := guardsOfCall(fset, f, "RecordDenialProof"); found {
				out["shape_prefetch_admission_guard"] = has(gs, "!req.Entry.scoped()") && has(gs, "!requestCD") &&
					has(gs, "!req.RequestHadECS") && has(gs, "!hasEDNSClientSubnet(req.Request)") && has(gs, "!resp.CheckingDisabled") &&
					has(gs, "negative.Aggressive") && has(gs, "negative.Proof != nil")
				cgs, cfound := guardsOfCall(fset, f, "RecordNXDomainCut")
				out["shape_prefetch_cut_needs_nxdomain"] = cfound && has(cgs, "negative.Proof.Rcode == dns.RcodeNameError") && has(cgs, "negative.Aggressive")
			}
		}
	}
	// WriteMsg itself (the differential 'adm' ops exercise it; the shape pins the cut's NXDOMAIN guard)
	if cf, err := parser.ParseFile(fset, filepath.Join(repo, "middleware/cache/cache.go"), nil, 0); err == nil {
		for _, d := range cf.Decls {
			f, ok := d.(*ast.FuncDecl)
			if !ok || f.Body == nil || f.Name.Name != "WriteMsg" {
				continue
			}
			if gs, found := guardsOfCall(fset, f, "RecordNXDomainCut"); found {
				out["shape_writemsg_cut_needs_nxdomain"] = has(gs, "negative.Proof.Rcode == dns.RcodeNameError") && has(gs, "negative.Aggressive")
			}
		}
	}
	return out
}
