//go:build verif

package main

import "github.com/semihalev/sdns/internal/verif/vlib"

func execAdm(f []string) vlib.Res { return vlib.Res{Impl: "bad-op"} }

func admFacts() map[string]any { return map[string]any{} }

func genAdmCase(r *vlib.R, emit func(string)) int { return genNsecCase(r, emit) }
