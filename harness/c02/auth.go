//go:build verif

package main

import (
	"crypto"
	"crypto/ecdsa"
	"fmt"
	"net"
	"strings"
	"time"

	"github.com/miekg/dns"
	"github.com/semihalev/sdns/internal/dnsutil"
	"github.com/semihalev/sdns/internal/verif/vlib"
	"github.com/semihalev/sdns/middleware"
	"github.com/semihalev/sdns/middleware/resolver"
	"github.com/semihalev/sdns/middleware/resolver/dnssec"
)

// The REAL Resolver.authority ('z auth' / 'h auth'): the current record set is
// put into the authority section of a negative response next to the zone's SOA,
// every in-zone RRset is signed with a real ECDSA zone key (DS of that key =
// the parent DS handed to authority(), DNSKEY RRset served from the resolver's
// warm cache), and the response goes through authority() as it would after a
// lookup. What comes back — an error (SERVFAIL for the client), or the
// response with its AD bit and the validated-negative-proof provenance the
// cache admits shared denial state on — is compared with the model's
// authorityStep and judged by the oracle:
//
//   z auth <signer> <qname> <qtype> <nx|nd> <variant>
//   h auth <signer> <qname> <qtype> <nx|nd> <variant> <hash table>
//
// variant: good   every in-zone RRset carries a valid RRSIG
//          cd     as good, the request has CD=1
//          nosig  all RRSIGs stripped
//          nodsig the denial records' RRSIGs stripped (SOA still signed)
//          badsig the first denial RRset's signature damaged
//          extrasig  as good, plus RRSIGs over the SOA that name OTHER signers: a more
//                 specific one (the question name itself / its parent) and a shallower one
//                 (the zone's parent); the retry loop tries them most specific first, finds
//                 no DS for them, and must end at the real signer with the same verdict
//          insec  as good, but the resolver holds NO DS for the zone (an insecure zone;
//                 the root always has its trust anchor)
//          insecnosig  no DS and no RRSIGs: an unsigned zone

type authEnv struct {
	key *dns.DNSKEY
	r   *resolver.Resolver
	ds  []dns.RR
}

var (
	authPriv crypto.Signer
	authPub  string
	authEnvs = map[string]*authEnv{}
)

func authSign(key *dns.DNSKEY, rrs []dns.RR, zone string) (*dns.RRSIG, error) {
	now := time.Now()
	sig := &dns.RRSIG{Hdr: dns.RR_Header{Name: rrs[0].Header().Name, Rrtype: dns.TypeRRSIG, Class: rrs[0].Header().Class, Ttl: rrs[0].Header().Ttl},
		Algorithm: key.Algorithm, SignerName: zone, KeyTag: key.KeyTag(),
		Inception: uint32(now.Add(-time.Hour).Unix()), Expiration: uint32(now.Add(24 * time.Hour).Unix())}
	if err := sig.Sign(authPriv, rrs); err != nil {
		return nil, err
	}
	return sig, nil
}

func authEnvFor(zone string) *authEnv {
	if e, ok := authEnvs[zone]; ok {
		return e
	}
	key := &dns.DNSKEY{Hdr: dns.RR_Header{Name: zone, Rrtype: dns.TypeDNSKEY, Class: dns.ClassINET, Ttl: 300},
		Flags: 257, Protocol: 3, Algorithm: dns.ECDSAP256SHA256}
	if authPriv == nil {
		priv, err := key.Generate(256)
		if err != nil {
			panic(err)
		}
		authPriv, authPub = priv.(*ecdsa.PrivateKey), key.PublicKey
	}
	key.PublicKey = authPub
	keyResp := new(dns.Msg)
	keyResp.SetQuestion(zone, dns.TypeDNSKEY)
	keyResp.Response, keyResp.Authoritative = true, true
	ksig, err := authSign(key, []dns.RR{key}, zone)
	if err != nil {
		panic(err)
	}
	keyResp.Answer = []dns.RR{key, ksig}
	e := &authEnv{key: key, r: resolver.VerifC02NewAuthorityResolver(zone, key, keyResp), ds: []dns.RR{key.ToDS(dns.SHA256)}}
	authEnvs[zone] = e
	return e
}

type authOut struct {
	err    error
	ad     bool
	marked bool
	kind   string
	agg    bool
}

func (o authOut) String() string {
	if o.err != nil {
		return "servfail"
	}
	return fmt.Sprintf("ok ad=%s mark=%s agg=%s", vlib.B(o.ad), o.kind, vlib.B(o.agg))
}

func (o authOut) tags() string {
	t := ""
	if o.err == nil {
		t += ",nt,auth-passed"
		if o.ad {
			t += ",auth-ad"
		}
		if o.agg {
			t += ",auth-aggressive"
		}
	} else {
		t += ",auth-refused"
	}
	return t
}

// runAuthority builds the signed response and runs authority(). ok=false: the
// record set cannot be signed as it stands (not an input a server can produce).
var authWhy string

func runAuthority(signer, q name, t uint16, nx bool, variant string, denial []dns.RR) (out authOut, ok bool) {
	// the signer name as zones publish it (lower case): authority() compares the RRSIG's
	// signer name with the lower-cased DS owner octet by octet and would go looking for
	// another DS otherwise (a lookup this harness answers with "not found")
	zone := signer.fold().pres()
	env := authEnvFor(zone)
	soa := &dns.SOA{Hdr: dns.RR_Header{Name: zone, Rrtype: dns.TypeSOA, Class: dns.ClassINET, Ttl: 300},
		Ns: "ns1." + zone, Mbox: "hostmaster." + zone, Serial: 1, Refresh: 3600, Retry: 600, Expire: 86400, Minttl: 300}
	if zone == "." {
		soa.Ns, soa.Mbox = "ns1.", "hostmaster."
	}
	soaSig, err := authSign(env.key, []dns.RR{soa}, zone)
	if err != nil {
		return out, false
	}
	ns := []dns.RR{soa}
	sigs := []dns.RR{soaSig}
	// group the in-zone denial records into RRsets
	type gk struct {
		name       string
		rtype, cls uint16
	}
	var order []gk
	groups := map[gk][]dns.RR{}
	for _, rr := range denial {
		c := dns.Copy(rr)
		ns = append(ns, c)
		if !dnsutil.NameInZone(strings.ToLower(c.Header().Name), strings.ToLower(zone)) {
			continue // not this zone's record: nothing the zone key could have signed
		}
		k := gk{strings.ToLower(c.Header().Name), c.Header().Rrtype, c.Header().Class}
		if _, seen := groups[k]; !seen {
			order = append(order, k)
		} else {
			// one RRset has one owner spelling on the wire
			c.Header().Name = groups[k][0].Header().Name
		}
		groups[k] = append(groups[k], c)
	}
	first := true
	for _, k := range order {
		sig, err := authSign(env.key, groups[k], zone)
		if err != nil {
			authWhy = err.Error()
			return out, false
		}
		switch {
		case variant == "nodsig":
			continue
		case variant == "badsig" && first:
			b := []byte(sig.Signature)
			if b[10] == 'A' {
				b[10] = 'B'
			} else {
				b[10] = 'A'
			}
			sig.Signature = string(b)
		}
		first = false
		sigs = append(sigs, sig)
	}
	if variant == "extrasig" {
		for _, other := range []name{q.fold(), signer.fold().child("deeper"), signer.fold()} {
			if len(other) > 0 && other.eq(signer.fold()) {
				other = other.parent()
			}
			if other.eq(signer.fold()) || len(other.wire()) > 255 {
				continue
			}
			x := dns.Copy(soaSig).(*dns.RRSIG)
			x.SignerName = other.pres()
			sigs = append([]dns.RR{x}, sigs...)
		}
	}
	if variant != "nosig" && variant != "insecnosig" {
		// RRSIGs interleaved the way servers send them is irrelevant to the code; append
		ns = append(ns, sigs...)
	}
	rcode := dns.RcodeSuccess
	if nx {
		rcode = dns.RcodeNameError
	}
	req := new(dns.Msg)
	req.SetQuestion(q.pres(), t)
	req.SetEdns0(1232, true)
	req.CheckingDisabled = variant == "cd"
	resp := new(dns.Msg)
	resp.SetRcode(req, rcode)
	resp.Authoritative = true
	resp.Ns = ns
	ds := env.ds
	if variant == "insec" || variant == "insecnosig" {
		ds = nil
	}
	got, proof, marked, aerr := resolver.VerifC02Authority(env.r, req, resp, ds, zone)
	out.err = aerr
	out.kind = "none"
	if aerr == nil {
		out.ad, out.marked = got.AuthenticatedData, marked
		if marked {
			out.agg = proof.Aggressive
			switch proof.Kind {
			case middleware.ValidatedNegativeProofNSEC:
				out.kind = "nsec"
			case middleware.ValidatedNegativeProofNSEC3:
				out.kind = "nsec3"
			default:
				out.kind = "other"
			}
		}
	}
	return out, true
}

// authOracle: what must hold whatever the validators look like inside.
// exactErr / secure: the exact validator run directly on the same filtered set.
func authOracle(out authOut, variant string, exactErr error, secure bool, fam string, foreignClass bool) string {
	accepted := out.err == nil
	if variant == "insec" || variant == "insecnosig" {
		// nothing to validate against: whatever happens, no AD and no provenance
		if accepted && (out.ad || out.marked) {
			return "FAIL sig=auth/insecure-zone-authenticated"
		}
		return "ok"
	}
	if variant == "extrasig" {
		variant = "good"
	}
	if foreignClass && variant == "good" {
		// an in-zone record of a class the (class IN) zone key cannot have signed
		variant = "badsig"
	}
	switch {
	case variant == "cd":
		if !accepted {
			return "ok" // a CD=1 request may still be refused for other reasons
		}
		if out.ad || out.marked {
			return "FAIL sig=auth/cd-response-authenticated"
		}
		return "ok"
	case variant == "nosig" || variant == "nodsig" || variant == "badsig":
		if accepted {
			return "FAIL sig=auth/unsigned-denial-accepted variant=" + variant
		}
		return "ok"
	}
	// good signatures: a negative response from a signed zone is passed on only
	// when the denial records PROVE it; no proof = error, never "insecure"
	if accepted && exactErr != nil {
		return "FAIL sig=auth/denial-accepted-without-proof exact=" + errStr(exactErr)
	}
	if !accepted && exactErr == nil {
		return "FAIL sig=auth/proven-denial-refused err=" + strings.ReplaceAll(out.err.Error(), " ", "_")
	}
	if accepted {
		switch {
		case out.ad != secure:
			return "FAIL sig=auth/ad-differs-from-proof-security"
		case out.marked != secure:
			return "FAIL sig=auth/provenance-differs-from-proof-security"
		case out.marked && out.kind != fam:
			return "FAIL sig=auth/provenance-of-other-family"
		}
	}
	return "ok"
}

func execAuthNsec(f []string) vlib.Res {
	signer, q, t, nx, variant := parseName(f[2]), parseName(f[3]), uint16(atoi(f[4])), f[5] == "nx", f[6]
	if !signableNsec(curSet) {
		return vlib.Res{Impl: "unsignable", Tags: "star-prefixed-label"}
	}
	out, ok := runAuthority(signer, q, t, nx, variant, curRRs)
	if !ok {
		return vlib.Res{Impl: "unsignable", Tags: strings.ReplaceAll(authWhy, " ", "_")}
	}
	res := vlib.Res{Impl: out.String(), Tags: "auth," + variant + out.tags()}
	if t == dns.TypeRRSIG {
		// a DENIAL in answer to an RRSIG question is validated like any other (/repo 129b2e9;
		// before, verifyDNSSEC skipped every RRSIG question and the response was passed on unvalidated)
		res.Tags += ",rrsig-question"
	}
	if dnssec.ValidateSigner(signer.pres(), q.pres()) != nil {
		res.Oracle = "ok"
		if out.err == nil && variant != "cd" && variant != "insecnosig" {
			res.Oracle = "FAIL sig=auth/foreign-signer-accepted"
		}
		return res
	}
	set := dnsutil.FilterRRsToZone(curRRs, signer.pres())
	var verr error
	if len(set) == 0 {
		verr = dnssec.ErrNSECMissingCoverage
	} else if nx {
		verr = dnssec.VerifyNameErrorNSEC(question(q, t, dns.ClassINET, dns.RcodeNameError), set)
	} else {
		verr = dnssec.VerifyNODATANSEC(question(q, t, dns.ClassINET, dns.RcodeSuccess), set)
	}
	res.Oracle = authOracle(out, rootVariant(signer, variant), verr, true, "nsec", foreignClass(curRRs, signer))
	if res.Oracle == "ok" && out.err == nil && out.agg {
		// Aggressive provenance only when the RFC 8198 classifier reaches the response's verdict
		r1, e1 := dnssec.EvaluateAggressiveNSEC(dns.Question{Name: q.pres(), Qtype: t, Qclass: dns.ClassINET}, signer.pres(), set)
		want := dns.RcodeSuccess
		if nx {
			want = dns.RcodeNameError
		}
		if e1 != nil || r1.Rcode != want {
			res.Oracle = "FAIL sig=auth/aggressive-without-classifier"
		}
	}
	return res
}

func execAuthNsec3(f []string) vlib.Res {
	signer, q, t, nx, variant := parseName(f[2]), parseName(f[3]), uint16(atoi(f[4])), f[5] == "nx", f[6]
	out, ok := runAuthority(signer, q, t, nx, variant, curRR3)
	if !ok {
		return vlib.Res{Impl: "unsignable", Tags: strings.ReplaceAll(authWhy, " ", "_")}
	}
	res := vlib.Res{Impl: out.String(), Tags: "auth3," + variant + out.tags()}
	if t == dns.TypeRRSIG {
		res.Tags += ",rrsig-question"
	}
	if dnssec.ValidateSigner(signer.pres(), q.pres()) != nil {
		res.Oracle = "ok"
		if out.err == nil && variant != "cd" && variant != "insecnosig" {
			res.Oracle = "FAIL sig=auth/foreign-signer-accepted"
		}
		return res
	}
	set := dnsutil.FilterRRsToZone(curRR3, signer.pres())
	var (
		verr   error
		secure bool
	)
	if len(set) == 0 {
		verr = dnssec.ErrNSECMissingCoverage
	} else if nx {
		secure, verr = dnssec.VerifyNameErrorForZoneWithWork(question(q, t, dns.ClassINET, dns.RcodeNameError), set, signer.pres(), nil)
	} else {
		secure, verr = dnssec.VerifyNODATAForZoneWithWork(question(q, t, dns.ClassINET, dns.RcodeSuccess), set, signer.pres(), nil)
	}
	res.Oracle = authOracle(out, rootVariant(signer, variant), verr, secure, "nsec3", foreignClass(curRR3, signer))
	if res.Oracle == "ok" && out.err == nil && out.agg {
		r1, e1 := dnssec.EvaluateAggressiveNSEC3(dns.Question{Name: q.pres(), Qtype: t, Qclass: dns.ClassINET}, signer.pres(), set, nil)
		want := dns.RcodeSuccess
		if nx {
			want = dns.RcodeNameError
		}
		if e1 != nil || r1.Rcode != want {
			res.Oracle = "FAIL sig=auth/aggressive-without-classifier"
		}
	}
	return res
}

func foreignClass(rrs []dns.RR, signer name) bool {
	for _, rr := range rrs {
		if rr.Header().Class != dns.ClassINET && dnsutil.NameInZone(strings.ToLower(rr.Header().Name), strings.ToLower(signer.pres())) {
			return true
		}
	}
	return false
}

// rootVariant: the root zone is never insecure (its trust anchor is the DS).
func rootVariant(signer name, variant string) string {
	if len(signer) == 0 {
		switch variant {
		case "insec":
			return "good"
		case "insecnosig":
			return "nosig"
		}
	}
	return variant
}

// ---- the unsigned response and its only excuse ('z authu' / 'h authu') ----
//
//   z authu <signer> <qname> <qtype> <nx|nd> <dsvariant>
//   h authu <signer> <qname> <qtype> <nx|nd> <dsvariant> <hash table>
//
// The upstream response carries NO signature (the shape of an answer from an
// unsigned child zone served by the same server). authority() may pass it on only
// when provenInsecureDelegation succeeds: its own `<cut> DS` lookup (answered here
// from the CURRENT record set next to the zone's SOA, signed per dsvariant:
// good | nosig | badsig | none = lookup fails) must prove "delegation, no DS" for
// the first cut below the zone on the way to the name. dsvariants dsok / dsmixed /
// dsunsupd / dsunsupa answer the lookup POSITIVELY with a signed DS RRset instead.

func runAuthorityUnsigned(signer, q name, t uint16, nx bool, dsv string, denial []dns.RR) (out authOut, ok bool) {
	zone := signer.fold().pres()
	env := authEnvFor(zone)
	ok = true
	if dsv != "none" {
		resolver.VerifC02SetDSResponder(env.r, func(req *dns.Msg) *dns.Msg {
			soa := &dns.SOA{Hdr: dns.RR_Header{Name: zone, Rrtype: dns.TypeSOA, Class: dns.ClassINET, Ttl: 300},
				Ns: "ns1." + zone, Mbox: "hostmaster." + zone, Serial: 1, Refresh: 3600, Retry: 600, Expire: 86400, Minttl: 300}
			if zone == "." {
				soa.Ns, soa.Mbox = "ns1.", "hostmaster."
			}
			if strings.HasPrefix(dsv, "ds") {
				// a POSITIVE answer: a DS RRset for the asked name, signed by the zone key (the asked name
				// is the cut candidate, in the zone). dsok: a DS this validator supports; dsunsupd: an
				// unknown digest type; dsunsupa: a DNSKEY algorithm it cannot verify; dsmixed: both kinds
				owner := req.Question[0].Name
				mk := func(alg, digest uint8) dns.RR {
					return &dns.DS{Hdr: dns.RR_Header{Name: owner, Rrtype: dns.TypeDS, Class: dns.ClassINET, Ttl: 300},
						KeyTag: 4711, Algorithm: alg, DigestType: digest, Digest: strings.Repeat("ab", 32)}
				}
				var set []dns.RR
				switch dsv {
				case "dsok":
					set = []dns.RR{mk(dns.ECDSAP256SHA256, dns.SHA256)}
				case "dsunsupd":
					set = []dns.RR{mk(dns.ECDSAP256SHA256, 250)}
				case "dsunsupa":
					set = []dns.RR{mk(dns.RSAMD5, dns.SHA256)}
				default: // dsmixed
					set = []dns.RR{mk(dns.ECDSAP256SHA256, 250), mk(dns.ED25519, dns.SHA384)}
				}
				m := new(dns.Msg)
				m.SetReply(req)
				m.Authoritative = true
				if !dnsutil.NameInZone(strings.ToLower(owner), strings.ToLower(zone)) {
					return m // not this zone's name: nothing the zone key signs
				}
				sig, err := authSign(env.key, set, zone)
				if err != nil {
					ok = false
					return nil
				}
				m.Answer = append(set, sig)
				return m
			}
			ns, sigs, sok := signSection(env, zone, soa, denial, dsv)
			if !sok {
				ok = false
				return nil
			}
			m := new(dns.Msg)
			m.SetReply(req)
			m.Authoritative = true
			m.Ns = ns
			if dsv != "nosig" {
				m.Ns = append(m.Ns, sigs...)
			}
			return m
		})
		defer resolver.VerifC02SetDSResponder(env.r, nil)
	}
	rcode := dns.RcodeSuccess
	if nx {
		rcode = dns.RcodeNameError
	}
	req := new(dns.Msg)
	req.SetQuestion(q.pres(), t)
	req.SetEdns0(1232, true)
	resp := new(dns.Msg)
	resp.SetRcode(req, rcode)
	resp.Authoritative = true
	// the unsigned child's SOA (owner: the first label below the zone on the way to q, else the zone)
	owner := zone
	if qf := q.fold(); len(qf) > len(signer) && qf.under(signer.fold()) {
		owner = qf.suffix(len(signer) + 1).pres()
	}
	resp.Ns = []dns.RR{&dns.SOA{Hdr: dns.RR_Header{Name: owner, Rrtype: dns.TypeSOA, Class: dns.ClassINET, Ttl: 300},
		Ns: "ns1." + owner, Mbox: "hostmaster." + owner, Serial: 1, Refresh: 3600, Retry: 600, Expire: 86400, Minttl: 300}}
	got, proof, marked, aerr := resolver.VerifC02Authority(env.r, req, resp, env.ds, zone)
	out.err, out.kind = aerr, "none"
	if aerr == nil {
		out.ad, out.marked = got.AuthenticatedData, marked
		if marked {
			out.agg, out.kind = proof.Aggressive, "other"
		}
	}
	return out, ok
}

// signSection: SOA + the in-zone RRsets of denial, signed (per variant) by the zone key.
func signSection(env *authEnv, zone string, soa *dns.SOA, denial []dns.RR, variant string) (ns, sigs []dns.RR, ok bool) {
	if soa != nil {
		soaSig, err := authSign(env.key, []dns.RR{soa}, zone)
		if err != nil {
			return nil, nil, false
		}
		ns, sigs = []dns.RR{soa}, []dns.RR{soaSig}
	}
	type gk struct {
		name       string
		rtype, cls uint16
	}
	var order []gk
	groups := map[gk][]dns.RR{}
	for _, rr := range denial {
		c := dns.Copy(rr)
		ns = append(ns, c)
		if !dnsutil.NameInZone(strings.ToLower(c.Header().Name), strings.ToLower(zone)) {
			continue
		}
		k := gk{strings.ToLower(c.Header().Name), c.Header().Rrtype, c.Header().Class}
		if _, seen := groups[k]; !seen {
			order = append(order, k)
		} else {
			c.Header().Name = groups[k][0].Header().Name
		}
		groups[k] = append(groups[k], c)
	}
	for i, k := range order {
		sig, err := authSign(env.key, groups[k], zone)
		if err != nil {
			authWhy = err.Error()
			return nil, nil, false
		}
		if variant == "badsig" && i == 0 {
			b := []byte(sig.Signature)
			if b[10] == 'A' {
				b[10] = 'B'
			} else {
				b[10] = 'A'
			}
			sig.Signature = string(b)
		}
		sigs = append(sigs, sig)
	}
	return ns, sigs, true
}

// insecureCut: the first label below signer on the way to the name the excuse is about.
func insecureCut(signer, q name, t uint16) (name, bool) {
	pn := q.fold()
	if t == dns.TypeDS && len(pn) > 0 {
		pn = pn.parent()
	}
	sg := signer.fold()
	if len(pn) <= len(sg) || !pn.under(sg) {
		return nil, false
	}
	return pn.suffix(len(sg) + 1), true
}

func execAuthUnsigned(f []string, nsec3 bool) vlib.Res {
	signer, q, t, nx, dsv := parseName(f[2]), parseName(f[3]), uint16(atoi(f[4])), f[5] == "nx", f[6]
	denial, fam := curRRs, "authu"
	if nsec3 {
		denial, fam = curRR3, "authu3"
	} else if !signableNsec(curSet) {
		return vlib.Res{Impl: "unsignable", Tags: "star-prefixed-label"}
	}
	out, ok := runAuthorityUnsigned(signer, q, t, nx, dsv, denial)
	if !ok {
		return vlib.Res{Impl: "unsignable", Tags: strings.ReplaceAll(authWhy, " ", "_")}
	}
	res := vlib.Res{Impl: out.String(), Tags: fam + ",ds-" + dsv + out.tags(), Oracle: "ok"}
	if out.err == nil && (out.ad || out.marked) {
		res.Oracle = "FAIL sig=auth/unsigned-response-authenticated"
		return res
	}
	// what the delegation validator says, called directly on the same filtered records
	cut, below := insecureCut(signer, q, t)
	proven := false
	switch {
	case below && (dsv == "dsunsupd" || dsv == "dsunsupa"):
		proven = true // RFC 6840 5.2: a validly signed DS RRset with no supported record = insecure delegation
	case strings.HasPrefix(dsv, "ds"):
		proven = false // a supported DS: the child is SECURE, its unsigned answer is not excused
	}
	if below && dsv == "good" && !foreignClass(denial, signer) {
		set := dnsutil.FilterRRsToZone(denial, signer.fold().pres())
		if len(set) > 0 {
			if nsec3 {
				proven = dnssec.VerifyDelegationForZoneWithWork(cut.pres(), signer.fold().pres(), set, nil) == nil
			} else {
				proven = dnssec.VerifyDelegationNSEC(cut.pres(), set) == nil
			}
		}
	}
	switch {
	case out.err == nil && !proven:
		res.Oracle = "FAIL sig=auth/unsigned-denial-accepted-without-insecure-delegation ds=" + dsv
	case out.err != nil && proven:
		res.Oracle = "FAIL sig=auth/insecure-delegation-refused err=" + strings.ReplaceAll(out.err.Error(), " ", "_")
	case out.err == nil && !nsec3 && judged(signer) && !strings.HasPrefix(dsv, "ds"):
		// the zone itself: the cut must be a delegation point without DS
		if nd := curZone.find(cut); nd == nil || !nd.isDeleg() || nd.types[tDS] {
			res.Oracle = "FAIL sig=auth/unsigned-denial-accepted-no-such-insecure-delegation"
		}
	}
	return res
}

// ---- the REAL Resolver.answer on wildcard-expanded positive answers ('z ans' / 'h ans') ----
//
//   z ans <signer> <owner:labels;...> <variant>
//   h ans <signer> <owner:labels;...> <variant> <hash table>
//
// One RRset per entry (types A, AAAA, TXT, ... by position) in the ANSWER section,
// question = the first owner. An entry whose RRSIG Labels is below the owner's
// label count is a genuine wildcard expansion: the RRset is signed, with the real
// zone key, under `*.<last Labels labels>` and then presented under the owner —
// exactly what a server (or a replaying attacker) sends. The AUTHORITY section is
// the current record set as sent (out-of-zone records included, unsigned; in-zone
// RRsets signed). answer() must pass the response on only if the signatures verify
// and, for every expansion, the signer zone's OWN records deny the next closer name
// (RFC 4035 5.3.4); AD = that proof is secure (no Opt-Out).
// variant: good | cd | badsig (the first answer RRset's signature damaged).

var ansTypes = []uint16{dns.TypeA, dns.TypeAAAA, dns.TypeTXT, dns.TypeMX}

func ansRR(owner string, t uint16) dns.RR {
	h := dns.RR_Header{Name: owner, Rrtype: t, Class: dns.ClassINET, Ttl: 300}
	switch t {
	case dns.TypeAAAA:
		return &dns.AAAA{Hdr: h, AAAA: net.ParseIP("2001:db8::1")}
	case dns.TypeTXT:
		return &dns.TXT{Hdr: h, Txt: []string{"c02"}}
	case dns.TypeMX:
		return &dns.MX{Hdr: h, Preference: 10, Mx: "mail.invalid."}
	}
	return &dns.A{Hdr: h, A: net.IPv4(192, 0, 2, 1).To4()}
}

// signableAns: every entry is something the zone key can have signed.
func signableAns(gs []ansSig) bool {
	if len(gs) == 0 || len(gs) > len(ansTypes) {
		return false
	}
	for _, g := range gs {
		o := g.owner
		if len(o) == 0 || (len(o[0]) > 1 && o[0][0] == '*') {
			return false
		}
		eff := len(o)
		if o[0] == "*" {
			eff--
		}
		// Labels above the owner's own count cannot verify; Labels == len(o) for a `*` owner
		// is not what a signer writes either
		if g.labels > eff || len(o.wire()) > 240 {
			return false
		}
	}
	return true
}

func runAnswer(signer name, gs []ansSig, variant string, denial []dns.RR) (impl string, aerr error, ad bool, ok bool) {
	zone := signer.fold().pres()
	env := authEnvFor(zone)
	q := gs[0].owner
	req := new(dns.Msg)
	req.SetQuestion(q.pres(), ansTypes[0])
	req.SetEdns0(1232, true)
	req.CheckingDisabled = variant == "cd"
	resp := new(dns.Msg)
	resp.SetReply(req)
	resp.Authoritative = true
	for i, g := range gs {
		o := g.owner
		eff := len(o)
		if o[0] == "*" {
			eff--
		}
		signedAs := o
		if g.labels < eff {
			signedAs = o.suffix(g.labels).child("*")
		}
		rr := ansRR(signedAs.pres(), ansTypes[i])
		sig, err := authSign(env.key, []dns.RR{rr}, zone)
		if err != nil || int(sig.Labels) != g.labels {
			if err != nil {
				authWhy = err.Error()
			} else {
				authWhy = "labels"
			}
			return "", nil, false, false
		}
		rr.Header().Name, sig.Hdr.Name = o.pres(), o.pres()
		if variant == "badsig" && i == 0 {
			b := []byte(sig.Signature)
			if b[10] == 'A' {
				b[10] = 'B'
			} else {
				b[10] = 'A'
			}
			sig.Signature = string(b)
		}
		resp.Answer = append(resp.Answer, rr, sig)
	}
	ns, sigs, sok := signSection(env, zone, nil, denial, "good")
	if !sok {
		return "", nil, false, false
	}
	resp.Ns = append(ns, sigs...)
	got, err := resolver.VerifC02Answer(env.r, req, resp, env.ds, zone)
	if err != nil {
		return "servfail", err, false, true
	}
	if got.Rcode != dns.RcodeSuccess {
		return "rcode" + itoa(got.Rcode), nil, false, true
	}
	return "ok ad=" + vlib.B(got.AuthenticatedData), nil, got.AuthenticatedData, true
}

func execAnswer(f []string, nsec3 bool) vlib.Res {
	signer, gs, variant := parseName(f[2]), parseAnsSigs(f[3]), f[4]
	denial, fam := curRRs, "ans"
	if nsec3 {
		denial, fam = curRR3, "ans3"
	}
	if !signableAns(gs) || (!nsec3 && !signableNsec(curSet)) {
		return vlib.Res{Impl: "unsignable", Tags: "answer-entry"}
	}
	impl, aerr, ad, ok := runAnswer(signer, gs, variant, denial)
	if !ok {
		return vlib.Res{Impl: "unsignable", Tags: strings.ReplaceAll(authWhy, " ", "_")}
	}
	res := vlib.Res{Impl: impl, Tags: fam + "," + variant, Oracle: "ok"}
	expansion := false
	for _, g := range gs {
		if g.labels < len(g.owner) {
			expansion = true
		}
	}
	if expansion {
		res.Tags += ",expansion"
	}
	if aerr != nil {
		res.Tags += ",ans-refused"
	} else {
		res.Tags += ",nt,ans-passed"
		if ad {
			res.Tags += ",ans-ad"
		}
	}
	// the wildcard validator called directly on what answer() is supposed to hand it:
	// the authority section filtered to the signer zone
	wr := wildResponse(gs, signer.fold())
	wr.Ns = dnsutil.FilterRRsToZone(denial, signer.fold().pres())
	secure, werr := dnssec.VerifyWildcardAnswerForZoneWithWork(wr, signer.fold().pres(), nil)
	inZone := true
	for _, g := range gs {
		if !g.owner.fold().under(signer.fold()) {
			inZone = false
		}
	}
	switch {
	case variant == "cd":
		if aerr == nil && ad {
			res.Oracle = "FAIL sig=ans/cd-response-authenticated"
		}
	case variant == "badsig" || foreignClass(denial, signer) || !inZone:
		if aerr == nil && ad {
			res.Oracle = "FAIL sig=ans/unverified-answer-authenticated"
		}
	case aerr == nil && werr != nil:
		res.Oracle = "FAIL sig=ans/wildcard-expansion-accepted-without-denial direct=" + errStr(werr)
	case aerr != nil && werr == nil:
		res.Oracle = "FAIL sig=ans/proven-expansion-refused err=" + strings.ReplaceAll(aerr.Error(), " ", "_")
	case aerr == nil && ad != secure:
		res.Oracle = "FAIL sig=ans/ad-differs-from-proof-security"
	case aerr == nil && ad && !nsec3 && judged(signer):
		if why := wildTruth(curZone, gs); why != "" && why != "unjudged" {
			res.Oracle = "FAIL sig=ans/wildcard/" + why
		}
	}
	return res
}
