//go:build verif

package main

import "fmt"

// genExhaustive: thorough tier.  Every zone with apex "z" and at most two
// further owners drawn from all names of depth <= 3 over the label alphabet
// {a, b, *}, every assignment of a node kind (data, CNAME-only, insecure
// delegation, DNAME; wildcard owners: data / CNAME only), every non-empty
// subset of its NSEC chain, every question name of depth <= 3 (plus one
// label below every depth-3 name) with types A and DS: all three NSEC
// validators, the RFC 8198 classifier and the delegation check.
func genExhaustive(emit func(string)) {
	apex := name{"z"}
	labels := []string{"a", "b", "*"}
	var pool []name
	for _, l1 := range labels {
		pool = append(pool, apex.child(l1))
		for _, l2 := range labels {
			pool = append(pool, apex.child(l1).child(l2))
		}
	}
	var queries []name
	queries = append(queries, apex)
	queries = append(queries, pool...)
	for _, p := range pool {
		if len(p) == 3 {
			queries = append(queries, p.child("a"))
		}
	}
	kinds := [][]uint16{{tA}, {tCNAME}, {tNS}, {tDNAME}}
	kindsFor := func(n name) [][]uint16 {
		if n[0] == "*" {
			return kinds[:2]
		}
		return kinds
	}
	emitZone := func(owners []name, ks [][]uint16) {
		z := newZone(apex, 1)
		z.add(apex, authTypes(tSOA, tNS, tDNSKEY)...)
		for i, o := range owners {
			z.add(o, authTypes(ks[i]...)...)
		}
		emit("z new " + z.String())
		ch := z.chain()
		for mask := 1; mask < 1<<uint(len(ch)); mask++ {
			var set []rec
			for i, rc := range ch {
				if mask&(1<<uint(i)) != 0 {
					set = append(set, rc)
				}
			}
			emit("z set " + recsStr(set))
			for _, q := range queries {
				for _, t := range []uint16{tA, tDS} {
					emit(fmt.Sprintf("z nxd z %s %d", q, t))
					emit(fmt.Sprintf("z nod z %s %d", q, t))
					emit(fmt.Sprintf("z agg z %s %d 1", q, t))
				}
				emit(fmt.Sprintf("z dlg z %s", q))
			}
		}
	}
	emitZone(nil, nil)
	for i, o1 := range pool {
		for _, k1 := range kindsFor(o1) {
			emitZone([]name{o1}, [][]uint16{k1})
			for _, o2 := range pool[i+1:] {
				for _, k2 := range kindsFor(o2) {
					emitZone([]name{o1, o2}, [][]uint16{k1, k2})
				}
			}
		}
	}
}
