//go:build verif

package main

func genExhaustive(emit func(string)) {}
