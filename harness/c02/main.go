//go:build verif

// Correspondence driver for C02 (denial of existence accepted or synthesised
// only when proven): real dnssec.Verify*NSEC / EvaluateAggressiveNSEC* /
// NSEC3 validators, dnsname.CanonicalCompare, dnsutil.NameInZone /
// FilterRRsToZone and the cache admission guard, next to an independent zone
// model (zone.go) that is the oracle.
package main

import (
	"errors"
	"fmt"
	"strings"

	"github.com/miekg/dns"
	"github.com/semihalev/sdns/internal/dnsname"
	"github.com/semihalev/sdns/internal/dnsutil"
	"github.com/semihalev/sdns/internal/verif/vlib"
	"github.com/semihalev/sdns/middleware/resolver/dnssec"
)

func errStr(err error) string {
	switch {
	case err == nil:
		return "ok"
	case errors.Is(err, dnssec.ErrNSECTypeExists):
		return "typeexists"
	case errors.Is(err, dnssec.ErrNSECBadDelegation):
		return "baddeleg"
	case errors.Is(err, dnssec.ErrNSECNSMissing):
		return "nsmissing"
	case errors.Is(err, dnssec.ErrNSECOptOut):
		return "optout"
	case errors.Is(err, dnssec.ErrNSECMissingCoverage):
		return "missing"
	case errors.Is(err, dnssec.ErrWildcardNoDenial):
		return "nodenial"
	}
	return "other:" + strings.ReplaceAll(err.Error(), " ", "_")
}

// fromPres parses a presentation name back into labels (through miekg's packer).
func fromPres(s string) name {
	buf := make([]byte, 300)
	end, err := dns.PackDomainName(dns.Fqdn(s), buf, 0, nil, false)
	if err != nil {
		panic("pack " + s + ": " + err.Error())
	}
	var out name
	for off := 0; off < end; {
		l := int(buf[off])
		off++
		if l == 0 {
			break
		}
		out = append(out, string(buf[off:off+l]))
		off += l
	}
	return out
}

var (
	curZone *zone
	curSet  []rec
	curRRs  []dns.RR
)

func toNSEC(r rec) *dns.NSEC {
	return &dns.NSEC{
		Hdr:        dns.RR_Header{Name: r.owner.pres(), Rrtype: dns.TypeNSEC, Class: r.cls, Ttl: 300},
		NextDomain: r.next.pres(),
		TypeBitMap: append([]uint16(nil), r.types...),
	}
}

func question(q name, t, c uint16, rcode int) *dns.Msg {
	m := new(dns.Msg)
	m.SetQuestion(q.pres(), t)
	m.Question[0].Qclass = c
	m.Response = true
	m.Rcode = rcode
	return m
}

func idxOf(rrs []dns.RR, rr dns.RR) int {
	for i, x := range rrs {
		if x == rr {
			return i
		}
	}
	return -1
}

func idxList(all []dns.RR, sel []dns.RR) string {
	if len(sel) == 0 {
		return "-"
	}
	parts := make([]string, len(sel))
	for i, rr := range sel {
		parts[i] = itoa(idxOf(all, rr))
	}
	return strings.Join(parts, ",")
}

// judged reports whether the oracle may judge the current record set for
// this signer: genuine chain subset + out-of-zone pollution, signer = apex.
func judged(signer name) bool {
	return curZone != nil && signer.fold().eq(curZone.apex) && curZone.judgeable(curSet)
}

func aggResult(res dnssec.AggressiveNegativeResult, err error, all []dns.RR) string {
	if err != nil {
		return errStr(err)
	}
	v := "rcode" + itoa(res.Rcode)
	switch res.Rcode {
	case dns.RcodeNameError:
		v = "nx"
	case dns.RcodeSuccess:
		v = "nodata"
	}
	return v + " p=" + idxList(all, res.Proof)
}

func exec(op string) vlib.Res {
	f := strings.Fields(op)
	if len(f) < 2 {
		return vlib.Res{Impl: "bad-op"}
	}
	switch f[0] {
	case "z":
		return execNsec(f)
	case "h":
		return execNsec3(f)
	case "adm":
		return execAdm(f)
	case "exp":
		return execExp(f)
	case "p":
		return execProbe(f)
	}
	return vlib.Res{Impl: "bad-op"}
}

func execNsec(f []string) vlib.Res {
	switch f[1] {
	case "new":
		curZone = parseZone(f[2], f[3], f[4])
		curSet, curRRs = nil, nil
		return vlib.Res{Impl: "chain=" + recsStr(curZone.chain())}
	case "set":
		curSet = parseRecs(f[2])
		curRRs = nil
		for _, r := range curSet {
			curRRs = append(curRRs, toNSEC(r))
		}
		return vlib.Res{Impl: "n=" + itoa(len(curSet))}
	case "auth":
		return execAuthNsec(f)
	case "authu":
		return execAuthUnsigned(f, false)
	case "ans":
		return execAnswer(f, false)
	case "truth":
		c, _ := curZone.answerClass(parseName(f[2]), uint16(atoi(f[3])))
		return vlib.Res{Impl: c}
	case "cmp":
		a, b := parseName(f[2]), parseName(f[3])
		got := dnsname.CanonicalCompare(a.pres(), b.pres())
		or := "ok"
		if got != canonCmp(a, b) {
			or = fmt.Sprintf("FAIL sig=cmp/canonical-order want=%d got=%d", canonCmp(a, b), got)
		}
		if got2 := dnsname.CanonicalCompare(strings.TrimSuffix(a.pres(), "."), b.pres()); len(a) > 0 && got2 != got {
			or = "FAIL sig=cmp/unrooted-differs"
		}
		return vlib.Res{Impl: itoa(got), Oracle: or, Tags: "nt"}
	case "covers":
		o, n, q := parseName(f[2]), parseName(f[3]), parseName(f[4])
		got := dnssec.VerifC02NsecCovers(o.pres(), n.pres(), q.pres())
		// RFC 4034 section 4.1.1 read directly: the span owner..next in canonical order,
		// the last record wrapping to the apex; owner == next is the whole circle.
		on, qo, qn := canonCmp(o, n), canonCmp(q, o), canonCmp(q, n)
		var want bool
		switch {
		case on == 0:
			want = qo != 0
		case on < 0:
			want = qo > 0 && qn < 0
		default:
			want = qo > 0 || qn < 0
		}
		or := "ok"
		if got != want {
			or = fmt.Sprintf("FAIL sig=covers/%s", map[bool]string{true: "widened", false: "narrowed"}[got])
		}
		return vlib.Res{Impl: vlib.B(got), Oracle: or, Tags: "nt"}
	case "ce":
		q, o, n := parseName(f[2]), parseName(f[3]), parseName(f[4])
		got := dnssec.VerifC02ClosestEncloserFromNSEC(q.pres(), toNSEC(rec{owner: o, next: n, cls: 1}))
		return vlib.Res{Impl: fromPres(got).String(), Tags: "nt"}
	case "inzone":
		nm, zn := parseName(f[2]), parseName(f[3])
		got := dnsutil.NameInZone(dns.CanonicalName(nm.pres()), dns.CanonicalName(zn.pres()))
		or := "ok"
		if got != nm.fold().under(zn.fold()) {
			or = fmt.Sprintf("FAIL sig=inzone/%s", map[bool]string{true: "widened", false: "narrowed"}[got])
		}
		return vlib.Res{Impl: vlib.B(got), Oracle: or, Tags: "nt"}
	case "filter":
		zn := parseName(f[2])
		kept := dnsutil.FilterRRsToZone(curRRs, zn.pres())
		or := "ok"
		for i, r := range curSet {
			in := r.owner.fold().under(zn.fold()) && r.next.fold().under(zn.fold())
			if in != (idxOf(kept, curRRs[i]) >= 0) {
				or = fmt.Sprintf("FAIL sig=filter/%s idx=%d", map[bool]string{true: "out-of-zone-kept", false: "in-zone-dropped"}[!in], i)
			}
		}
		return vlib.Res{Impl: idxList(curRRs, kept), Oracle: or, Tags: "nt"}
	case "nxd", "nod":
		// the call sequence of Resolver.authority: ValidateSigner(signer, qname),
		// FilterRRsToZone(.., signer), then the validator.
		signer, q, t := parseName(f[2]), parseName(f[3]), uint16(atoi(f[4]))
		if dnssec.ValidateSigner(signer.pres(), q.pres()) != nil {
			or := "ok"
			if q.fold().under(signer.fold()) {
				or = "FAIL sig=signer/in-zone-name-refused"
			}
			return vlib.Res{Impl: "notsigner", Oracle: or}
		}
		set := dnsutil.FilterRRsToZone(curRRs, signer.pres())
		var err error
		entry := "nameerror"
		if f[1] == "nxd" {
			err = dnssec.VerifyNameErrorNSEC(question(q, t, dns.ClassINET, dns.RcodeNameError), set)
		} else {
			entry = "nodata"
			err = dnssec.VerifyNODATANSEC(question(q, t, dns.ClassINET, dns.RcodeSuccess), set)
		}
		res := vlib.Res{Impl: errStr(err), Oracle: "-"}
		if judged(signer) {
			res.Oracle = "ok"
			truth, why := curZone.answerClass(q, t)
			if err == nil {
				res.Tags = "nt,accepted," + why
				want := map[string]string{"nxd": "nxdomain", "nod": "nodata"}[f[1]]
				if truth != want {
					reason := why
					if why == "wildcard-ent" {
						reason = "ent" // same missing test (next name below the denied name), on the wildcard
					}
					res.Oracle = fmt.Sprintf("FAIL sig=nsec/%s/%s-accepted truth=%s why=%s", entry, reason, truth, why)
				}
			} else {
				res.Tags = "rejected," + why
			}
		} else {
			res.Tags = "unjudged"
		}
		return res
	case "dlg":
		signer, d := parseName(f[2]), parseName(f[3])
		set := dnsutil.FilterRRsToZone(curRRs, signer.pres())
		err := dnssec.VerifyDelegationNSEC(d.pres(), set)
		res := vlib.Res{Impl: errStr(err), Oracle: "-", Tags: "unjudged"}
		if judged(signer) {
			res.Oracle, res.Tags = "ok", "rejected"
			if err == nil {
				res.Tags = "nt,accepted"
				nd := curZone.find(d.fold())
				switch {
				case nd == nil:
					res.Oracle = "FAIL sig=nsec/delegation/no-such-owner-accepted"
				case !nd.isDeleg():
					res.Oracle = "FAIL sig=nsec/delegation/not-a-delegation-accepted"
				case nd.types[tDS]:
					res.Oracle = "FAIL sig=nsec/delegation/ds-present-accepted"
				}
			}
		}
		return res
	case "dname":
		q, ds := parseName(f[2]), parseDnames(f[3])
		m := question(q, dns.TypeA, dns.ClassINET, dns.RcodeSuccess)
		m.Answer = dnameRRs(ds)
		got := dnsutil.DnameTarget(m)
		impl := "-"
		if got != "" {
			impl = fromPres(got).fold().String()
		}
		// RFC 6672 2.2 written out: only names strictly below the owner are redirected
		or := "ok"
		if len(ds) > 0 {
			o := ds[0][0].fold()
			below := len(q) > len(o) && len(o) > 0 && q.fold().under(o)
			if (got != "") != below {
				or = "FAIL sig=dname/target/" + map[bool]string{true: "rewrote-name-not-below-owner", false: "missed-name-below-owner"}[got != ""]
			}
		} else if got != "" {
			or = "FAIL sig=dname/target/rewrote-without-dname"
		}
		return vlib.Res{Impl: impl, Oracle: or, Tags: "nt"}
	case "nxdd", "nodd":
		// the exact validators on a response that carries a DNAME in its answer section
		signer, q, t, ds := parseName(f[2]), parseName(f[3]), uint16(atoi(f[4])), parseDnames(f[5])
		if dnssec.ValidateSigner(signer.pres(), q.pres()) != nil {
			return vlib.Res{Impl: "notsigner", Oracle: "ok"}
		}
		set := dnsutil.FilterRRsToZone(curRRs, signer.pres())
		rcode := dns.RcodeNameError
		if f[1] == "nodd" {
			rcode = dns.RcodeSuccess
		}
		m := question(q, t, dns.ClassINET, rcode)
		m.Answer = dnameRRs(ds)
		var err error
		entry := "nameerror"
		if f[1] == "nxdd" {
			err = dnssec.VerifyNameErrorNSEC(m, set)
		} else {
			entry = "nodata"
			err = dnssec.VerifyNODATANSEC(m, set)
		}
		res := vlib.Res{Impl: errStr(err), Oracle: "-", Tags: "unjudged,dname"}
		if judged(signer) {
			// the name actually denied: the redirected one when the first DNAME applies
			pn := q.fold()
			if len(ds) > 0 {
				o := ds[0][0].fold()
				if len(pn) > len(o) && len(o) > 0 && pn.under(o) {
					pn = append(append(name{}, pn[:len(pn)-len(o)]...), ds[0][1].fold()...)
				}
			}
			res.Oracle, res.Tags = "ok", "rejected,dname"
			if !pn.under(curZone.apex) {
				// the rewritten name left the validated signer zone: nothing the
				// pipeline can present (authority() is only entered with an empty
				// answer section) — observed and tagged, not judged (see notes, "Noticed")
				res.Oracle, res.Tags = "-", "unjudged,dname,dname-target-outside-signer"
				if err == nil {
					res.Tags += ",accepted"
				}
				return res
			}
			if err == nil {
				res.Tags = "nt,accepted,dname"
				truth, why := curZone.answerClass(pn, t)
				want := map[string]string{"nxdd": "nxdomain", "nodd": "nodata"}[f[1]]
				if truth != want {
					res.Oracle = fmt.Sprintf("FAIL sig=nsec/%s/dname-%s-accepted truth=%s", entry, why, truth)
				}
			}
		}
		return res
	case "wild":
		// a positive answer whose RRSIGs claim wildcard expansion, as Resolver.answer
		// handles it: authority section filtered to the signer, then VerifyWildcardAnswerForZoneWithWork
		signer, sigs := parseName(f[2]), parseAnsSigs(f[3])
		resp := wildResponse(sigs, signer)
		resp.Ns = dnsutil.FilterRRsToZone(curRRs, signer.pres())
		secure, err := dnssec.VerifyWildcardAnswerForZoneWithWork(resp, signer.pres(), nil)
		res := vlib.Res{Impl: secStr(secure, err), Oracle: "-", Tags: "unjudged"}
		if judged(signer) {
			res.Oracle, res.Tags = "ok", "rejected"
			if err == nil {
				res.Tags = "nt,accepted"
				if why := wildTruth(curZone, sigs); why == "unjudged" {
					res.Oracle, res.Tags = "-", "unjudged,accepted"
				} else if why != "" {
					res.Oracle = "FAIL sig=wild/answer/" + why
				}
			}
		}
		return res
	case "agg":
		signer, q, t, c := parseName(f[2]), parseName(f[3]), uint16(atoi(f[4])), uint16(atoi(f[5]))
		dq := dns.Question{Name: q.pres(), Qtype: t, Qclass: c}
		r1, e1 := dnssec.EvaluateAggressiveNSEC(dq, signer.pres(), curRRs)
		got := aggResult(r1, e1, curRRs)
		res := vlib.Res{Impl: got, Oracle: "-", Tags: "unjudged"}
		// the Prepared / Set entry points must reach the same verdict
		var prepared []dnssec.PreparedNSEC
		var perr error
		for _, rr := range curRRs {
			p, err := dnssec.PrepareAggressiveNSEC(rr.(*dns.NSEC))
			if err != nil {
				perr = err
				break
			}
			prepared = append(prepared, p)
		}
		variants := ""
		if perr == nil {
			r2, e2 := dnssec.EvaluateAggressiveNSECPrepared(dq, signer.pres(), prepared)
			if g := aggResult(r2, e2, curRRs); g != got {
				variants = "prepared=" + g
			}
			set, serr := dnssec.NewAggressiveNSECSet(prepared, signer.pres())
			if serr == nil {
				r3, e3 := dnssec.EvaluateAggressiveNSECSet(dq, set)
				if g := aggResult(r3, e3, curRRs); g != got {
					variants += " set=" + g
				}
			} else if e1 == nil {
				variants += " set-construction=" + errStr(serr)
			}
		} else if e1 == nil {
			variants = "prepare=" + errStr(perr)
		}
		if judged(signer) {
			res.Oracle, res.Tags = "ok", "rejected"
			truth, why := curZone.answerClass(q, t)
			if e1 == nil {
				res.Tags = "nt,accepted," + why
				want := "nodata"
				if r1.Rcode == dns.RcodeNameError {
					want = "nxdomain"
				}
				if c != curZone.cls {
					res.Oracle = fmt.Sprintf("FAIL sig=agg/%s/wrong-class", want)
				} else if truth != want {
					res.Oracle = fmt.Sprintf("FAIL sig=agg/%s/%s truth=%s", want, why, truth)
				} else if want == "nodata" && !nodataTypeOK(t) {
					res.Oracle = "FAIL sig=agg/nodata/meta-type"
				}
			}
		}
		if variants != "" {
			res.Oracle = "FAIL sig=agg/variants-differ plain=" + got + " " + variants
		}
		return res
	}
	return vlib.Res{Impl: "bad-op"}
}

func parseDnames(s string) [][2]name {
	var out [][2]name
	if s == "-" {
		return out
	}
	for _, p := range strings.Split(s, ";") {
		o, t, _ := strings.Cut(p, ">")
		out = append(out, [2]name{parseName(o), parseName(t)})
	}
	return out
}

func dnameRRs(ds [][2]name) []dns.RR {
	var out []dns.RR
	for _, d := range ds {
		out = append(out, &dns.DNAME{Hdr: dns.RR_Header{Name: d[0].pres(), Rrtype: dns.TypeDNAME, Class: dns.ClassINET, Ttl: 300}, Target: d[1].pres()})
	}
	return out
}

func dnamesStr(ds [][2]name) string {
	if len(ds) == 0 {
		return "-"
	}
	parts := make([]string, len(ds))
	for i, d := range ds {
		parts[i] = d[0].String() + ">" + d[1].String()
	}
	return strings.Join(parts, ";")
}

type ansSig struct {
	owner  name
	labels int
}

func parseAnsSigs(s string) []ansSig {
	var out []ansSig
	if s == "-" {
		return out
	}
	for _, p := range strings.Split(s, ";") {
		o, l, _ := strings.Cut(p, ":")
		out = append(out, ansSig{owner: parseName(o), labels: atoi(l)})
	}
	return out
}

func ansSigsStr(gs []ansSig) string {
	if len(gs) == 0 {
		return "-"
	}
	parts := make([]string, len(gs))
	for i, g := range gs {
		parts[i] = g.owner.String() + ":" + itoa(g.labels)
	}
	return strings.Join(parts, ";")
}

// wildResponse: an answer section with one A RRset + RRSIG per entry.
func wildResponse(gs []ansSig, signer name) *dns.Msg {
	m := new(dns.Msg)
	q := name{"q"}
	if len(gs) > 0 {
		q = gs[0].owner
	}
	m.SetQuestion(q.pres(), dns.TypeA)
	m.Response = true
	for _, g := range gs {
		o := g.owner.pres()
		m.Answer = append(m.Answer,
			&dns.A{Hdr: dns.RR_Header{Name: o, Rrtype: dns.TypeA, Class: dns.ClassINET, Ttl: 300}, A: []byte{192, 0, 2, 1}},
			&dns.RRSIG{Hdr: dns.RR_Header{Name: o, Rrtype: dns.TypeRRSIG, Class: dns.ClassINET, Ttl: 300}, TypeCovered: dns.TypeA,
				Algorithm: dns.RSASHA256, Labels: uint8(g.labels), OrigTtl: 300, Expiration: 2000000000, Inception: 1000000000,
				KeyTag: 1, SignerName: signer.pres(), Signature: "AA=="})
	}
	return m
}

// wildTruth: RFC 4035 5.3.4 / RFC 4592 read directly.  An RRSIG with fewer
// Labels than its owner claims the RRset was synthesised from
// *.<closest encloser>; that is only possible when the zone has no closer
// match: the next closer name (and so the owner) is not in the zone's tree and
// not below a cut.  Returns the reason an accepted answer is wrong, or "".
//
// Only signatures the zone can really have produced are judged: the RRSIG was
// verified before this check runs, so *.<closest encloser> is an authoritative
// owner of the zone (what an attacker can replay is a GENUINE wildcard
// signature); "unjudged" otherwise.
func wildTruth(z *zone, gs []ansSig) string {
	for _, g := range gs {
		o := g.owner.fold()
		if g.labels >= len(o) {
			continue
		}
		if g.labels < len(z.apex) || !o.under(z.apex) || z.find(o.suffix(g.labels).child("*")) == nil {
			return "unjudged"
		}
		nc := o.suffix(g.labels + 1)
		switch {
		case !nc.under(z.apex):
			return "next-closer-outside-zone"
		case z.find(nc) != nil:
			return "closer-match-exists"
		case z.isENT(nc):
			return "next-closer-is-ent"
		case z.find(o) != nil:
			return "existing-name-expanded"
		case z.occluded(nc):
			return "below-cut-expanded"
		}
	}
	return ""
}

// nodataTypeOK: types for which a NODATA answer may be synthesised at all
// (RFC 8198 speaks of ordinary data types; meta types / QTYPEs 249-255, OPT
// and the reserved type 0 never have "no data of that type").
func nodataTypeOK(t uint16) bool {
	return !(t == 0 || t == 41 || (t >= 249 && t <= 255))
}

func facts() map[string]any {
	var exc []int
	for t := 0; t < 65536; t++ {
		if !dnssec.VerifC02NODATAType(uint16(t)) {
			exc = append(exc, t)
		}
	}
	// largest iteration count nsec3Safe accepts (searched over the full field)
	maxSafe := -1
	for it := 0; it < 65536; it++ {
		if dnssec.VerifC02NSEC3Safe(&dns.NSEC3{Hash: dns.SHA1, Iterations: uint16(it)}) {
			maxSafe = it
		}
	}
	var safeFlags, safeAlgs []int
	for fl := 0; fl < 256; fl++ {
		if dnssec.VerifC02NSEC3Safe(&dns.NSEC3{Hash: dns.SHA1, Flags: uint8(fl)}) {
			safeFlags = append(safeFlags, fl)
		}
		if dnssec.VerifC02NSEC3Safe(&dns.NSEC3{Hash: uint8(fl)}) {
			safeAlgs = append(safeAlgs, fl)
		}
	}
	m := map[string]any{
		"nodata_exceptions":     exc,
		"max_nsec3_iterations":  dnssec.VerifC02MaxNSEC3Iterations(),
		"max_safe_iterations":   maxSafe,
		"typesset_mismatches":   typesSetMismatches(),
		"nsec3_safe_flags":      safeFlags,
		"nsec3_safe_algorithms": safeAlgs,
	}
	for k, v := range admFacts() {
		m[k] = v
	}
	return m
}

func main() { vlib.Main(&vlib.Driver{Facts: facts, Exec: exec, Gen: gen}) }

// typesSetMismatches: every 16-bit RR type t for which the real typesSet is not
// plain membership on a battery around t: {t} must contain t (alone, and next to
// another wanted type), and must not contain the types a word-sized or windowed
// bit trick would confuse it with (t^64, t+-64, t mod 64, t+-256, t mod 256).
func typesSetMismatches() []int {
	out := []int{}
	for t := 0; t < 65536; t++ {
		tt := uint16(t)
		bad := !dnssec.VerifC02TypesSet([]uint16{tt}, tt) || !dnssec.VerifC02TypesSet([]uint16{1, tt}, 5, tt) ||
			!dnssec.VerifC02TypesSet([]uint16{tt, 65535 - tt}, tt)
		for _, o := range []uint16{tt ^ 64, tt + 64, tt - 64, tt % 64, tt + 256, tt - 256, tt % 256} {
			if o != tt && dnssec.VerifC02TypesSet([]uint16{tt}, o) {
				bad = true
			}
		}
		if bad {
			out = append(out, t)
		}
	}
	return out
}
