//go:build verif

package main

import (
	"fmt"
	"strings"

	"github.com/semihalev/sdns/internal/verif/vlib"
)

var plainLabels = []string{"a", "b", "c", "d", "m", "x", "z", "ab", "a0", "-", "_x", "0", "zz", "sub", "www", "ns", "b-"}
var oddLabels = []string{"A", "B", "Ab", "\x00", "\xff", "a.b", ".", "\\", " ", "a\\", "**", "\xc3\xa9", "@", "a b", "Z", "[", "`", "{", "\x41\x00", "*a",
	strings.Repeat("k", 63)}

// foldOctets: octets around every boundary a case-folding routine could get
// wrong (RFC 4034 6.1 folds US-ASCII letters ONLY): the ASCII letter block and
// its neighbours, and the Latin-1 "letters" 0xC0-0xDE / 0xE0-0xFE that
// unicode-aware folds also map onto each other.
var foldOctets = []byte{0x00, 0x1f, 0x20, 0x2e, 0x3f, 0x40, 0x41, 0x4d, 0x5a, 0x5b, 0x5c, 0x5f, 0x60, 0x61, 0x6d, 0x7a, 0x7b, 0x7f,
	0x80, 0x8a, 0x9a, 0x9f, 0xa0, 0xaa, 0xb5, 0xba, 0xbf, 0xc0, 0xc8, 0xd0, 0xd6, 0xd7, 0xd8, 0xde, 0xdf, 0xe0, 0xe6, 0xe8, 0xf0, 0xf6, 0xf7, 0xf8, 0xfa, 0xfe, 0xff}

// binaryZone: the zone under construction draws its labels from raw octets
// (set per zone by genZone).
var binaryZone bool

func binLabel(r *vlib.R) string {
	n := 1
	if r.Chance(1, 4) {
		n = 2
	}
	b := make([]byte, n)
	for i := range b {
		if r.Chance(1, 4) {
			b[i] = byte(r.Intn(256))
		} else {
			b[i] = vlib.Pick(r, foldOctets)
		}
	}
	return string(b)
}

func genLabel(r *vlib.R) string {
	if binaryZone && r.Chance(4, 5) {
		return binLabel(r)
	}
	if r.Chance(1, 6) {
		return vlib.Pick(r, oddLabels)
	}
	return vlib.Pick(r, plainLabels)
}

// authTypes: the bitmap of an authoritative owner, in wire (ascending) order.
func authTypes(extra ...uint16) []uint16 {
	m := map[uint16]bool{tRRSIG: true, tNSEC: true}
	for _, t := range extra {
		m[t] = true
	}
	return sortedTypes(m)
}

func dataTypes(r *vlib.R) []uint16 {
	switch r.Intn(12) {
	// RR type codes of 64 and above (SVCB, HTTPS, SPF, URI, CAA, a private-use one): beyond one machine
	// word of a bit mask, in further windows of the wire bitmap
	case 8:
		return []uint16{tA, 65}
	case 9:
		return []uint16{257}
	case 10:
		return []uint16{64, 99, 256}
	case 11:
		return []uint16{tTXT, 65, 65280}
	case 0:
		return []uint16{tA, tAAAA}
	case 1:
		return []uint16{tTXT}
	case 2:
		return []uint16{tMX, tA}
	case 3:
		return []uint16{tCNAME}
	case 4:
		return []uint16{tAAAA}
	case 5:
		return []uint16{tA, tTXT, tMX}
	}
	return []uint16{tA}
}

func genZone(r *vlib.R) *zone {
	binaryZone = r.Chance(1, 7)
	apexes := []string{"example", "ex.test", "z", "a.b.c", "~41.org", "x.y"}
	z := newZone(parseName(vlib.Pick(r, apexes)), 1)
	at := []uint16{tSOA, tNS, tDNSKEY}
	if r.Chance(1, 3) {
		at = append(at, tA)
	}
	if r.Chance(1, 4) {
		at = append(at, tMX)
	}
	if r.Chance(1, 40) {
		at = append(at, tDNAME)
	}
	z.add(z.apex, authTypes(at...)...)
	n := r.Intn(11)
	if r.Chance(1, 12) {
		n = 0
	}
	for i := 0; i < n; i++ {
		par := vlib.Pick(r, z.nodes).n
		if len(par) >= 5 {
			par = z.apex
		}
		switch k := r.Intn(100); {
		case k < 50:
			z.add(par.child(genLabel(r)), authTypes(dataTypes(r)...)...)
		case k < 62:
			if len(par) > 0 && par[0] == "*" {
				par = z.apex
			}
			z.add(par.child("*"), authTypes(dataTypes(r)...)...)
		case k < 78:
			d := par.child(genLabel(r))
			if d[0] == "*" || z.byKey[d.key()] != nil {
				continue
			}
			ts := []uint16{tNS}
			if r.Chance(2, 5) {
				ts = append(ts, tDS)
			}
			z.add(d, authTypes(ts...)...)
			if r.Chance(1, 2) {
				z.add(d.child("ns"), tA)
			}
			if r.Chance(1, 4) {
				z.add(d.child(genLabel(r)).child(genLabel(r)), tA, tAAAA)
			}
		case k < 84:
			d := par.child(genLabel(r))
			if d[0] == "*" || z.byKey[d.key()] != nil {
				continue
			}
			z.add(d, authTypes(tDNAME)...)
			if r.Chance(1, 3) {
				z.add(d.child(genLabel(r)), authTypes(tA)...)
			}
		default:
			// two or three labels at once: leaves empty non-terminals behind
			d := par.child(genLabel(r)).child(genLabel(r))
			if r.Chance(1, 3) {
				d = d.child(genLabel(r))
			}
			if r.Chance(1, 6) {
				d = par.child("*").child(genLabel(r))
			}
			if len(d) > 6 {
				continue
			}
			z.add(d, authTypes(dataTypes(r)...)...)
		}
	}
	return z
}

// tree returns every name of the zone's tree: nodes (occluded ones too) and
// their ancestors down to the apex.
func (z *zone) tree() []name {
	seen := map[string]bool{}
	var out []name
	for _, nd := range z.nodes {
		for k := len(z.apex); k <= len(nd.n); k++ {
			a := nd.n.suffix(k)
			if !seen[a.key()] {
				seen[a.key()] = true
				out = append(out, a)
			}
		}
	}
	return out
}

func tweak(r *vlib.R, l string) string {
	if len(l) >= 63 {
		l = l[:62]
	}
	b := []byte(l)
	if binaryZone && r.Chance(1, 2) {
		// the octet a wrong fold would confuse it with
		switch r.Intn(3) {
		case 0:
			b[len(b)-1] ^= 0x20
		case 1:
			b[len(b)-1] += 0x20
		default:
			b[len(b)-1] -= 0x20
		}
		return string(b)
	}
	switch r.Intn(6) {
	case 0:
		return l + "0"
	case 1:
		return l + "\x00"
	case 2:
		if len(b) > 1 {
			return string(b[:len(b)-1])
		}
		return "0"
	case 3:
		b[len(b)-1]++
		return string(b)
	case 4:
		if b[len(b)-1] > 0 {
			b[len(b)-1]--
		}
		return string(b)
	}
	return "!" + l
}

// genQuery: a query name around the zone, never longer than the wire limit.
func genQuery(r *vlib.R, z *zone) name {
	q := genQuery0(r, z)
	for len(q.wire()) > 255 {
		q = q[1:]
	}
	return q
}

func genQuery0(r *vlib.R, z *zone) name {
	tr := z.tree()
	p := vlib.Pick(r, tr)
	switch k := r.Intn(100); {
	case k < 22:
		return p
	case k < 50:
		return p.child(genLabel(r))
	case k < 62:
		return p.child(genLabel(r)).child(genLabel(r))
	case k < 80:
		if len(p) > len(z.apex) {
			return p.parent().child(tweak(r, p[0]))
		}
		return p.child(tweak(r, "a"))
	case k < 86:
		return p.child("*")
	case k < 90:
		return z.apex
	case k < 94:
		// out of zone: sibling of the apex / parent / root
		switch r.Intn(3) {
		case 0:
			if len(z.apex) > 0 {
				return z.apex.parent().child(tweak(r, z.apex[0]))
			}
		case 1:
			if len(z.apex) > 0 {
				return z.apex.parent()
			}
		}
		return name{}
	}
	q := p
	for i := 0; i < 1+r.Intn(3); i++ {
		q = q.child(genLabel(r))
	}
	return q
}

func flipCase(r *vlib.R, n name) name {
	out := make(name, len(n))
	for i, l := range n {
		b := []byte(l)
		for j, c := range b {
			if c >= 'a' && c <= 'z' && r.Chance(1, 2) {
				b[j] = c - 32
			}
		}
		out[i] = string(b)
	}
	return out
}

var qtypes = []uint16{64, 65, 256, 257, tA, tA, tA, tAAAA, tNS, tCNAME, tSOA, tMX, tTXT, tDS, tDS, tDNAME, tNSEC, tRRSIG, tDNSKEY, 255, 0, 41, 250, 252, 65280, 99}

// relevant: the chain records a correct proof about q would use (computed
// from the oracle's own order, not from the code under test).
func relevant(z *zone, ch []rec, q name) []rec {
	q = q.fold()
	var out []rec
	cov := func(rc rec, x name) bool {
		on, xo, xn := canonCmp(rc.owner, rc.next), canonCmp(x, rc.owner), canonCmp(x, rc.next)
		switch {
		case on == 0:
			return xo != 0
		case on < 0:
			return xo > 0 && xn < 0
		}
		return xo > 0 || xn < 0
	}
	w := name{"*"}
	if q.under(z.apex) && len(q) > 0 {
		w = z.closestEncloser(q).child("*")
	}
	for _, rc := range ch {
		if rc.owner.eq(q) || cov(rc, q) || rc.owner.eq(w) || cov(rc, w) {
			out = append(out, rc)
		}
	}
	return out
}

func genSet(r *vlib.R, z *zone, q name) []rec {
	ch := z.chain()
	var set []rec
	switch k := r.Intn(100); {
	case k < 38:
		set = relevant(z, ch, q)
		for _, rc := range ch {
			if r.Chance(1, 5) {
				set = append(set, rc)
			}
		}
	case k < 55:
		set = append(set, ch...)
	case k < 80:
		for _, rc := range ch {
			if r.Bool() {
				set = append(set, rc)
			}
		}
	case k < 93:
		set = append(set, vlib.Pick(r, ch))
		if r.Bool() {
			set = append(set, vlib.Pick(r, ch))
		}
	}
	// dedupe by owner unless a duplicate is wanted
	if !r.Chance(1, 8) {
		seen := map[string]bool{}
		var d []rec
		for _, rc := range set {
			if !seen[rc.owner.key()] {
				seen[rc.owner.key()] = true
				d = append(d, rc)
			}
		}
		set = d
	}
	// pollution with records that are not the signer zone's
	if r.Chance(1, 4) && len(z.apex) > 0 {
		par := z.apex.parent()
		for i := 0; i < 1+r.Intn(2); i++ {
			switch r.Intn(5) {
			case 4: // a sibling whose last label merely ends in ".<apex label>" (escaped dot)
				t := trickName(z, "x")
				set = append(set, rec{owner: t, next: trickName(z, "y"), cls: 1, types: authTypes(tA)})
			case 0: // parent-zone record straddling the apex's subtree
				set = append(set, rec{owner: z.apex, next: par.child(z.apex[0] + "0"), cls: 1, types: authTypes(tNS, tDS)})
			case 1: // parent-zone record before the apex
				set = append(set, rec{owner: par, next: z.apex, cls: 1, types: authTypes(tSOA, tNS)})
			case 2: // sibling zone
				sib := par.child(tweak(r, z.apex[0]))
				set = append(set, rec{owner: sib.child("a"), next: sib.child("zzz"), cls: 1, types: authTypes(tA)})
			default: // in-zone owner, next escaped the zone
				set = append(set, rec{owner: q.fold(), next: par.child("zzzz"), cls: 1, types: authTypes(tA)})
			}
		}
	}
	// records replayed from a child zone (inside the signer's name space: only
	// the signature check can tell them apart; not judged by the oracle)
	if r.Chance(1, 12) {
		for _, nd := range z.nodes {
			if nd.isDeleg() {
				c := nd.n.child("a")
				set = append(set, rec{owner: nd.n, next: c, cls: 1, types: authTypes(tSOA, tNS, tDNSKEY)},
					rec{owner: c, next: nd.n, cls: 1, types: authTypes(tA)})
				break
			}
		}
	}
	// forged / damaged records (not judged either; they exercise the
	// consistency checks of the classifier against the model)
	if r.Chance(1, 9) && len(ch) > 0 {
		g := vlib.Pick(r, ch)
		switch r.Intn(6) {
		case 0:
			g.next = vlib.Pick(r, z.tree())
		case 1:
			g.types = []uint16{tA, tNS}
		case 2:
			g.owner, g.next = g.next, g.owner
		case 3:
			g.next = g.owner
		case 4:
			g.cls = 3
		default:
			g.owner = genQuery(r, z)
		}
		set = append(set, g)
	}
	// order and spelling
	for i := len(set) - 1; i > 0; i-- {
		j := r.Intn(i + 1)
		set[i], set[j] = set[j], set[i]
	}
	if r.Chance(1, 5) {
		for i := range set {
			set[i].owner, set[i].next = flipCase(r, set[i].owner), flipCase(r, set[i].next)
		}
	}
	return set
}

// trickName: a name OUTSIDE the zone whose presentation text ends with the
// zone's text: the apex's leaf label is glued into one label "<p>.<leaf>"
// (the dot is an octet of the label, written \. in presentation form).
func trickName(z *zone, p string) name {
	if len(z.apex) == 0 {
		return name{p}
	}
	if len(p)+1+len(z.apex[0]) > 63 {
		p = p[:63-1-len(z.apex[0])]
	}
	return z.apex.parent().child(p + "." + z.apex[0])
}

// genWildSigs: RRSIGs of a positive answer claiming wildcard expansion.  One to
// three RRsets; owners that really match a wildcard, owners that exist
// (a replayed wildcard signature), owners sharing one closest encloser, the
// same owner twice (dual-signed RRset), Labels at, above and below the true
// closest encloser, non-expanded RRSIGs in between.
func genWildSigs(r *vlib.R, z *zone) []ansSig {
	var out []ansSig
	first := genQuery(r, z).fold()
	if !first.under(z.apex) || len(first) <= len(z.apex) {
		first = z.apex.child(genLabel(r))
	}
	ce := z.closestEncloser(first)
	// most of the time: below an encloser that really has a wildcard (whose
	// signature can be replayed over anything below that encloser)
	var wilds []name
	for _, nd := range z.auth() {
		if nd.n[0] == "*" {
			wilds = append(wilds, nd.n.parent())
		}
	}
	if len(wilds) > 0 && r.Chance(3, 4) {
		ce = vlib.Pick(r, wilds)
		var below []name
		for _, t := range z.tree() {
			if len(t) > len(ce) && t.under(ce) {
				below = append(below, t)
			}
		}
		switch k := r.Intn(4); {
		case k == 0 && len(below) > 0:
			first = vlib.Pick(r, below) // an existing name / ENT / occluded name below the encloser
		case k == 1 && len(below) > 0:
			first = vlib.Pick(r, below).child(genLabel(r))
		default:
			first = ce.child(genLabel(r))
			if r.Bool() {
				first = first.child(genLabel(r))
			}
		}
	}
	labels := len(ce)
	switch r.Intn(8) {
	case 0:
		labels = len(z.apex) + r.Intn(len(first)-len(z.apex)+1)
	case 1:
		labels = len(first) // not expanded
	}
	out = append(out, ansSig{owner: first, labels: labels})
	n := r.Intn(3)
	for i := 0; i < n; i++ {
		var o name
		switch r.Intn(4) {
		case 0:
			o = first // dual-signed
		case 1:
			// an existing name below the same encloser (its signature is a replay)
			var cands []name
			for _, t := range z.tree() {
				if len(t) > labels && t.under(first.suffix(min(labels, len(first)))) {
					cands = append(cands, t)
				}
			}
			if len(cands) == 0 {
				continue
			}
			o = vlib.Pick(r, cands)
		case 2:
			o = first.suffix(min(labels, len(first))).child(genLabel(r))
		default:
			o = genQuery(r, z).fold()
		}
		l := labels
		if r.Chance(1, 6) {
			l = len(o)
		}
		out = append(out, ansSig{owner: o, labels: l})
	}
	if r.Bool() {
		for i := len(out) - 1; i > 0; i-- {
			j := r.Intn(i + 1)
			out[i], out[j] = out[j], out[i]
		}
	}
	return out
}

// wildSet: the records a proof about the FIRST listed expansion would use, or
// about all of them, plus noise.
func wildSet(r *vlib.R, z *zone, gs []ansSig) []rec {
	ch := z.chain()
	var set []rec
	seen := map[string]bool{}
	for i, g := range gs {
		if g.labels >= len(g.owner) || (i > 0 && r.Bool()) {
			continue
		}
		for _, rc := range relevant(z, ch, g.owner.suffix(g.labels+1)) {
			if !seen[rc.owner.key()] {
				seen[rc.owner.key()] = true
				set = append(set, rc)
			}
		}
	}
	for _, rc := range ch {
		if r.Chance(1, 6) && !seen[rc.owner.key()] {
			seen[rc.owner.key()] = true
			set = append(set, rc)
		}
	}
	return set
}

func genSigner(r *vlib.R, z *zone) name {
	switch k := r.Intn(40); {
	case k == 0 && len(z.apex) > 0:
		return z.apex.parent()
	case k == 1:
		return name{}
	case k == 2:
		return vlib.Pick(r, z.nodes).n
	case k == 3:
		return flipCase(r, z.apex)
	}
	return z.apex
}

// signableNsec: miekg's signer (the harness signs with it) takes every owner whose
// text starts with '*' for a wildcard and lowers the RRSIG Labels field, which is
// wrong for a label like "**" or "*a"; sets with such owners are not signed.
func ansVariant(r *vlib.R) string {
	if r.Chance(4, 5) {
		return "good"
	}
	return vlib.Pick(r, []string{"cd", "badsig"})
}

func signableNsec(set []rec) bool {
	for _, rc := range set {
		if len(rc.owner) > 0 && len(rc.owner[0]) > 1 && rc.owner[0][0] == '*' {
			return false
		}
	}
	return true
}

func genNsecCase(r *vlib.R, emit func(string)) int {
	z := genZone(r)
	emit("z new " + z.String())
	cnt := 1
	// the zone's records offered under the PARENT as signer: the last record's
	// wrap-around span must not swallow the parent's other children
	if r.Chance(1, 8) && len(z.apex) > 0 {
		ch := z.chain()
		set := []rec{ch[len(ch)-1]}
		if r.Bool() {
			set = ch
		}
		emit("z set " + recsStr(set))
		par := z.apex.parent()
		for _, q := range []name{par.child(z.apex[0] + "0"), par.child(z.apex[0] + "z").child("a"), par.child("zzzz")} {
			emit(fmt.Sprintf("z agg %s %s 1 1", par, q))
			emit(fmt.Sprintf("z nxd %s %s 1", par, q))
			cnt += 2
		}
		cnt++
	}
	rounds := 2 + r.Intn(4)
	for i := 0; i < rounds; i++ {
		q := genQuery(r, z)
		set := genSet(r, z, q)
		emit("z set " + recsStr(set))
		cnt++
		for j := 0; j < 2+r.Intn(3); j++ {
			qq := q
			if j > 0 && r.Bool() {
				qq = genQuery(r, z)
			}
			if r.Chance(1, 6) {
				qq = flipCase(r, qq)
			}
			t := vlib.Pick(r, qtypes)
			if nd := z.find(qq.fold()); nd != nil && r.Chance(1, 3) {
				t = vlib.Pick(r, sortedTypes(nd.types)) // a type the name HAS: NODATA for it is a lie
			}
			sg := genSigner(r, z)
			c := 1
			if r.Chance(1, 20) {
				c = vlib.Pick(r, []int{0, 3, 254, 255})
			}
			emit(fmt.Sprintf("z truth %s %d", qq, t))
			emit(fmt.Sprintf("z nxd %s %s %d", sg, qq, t))
			emit(fmt.Sprintf("z nod %s %s %d", sg, qq, t))
			emit(fmt.Sprintf("z agg %s %s %d %d", sg, qq, t, c))
			cnt += 4
			if signableNsec(set) && r.Chance(1, 5) {
				// no signature at all: only a proven insecure delegation above the name excuses it
				emit(fmt.Sprintf("z authu %s %s %d %s %s", sg, qq, t, vlib.Pick(r, []string{"nx", "nd"}), dsVariant(r)))
				cnt++
			}
			if signableNsec(set) && r.Chance(1, 3) {
				// the same records and question through the real Resolver.authority
				emit(fmt.Sprintf("z auth %s %s %d %s %s", sg, qq, t, vlib.Pick(r, []string{"nx", "nd"}), authVariant(r)))
				cnt++
			}
			if r.Chance(1, 3) {
				emit(fmt.Sprintf("z dlg %s %s", sg, qq))
				cnt++
			}
		}
		if r.Chance(1, 4) {
			emit("z filter " + genSigner(r, z).String())
			cnt++
		}
		if r.Chance(1, 3) {
			// DNAME in the answer section: owner = an ancestor of the question, a
			// sibling, the question itself, a look-alike; target in or out of the zone
			qq := genQuery(r, z)
			var ds [][2]name
			for i := 0; i < 1+r.Intn(2); i++ {
				var o name
				switch k := r.Intn(8); {
				case k >= 6 && len(qq) > 1:
					// a textual suffix of the question that starts in the MIDDLE of a label
					// (sub.example. for www.notsub.example.): fewer labels, not an ancestor
					idx := 1 + r.Intn(len(qq)-1)
					l := qq[idx]
					if len(l) >= 2 {
						o = append(name{l[1+r.Intn(len(l)-1):]}, qq[idx+1:]...)
					} else {
						o = append(name{"x" + l}, qq[idx+1:]...)
					}
				case k < 3 && len(qq) > 1:
					o = qq.suffix(1 + r.Intn(len(qq)-1))
				case k == 3:
					o = qq
				case k == 4 && len(qq) > 0:
					o = trickName(z, qq[0])
				default:
					o = genQuery(r, z)
				}
				t := vlib.Pick(r, z.tree())
				if r.Chance(1, 3) {
					t = name{"target", "zzz"}
				}
				ds = append(ds, [2]name{o, t})
			}
			emit(fmt.Sprintf("z dname %s %s", qq, dnamesStr(ds)))
			tt := vlib.Pick(r, qtypes)
			emit(fmt.Sprintf("z nxdd %s %s %d %s", genSigner(r, z), qq, tt, dnamesStr(ds)))
			emit(fmt.Sprintf("z nodd %s %s %d %s", genSigner(r, z), qq, tt, dnamesStr(ds)))
			cnt += 3
		}
		if r.Chance(1, 2) {
			gs := genWildSigs(r, z)
			cur := set
			if r.Chance(3, 4) {
				cur = wildSet(r, z, gs)
				if r.Chance(1, 3) && len(z.apex) > 0 {
					// a record of ANOTHER zone whose span takes in the whole name space of this one
					// (the parent's NSEC around the delegation, a sibling's last record): nothing
					// signs it for this zone, it must not serve as the next-closer denial
					par := z.apex.parent()
					o := par
					if r.Bool() {
						o = par.child(z.apex[0][:len(z.apex[0])-1] + "!")
						if z.apex[0][:len(z.apex[0])-1] == "" {
							o = par.child("!")
						}
					}
					cur = append(cur, rec{owner: o, next: par.child(z.apex[0] + "0"), cls: 1, types: authTypes(tNS)})
				}
				emit("z set " + recsStr(cur))
				cnt++
			}
			emit(fmt.Sprintf("z wild %s %s", genSigner(r, z), ansSigsStr(gs)))
			cnt++
			if signableAns(gs) && signableNsec(cur) && r.Chance(2, 3) {
				// the same answer, really signed, through the real Resolver.answer
				emit(fmt.Sprintf("z ans %s %s %s", genSigner(r, z), ansSigsStr(gs), ansVariant(r)))
				cnt++
			}
		}
	}
	// unsigned responses at / below the zone's delegation points (secure and insecure ones) and
	// below ordinary names: only the insecure delegation's own NSEC excuses the missing signatures
	if ch := z.chain(); signableNsec(ch) && r.Chance(1, 3) {
		first := true
		for _, nd := range z.auth() {
			if !nd.isCut() && !r.Chance(1, 6) || len(nd.n) <= len(z.apex) || len(nd.n.wire()) > 200 {
				continue
			}
			if first {
				emit("z set " + recsStr(ch))
				cnt++
				first = false
			}
			for _, q := range []name{nd.n, nd.n.child("kid"), nd.n.child("kid").child("x")} {
				emit(fmt.Sprintf("z authu %s %s %d %s %s", z.apex, q, vlib.Pick(r, []int{1, 43, 28, 2}), vlib.Pick(r, []string{"nx", "nd"}), dsVariant(r)))
				cnt++
			}
		}
	}
	// forged denial of an EXISTING owner: the whole genuine chain replayed except
	// the one record that would give the name away; only a comparison that puts
	// the name inside a neighbour's span can accept it
	if ch := z.chain(); len(ch) > 1 && (binaryZone || r.Chance(1, 4)) {
		for k := 0; k < 2; k++ {
			victim := ch[1+r.Intn(len(ch)-1)].owner
			var set []rec
			for _, rc := range ch {
				if !rc.owner.eq(victim) {
					set = append(set, rc)
				}
			}
			emit("z set " + recsStr(set))
			t := vlib.Pick(r, qtypes)
			emit(fmt.Sprintf("z truth %s %d", victim, t))
			emit(fmt.Sprintf("z nxd %s %s %d", z.apex, victim, t))
			emit(fmt.Sprintf("z nod %s %s %d", z.apex, victim, t))
			emit(fmt.Sprintf("z agg %s %s %d 1", z.apex, victim, t))
			cnt += 5
		}
	}
	// name-level primitives on names around this zone
	for i := 0; i < 3; i++ {
		a, b, c := genQuery(r, z), genQuery(r, z), genQuery(r, z)
		if r.Chance(1, 4) {
			b = a
		}
		if r.Chance(1, 5) {
			a = flipCase(r, a)
		}
		emit(fmt.Sprintf("z cmp %s %s", a, b))
		emit(fmt.Sprintf("z covers %s %s %s", a, b, c))
		emit(fmt.Sprintf("z ce %s %s %s", c, a, b))
		emit(fmt.Sprintf("z inzone %s %s", a, vlib.Pick(r, []name{z.apex, b, c, {}})))
		cnt += 4
		if i == 0 {
			emit(fmt.Sprintf("z inzone %s %s", trickName(z, vlib.Pick(r, []string{"x", "a\\", "\\"})), z.apex))
			cnt++
		}
	}
	return cnt
}

func gen(r *vlib.R, n int, tier string, emit func(string)) {
	for _, op := range witnessOps() {
		emit(op)
	}
	if tier == "thorough" {
		genExhaustive(emit)
	}
	probes := 0
	for n > 0 {
		// real-signature probe: a genuine wildcard NSEC under a concrete owner
		if probes < 40 && r.Chance(1, 25) {
			probes++
			zn := vlib.Pick(r, []string{"example", "ex.test", "a.b.c"})
			z := parseName(zn)
			owner := z.child(vlib.Pick(r, []string{"host", "www", "0", "zz"}))
			if r.Chance(1, 3) {
				owner = owner.child("deep")
			}
			next := z.child(vlib.Pick(r, []string{"a", "m", "zzz"}))
			q := owner
			kind := "nd"
			if r.Bool() {
				q, kind = owner.child("below"), "nx"
			}
			emit(fmt.Sprintf("p expanded %s %s %s 16,46,47 %s %d %s", z, owner, next, q, vlib.Pick(r, []int{1, 28, 16, 43}), kind))
			n--
			// the label rule on its own: owners with and without a leading *, Labels around the owner's count
			for i := 0; i < 4; i++ {
				o := owner
				switch r.Intn(4) {
				case 0:
					o = z.child("*")
				case 1:
					o = owner.child("*")
				case 2:
					o = z
				}
				l := len(o) - 2 + r.Intn(4)
				if l < 0 {
					l = 0
				}
				sg := z
				if r.Chance(1, 6) {
					sg = owner
				}
				emit(fmt.Sprintf("p match %s %s %d %d", sg, o, l, vlib.Pick(r, []int{47, 50, 1, 47})))
				n--
			}
		}
		switch k := r.Intn(20); {
		case k < 11:
			n -= genNsecCase(r, emit)
		case k < 16:
			n -= genNsec3Case(r, emit)
		case k < 18:
			n -= genAdmCase(r, emit)
		default:
			n -= genExpCase(r, emit)
		}
	}
}

// witnessOps: the minimal shapes of the five findings fixed by /repo commit 4841eb0
// (the exact validators must keep refusing them), always run first.
func witnessOps() []string {
	return append(append(foldSweep(), witnessOps0()...), authWitnessOps()...)
}

// authWitnessOps: the real Resolver.authority on the shapes of round 7 —
// a zone whose whole NSEC3 chain uses more iterations than the validator hashes
// with (nothing is proven: refused, never "insecure"), the parent's delegation
// NSEC offered for a non-DS type at the cut, and the controls that must pass.
func authWitnessOps() []string {
	var out []string
	z := parseZone("example", "1", "example:2,6,46,48,51;www.example:1,46;sub.example:2,46")
	for _, iter := range []int{200, 1} {
		z3 := &zone3{z: z, salt: []byte{0xaa, 0xbb}, iter: iter, opted: map[string]bool{}}
		curZ3 = z3
		ring := z3.ring()
		curSet3 = ring
		out = append(out, fmt.Sprintf("h new %s aabb %d -", z.String(), iter), "h set "+recs3Str(ring))
		ap := z.apex
		for _, c := range [][3]string{{"www.example", "1", "nx"}, {"www.example", "1", "nd"}, {"sub.example", "43", "nd"}, {"nope.example", "1", "nx"}, {"www.example", "28", "nd"}} {
			q := parseName(c[0])
			out = append(out, fmt.Sprintf("h auth %s %s %s %s good %s", ap, q, c[1], c[2], hashTable(q, ap)))
		}
		// one genuine record replayed on its own
		curSet3 = ring[:1]
		out = append(out, "h set "+recs3Str(ring[:1]))
		q := parseName("www.example")
		out = append(out, fmt.Sprintf("h auth %s %s 1 nx good %s", ap, q, hashTable(q, ap)))
	}
	out = append(out,
		"z new example 1 example:2,6,46,47,48;sub.example:2,46,47;www.example:1,46,47",
		"z set example|sub.example|1|2,6,46,47,48;sub.example|www.example|1|2,46,47;www.example|example|1|1,46,47",
		"z auth example sub.example 15 nd good", // the parent's delegation NSEC does not speak for MX at the cut
		"z auth example sub.example 43 nd good", // ... but for DS it does
		"z auth example www.example 1 nx good",  // existing name
		"z auth example nope.example 1 nx good", // proven
		"z auth example www.example 28 nd good", // proven NODATA
		// RRSIG-type questions: a denial is validated like any other (fixed in /repo 129b2e9)
		"z auth example www.example 46 nx badsig",
		"z auth example www.example 46 nx nodsig",
		"z auth example www.example 46 nx good",
		"z auth example nope.example 46 nx good",
		"z auth example nope.example 1 nx nodsig",
		"z auth example nope.example 1 nx insec",
		// RR types of 64 and above present in the bitmap must be seen (NSEC and NSEC3 share typesSet)
		"z new example 1 example:2,6,46,47,48;www.example:1,46,47,65,257",
		"z set example|www.example|1|2,6,46,47,48;www.example|example|1|1,46,47,65,257",
		"z nod example www.example 65",
		"z nod example www.example 257",
		"z agg example www.example 65 1",
		"z auth example www.example 65 nd good",
		"z nod example www.example 64",
		// the real Resolver.answer on wildcard expansions (really signed under *.example, presented under the owner):
		"z new example 1 example:2,6,46,47,48;*.example:1,46,47;www.example:1,46,47;a.b.example:1,46,47",
		// only a record of ANOTHER zone spans the next closer name: nothing authenticated it, no denial
		"z set .|example0|1|2,46,47",
		"z ans example www.example:1 good",
		"z ans example alias.example:1 good",
		// the zone's own denial
		"z set *.example|a.b.example|1|1,46,47;a.b.example|www.example|1|1,46,47;.|example0|1|2,46,47",
		"z ans example alias.example:1 good",
		"z ans example www.example:1 good",
		// an owner that itself starts with `*`, two labels below the wildcard's parent: an expansion like any other
		"z ans example *.b.example:1 good",
		"z ans example *.www.example:1 good",
		"z ans example alias.example:1 badsig",
		"z ans example alias.example:1 cd")
	return out
}

// foldSweep: RFC 4034 6.1 octet order, every octet against the octets a wrong
// case fold would identify it with or move it past (a^0x20, a+-0x20), as
// single-label names and as span end points.
func foldSweep() []string {
	var out []string
	z := name{"z"}
	for a := 0; a < 256; a++ {
		la := z.child(string([]byte{byte(a)}))
		for _, b := range []int{a ^ 0x20, (a + 0x20) & 0xff, (a + 1) & 0xff} {
			lb := z.child(string([]byte{byte(b)}))
			out = append(out, fmt.Sprintf("z cmp %s %s", la, lb))
		}
		// span (a-2 -> a+0x22): does it cover a+0x20's fold partner, i.e. a itself / a^0x20
		lo, hi := z.child(string([]byte{byte(a + 0x1e)})), z.child(string([]byte{byte(a + 0x22)}))
		out = append(out, fmt.Sprintf("z covers %s %s %s", lo, hi, la))
	}
	return out
}

func witnessOps0() []string {
	return []string{
		// RFC 6840 4.1: ancestor delegation NSEC used to deny a name below the cut
		"z new example 1 example:2,6,46,47,48;sub.example:2,46,47;zzz.example:1,46,47",
		"z set sub.example|zzz.example|1|2,46,47",
		"z nxd example a.sub.example 1",
		"z agg example a.sub.example 1 1",
		// ... and used to deny data AT the delegation point
		"z nod example sub.example 1",
		"z agg example sub.example 1 1",
		// DNAME owner's NSEC used to deny a name below the DNAME
		"z new example 1 example:2,6,46,47,48;d.example:39,46,47;zzz.example:1,46,47",
		"z set d.example|zzz.example|1|39,46,47",
		"z nxd example a.d.example 1",
		"z agg example a.d.example 1 1",
		// empty non-terminal denied
		"z new example 1 example:2,6,46,47,48;a.b.example:1,46,47",
		"z set example|a.b.example|1|2,6,46,47,48",
		"z nxd example b.example 1",
		"z agg example b.example 1 1",
		// a child zone's last record (wrap-around span) offered under the parent as
		// signer must not deny the parent's other children (RFC 8198 App. B: the
		// wrap case is limited to names below the next name)
		"z new ~21.test 1 ~21.test:2,6,46,47,48;x.~21.test:1,46,47",
		"z set x.~21.test|~21.test|1|1,46,47",
		"z agg test zz.test 1 1",
		// wildcard-expanded answers: every expanded RRset needs its OWN next-closer
		// denial (two owners sharing one closest encloser, only one denied), and an
		// empty non-terminal next closer is no denial
		"z new example 1 example:2,6,46,47,48;*.example:1,46,47;www.example:1,46,47;a.b.example:1,46,47",
		"z set *.example|a.b.example|1|1,46,47;a.b.example|www.example|1|1,46,47",
		"z wild example alias.example:1;www.example:1",
		"z wild example www.example:1;alias.example:1",
		"z wild example x.b.example:1",
		// NSEC3: delegation point's record used to deny data at the delegation point
		"h new example 1 example:2,6,46,48,51;sub.example:2,46;zzz.example:1,46 - 0 -",
		"h set H0e19edc62ea5a129ac22c11f50edeb0c5c328128|example|H1db8efa7dcb348bda7893fca1d8badfdb6996b01|20|1|0|0|-|1|2,46",
		"h nod example sub.example 1 1 example=1db8efa7dcb348bda7893fca1d8badfdb6996b01,*.example=4a66a8e74e719e25f8173c8accf2c6caf86ee405,sub.example=0e19edc62ea5a129ac22c11f50edeb0c5c328128,*.sub.example=bcb7f57f33713495d57c61626040aa9bd8cd2d63",
		"h agg example sub.example 1 1 example=1db8efa7dcb348bda7893fca1d8badfdb6996b01,*.example=4a66a8e74e719e25f8173c8accf2c6caf86ee405,sub.example=0e19edc62ea5a129ac22c11f50edeb0c5c328128,*.sub.example=bcb7f57f33713495d57c61626040aa9bd8cd2d63",
	}
}
