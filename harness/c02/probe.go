//go:build verif

package main

import (
	"crypto"
	"crypto/ecdsa"
	"fmt"
	"strings"
	"time"

	"github.com/miekg/dns"
	"github.com/semihalev/sdns/internal/dnsutil"
	"github.com/semihalev/sdns/internal/verif/vlib"
	"github.com/semihalev/sdns/middleware/resolver/dnssec"
)

// Real-signature probe ('p' ops): a zone key is generated, the authority
// section is signed with miekg's signer, then a GENUINE wildcard NSEC
// (`*.<zone> NSEC ...`, RRSIG Labels = labels of <zone>) is presented under a
// concrete owner below the zone — the way a wildcard-expanded RRset looks on
// the wire — and pushed through the real dnssec.VerifyRRSIG and the exact
// NSEC validators, as Resolver.authority does.
//
//   p expanded <zone> <concrete-owner> <next> <wildcard-types> <qname> <qtype> <nx|nd>

var (
	probeKey  *dns.DNSKEY
	probePriv crypto.Signer
)

func probeSign(rrs []dns.RR, zone string) *dns.RRSIG {
	now := time.Now()
	sig := &dns.RRSIG{Hdr: dns.RR_Header{Name: rrs[0].Header().Name, Rrtype: dns.TypeRRSIG, Class: dns.ClassINET, Ttl: rrs[0].Header().Ttl},
		Algorithm: probeKey.Algorithm, SignerName: zone, KeyTag: probeKey.KeyTag(),
		Inception: uint32(now.Add(-time.Hour).Unix()), Expiration: uint32(now.Add(24 * time.Hour).Unix())}
	if err := sig.Sign(probePriv, rrs); err != nil {
		panic("sign: " + err.Error())
	}
	return sig
}

func execProbe(f []string) vlib.Res {
	if f[1] == "match" {
		// p match <signer> <owner> <rrsig-labels> <type>: may an RRSIG with this Labels
		// value vouch for an RRset of this type at this owner (signatureMatchesRRset)?
		signer, owner, labels, t := parseName(f[2]), parseName(f[3]), atoi(f[4]), uint16(atoi(f[5]))
		var rr dns.RR
		hdr := dns.RR_Header{Name: owner.pres(), Rrtype: t, Class: dns.ClassINET, Ttl: 300}
		switch t {
		case dns.TypeNSEC:
			rr = &dns.NSEC{Hdr: hdr, NextDomain: signer.pres(), TypeBitMap: []uint16{dns.TypeA}}
		case dns.TypeNSEC3:
			rr = &dns.NSEC3{Hdr: hdr, Hash: 1, HashLength: 20, NextDomain: "00000000000000000000000000000000"}
		default:
			rr = &dns.A{Hdr: hdr, A: []byte{192, 0, 2, 1}}
		}
		sig := &dns.RRSIG{Hdr: dns.RR_Header{Name: owner.pres(), Rrtype: dns.TypeRRSIG, Class: dns.ClassINET, Ttl: 300},
			TypeCovered: t, Labels: uint8(labels), SignerName: signer.pres()}
		got := dnssec.VerifC02SignatureMatches(sig, []dns.RR{rr})
		// RFC 4035 2.3 / RFC 4592 4.6 written out: a denial record is never an expansion
		eff := len(owner)
		if eff > 0 && owner[0] == "*" {
			eff--
		}
		or := "ok"
		if got && (t == dns.TypeNSEC || t == dns.TypeNSEC3) && labels < eff {
			or = "FAIL sig=probe/match/expanded-denial-record-accepted"
		}
		return vlib.Res{Impl: vlib.B(got), Oracle: or, Tags: "nt,probe"}
	}
	if f[1] != "expanded" {
		return vlib.Res{Impl: "bad-op"}
	}
	zone := parseName(f[2]).pres()
	concrete, next := parseName(f[3]), parseName(f[4])
	wtypes := parseTypes(f[5])
	q, qtype, nx := parseName(f[6]), uint16(atoi(f[7])), f[8] == "nx"
	if probeKey == nil {
		probeKey = &dns.DNSKEY{Hdr: dns.RR_Header{Name: zone, Rrtype: dns.TypeDNSKEY, Class: dns.ClassINET, Ttl: 300},
			Flags: 257, Protocol: 3, Algorithm: dns.ECDSAP256SHA256}
		priv, err := probeKey.Generate(256)
		if err != nil {
			panic(err)
		}
		probePriv = priv.(*ecdsa.PrivateKey)
	}
	probeKey.Hdr.Name = zone
	soa := &dns.SOA{Hdr: dns.RR_Header{Name: zone, Rrtype: dns.TypeSOA, Class: dns.ClassINET, Ttl: 300},
		Ns: "ns1." + zone, Mbox: "hostmaster." + zone, Serial: 1, Refresh: 3600, Retry: 600, Expire: 86400, Minttl: 300}
	wild := &dns.NSEC{Hdr: dns.RR_Header{Name: "*." + zone, Rrtype: dns.TypeNSEC, Class: dns.ClassINET, Ttl: 300},
		NextDomain: next.pres(), TypeBitMap: wtypes}
	if zone == "." {
		wild.Hdr.Name = "*."
	}
	soaSig, wildSig := probeSign([]dns.RR{soa}, zone), probeSign([]dns.RR{wild}, zone)
	// present the wildcard's NSEC under the concrete owner (wire shape of an expansion)
	wild.Hdr.Name, wildSig.Hdr.Name = concrete.pres(), concrete.pres()
	rcode := dns.RcodeSuccess
	if nx {
		rcode = dns.RcodeNameError
	}
	m := question(q, qtype, dns.ClassINET, rcode)
	m.Ns = []dns.RR{soa, soaSig, wild, wildSig}
	keys := map[uint16][]*dns.DNSKEY{probeKey.KeyTag(): {probeKey}}
	okSig, errSig := dnssec.VerifyRRSIG(zone, keys, m)
	set := dnsutil.FilterRRsToZone(dnsutil.ExtractRRSet(m.Ns, "", dns.TypeNSEC), zone)
	var verr error
	if nx {
		verr = dnssec.VerifyNameErrorNSEC(m, set)
	} else {
		verr = dnssec.VerifyNODATANSEC(m, set)
	}
	r1, e1 := dnssec.EvaluateAggressiveNSEC(dns.Question{Name: q.pres(), Qtype: qtype, Qclass: dns.ClassINET}, zone, set)
	impl := fmt.Sprintf("rrsig=%s exact=%s agg=%s", vlib.B(okSig && errSig == nil), errStr(verr), strings.Fields(aggResult(r1, e1, set))[0])
	or := "ok"
	if okSig && errSig == nil && (verr == nil || e1 == nil) && concrete[0] != "*" {
		// a record that only exists as *.<zone> was accepted as the record OF a concrete name
		or = "FAIL sig=probe/expanded-nsec-accepted-as-concrete-owner " + impl
	}
	return vlib.Res{Impl: impl, Oracle: or, Tags: "nt,probe"}
}
