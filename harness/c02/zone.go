//go:build verif

package main

import (
	"sort"
	"strconv"
	"strings"
)

func itoa(i int) string { return strconv.Itoa(i) }
func atoi(s string) int {
	n, err := strconv.Atoi(s)
	if err != nil {
		panic("bad int " + s)
	}
	return n
}

const (
	tA      = 1
	tNS     = 2
	tCNAME  = 5
	tSOA    = 6
	tMX     = 15
	tTXT    = 16
	tAAAA   = 28
	tDNAME  = 39
	tDS     = 43
	tRRSIG  = 46
	tNSEC   = 47
	tDNSKEY = 48
	tNSEC3  = 50
	tNSEC3P = 51
)

// The reference zone model of the property: the oracle's ground truth.
// Everything here is written from RFC 1034/4035/4592/6672, not from sdns.

type node struct {
	n     name // folded
	types map[uint16]bool
}

type zone struct {
	apex  name
	cls   uint16
	nodes []*node
	byKey map[string]*node
}

func newZone(apex name, cls uint16) *zone {
	return &zone{apex: apex.fold(), cls: cls, byKey: map[string]*node{}}
}

func (z *zone) add(n name, types ...uint16) *node {
	n = n.fold()
	if nd, ok := z.byKey[n.key()]; ok {
		for _, t := range types {
			nd.types[t] = true
		}
		return nd
	}
	nd := &node{n: n, types: map[uint16]bool{}}
	for _, t := range types {
		nd.types[t] = true
	}
	z.nodes = append(z.nodes, nd)
	z.byKey[n.key()] = nd
	return nd
}

func (nd *node) isDeleg() bool { return nd.types[tNS] && !nd.types[tSOA] }
func (nd *node) isCut() bool   { return nd.isDeleg() || nd.types[tDNAME] }

// cutAbove returns the topmost cut strictly above q (nil if none).
func (z *zone) cutAbove(q name) *node {
	for k := len(z.apex); k < len(q); k++ {
		if nd, ok := z.byKey[q.suffix(k).key()]; ok && nd.isCut() {
			return nd
		}
	}
	return nil
}

func (z *zone) occluded(q name) bool { return q.under(z.apex) && z.cutAbove(q) != nil }

func (z *zone) auth() []*node {
	var out []*node
	for _, nd := range z.nodes {
		if !z.occluded(nd.n) {
			out = append(out, nd)
		}
	}
	return out
}

func (z *zone) find(q name) *node {
	nd, ok := z.byKey[q.key()]
	if !ok || z.occluded(nd.n) {
		return nil
	}
	return nd
}

func (z *zone) isENT(q name) bool {
	if !q.under(z.apex) || z.find(q) != nil {
		return false
	}
	for _, nd := range z.auth() {
		if len(nd.n) > len(q) && nd.n.under(q) {
			return true
		}
	}
	return false
}

func (z *zone) inTree(q name) bool { return z.find(q) != nil || z.isENT(q) }

func (z *zone) closestEncloser(q name) name {
	for k := len(q) - 1; k >= 0; k-- {
		if z.inTree(q.suffix(k)) {
			return q.suffix(k)
		}
	}
	return name{}
}

// answerClass: what the zone says about (q, t).
// outofzone | parentside | delegated | answer | cname | nodata | nxdomain,
// plus a structural reason used in oracle signatures.
func (z *zone) answerClass(q name, t uint16) (cls string, why string) {
	q = q.fold()
	if !q.under(z.apex) {
		return "outofzone", "out-of-zone"
	}
	if q.eq(z.apex) && t == tDS {
		return "parentside", "ds-at-apex"
	}
	if c := z.cutAbove(q); c != nil {
		if c.isDeleg() {
			return "delegated", "ancestor-delegation"
		}
		return "delegated", "ancestor-dname"
	}
	at := func(nd *node, via string) (string, string) {
		if nd.types[t] {
			return "answer", via + "type-present"
		}
		if nd.types[tCNAME] {
			return "cname", via + "cname-present"
		}
		return "nodata", via + "existing-name"
	}
	if nd := z.find(q); nd != nil {
		if nd.isDeleg() && t != tDS {
			return "delegated", "at-delegation"
		}
		return at(nd, "")
	}
	if z.isENT(q) {
		return "nodata", "ent"
	}
	w := z.closestEncloser(q).child("*")
	if nd := z.find(w); nd != nil {
		return at(nd, "wildcard-")
	}
	if z.isENT(w) {
		return "nodata", "wildcard-ent"
	}
	return "nxdomain", "name-absent"
}

// rec is one NSEC record as it travels on op lines.
type rec struct {
	owner, next name
	cls         uint16
	types       []uint16
}

func (r rec) String() string {
	return r.owner.String() + "|" + r.next.String() + "|" + itoa(int(r.cls)) + "|" + typesStr(r.types)
}

func parseRec(s string) rec {
	p := strings.Split(s, "|")
	if len(p) != 4 {
		panic("bad rec " + s)
	}
	return rec{owner: parseName(p[0]), next: parseName(p[1]), cls: uint16(atoi(p[2])), types: parseTypes(p[3])}
}

func recsStr(rs []rec) string {
	if len(rs) == 0 {
		return "-"
	}
	parts := make([]string, len(rs))
	for i, r := range rs {
		parts[i] = r.String()
	}
	return strings.Join(parts, ";")
}

func parseRecs(s string) []rec {
	if s == "-" || s == "" {
		return nil
	}
	var out []rec
	for _, p := range strings.Split(s, ";") {
		out = append(out, parseRec(p))
	}
	return out
}

// chain: the NSEC chain a signer produces (RFC 4035 section 2.3).
func (z *zone) chain() []rec {
	a := z.auth()
	sort.Slice(a, func(i, j int) bool { return canonCmp(a[i].n, a[j].n) < 0 })
	var out []rec
	for i, nd := range a {
		nx := a[(i+1)%len(a)].n
		out = append(out, rec{owner: nd.n, next: nx, cls: z.cls, types: sortedTypes(nd.types)})
	}
	return out
}

func sameTypeSet(a, b []uint16) bool {
	m := map[uint16]bool{}
	for _, t := range a {
		m[t] = true
	}
	n := map[uint16]bool{}
	for _, t := range b {
		n[t] = true
		if !m[t] {
			return false
		}
	}
	return len(m) == len(n)
}

// judgeable: every record is a genuine chain record of z (up to case) or
// lies outside the signer zone (owner or next not under the apex).
func (z *zone) judgeable(rs []rec) bool {
	ch := z.chain()
	for _, r := range rs {
		o, n := r.owner.fold(), r.next.fold()
		if !o.under(z.apex) || !n.under(z.apex) {
			continue
		}
		ok := false
		for _, g := range ch {
			if g.owner.eq(o) && g.next.eq(n) && g.cls == r.cls && sameTypeSet(g.types, r.types) {
				ok = true
				break
			}
		}
		if !ok {
			return false
		}
	}
	return true
}

func (z *zone) String() string {
	parts := make([]string, len(z.nodes))
	for i, nd := range z.nodes {
		parts[i] = nd.n.String() + ":" + typesStr(sortedTypes(nd.types))
	}
	return z.apex.String() + " " + itoa(int(z.cls)) + " " + strings.Join(parts, ";")
}

func parseZone(apex, cls, nodes string) *zone {
	z := newZone(parseName(apex), uint16(atoi(cls)))
	for _, p := range strings.Split(nodes, ";") {
		nm, ts, _ := strings.Cut(p, ":")
		z.add(parseName(nm), parseTypes(ts)...)
	}
	return z
}
