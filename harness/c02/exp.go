//go:build verif

package main

import (
	"context"
	"fmt"
	"strings"
	"time"

	"github.com/miekg/dns"
	"github.com/semihalev/sdns/config"
	"github.com/semihalev/sdns/internal/mock"
	"github.com/semihalev/sdns/internal/verif/vlib"
	"github.com/semihalev/sdns/middleware"
	"github.com/semihalev/sdns/middleware/cache"
)

// Expiry of admitted proofs ('exp' ops): validated negative responses whose
// SOA / NSEC RRsets carry one to three RRSIGs with different expirations and
// TTLs are admitted through the real cache.ResponseWriter.WriteMsg, the clock
// is advanced (the denial-proof cache's injectable clock is frozen at the
// case's base instant and every stored deadline is shifted into the past),
// and names the proofs deny are looked up in the real Store.
//
//   exp new <proof-max-ttl> <cut-max-ttl>
//   exp put <zone> <nx|nd> <subject> <qtype> <soattl>,<soamin>,<sig+sig..> <cut|-> <set;set..>
//        sig = <hdr-ttl>/<orig-ttl>/<expiration, seconds of case time>
//        set = <owner>|<next>|<types>|<ttl>|<sig+sig..>
//   exp adv <seconds>
//   exp ask <name> <type>
//
// Admissions happen at case times = 0 mod 10, questions at 5 mod 10, all
// generated deadlines are multiples of 10: the sub-second drift of the cut
// cache's own time.Now() can never decide an outcome.

type expSig struct {
	ttl, orig uint32
	exp       int64
}

type expSet struct {
	rec  rec
	ttl  uint32
	sigs []expSig
}

type expSet3 struct {
	rec  rec3
	ttl  uint32
	sigs []expSig
}

type expBundle struct {
	sets3   []expSet3
	admitT  int64
	zone    name
	cut     int64 // -1: none
	soaTTL  uint32
	soaMin  uint32
	soaSigs []expSig
	sets    []expSet
}

var (
	expDenied  []name // subjects of the NXDOMAIN bundles that reached the writer
	expCache   *cache.Cache
	expBase    time.Time
	expNow     int64
	expBundles []*expBundle
	expStub    = &expUpstream{}
)

type expUpstream struct {
	next  *dns.Msg
	mark  middleware.ValidatedNegativeProof
	cut   time.Time
	calls int
}

func (s *expUpstream) Name() string { return "c02exp" }
func (s *expUpstream) ServeDNS(ctx context.Context, ch *middleware.Chain) {
	s.calls++
	m := s.next
	rcode := m.Rcode
	m.SetReply(ch.Request.Msg())
	m.Rcode = rcode
	if !s.cut.IsZero() {
		middleware.ResponseMetaFrom(ctx).BoundCutFor(s.cut, 1)
	}
	middleware.MarkValidatedNegativeProofResponse(ctx, m, s.mark)
	_ = ch.Writer.WriteMsg(m)
}

type openGate struct{}

func (openGate) TryAcquire() (func(), bool) { return func() {}, true }

func parseSigs(s string) []expSig {
	var out []expSig
	for _, p := range strings.Split(s, "+") {
		f := strings.Split(p, "/")
		out = append(out, expSig{ttl: uint32(atoi(f[0])), orig: uint32(atoi(f[1])), exp: int64(atoi(f[2]))})
	}
	return out
}

func sigsStr(ss []expSig) string {
	parts := make([]string, len(ss))
	for i, s := range ss {
		parts[i] = fmt.Sprintf("%d/%d/%d", s.ttl, s.orig, s.exp)
	}
	return strings.Join(parts, "+")
}

// keytag encodes which bundle and which signature a stored RRSIG came from.
func (b *expBundle) rrsig(owner string, covered uint16, s expSig, seq, idx int) *dns.RRSIG {
	exp := expBase.Unix() + s.exp - b.admitT // the frozen proof clock reads expBase at every admission
	return &dns.RRSIG{Hdr: dns.RR_Header{Name: owner, Rrtype: dns.TypeRRSIG, Class: dns.ClassINET, Ttl: s.ttl},
		TypeCovered: covered, Algorithm: dns.RSASHA256, Labels: uint8(dns.CountLabel(owner)), OrigTtl: s.orig,
		Expiration: uint32(exp), Inception: uint32(exp - 86400), KeyTag: uint16(seq*16 + idx), SignerName: b.zone.pres(), Signature: "AA=="}
}

func execExp(f []string) vlib.Res {
	switch f[1] {
	case "new":
		if expCache != nil {
			expCache.Stop()
		}
		expCache = cache.New(&config.Config{CacheSize: 1024, Expire: 600})
		// production wiring: the resolver lends the cache its DNSSEC crypto gate
		// (without one the NSEC3 side of the proof index never answers)
		expCache.SetDNSSECCryptoLimiter(openGate{})
		expBase = time.Now().Truncate(time.Second)
		cache.VerifC02FreezeProofClock(expCache, expBase)
		expNow, expBundles, expDenied = 0, nil, nil
		pm, cm := cache.VerifC02MaxTTLs(expCache)
		or := "ok"
		if int(pm/time.Second) != atoi(f[2]) || int(cm/time.Second) != atoi(f[3]) {
			or = fmt.Sprintf("FAIL sig=exp/ceiling-changed proof=%v cut=%v", pm, cm)
		}
		return vlib.Res{Impl: "ok", Oracle: or}
	case "adv":
		d := int64(atoi(f[2]))
		cache.VerifShift(expCache, time.Duration(d)*time.Second)
		expNow += d
		return vlib.Res{Impl: "t=" + itoa(int(expNow))}
	case "put", "put3", "reput":
		// "reput": the same kind of bundle published by the background refresh's
		// write-back — straight into the Store, no lookup in front of it
		b := &expBundle{admitT: expNow, zone: parseName(f[2]), cut: -1}
		nx, subject, qtype := f[3] == "nx", parseName(f[4]), uint16(atoi(f[5]))
		sp := strings.SplitN(f[6], ",", 3)
		b.soaTTL, b.soaMin, b.soaSigs = uint32(atoi(sp[0])), uint32(atoi(sp[1])), parseSigs(sp[2])
		if f[7] != "-" {
			b.cut = int64(atoi(f[7]))
		}
		for _, p := range strings.Split(f[8], ";") {
			if f[1] == "put3" {
				q := strings.Split(p, "^")
				b.sets3 = append(b.sets3, expSet3{rec: parseRec3(q[0]), ttl: uint32(atoi(q[1])), sigs: parseSigs(q[2])})
				continue
			}
			q := strings.Split(p, "|")
			b.sets = append(b.sets, expSet{rec: rec{owner: parseName(q[0]), next: parseName(q[1]), cls: 1, types: parseTypes(q[2])},
				ttl: uint32(atoi(q[3])), sigs: parseSigs(q[4])})
		}
		seq := len(expBundles)
		expBundles = append(expBundles, b)
		zone := b.zone.pres()
		m := new(dns.Msg)
		m.RecursionAvailable, m.AuthenticatedData = true, true
		if nx {
			m.Rcode = dns.RcodeNameError
		}
		soa := &dns.SOA{Hdr: dns.RR_Header{Name: zone, Rrtype: dns.TypeSOA, Class: dns.ClassINET, Ttl: b.soaTTL},
			Ns: "ns1." + zone, Mbox: "hostmaster." + zone, Serial: uint32(seq + 1), Refresh: 3600, Retry: 600, Expire: 86400, Minttl: b.soaMin}
		m.Ns = append(m.Ns, soa)
		idx := 0
		for _, s := range b.soaSigs {
			m.Ns = append(m.Ns, b.rrsig(zone, dns.TypeSOA, s, seq, idx))
			idx++
		}
		for _, st := range b.sets {
			n := toNSEC(st.rec)
			n.Hdr.Ttl = st.ttl
			m.Ns = append(m.Ns, n)
			for _, s := range st.sigs {
				m.Ns = append(m.Ns, b.rrsig(n.Hdr.Name, dns.TypeNSEC, s, seq, idx))
				idx++
			}
		}
		for _, st := range b.sets3 {
			n := st.rec.rr()
			n.Hdr.Ttl = st.ttl
			m.Ns = append(m.Ns, n)
			for _, s := range st.sigs {
				m.Ns = append(m.Ns, b.rrsig(n.Hdr.Name, dns.TypeNSEC3, s, seq, idx))
				idx++
			}
		}
		kind := middleware.ValidatedNegativeProofNSEC
		if f[1] == "put3" {
			kind = middleware.ValidatedNegativeProofNSEC3
		}
		expStub.next = m
		expStub.mark = middleware.ValidatedNegativeProof{Subject: subject.pres(), Zone: zone, Kind: kind, Aggressive: true}
		expStub.cut = time.Time{}
		if b.cut >= 0 {
			expStub.cut = expBase.Add(time.Duration(b.cut-b.admitT) * time.Second)
		}
		req := new(dns.Msg)
		req.SetQuestion(subject.pres(), qtype)
		req.RecursionDesired = true
		req.SetEdns0(1232, true)
		w := mock.NewWriter("udp", "192.0.2.9:4242")
		ch := middleware.NewChain([]middleware.Handler{expCache, expStub})
		if f[1] == "reput" {
			m.SetQuestion(subject.pres(), qtype)
			m.Response = true
			if nx {
				m.Rcode = dns.RcodeNameError
			}
			cache.VerifC02WriteBack(expCache, m, subject.pres(), zone, false, expStub.cut)
			if nx {
				expDenied = append(expDenied, subject.fold())
			}
			return vlib.Res{Impl: "ok"}
		}
		calls := expStub.calls
		ch.Reset(w, req)
		ch.Next(context.Background())
		if nx && expStub.calls > calls {
			expDenied = append(expDenied, subject.fold())
		}
		return vlib.Res{Impl: fmt.Sprintf("ok up=%d", expStub.calls-calls)}
	case "ask":
		q, t := parseName(f[2]), uint16(atoi(f[3]))
		req := new(dns.Msg)
		req.SetQuestion(q.pres(), t)
		req.RecursionDesired = true
		req.SetEdns0(1232, true)
		pv, cv := "miss", "miss"
		or := "ok"
		// least deadline any RRSIG of the last judged message allows (exp time), and which component
		minBound, minWhy := int64(1)<<60, ""
		judge := func(what string, m *dns.Msg) {
			minBound, minWhy = int64(1)<<60, ""
			for _, rr := range m.Ns {
				sig, ok := rr.(*dns.RRSIG)
				if !ok {
					continue
				}
				seq, idx := int(sig.KeyTag)/16, int(sig.KeyTag)%16
				if seq >= len(expBundles) {
					or = "FAIL sig=exp/" + what + "/unknown-signature"
					return
				}
				b := expBundles[seq]
				all := append([]expSig(nil), b.soaSigs...)
				for _, st := range b.sets {
					all = append(all, st.sigs...)
				}
				for _, st := range b.sets3 {
					all = append(all, st.sigs...)
				}
				expAt := int64(sig.Expiration) - expBase.Unix() + b.admitT
				bound, why := expAt, "rrsig-expiration"
				lower := func(v int64, w string) {
					if v < bound {
						bound, why = v, w
					}
				}
				lower(b.admitT+int64(sig.OrigTtl), "rrsig-original-ttl")
				if idx < len(all) {
					lower(b.admitT+int64(all[idx].ttl), "rrsig-ttl")
				}
				if b.cut >= 0 {
					lower(b.cut, "cut-deadline")
				}
				// the covered RRset's own TTL as admitted
				if sig.TypeCovered == dns.TypeSOA {
					lower(b.admitT+int64(b.soaTTL), "soa-ttl")
					lower(b.admitT+int64(b.soaMin), "soa-minimum")
				} else {
					for _, st := range b.sets {
						if strings.EqualFold(st.rec.owner.fold().pres(), sig.Hdr.Name) {
							lower(b.admitT+int64(st.ttl), "record-ttl")
						}
					}
					for _, st := range b.sets3 {
						if strings.EqualFold(st.rec.owner().pres(), sig.Hdr.Name) {
							lower(b.admitT+int64(st.ttl), "record-ttl")
						}
					}
				}
				if bound < minBound {
					minBound, minWhy = bound, why
				}
				if expNow >= bound {
					or = fmt.Sprintf("FAIL sig=exp/%s/served-past-%s now=%d bound=%d owner=%s", what, why, expNow, bound, sig.Hdr.Name)
					return
				}
				if int64(rr.Header().Ttl) > bound-expNow {
					or = fmt.Sprintf("FAIL sig=exp/%s/ttl-exceeds-%s ttl=%d left=%d", what, why, rr.Header().Ttl, bound-expNow)
					return
				}
			}
		}
		if m, ok := cache.VerifC02LookupProof(expCache, req); ok && m != nil {
			pv = "nodata"
			if m.Rcode == dns.RcodeNameError {
				pv = "nx"
			}
			judge("proof", m)
		}
		if m, ok := cache.VerifC02LookupCut(expCache, req); ok && m != nil {
			cv = "hit"
			if or == "ok" {
				judge("cut", m)
			}
			// RFC 8020: a cut denies the denied name and what is below it, label by
			// label (an octet 0x2E inside a label is not a label boundary)
			inside := false
			for _, d := range expDenied {
				if q.fold().under(d) {
					inside = true
				}
			}
			if !inside {
				or = "FAIL sig=exp/cut/name-outside-every-denied-subtree q=" + q.String()
			}
		}
		// the wire-born lookup of the same cut index must agree with the Msg path
		cw := "miss"
		if cache.VerifC02LookupCutWire(expCache, q.wire(), dns.ClassINET) {
			cw = "hit"
		}
		if cw != cv && or == "ok" {
			or = "FAIL sig=exp/cut/wire-and-msg-lookup-differ wire=" + cw + " msg=" + cv
		}
		tags := ""
		if pv != "miss" || cv != "miss" {
			tags = "nt,synth"
		}
		// the resolver-private route (Store.GetWithContext answers the resolver's own DS / DNSKEY
		// sub-queries): what the resolver derives from a synthesised denial may live only as long
		// as the records that prove it, so the lookup must bind the request tree to their deadline
		// the deadline lookupDenialProofWithExpiry attaches to a synthesised answer (seconds from now;
		// the proof clock is frozen, so whole seconds), compared with the model's lookupProofExpiry
		pb := "-"
		if e, ok := cache.VerifC02LookupProofExpiry(expCache, req); ok {
			pb = itoa(int(e.Sub(expBase) / time.Second))
		}
		if pm, ok, exact, bound := cache.VerifC02PrivateGet(expCache, req); ok && pm != nil && !exact &&
			(pm.Rcode == dns.RcodeNameError || (pm.Rcode == dns.RcodeSuccess && len(pm.Answer) == 0)) {
			tags += ",private-synth"
			if e, ok := cache.VerifC02LookupProofExpiry(expCache, req); ok && cv == "miss" && or == "ok" && !bound.IsZero() && !bound.Equal(e) {
				or = fmt.Sprintf("FAIL sig=exp/private/request-tree-bound-differs-from-proof-deadline bound=%d proof=%d",
					int(bound.Sub(expBase)/time.Second), int(e.Sub(expBase)/time.Second))
			}
			if or == "ok" {
				judge("private", pm)
			}
			if or == "ok" {
				left := int64(bound.Sub(expBase) / time.Second) // whole seconds: the cut cache reads the wall clock, a fraction after expBase
				switch {
				case bound.IsZero():
					or = "FAIL sig=exp/private/synthesised-denial-leaves-request-tree-unbounded"
				case cv == "hit" && minWhy != "" && expNow+left > minBound+int64(time.Since(expBase)/time.Second)+1:
					// the subtree-cut cache reads the wall clock: its deadlines lie the really elapsed time
					// (fractions of a second, more on a loaded machine) after the virtual ones
					or = fmt.Sprintf("FAIL sig=exp/private/request-tree-bound-exceeds-%s bound=%d allowed=%d", minWhy, expNow+left, minBound)
				case cv != "hit" && minWhy != "" && expNow+left > minBound:
					or = fmt.Sprintf("FAIL sig=exp/private/request-tree-bound-exceeds-%s bound=%d allowed=%d", minWhy, expNow+left, minBound)
				}
			}
		} else if ok && pm != nil && exact {
			tags += ",private-exact"
		}
		return vlib.Res{Impl: "proof=" + pv + " cut=" + cv + " cutw=" + cw + " pb=" + pb, Oracle: or, Tags: tags}
	}
	return vlib.Res{Impl: "bad-op"}
}

// ---- generator ----

var expCeil struct{ proof, cut int }

func expCeilings() (int, int) {
	if expCeil.proof == 0 {
		c := cache.New(&config.Config{CacheSize: 1024, Expire: 600})
		pm, cm := cache.VerifC02MaxTTLs(c)
		c.Stop()
		expCeil.proof, expCeil.cut = int(pm/time.Second), int(cm/time.Second)
	}
	return expCeil.proof, expCeil.cut
}

func genSigsExp(r *vlib.R, now int64) []expSig {
	n := 1 + r.Intn(3)
	var out []expSig
	for i := 0; i < n; i++ {
		exp := now + int64(10*(1+r.Intn(40)))
		if r.Chance(1, 3) {
			exp = now + int64(10*(1+r.Intn(4))) // a signature about to lapse
		}
		if r.Chance(1, 25) {
			exp = now - 10 // already expired: the bundle must not be admitted
		}
		ttl := uint32(10 * (1 + r.Intn(60)))
		orig := ttl
		if r.Chance(1, 4) {
			orig = uint32(10 * (1 + r.Intn(60)))
		}
		out = append(out, expSig{ttl: ttl, orig: orig, exp: exp})
	}
	return out
}

type expPlan struct {
	zone  name
	spans [][2]string // owner label, next label under the zone ("" = apex)
}

func (p expPlan) nm(l string) name {
	if l == "" {
		return p.zone
	}
	return p.zone.child(l)
}

// genExpBundle: a denial for a name in one of the zone's spans.
func genExpBundle(r *vlib.R, p expPlan, now int64, span int, nx bool, seq int) (string, name) {
	sp := p.spans[span]
	owner, next := p.nm(sp[0]), p.nm(sp[1])
	// type bitmaps in wire order (the caches re-pack the records they retain)
	apexTypes := []uint16{tNS, tSOA, tRRSIG, tNSEC, tDNSKEY}
	types := []uint16{tA, tRRSIG, tNSEC}
	if sp[0] == "" {
		types = apexTypes
	}
	sets := []expSet{{rec: rec{owner: owner, next: next, cls: 1, types: types}, ttl: uint32(10 * (1 + r.Intn(60))), sigs: genSigsExp(r, now)}}
	// the apex record too (wildcard cover for an NXDOMAIN in a later span)
	if span != 0 && (nx || r.Bool()) {
		a := p.spans[0]
		sets = append(sets, expSet{rec: rec{owner: p.nm(a[0]), next: p.nm(a[1]), cls: 1, types: apexTypes},
			ttl: uint32(10 * (1 + r.Intn(60))), sigs: genSigsExp(r, now)})
	}
	// every admission asks a question of its own (an exact-entry hit would
	// keep the response from ever reaching the writer)
	subject := owner
	qtype := []int{28, 16, 15, 33, 99, 13, 17, 18, 29, 35}[seq%10]
	if nx {
		// a name strictly inside the span
		lab := fmt.Sprintf("%s0%d", sp[0], seq)
		subject = p.zone.child(lab)
		qtype = tA
	}
	cut := "-"
	if r.Chance(1, 4) {
		cut = itoa(int(now) + 10*(1+r.Intn(30)))
	}
	var ss []string
	for _, s := range sets {
		ss = append(ss, fmt.Sprintf("%s|%s|%s|%d|%s", s.rec.owner, s.rec.next, typesStr(s.rec.types), s.ttl, sigsStr(s.sigs)))
	}
	kind := "nd"
	if nx {
		kind = "nx"
	}
	soaSigs := genSigsExp(r, now)
	soa := fmt.Sprintf("%d,%d,%s", 10*(1+r.Intn(60)), 10*(1+r.Intn(60)), sigsStr(soaSigs))
	// the same proof again, re-signed later (same names, same number of signatures:
	// same packed size), as a background refresh would publish it
	expRefresh = func(at int64) string {
		resign := func(old []expSig) []expSig {
			out := make([]expSig, len(old))
			for i := range old {
				out[i] = expSig{ttl: 10 * uint32(40+r.Intn(20)), orig: 10 * uint32(40+r.Intn(20)), exp: at + int64(10*(40+r.Intn(20)))}
			}
			return out
		}
		var ss2 []string
		for _, s := range sets {
			ss2 = append(ss2, fmt.Sprintf("%s|%s|%s|%d|%s", s.rec.owner, s.rec.next, typesStr(s.rec.types), 10*(40+r.Intn(20)), sigsStr(resign(s.sigs))))
		}
		soa2 := fmt.Sprintf("%d,%d,%s", 10*(40+r.Intn(20)), 10*(40+r.Intn(20)), sigsStr(resign(soaSigs)))
		return fmt.Sprintf("exp reput %s %s %s %d %s - %s", p.zone, kind, subject, qtype, soa2, strings.Join(ss2, ";"))
	}
	return fmt.Sprintf("exp put %s %s %s %d %s %s %s", p.zone, kind, subject, qtype, soa, cut, strings.Join(ss, ";")), subject
}

// expRefresh re-issues the last generated bundle (see genExpBundle).
var expRefresh func(at int64) string

// lookAlikes: names OUTSIDE the subtree of d whose presentation text ends with
// d's text: d's leaf label glued behind another label's octets with a literal
// dot, a backslash-dot pair, and a child of such a name; plus d's own children
// (inside) for contrast.
func lookAlikes(r *vlib.R, d name) []name {
	par := d.parent()
	pre := vlib.Pick(r, []string{"a", "x", "www", "a\\", "\\", "0"})
	glued := par.child(pre + "." + d[0])
	return []name{glued, glued.child("k"), par.child("." + d[0]), d.child("a.b"), d.child("k")}
}

// genExp3Case: the same histories over an NSEC3-signed zone (one parameter
// tuple; plain or Opt-Out ring): bundles carry the matching / covering NSEC3
// RRsets a real negative response would, every question travels with the
// hashes the evaluator needs.
func genExp3Case(r *vlib.R, emit func(string)) int {
	pm, cm := expCeilings()
	emit(fmt.Sprintf("exp new %d %d", pm, cm))
	cnt := 1
	apex := parseName(fmt.Sprintf("z%d.c02y.test", r.Intn(4)))
	z := newZone(apex, 1)
	z.add(apex, tNS, tSOA, tRRSIG, tDNSKEY, tNSEC3P)
	owners := []name{apex.child("c"), apex.child("m"), apex.child("t")}
	for _, o := range owners {
		z.add(o, tA, tRRSIG)
	}
	z3 := &zone3{z: z, salt: []byte{0xab, 0xcd}, iter: 1, optOut: r.Chance(1, 3), opted: map[string]bool{}}
	curZ3 = z3
	ring := z3.ring()
	curSet3 = ring
	now := int64(0)
	pick := func(h []byte, match bool) *rec3 {
		if match {
			return matchIn(ring, h)
		}
		return coverIn(ring, h)
	}
	bundle := func(seq int, nx bool) (string, name) {
		var recs []*rec3
		subject := vlib.Pick(r, append([]name{apex}, owners...))
		qtype := []int{28, 16, 15, 33, 99, 13, 17, 18, 29, 35}[seq%10]
		if nx {
			subject = apex.child(fmt.Sprintf("q0%d", seq))
			qtype = tA
			recs = append(recs, pick(hashOf(apex, z3.salt, z3.iter), true), pick(hashOf(subject, z3.salt, z3.iter), false),
				pick(hashOf(apex.child("*"), z3.salt, z3.iter), false))
		} else {
			recs = append(recs, pick(hashOf(subject, z3.salt, z3.iter), true))
		}
		seen := map[string]bool{}
		var ss []string
		for _, rc := range recs {
			if rc == nil || seen[rc.ownerLab] {
				continue
			}
			seen[rc.ownerLab] = true
			ss = append(ss, fmt.Sprintf("%s^%d^%s", rc.String(), 10*(1+r.Intn(60)), sigsStr(genSigsExp(r, now))))
		}
		cut := "-"
		if r.Chance(1, 5) {
			cut = itoa(int(now) + 10*(1+r.Intn(30)))
		}
		kind := "nd"
		if nx {
			kind = "nx"
		}
		soa := fmt.Sprintf("%d,%d,%s", 10*(1+r.Intn(60)), 10*(1+r.Intn(60)), sigsStr(genSigsExp(r, now)))
		return fmt.Sprintf("exp put3 %s %s %s %d %s %s %s %s", apex, kind, subject, qtype, soa, cut, strings.Join(ss, ";"), hashTable(subject, apex)), subject
	}
	var denied []name
	asks := func() {
		for i, o := range append([]name{apex}, owners...) {
			emit(fmt.Sprintf("exp ask %s %d %s", o, []int{28, 16, 1, 43}[i%4], hashTable(o, apex)))
			cnt++
		}
		for _, q := range []name{apex.child("q1"), apex.child("q2").child("deep"), apex.child("c").child("below")} {
			emit(fmt.Sprintf("exp ask %s 1 %s", q, hashTable(q, apex)))
			cnt++
		}
		for _, d := range denied {
			for _, q := range []name{d.child("k"), d.parent().child("x." + d[0])} {
				emit(fmt.Sprintf("exp ask %s 1 %s", q, hashTable(q, apex)))
				cnt++
			}
		}
	}
	steps := 3 + r.Intn(4)
	for i := 0; i < steps; i++ {
		nx := r.Chance(2, 3)
		op, subj := bundle(i, nx)
		if nx {
			denied = append(denied, subj)
			if len(denied) > 2 {
				denied = denied[1:]
			}
		}
		emit(op)
		cnt++
		for j := 0; j < 1+r.Intn(3); j++ {
			d := int64(5 + 10*r.Intn(8))
			if j > 0 {
				d = int64(10 * (1 + r.Intn(8)))
			}
			emit(fmt.Sprintf("exp adv %d", d))
			now += d
			cnt++
			asks()
		}
		emit("exp adv 5")
		now += 5
		cnt++
	}
	return cnt
}

func genExpCase(r *vlib.R, emit func(string)) int {
	if r.Chance(1, 3) {
		return genExp3Case(r, emit)
	}
	pm, cm := expCeilings()
	emit(fmt.Sprintf("exp new %d %d", pm, cm))
	cnt := 1
	p := expPlan{zone: parseName(fmt.Sprintf("z%d.c02x.test", r.Intn(4))), spans: [][2]string{{"", "c"}, {"c", "m"}, {"m", "t"}, {"t", ""}}}
	now := int64(0)
	var denied []name
	asks := func() {
		// questions the stored proofs would deny: inside every span, at every owner, below a denied name
		for _, sp := range p.spans {
			lab := sp[0] + "1"
			if sp[0] == "" {
				lab = "1"
			}
			emit(fmt.Sprintf("exp ask %s 1", p.zone.child(lab)))
			emit(fmt.Sprintf("exp ask %s 28", p.nm(sp[0])))
			cnt += 2
		}
		emit(fmt.Sprintf("exp ask %s 1", p.zone.child("c00").child("deep")))
		emit(fmt.Sprintf("exp ask %s 1", p.zone.child("m01").child("deep")))
		cnt++
		for _, d := range denied {
			for _, q := range lookAlikes(r, d) {
				emit(fmt.Sprintf("exp ask %s 1", q))
				cnt++
			}
		}
		cnt++
	}
	// two proofs for the same zone admitted in BOTH orders (two cases with the
	// same two bundles), then time passes until one of them has lapsed
	if r.Chance(1, 3) {
		a, sa := genExpBundle(r, p, 0, 1+r.Intn(3), r.Bool(), 0)
		b, sb := genExpBundle(r, p, 0, r.Intn(4), r.Bool(), 1)
		denied = []name{sa, sb}
		steps := []int64{5 + 10*int64(r.Intn(6)), 10 * int64(1+r.Intn(10)), 10 * int64(1+r.Intn(20))}
		for _, pair := range [][2]string{{a, b}, {b, a}} {
			if pair[0] != a {
				emit(fmt.Sprintf("exp new %d %d", pm, cm))
				cnt++
			}
			emit(pair[0])
			emit(pair[1])
			cnt += 2
			for _, d := range steps {
				emit(fmt.Sprintf("exp adv %d", d))
				cnt++
				asks()
			}
		}
		return cnt
	}
	// a running history: proofs for several spans, the SOA refreshed by each
	// later bundle, uneven clock steps, earlier proofs left to expire
	order := []int{1 + r.Intn(3), r.Intn(4)}
	if r.Bool() {
		order[0], order[1] = order[1], order[0]
	}
	steps := 3 + r.Intn(4)
	for i := 0; i < steps; i++ {
		span := order[i%2]
		if i >= 2 {
			span = r.Intn(4)
		}
		op, subj := genExpBundle(r, p, now, span, r.Chance(2, 3), i)
		denied = append(denied, subj)
		if len(denied) > 3 {
			denied = denied[1:]
		}
		emit(op)
		cnt++
		// look, let time pass in uneven steps, look again
		for j := 0; j < 1+r.Intn(3); j++ {
			d := int64(5 + 10*r.Intn(8))
			if j > 0 || now%10 == 5 {
				d = int64(10 * (1 + r.Intn(8)))
			}
			emit(fmt.Sprintf("exp adv %d", d))
			now += d
			cnt++
			asks()
		}
		// back to an admission instant
		emit("exp adv 5")
		now += 5
		cnt++
		// the same denial proven again (re-signed) while the first copy is still
		// resident, then time runs past the FIRST copy's deadlines
		if r.Chance(2, 3) && expRefresh != nil {
			emit(expRefresh(now))
			cnt++
			for j := 0; j < 3; j++ {
				d := int64(5 + 10*r.Intn(12))
				if j > 0 {
					d = int64(10 * (1 + r.Intn(15)))
				}
				emit(fmt.Sprintf("exp adv %d", d))
				now += d
				cnt++
				asks()
			}
			emit("exp adv 5")
			now += 5
			cnt++
		}
	}
	return cnt
}
