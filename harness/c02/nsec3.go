//go:build verif

package main

import "github.com/semihalev/sdns/internal/verif/vlib"

func execNsec3(f []string) vlib.Res { return vlib.Res{Impl: "bad-op"} }

func genNsec3Case(r *vlib.R, emit func(string)) int { return genNsecCase(r, emit) }
