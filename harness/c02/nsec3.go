//go:build verif

package main

import (
	"bytes"
	"encoding/base32"
	"encoding/hex"
	"errors"
	"fmt"
	"sort"
	"strings"
	"time"

	"github.com/miekg/dns"
	"github.com/semihalev/sdns/internal/dnsutil"
	"github.com/semihalev/sdns/internal/verif/vlib"
	"github.com/semihalev/sdns/middleware/resolver/dnssec"
)

var b32 = base32.HexEncoding.WithPadding(base32.NoPadding)

// rec3 is one NSEC3 record on op lines:
//
//	<ownerlabel>|<parent>|<next>|<hashlen>|<alg>|<flags>|<iter>|<salt>|<cls>|<types>
//
// ownerlabel: H<40 hex> (label = base32hex of that hash, case per 'u' suffix) or
// X<label token> (a label that is not a 32-character base32hex string);
// next: H<40 hex> or B<hex of the NextDomain text> (malformed);
// salt: hex, "-" (empty) or !<hex of the Salt text> (malformed / length lie).
type rec3 struct {
	ownerHash []byte // nil when malformed
	ownerLab  string // the label text as sent
	parent    name
	next      []byte // nil when malformed
	nextText  string
	hashLen   int
	alg       int
	flags     int
	iter      int
	salt      []byte
	saltText  string
	saltBad   bool
	cls       uint16
	types     []uint16
}

func (r rec3) String() string {
	ol := "X" + name{r.ownerLab}.String()
	if r.ownerHash != nil {
		ol = "H" + hex.EncodeToString(r.ownerHash)
		if r.ownerLab != strings.ToLower(r.ownerLab) {
			ol += "u"
		}
	}
	nx := "B" + hex.EncodeToString([]byte(r.nextText))
	if r.next != nil {
		nx = "H" + hex.EncodeToString(r.next)
	}
	st := vlib.Hex(r.salt)
	if r.saltBad {
		st = "!" + hex.EncodeToString([]byte(r.saltText))
	}
	return fmt.Sprintf("%s|%s|%s|%d|%d|%d|%d|%s|%d|%s", ol, r.parent, nx, r.hashLen, r.alg, r.flags, r.iter, st, r.cls, typesStr(r.types))
}

func parseRec3(s string) rec3 {
	p := strings.Split(s, "|")
	if len(p) != 10 {
		panic("bad rec3 " + s)
	}
	var r rec3
	switch p[0][0] {
	case 'H':
		h := p[0][1:]
		upper := strings.HasSuffix(h, "u")
		h = strings.TrimSuffix(h, "u")
		r.ownerHash = vlib.UnHex(h)
		r.ownerLab = strings.ToLower(b32.EncodeToString(r.ownerHash))
		if upper {
			r.ownerLab = strings.ToUpper(r.ownerLab)
		}
	default:
		r.ownerLab = parseName(p[0][1:])[0]
	}
	r.parent = parseName(p[1])
	if p[2][0] == 'H' {
		r.next = vlib.UnHex(p[2][1:])
		r.nextText = b32.EncodeToString(r.next)
	} else {
		r.nextText = string(vlib.UnHex(p[2][1:]))
	}
	r.hashLen, r.alg, r.flags, r.iter = atoi(p[3]), atoi(p[4]), atoi(p[5]), atoi(p[6])
	if strings.HasPrefix(p[7], "!") {
		r.saltBad = true
		r.saltText = string(vlib.UnHex(p[7][1:]))
	} else {
		r.salt = vlib.UnHex(p[7])
		r.saltText = hex.EncodeToString(r.salt)
	}
	r.cls = uint16(atoi(p[8]))
	r.types = parseTypes(p[9])
	return r
}

func (r rec3) owner() name { return r.parent.child(r.ownerLab) }

func (r rec3) rr() *dns.NSEC3 {
	saltLen := len(r.salt)
	if r.saltBad {
		saltLen = 2 // whatever the text is, the length field disagrees or the text is not hex
	}
	return &dns.NSEC3{
		Hdr:        dns.RR_Header{Name: r.owner().pres(), Rrtype: dns.TypeNSEC3, Class: r.cls, Ttl: 300},
		Hash:       uint8(r.alg),
		Flags:      uint8(r.flags),
		Iterations: uint16(r.iter),
		SaltLength: uint8(saltLen),
		Salt:       r.saltText,
		HashLength: uint8(r.hashLen),
		NextDomain: r.nextText,
		TypeBitMap: append([]uint16(nil), r.types...),
	}
}

func recs3Str(rs []rec3) string {
	if len(rs) == 0 {
		return "-"
	}
	parts := make([]string, len(rs))
	for i, r := range rs {
		parts[i] = r.String()
	}
	return strings.Join(parts, ";")
}

// ---- the genuine ring of a zone (RFC 5155 section 7.1) ----

type zone3 struct {
	z       *zone
	salt    []byte
	iter    int
	optOut  bool
	minimal bool            // Opt-Out flag only on the spans that hide an opted-out delegation
	opted   map[string]bool // insecure delegations left out of the ring
}

var (
	curZ3   *zone3
	curSet3 []rec3
	curRR3  []dns.RR
)

func hashOf(n name, salt []byte, iter int) []byte {
	s := dns.HashName(n.pres(), dns.SHA1, uint16(iter), hex.EncodeToString(salt))
	b, err := b32.DecodeString(strings.ToUpper(s))
	if err != nil || len(b) != 20 {
		panic("HashName " + n.String() + " -> " + s)
	}
	return b
}

// hashedNames: every authoritative owner and every empty non-terminal, minus
// the opted-out insecure delegations and the ENTs that only they keep alive.
func (z3 *zone3) hashedNames() []*node {
	z := z3.z
	keep := map[string]*node{}
	var order []string
	for _, nd := range z.auth() {
		if z3.opted[nd.n.key()] {
			continue
		}
		if _, ok := keep[nd.n.key()]; !ok {
			keep[nd.n.key()] = nd
			order = append(order, nd.n.key())
		}
		for k := len(z.apex); k < len(nd.n); k++ {
			a := nd.n.suffix(k)
			if _, ok := keep[a.key()]; !ok && z.find(a) == nil {
				keep[a.key()] = &node{n: a, types: map[uint16]bool{}}
				order = append(order, a.key())
			}
		}
	}
	var out []*node
	for _, k := range order {
		out = append(out, keep[k])
	}
	return out
}

func (z3 *zone3) ring() []rec3 {
	hn := z3.hashedNames()
	type hx struct {
		h  []byte
		nd *node
	}
	var hs []hx
	for _, nd := range hn {
		hs = append(hs, hx{hashOf(nd.n, z3.salt, z3.iter), nd})
	}
	sort.Slice(hs, func(i, j int) bool { return bytes.Compare(hs[i].h, hs[j].h) < 0 })
	var hidden [][]byte
	for _, nd := range z3.z.auth() {
		if z3.opted[nd.n.key()] {
			hidden = append(hidden, hashOf(nd.n, z3.salt, z3.iter))
		}
	}
	var out []rec3
	for i, x := range hs {
		fl := 0
		if z3.optOut {
			fl = 1
			if z3.minimal {
				fl = 0
				o, n := x.h, hs[(i+1)%len(hs)].h
				for _, h := range hidden {
					on, ho, hn := bytes.Compare(o, n), bytes.Compare(h, o), bytes.Compare(h, n)
					if (on == 0 && ho != 0) || (on < 0 && ho > 0 && hn < 0) || (on > 0 && (ho > 0 || hn < 0)) {
						fl = 1
					}
				}
			}
		}
		ts := sortedTypes(x.nd.types)
		// RRSIG/NSEC bits of the NSEC model do not apply: NSEC3 bitmaps list the
		// owner's types (+RRSIG when anything authoritative is there), never NSEC.
		var t3 []uint16
		for _, t := range ts {
			if t != tNSEC {
				t3 = append(t3, t)
			}
		}
		lab := strings.ToLower(b32.EncodeToString(x.h))
		out = append(out, rec3{ownerHash: x.h, ownerLab: lab, parent: z3.z.apex, next: hs[(i+1)%len(hs)].h,
			nextText: b32.EncodeToString(hs[(i+1)%len(hs)].h), hashLen: 20, alg: 1, flags: fl, iter: z3.iter,
			salt: z3.salt, saltText: hex.EncodeToString(z3.salt), cls: z3.z.cls, types: t3})
	}
	return out
}

func sameRec3(a, b rec3) bool {
	return bytes.Equal(a.ownerHash, b.ownerHash) && a.ownerHash != nil && a.parent.fold().eq(b.parent.fold()) &&
		bytes.Equal(a.next, b.next) && a.next != nil && a.hashLen == b.hashLen && a.alg == b.alg && a.flags == b.flags &&
		a.iter == b.iter && bytes.Equal(a.salt, b.salt) && !a.saltBad && !b.saltBad && a.cls == b.cls && sameTypeSet(a.types, b.types)
}

func usable3(r rec3) bool { return r.alg == 1 && r.iter <= 150 && (r.flags == 0 || r.flags == 1) }

// classify the current set against the genuine ring:
// "genuine" (all records genuine), "mixed" (genuine + at least one usable
// record of another chain / class / zone / malformed: must be refused),
// "skippable" (genuine + only unusable strangers: the exact validators skip
// those, the aggressive classifier refuses), "other".
func (z3 *zone3) setKind(rs []rec3, filtered bool) string {
	g := z3.ring()
	foreignUsable, foreignUnusable, gen := 0, 0, 0
	for _, r := range rs {
		if filtered && !r.owner().fold().under(z3.z.apex) {
			continue // FilterRRsToZone drops it before the validator sees it
		}
		ok := false
		for _, x := range g {
			if sameRec3(r, x) {
				ok = true
				break
			}
		}
		switch {
		case ok && !usable3(r):
			// the zone's own chain uses parameters the validators decline to hash with
			foreignUnusable++
		case ok:
			gen++
		case !usable3(r):
			foreignUnusable++
		default:
			// a usable stranger: is it of a different chain (params / class / zone / malformed)?
			diff := r.iter != z3.iter || !bytes.Equal(r.salt, z3.salt) || r.saltBad || r.cls != z3.z.cls ||
				!r.parent.fold().eq(z3.z.apex) || r.ownerHash == nil || r.next == nil
			if !diff {
				return "other" // same chain parameters but not a genuine record: forged
			}
			foreignUsable++
		}
	}
	switch {
	case foreignUsable > 0 && gen > 0:
		return "mixed"
	case foreignUsable > 0:
		return "other"
	case foreignUnusable > 0:
		return "skippable"
	}
	return "genuine"
}

// parameters the implementation will hash with: those of the first usable record.
func setParams(rs []rec3) ([]byte, int) {
	for _, r := range rs {
		if usable3(r) && !r.saltBad {
			return r.salt, r.iter
		}
	}
	if curZ3 != nil {
		return curZ3.salt, curZ3.iter
	}
	return nil, 0
}

// hashTable: every name the validators may hash for q under signer.
func hashTable(q, signer name) string {
	salt, iter := setParams(curSet3)
	q = q.fold()
	var parts []string
	seen := map[string]bool{}
	add := func(n name) {
		if len(n.wire()) > 255 || seen[n.key()] {
			return
		}
		seen[n.key()] = true
		parts = append(parts, n.String()+"="+hex.EncodeToString(hashOf(n, salt, iter)))
	}
	for k := 0; k <= len(q); k++ {
		a := q.suffix(k)
		add(a)
		add(a.child("*"))
	}
	_ = signer
	return strings.Join(parts, ",")
}

// hashTableFor: the hash table argument covering several names.
func hashTableFor(ns []name, signer name) string {
	seen := map[string]bool{}
	var parts []string
	for _, n := range ns {
		for _, kv := range strings.Split(hashTable(n, signer), ",") {
			if kv != "" && !seen[kv] {
				seen[kv] = true
				parts = append(parts, kv)
			}
		}
	}
	return strings.Join(parts, ",")
}

func secStr(secure bool, err error) string {
	if err != nil {
		return errStr(err)
	}
	return "ok secure=" + vlib.B(secure)
}

// coverIn: the record of rs whose span strictly covers h (oracle's own scan).
func coverIn(rs []rec3, h []byte) *rec3 {
	for i := range rs {
		r := &rs[i]
		if r.ownerHash == nil || r.next == nil || !usable3(*r) || !r.owner().fold().under(curZ3.z.apex) {
			continue // FilterRRsToZone / the signer binding never lets such a record take part
		}
		on, ho, hn := bytes.Compare(r.ownerHash, r.next), bytes.Compare(h, r.ownerHash), bytes.Compare(h, r.next)
		var c bool
		switch {
		case on == 0:
			c = ho != 0
		case on < 0:
			c = ho > 0 && hn < 0
		default:
			c = ho > 0 || hn < 0
		}
		if c {
			return r
		}
	}
	return nil
}

func matchIn(rs []rec3, h []byte) *rec3 {
	for i := range rs {
		if usable3(rs[i]) && bytes.Equal(rs[i].ownerHash, h) && rs[i].owner().fold().under(curZ3.z.apex) {
			return &rs[i]
		}
	}
	return nil
}

// restsOnOptOut: does the proof the validator must have used for q go through
// an opt-out span?  (deepest matched ancestor, then the cover of its child;
// with wild also the cover of the wildcard at that ancestor)
func restsOnOptOut(q name, wild bool) bool {
	q = q.fold()
	for k := len(q); k >= len(curZ3.z.apex); k-- {
		if matchIn(curSet3, hashOf(q.suffix(k), curZ3.salt, curZ3.iter)) != nil {
			if k == len(q) {
				return false
			}
			c := coverIn(curSet3, hashOf(q.suffix(k+1), curZ3.salt, curZ3.iter))
			if c != nil && c.flags&1 == 1 {
				return true
			}
			if wild {
				w := coverIn(curSet3, hashOf(q.suffix(k).child("*"), curZ3.salt, curZ3.iter))
				return w != nil && w.flags&1 == 1
			}
			return false
		}
	}
	return false
}

// belowHashedCut: d lies strictly below a delegation point or DNAME owner that
// the ring contains (i.e. not an opted-out insecure delegation): "delegation"
// / "dname", else "".
func belowHashedCut(d name) string {
	d = d.fold()
	z := curZ3.z
	if !d.under(z.apex) {
		return ""
	}
	for k := len(z.apex); k < len(d); k++ {
		if nd, ok := z.byKey[d.suffix(k).key()]; ok && nd.isCut() {
			if curZ3.opted[nd.n.key()] {
				return "" // everything below an opted-out delegation is invisible to the ring
			}
			if nd.isDeleg() {
				return "delegation"
			}
			return "dname"
		}
	}
	return ""
}

// faultWork: an NSEC3 work governor that shares one hash memo across the
// validations of a request tree and can refuse its first hash (budget
// exhausted / crypto gate saturated / cancellation), holding it long enough for
// a sibling validation to be waiting for that digest.
type faultWork struct {
	memo      *dnssec.NSEC3HashMemo
	failFirst bool
	calls     int
	entered   chan struct{}
}

func (w *faultWork) BeginNSEC3Hash() (func(), error) {
	w.calls++
	if w.failFirst && w.calls == 1 {
		close(w.entered)
		time.Sleep(30 * time.Millisecond) // goroutine hand-off only: lets the sibling reach the in-flight entry
		return nil, errors.New("c02: hash budget exhausted")
	}
	return func() {}, nil
}

func (w *faultWork) NSEC3HashMemos() dnssec.NSEC3HashMemoAccess {
	return dnssec.NSEC3HashMemoAccess{Read: w.memo, Write: w.memo}
}

func execNsec3(f []string) vlib.Res {
	switch f[1] {
	case "new":
		z := parseZone(f[2], f[3], f[4])
		z3 := &zone3{z: z, salt: vlib.UnHex(f[5]), iter: atoi(f[6]), opted: map[string]bool{}}
		if f[7] != "-" {
			z3.optOut = true
			if strings.HasPrefix(f[7], "~") {
				z3.minimal = true
				f[7] = f[7][1:]
			}
			if f[7] != "+" {
				for _, p := range strings.Split(f[7], ";") {
					z3.opted[parseName(p).key()] = true
				}
			}
		}
		curZ3, curSet3, curRR3 = z3, nil, nil
		return vlib.Res{Impl: "ring=" + itoa(len(z3.ring()))}
	case "auth":
		return execAuthNsec3(f)
	case "authu":
		return execAuthUnsigned(f, true)
	case "ans":
		return execAnswer(f, true)
	case "ring":
		// the genuine ring of the current zone (for building witnesses by hand); oracle-side only
		return vlib.Res{Impl: recs3Str(curZ3.ring())}
	case "table":
		// the hash table argument for a name (oracle-side helper)
		return vlib.Res{Impl: hashTable(parseName(f[2]), curZ3.z.apex)}
	case "set":
		curSet3, curRR3 = nil, nil
		if f[2] != "-" {
			for _, p := range strings.Split(f[2], ";") {
				r := parseRec3(p)
				curSet3 = append(curSet3, r)
				curRR3 = append(curRR3, r.rr())
			}
		}
		return vlib.Res{Impl: "n=" + itoa(len(curSet3))}
	case "prep":
		signer := parseName(f[2])
		owners, cls, iter, salt, err := dnssec.VerifC02PrepareNSEC3(curRR3, signer.pres())
		if err != nil {
			return vlib.Res{Impl: errStr(err), Tags: "nt"}
		}
		hs := make([]string, len(owners))
		for i, o := range owners {
			hs[i] = hex.EncodeToString(o)
		}
		or := "ok"
		// one chain only: every usable record carries the ring's tuple and class
		for _, r := range curSet3 {
			if usable3(r) && (r.iter != int(iter) || !bytes.Equal(r.salt, salt) || r.cls != cls || !r.parent.fold().eq(signer.fold())) {
				or = "FAIL sig=nsec3/prepare/mixed-set-accepted"
			}
		}
		return vlib.Res{Impl: fmt.Sprintf("ring=%s cls=%d", strings.Join(hs, ","), cls), Oracle: or, Tags: "nt"}
	case "nxd", "nod":
		signer, q, t, c := parseName(f[2]), parseName(f[3]), uint16(atoi(f[4])), uint16(atoi(f[5]))
		if dnssec.ValidateSigner(signer.pres(), q.pres()) != nil {
			return vlib.Res{Impl: "notsigner", Oracle: "ok"}
		}
		set := dnsutil.FilterRRsToZone(curRR3, signer.pres())
		var secure bool
		var err error
		entry := "nameerror"
		if f[1] == "nxd" {
			secure, err = dnssec.VerifyNameErrorForZoneWithWork(question(q, t, c, dns.RcodeNameError), set, signer.pres(), nil)
		} else {
			entry = "nodata"
			secure, err = dnssec.VerifyNODATAForZoneWithWork(question(q, t, c, dns.RcodeSuccess), set, signer.pres(), nil)
		}
		res := vlib.Res{Impl: secStr(secure, err), Oracle: "-", Tags: "unjudged"}
		kind := curZ3.setKind(curSet3, true)
		if signer.fold().eq(curZ3.z.apex) && kind != "other" {
			res.Oracle, res.Tags = "ok", "rejected,"+kind
			if err == nil {
				truth, why := curZ3.z.answerClass(q, t)
				res.Tags = "nt,accepted," + kind + "," + why
				want := map[string]string{"nxd": "nxdomain", "nod": "nodata"}[f[1]]
				switch {
				case kind == "mixed":
					res.Oracle = fmt.Sprintf("FAIL sig=nsec3/%s/mixed-set-accepted", entry)
				case c != curZ3.z.cls:
					res.Oracle = fmt.Sprintf("FAIL sig=nsec3/%s/wrong-class-accepted", entry)
				case belowHashedCut(q) != "":
					// secure or not: a denial for a name below one of the ring's own cuts
					res.Oracle = fmt.Sprintf("FAIL sig=nsec3/%s/below-%s-accepted", entry, belowHashedCut(q))
				case secure && restsOnOptOut(q, false):
					res.Oracle = fmt.Sprintf("FAIL sig=nsec3/%s/optout-marked-secure", entry)
				case secure && truth != want:
					res.Oracle = fmt.Sprintf("FAIL sig=nsec3/%s/%s-accepted truth=%s", entry, why, truth)
				}
				if !secure {
					res.Tags += ",optout"
				}
			}
		}
		return res
	case "dlg":
		signer, d := parseName(f[2]), parseName(f[3])
		set := dnsutil.FilterRRsToZone(curRR3, signer.pres())
		err := dnssec.VerifyDelegationForZoneWithWork(d.pres(), signer.pres(), set, nil)
		res := vlib.Res{Impl: errStr(err), Oracle: "-", Tags: "unjudged"}
		kind := curZ3.setKind(curSet3, true)
		if signer.fold().eq(curZ3.z.apex) && kind != "other" {
			res.Oracle, res.Tags = "ok", "rejected,"+kind
			if err == nil {
				res.Tags = "nt,accepted," + kind
				nd := curZ3.z.find(d.fold())
				switch {
				case kind == "mixed":
					res.Oracle = "FAIL sig=nsec3/delegation/mixed-set-accepted"
				case belowHashedCut(d) != "":
					// RFC 5155 8.9 / RFC 6840 4.1: the parent's records never speak for
					// names below one of its (non-opted-out) zone cuts or DNAMEs
					res.Oracle = "FAIL sig=nsec3/delegation/below-" + belowHashedCut(d) + "-accepted"
				case nd != nil && nd.types[tDS]:
					res.Oracle = "FAIL sig=nsec3/delegation/ds-present-accepted"
				case nd != nil && !nd.isDeleg():
					res.Oracle = "FAIL sig=nsec3/delegation/not-a-delegation-accepted"
				case nd == nil && !restsOnOptOut(d, false):
					res.Oracle = "FAIL sig=nsec3/delegation/no-owner-no-optout-accepted"
				}
			}
		}
		return res
	case "memo":
		// two validations of the same response in one request tree (shared NSEC3 hash
		// memo); the first one's work governor refuses its first hash while the second
		// is waiting for that very digest.  Whatever the interleaving, the second must
		// end in a work error or in the sequential verdict — never in an acceptance the
		// sequential run refuses.
		signer, q, t, c := parseName(f[2]), parseName(f[3]), uint16(atoi(f[4])), uint16(atoi(f[5]))
		nx := f[6] == "nx"
		set := dnsutil.FilterRRsToZone(curRR3, signer.pres())
		run := func(w dnssec.NSEC3Work) (bool, error) {
			if nx {
				return dnssec.VerifyNameErrorForZoneWithWork(question(q, t, c, dns.RcodeNameError), set, signer.pres(), w)
			}
			return dnssec.VerifyNODATAForZoneWithWork(question(q, t, c, dns.RcodeSuccess), set, signer.pres(), w)
		}
		seqSecure, seqErr := run(nil)
		memo := dnssec.NewNSEC3HashMemo()
		leader := &faultWork{memo: memo, failFirst: true, entered: make(chan struct{})}
		follower := &faultWork{memo: memo}
		done := make(chan struct{})
		go func() { _, _ = run(leader); close(done) }()
		var fSecure bool
		var fErr error
		select {
		case <-leader.entered:
			fSecure, fErr = run(follower)
		case <-done: // the leader never hashed (rejected earlier): nothing to race
			fSecure, fErr = run(follower)
		}
		<-done
		impl := "seq=" + secStr(seqSecure, seqErr) + " faulted="
		switch {
		case fErr != nil && dnssec.IsWorkError(fErr):
			impl += "workerror"
		default:
			impl += secStr(fSecure, fErr)
		}
		or := "ok"
		if fErr == nil && (seqErr != nil || fSecure != seqSecure) {
			or = "FAIL sig=nsec3/memo/failed-inflight-digest-used " + impl
		}
		return vlib.Res{Impl: "ok", Oracle: or, Tags: "nt,memo," + strings.ReplaceAll(impl, " ", ",")}
	case "wild":
		signer, sigs := parseName(f[2]), parseAnsSigs(f[3])
		resp := wildResponse(sigs, signer)
		resp.Ns = dnsutil.FilterRRsToZone(curRR3, signer.pres())
		secure, err := dnssec.VerifyWildcardAnswerForZoneWithWork(resp, signer.pres(), nil)
		res := vlib.Res{Impl: secStr(secure, err), Oracle: "-", Tags: "unjudged"}
		kind := curZ3.setKind(curSet3, true)
		if signer.fold().eq(curZ3.z.apex) && kind != "other" {
			res.Oracle, res.Tags = "ok", "rejected,"+kind
			if err == nil {
				res.Tags = "nt,accepted," + kind
				expanded := false
				opt := false
				for _, g := range sigs {
					if g.labels < len(g.owner) {
						expanded = true
						o := g.owner.fold()
						if c := coverIn(curSet3, hashOf(o.suffix(g.labels+1), curZ3.salt, curZ3.iter)); c != nil && c.flags&1 == 1 {
							opt = true
						}
					}
				}
				switch {
				case kind == "mixed" && expanded:
					res.Oracle = "FAIL sig=wild3/answer/mixed-set-accepted"
				case secure && opt:
					res.Oracle = "FAIL sig=wild3/answer/optout-marked-secure"
				case secure:
					if why := wildTruth(curZ3.z, sigs); why != "" && why != "unjudged" {
						res.Oracle = "FAIL sig=wild3/answer/" + why
					}
				}
			}
		}
		return res
	case "agg":
		signer, q, t, c := parseName(f[2]), parseName(f[3]), uint16(atoi(f[4])), uint16(atoi(f[5]))
		dq := dns.Question{Name: q.pres(), Qtype: t, Qclass: c}
		r1, e1 := dnssec.EvaluateAggressiveNSEC3(dq, signer.pres(), curRR3, nil)
		res := vlib.Res{Impl: aggResult(r1, e1, curRR3), Oracle: "-", Tags: "unjudged"}
		kind := curZ3.setKind(curSet3, false)
		if signer.fold().eq(curZ3.z.apex) && kind != "other" {
			res.Oracle, res.Tags = "ok", "rejected,"+kind
			if e1 == nil {
				truth, why := curZ3.z.answerClass(q, t)
				res.Tags = "nt,accepted," + kind + "," + why
				want := "nodata"
				if r1.Rcode == dns.RcodeNameError {
					want = "nxdomain"
				}
				switch {
				case kind != "genuine":
					res.Oracle = fmt.Sprintf("FAIL sig=agg3/%s/%s-set-accepted", want, kind)
				case c != curZ3.z.cls:
					res.Oracle = fmt.Sprintf("FAIL sig=agg3/%s/wrong-class", want)
				case restsOnOptOut(q, true):
					res.Oracle = fmt.Sprintf("FAIL sig=agg3/%s/optout-span-used", want)
				case truth != want:
					res.Oracle = fmt.Sprintf("FAIL sig=agg3/%s/%s truth=%s", want, why, truth)
				case want == "nodata" && !nodataTypeOK(t):
					res.Oracle = "FAIL sig=agg3/nodata/meta-type"
				}
			}
		}
		return res
	}
	return vlib.Res{Impl: "bad-op"}
}

// ---- generator ----

// signable3: every record is something a signer can put on the wire.
func signable3(set []rec3) bool {
	for _, x := range set {
		if x.saltBad || x.ownerHash == nil || x.next == nil || x.hashLen != len(x.next) {
			return false
		}
	}
	return true
}

func dsVariant(r *vlib.R) string {
	if r.Chance(3, 5) {
		return "good"
	}
	return vlib.Pick(r, []string{"nosig", "badsig", "none", "dsok", "dsunsupd", "dsunsupa", "dsmixed"})
}

func authVariant(r *vlib.R) string {
	if r.Chance(2, 3) {
		return "good"
	}
	return vlib.Pick(r, []string{"cd", "nosig", "nodsig", "badsig", "insec", "insecnosig", "extrasig", "extrasig"})
}

func genNsec3Case(r *vlib.R, emit func(string)) int {
	z := genZone(r)
	rich := r.Chance(1, 4)
	if rich {
		// a delegation-heavy zone: several insecure delegations to opt out
		for i := 0; i < 3+r.Intn(4); i++ {
			z.add(z.apex.child(fmt.Sprintf("d%d", i)), authTypes(tNS)...)
		}
	}
	for _, nd := range z.nodes {
		delete(nd.types, tNSEC) // an NSEC3-signed zone has no NSEC RRsets
	}
	z.byKey[z.apex.key()].types[tNSEC3P] = true
	z3 := &zone3{z: z, opted: map[string]bool{}}
	switch r.Intn(6) {
	case 0:
	case 1, 2, 3:
		z3.salt = r.Bytes(1 + r.Intn(8))
	default:
		z3.salt = []byte{0xab, 0xcd}
	}
	z3.iter = vlib.Pick(r, []int{0, 0, 0, 1, 2, 5, 10, 150, 0, 1, 0, 151, 200})
	optSpec := "-"
	if rich || r.Chance(2, 5) {
		z3.optOut = true
		optSpec = "+"
		var names []string
		for _, nd := range z.auth() {
			if nd.isDeleg() && !nd.types[tDS] && r.Chance(2, 3) {
				z3.opted[nd.n.key()] = true
				names = append(names, nd.n.String())
			}
		}
		if len(names) > 0 {
			optSpec = strings.Join(names, ";")
			if rich || r.Bool() {
				z3.minimal = true
				optSpec = "~" + optSpec
			}
		}
	}
	emit(fmt.Sprintf("h new %s %s %d %s", z.String(), vlib.Hex(z3.salt), z3.iter, optSpec))
	curZ3 = z3 // the generator needs hashes of the zone it is building cases for
	ring := z3.ring()
	cnt := 1
	// a question whose next-closer cover is clean while the wildcard cover at the
	// apex carries Opt-Out (only possible with per-span flags)
	if z3.minimal {
		if w := coverIn(ring, hashOf(z.apex.child("*"), z3.salt, z3.iter)); w != nil && w.flags&1 == 1 {
			for i := 0; i < 60; i++ {
				q := z.apex.child(fmt.Sprintf("q%d", i))
				if c := coverIn(ring, hashOf(q, z3.salt, z3.iter)); c != nil && c.flags&1 == 0 {
					emit("h set " + recs3Str(ring))
					curSet3 = ring
					emit(fmt.Sprintf("h agg %s %s 1 1 %s", z.apex, q, hashTable(q, z.apex)))
					emit(fmt.Sprintf("h nxd %s %s 1 1 %s", z.apex, q, hashTable(q, z.apex)))
					cnt += 3
					break
				}
			}
		}
	}
	// shared-memo fault interleavings over the full ring: existing names, ENTs, absent names
	if r.Chance(1, 4) {
		emit("h set " + recs3Str(ring))
		curSet3 = ring
		cnt++
		tr := z.tree()
		for i := 0; i < 3; i++ {
			q := vlib.Pick(r, tr)
			if r.Chance(1, 3) {
				q = q.child(genLabel(r))
			}
			if len(q.wire()) > 200 {
				continue
			}
			emit(fmt.Sprintf("h memo %s %s %d 1 %s", z.apex, q, vlib.Pick(r, []int{1, 28, 43}), vlib.Pick(r, []string{"nx", "nx", "nd"})))
			cnt++
		}
	}
	// names below the zone's own (hashed) cuts, offered as "insecure delegations"
	// and DS denials: in an Opt-Out zone a flagged span may well cover the next
	// closer name, the closest encloser is what must stop the proof
	if z3.optOut && r.Chance(2, 3) {
		first := true
		for _, nd := range z.auth() {
			if !nd.isCut() || z3.opted[nd.n.key()] || len(nd.n) >= 5 {
				continue
			}
			if first {
				emit("h set " + recs3Str(ring))
				curSet3 = ring
				cnt++
				first = false
			}
			for _, q := range []name{nd.n.child("kid"), nd.n.child("kid").child("x")} {
				emit(fmt.Sprintf("h authu %s %s %d %s %s %s", z.apex, q, vlib.Pick(r, []int{1, 43}), vlib.Pick(r, []string{"nx", "nd"}), dsVariant(r), hashTable(q, z.apex)))
				cnt++
				emit(fmt.Sprintf("h dlg %s %s %s", z.apex, q, hashTable(q, z.apex)))
				emit(fmt.Sprintf("h nod %s %s 43 1 %s", z.apex, q, hashTable(q, z.apex)))
				emit(fmt.Sprintf("h nxd %s %s 1 1 %s", z.apex, q, hashTable(q, z.apex)))
				cnt += 3
			}
		}
	}
	for round := 0; round < 2+r.Intn(3); round++ {
		var set []rec3
		switch k := r.Intn(10); {
		case k < 5:
			set = append(set, ring...)
		case k < 8:
			for _, x := range ring {
				if r.Chance(3, 4) {
					set = append(set, x)
				}
			}
		case k < 9:
			set = append(set, vlib.Pick(r, ring))
		}
		if r.Chance(1, 10) && len(set) > 0 {
			set = append(set, vlib.Pick(r, set)) // exact repeat
		}
		// strangers: a record that is not this chain's.  Half of them reuse a
		// genuine record (same owner hash: the conflict check sees them too), half
		// sit at an owner hash of their own (only the tuple / class / zone checks can
		// refuse those).
		stranger := false
		if r.Chance(1, 3) && len(ring) > 0 {
			stranger = true
			if r.Bool() {
				set = append([]rec3(nil), ring...) // an otherwise complete proof set
			}
			x := vlib.Pick(r, ring)
			if r.Bool() {
				fake := z.apex.child(fmt.Sprintf("fake%d", r.Intn(1000)))
				x.ownerHash = hashOf(fake, z3.salt, z3.iter)
				x.ownerLab = strings.ToLower(b32.EncodeToString(x.ownerHash))
				x.next = hashOf(fake.child("n"), z3.salt, z3.iter)
				x.nextText = b32.EncodeToString(x.next)
				x.types = []uint16{tA, tRRSIG}
			}
			switch r.Intn(12) {
			case 0:
				x.iter = z3.iter + 1
			case 1:
				// another salt: longer, shorter, or (salt rotation) same length, other value
				switch {
				case len(z3.salt) > 0 && r.Chance(2, 3):
					x.salt = append([]byte(nil), z3.salt...)
					x.salt[r.Intn(len(x.salt))] ^= byte(1 + r.Intn(255))
				case len(z3.salt) > 1 && r.Bool():
					x.salt = append([]byte(nil), z3.salt[1:]...)
				default:
					x.salt = append([]byte{0x01}, z3.salt...)
				}
				x.saltText = hex.EncodeToString(x.salt)
			case 2:
				x.cls = 3
			case 3:
				x.parent = x.parent.child("sub") // one label too deep (child zone's chain)
			case 4:
				if len(z.apex) > 0 {
					x.parent = z.apex.parent().child(z.apex[0] + "x") // sibling zone
				}
			case 5:
				x.iter = 151 // unusable: skipped by the exact validators
			case 6:
				x.alg = 2
			case 7:
				x.flags = 2
			case 8:
				x.saltBad, x.saltText = true, "zz"
			case 9:
				x.ownerHash, x.ownerLab = nil, "nothash"
			case 10:
				x.next, x.nextText = nil, "0123"
			default:
				x.hashLen = 19
			}
			set = append(set, x)
		}
		// a second chain of the same zone (salt rotation / re-signing with other
		// iterations): genuine records of BOTH chains in one set must be refused
		if r.Chance(1, 8) {
			alt := *z3
			if len(z3.salt) > 0 && r.Chance(3, 4) {
				alt.salt = append([]byte(nil), z3.salt...)
				alt.salt[r.Intn(len(alt.salt))] ^= byte(1 + r.Intn(255))
			} else {
				alt.iter = z3.iter + 1 + r.Intn(3)
				if alt.iter > 150 {
					alt.iter = z3.iter - 1
				}
			}
			ar := alt.ring()
			set = append([]rec3(nil), ring...)
			for _, x := range ar {
				if r.Chance(2, 3) {
					set = append(set, x)
				}
			}
			if len(set) == len(ring) {
				set = append(set, ar[0])
			}
			stranger = true
		}
		// a forged span that swallows a genuine owner hash: the match for that
		// owner is then also covered (lookup must refuse); unjudged, model-vs-code
		if r.Chance(1, 12) && len(ring) > 1 {
			set = append([]rec3(nil), ring...)
			b := vlib.Pick(r, ring)
			x := b
			x.ownerHash = append([]byte(nil), b.ownerHash...)
			x.ownerHash[19]--
			x.ownerLab = strings.ToLower(b32.EncodeToString(x.ownerHash))
			x.types = []uint16{tA, tRRSIG}
			set = append(set, x)
		}
		// forged interval (same chain parameters): unjudged, model-vs-code only
		if r.Chance(1, 10) && len(ring) > 1 {
			x := vlib.Pick(r, ring)
			switch r.Intn(3) {
			case 0:
				x.next = vlib.Pick(r, ring).ownerHash
				x.nextText = b32.EncodeToString(x.next)
			case 1:
				x.types = []uint16{tA, tNS}
			default:
				x.flags ^= 1
			}
			set = append(set, x)
		}
		for i := len(set) - 1; i > 0; i-- {
			j := r.Intn(i + 1)
			set[i], set[j] = set[j], set[i]
		}
		if r.Chance(1, 5) {
			for i := range set {
				if set[i].ownerHash != nil && r.Bool() {
					set[i].ownerLab = strings.ToUpper(set[i].ownerLab)
				}
			}
		}
		emit("h set " + recs3Str(set))
		curSet3 = set
		cnt++
		sg := genSigner(r, z)
		if stranger {
			sg = z.apex
		}
		if stranger || r.Chance(1, 3) {
			emit("h prep " + sg.String())
			cnt++
		}
		for j := 0; j < 2+r.Intn(3); j++ {
			q := genQuery(r, z)
			if len(q.wire()) > 200 {
				continue
			}
			if r.Chance(1, 6) {
				q = flipCase(r, q)
			}
			t := vlib.Pick(r, qtypes)
			if nd := z.find(q.fold()); nd != nil && r.Chance(1, 3) {
				t = vlib.Pick(r, sortedTypes(nd.types)) // a type the name HAS
			}
			c := 1
			if r.Chance(1, 20) {
				c = vlib.Pick(r, []int{0, 3, 254, 255})
			}
			sg := genSigner(r, z)
			emit(fmt.Sprintf("h nxd %s %s %d %d %s", sg, q, t, c, hashTable(q, sg)))
			emit(fmt.Sprintf("h nod %s %s %d %d %s", sg, q, t, c, hashTable(q, sg)))
			emit(fmt.Sprintf("h agg %s %s %d %d %s", sg, q, t, c, hashTable(q, sg)))
			cnt += 3
			if signable3(set) && r.Chance(1, 4) {
				// no signature at all: only a proven insecure delegation above the name excuses it
				emit(fmt.Sprintf("h authu %s %s %d %s %s %s", sg, q, t, vlib.Pick(r, []string{"nx", "nd"}), dsVariant(r), hashTable(q, sg)))
				cnt++
			}
			if signable3(set) && r.Chance(1, 2) {
				// the same records and question through the real Resolver.authority
				emit(fmt.Sprintf("h auth %s %s %d %s %s %s", sg, q, t, vlib.Pick(r, []string{"nx", "nd"}), authVariant(r), hashTable(q, sg)))
				cnt++
			}
			if r.Chance(1, 2) {
				emit(fmt.Sprintf("h dlg %s %s %s", sg, q, hashTable(q, sg)))
				cnt++
			}
		}
		if r.Chance(1, 2) {
			gs := genWildSigs(r, z)
			var ns []name
			for _, g := range gs {
				if len(g.owner.wire()) <= 200 {
					ns = append(ns, g.owner)
				}
			}
			if len(ns) == len(gs) {
				emit(fmt.Sprintf("h wild %s %s %s", genSigner(r, z), ansSigsStr(gs), hashTableFor(ns, z.apex)))
				cnt++
				if signableAns(gs) && signable3(set) && r.Chance(2, 3) {
					emit(fmt.Sprintf("h ans %s %s %s %s", genSigner(r, z), ansSigsStr(gs), ansVariant(r), hashTableFor(ns, z.apex)))
					cnt++
				}
			}
		}
	}
	return cnt
}
