//go:build verif

package main

import (
	"encoding/hex"
	"sort"
	"strings"

	"github.com/miekg/dns"
)

// A name is its labels in presentation order (leaf first), raw octets.
// On op lines: labels joined by '.', a label is either a literal of
// [a-z0-9*_-] or "~<hex>"; the root is ".".
type name []string

func safeLit(l string) bool {
	if l == "" {
		return false
	}
	for i := 0; i < len(l); i++ {
		c := l[i]
		if !(c >= 'a' && c <= 'z' || c >= '0' && c <= '9' || c == '*' || c == '_' || c == '-') {
			return false
		}
	}
	return true
}

func (n name) String() string {
	if len(n) == 0 {
		return "."
	}
	parts := make([]string, len(n))
	for i, l := range n {
		if safeLit(l) {
			parts[i] = l
		} else {
			parts[i] = "~" + hex.EncodeToString([]byte(l))
		}
	}
	return strings.Join(parts, ".")
}

func parseName(s string) name {
	if s == "." {
		return name{}
	}
	var out name
	for _, p := range strings.Split(s, ".") {
		if strings.HasPrefix(p, "~") {
			b, err := hex.DecodeString(p[1:])
			if err != nil || len(b) == 0 {
				panic("bad label " + p)
			}
			out = append(out, string(b))
		} else {
			if p == "" {
				panic("empty label in " + s)
			}
			out = append(out, p)
		}
	}
	return out
}

func foldLabel(l string) string {
	b := []byte(l)
	for i, c := range b {
		if c >= 'A' && c <= 'Z' {
			b[i] = c + 32
		}
	}
	return string(b)
}

func (n name) fold() name {
	out := make(name, len(n))
	for i, l := range n {
		out[i] = foldLabel(l)
	}
	return out
}

func (n name) eq(m name) bool {
	if len(n) != len(m) {
		return false
	}
	for i := range n {
		if n[i] != m[i] {
			return false
		}
	}
	return true
}

// key is a map key for a folded name.
func (n name) key() string { return strings.Join([]string(n.fold()), "\x00/") + "\x00|" }

func (n name) child(l string) name { return append(name{l}, n...) }

func (n name) parent() name { return n[1:] }

// anc reports whether a is an ancestor of or equal to n (both folded).
func (n name) under(a name) bool {
	if len(a) > len(n) {
		return false
	}
	off := len(n) - len(a)
	for i := range a {
		if n[off+i] != a[i] {
			return false
		}
	}
	return true
}

// suffix returns the last k labels (the ancestor with k labels).
func (n name) suffix(k int) name { return n[len(n)-k:] }

func (n name) wire() []byte {
	var w []byte
	for _, l := range n {
		w = append(w, byte(len(l)))
		w = append(w, l...)
	}
	return append(w, 0)
}

// pres is the presentation form exactly as the resolver sees a name that
// arrived on the wire: miekg's own unpacker renders it.
func (n name) pres() string {
	s, _, err := dns.UnpackDomainName(n.wire(), 0)
	if err != nil {
		panic("unpack " + n.String() + ": " + err.Error())
	}
	return s
}

// canonLess: RFC 4034 section 6.1 written out directly (independent of the
// code under test): compare label by label from the root, each label as a
// lower-cased octet string, absent label sorts first.
func canonCmp(a, b name) int {
	i, j := len(a)-1, len(b)-1
	for i >= 0 && j >= 0 {
		la, lb := foldLabel(a[i]), foldLabel(b[j])
		if la != lb {
			k := 0
			for k < len(la) && k < len(lb) {
				if la[k] != lb[k] {
					if la[k] < lb[k] {
						return -1
					}
					return 1
				}
				k++
			}
			if len(la) < len(lb) {
				return -1
			}
			return 1
		}
		i--
		j--
	}
	switch {
	case i < 0 && j < 0:
		return 0
	case i < 0:
		return -1
	}
	return 1
}

func typesStr(ts []uint16) string {
	if len(ts) == 0 {
		return "-"
	}
	parts := make([]string, len(ts))
	for i, t := range ts {
		parts[i] = itoa(int(t))
	}
	return strings.Join(parts, ",")
}

func parseTypes(s string) []uint16 {
	if s == "-" || s == "" {
		return nil
	}
	var out []uint16
	for _, p := range strings.Split(s, ",") {
		out = append(out, uint16(atoi(p)))
	}
	return out
}

func sortedTypes(m map[uint16]bool) []uint16 {
	var out []uint16
	for t := range m {
		out = append(out, t)
	}
	sort.Slice(out, func(i, j int) bool { return out[i] < out[j] })
	return out
}
