//go:build verif

package main

// System-level ops for C19: the REAL pipeline edns -> cache -> iterative
// resolver (harness/l3: scripted loopback authorities, production auto-wiring)
// instead of the scripted stub below the cache.  Judged by the oracle only.
//
//	l3 new <en> <f4> <f6> <m4> <m6> <nets> <cap>
//	l3 q <client> <copts> <declared>          one client query for www.geo.test. A
//	l3 race <clientA> <coptsA> <clientB> <coptsB> <declared>   two concurrent clients, slow authority
//
// <declared>: what the leaf authority says about the client subnet: "S<bits>" echoes
// family / source netmask / address of the subnet option it was SENT with SCOPE <bits>
// (nothing when the query carried none), "T<bits>" echoes family and address but sets SOURCE
// and SCOPE both to <bits>, "E…" attaches that fixed option whatever it
// was sent (a misbehaving authority), "-" attaches nothing.

import (
	"fmt"
	"sort"
	"strings"
	"sync"
	"time"

	"github.com/miekg/dns"
	"github.com/semihalev/sdns/config"
	"github.com/semihalev/sdns/internal/verif/l3"
	"github.com/semihalev/sdns/internal/verif/vlib"
	"github.com/semihalev/sdns/middleware/cache"
)

type l3Pending struct {
	m *dns.Msg
	n int
}

type l3T struct {
	w      *l3.World
	p      *l3.Pipe
	spec   polSpec
	cap    int
	mu     sync.Mutex
	n      int             // answers given by the leaf authority so far
	decl   string          // what the authority declares on its next answers (S<bits> | E… | -)
	pending map[uint16]l3Pending // answers built by Tamper, completed by Pre (which sees the query)
	declared map[int][]optT      // answer id -> subnet option the authority attached
	seen   [][]dns.EDNS0   // OPT options of the queries that reached the leaf authority for the name
	delay  time.Duration
	ledger map[int]*ansRec
	sentFor map[int]*dns.EDNS0_SUBNET // answer number -> the subnet option the authority was sent for it
	canon  map[int]int // authority answer number -> order of first appearance at a client (retries burn numbers)
}

var l3s *l3T

const l3Name = "www.geo.test."

func l3New(f []string) vlib.Res {
	if l3s != nil {
		l3s.p.Close()
		l3s.w.Close()
	}
	s := &l3T{spec: specFrom(f, false), cap: vlib.Atoi(f[6]), ledger: map[int]*ansRec{}, decl: "-",
		pending: map[uint16]l3Pending{}, declared: map[int][]optT{}, canon: map[int]int{}, sentFor: map[int]*dns.EDNS0_SUBNET{}}
	s.w = l3.NewWorld(false)
	s.w.AddZone("test.", l3.ZoneOpts{})
	z := s.w.AddZone("geo.test.", l3.ZoneOpts{})
	z.Add(l3Name + " 300 IN A 192.0.2.1")
	isQ := func(q dns.Question) bool { return strings.EqualFold(q.Name, l3Name) && q.Qtype == dns.TypeA }
	z.Servers[0].SetBehaviour(l3.Behaviour{
		Delay: func(q dns.Question, _ bool) time.Duration {
			if isQ(q) {
				s.mu.Lock()
				defer s.mu.Unlock()
				return s.delay
			}
			return 0
		},
		Tamper: func(q dns.Question, m *dns.Msg, _ bool) *dns.Msg {
			if !isQ(q) || m == nil {
				return m
			}
			s.mu.Lock()
			defer s.mu.Unlock()
			s.n++
			for _, rr := range m.Answer {
				if a, ok := rr.(*dns.A); ok {
					a.A = ansIP(s.n)
				}
			}
			// the query itself is only visible to Pre (same request, called next)
			s.pending[m.Id] = l3Pending{m: m, n: s.n}
			return m
		},
		Pre: func(req *dns.Msg) []*dns.Msg {
			if len(req.Question) == 1 && isQ(req.Question[0]) {
				s.mu.Lock()
				defer s.mu.Unlock()
				var os []dns.EDNS0
				var sent *dns.EDNS0_SUBNET
				for _, rr := range req.Extra {
					if o, ok := rr.(*dns.OPT); ok {
						os = append(os, o.Option...)
						for _, x := range o.Option {
							if e, ok := x.(*dns.EDNS0_SUBNET); ok && sent == nil {
								sent = e
							}
						}
					}
				}
				s.seen = append(s.seen, os)
				pd, ok := s.pending[req.Id]
				if !ok {
					return nil
				}
				s.sentFor[pd.n] = sent
				delete(s.pending, req.Id)
				var d *optT
				switch {
				case strings.HasPrefix(s.decl, "S") && sent != nil:
					_, a := normAddr(sent.Address)
					d = &optT{isECS: true, fam: sent.Family, mask: sent.SourceNetmask, scope: declBits(s.decl, sent.Family), addr: a}
				case strings.HasPrefix(s.decl, "T") && sent != nil:
					// family and address echoed, but SOURCE rewritten to the scope (a common deviation from RFC 7871 7.3)
					_, a := normAddr(sent.Address)
					b := declBits(s.decl, sent.Family)
					d = &optT{isECS: true, fam: sent.Family, mask: b, scope: b, addr: a}
				case strings.HasPrefix(s.decl, "E"):
					o := parseOpt(s.decl)
					d = &o
				}
				if d != nil {
					o := pd.m.IsEdns0()
					if o == nil {
						o = new(dns.OPT)
						o.Hdr.Name, o.Hdr.Rrtype = ".", dns.TypeOPT
						o.SetUDPSize(1232)
						pd.m.Extra = append(pd.m.Extra, o)
					}
					o.Option = append(o.Option, buildOpt(*d))
					s.declared[pd.n] = []optT{*d}
				}
			}
			return nil
		},
	})
	s.p = l3.NewPipe(s.w, l3.PipeOpts{DNSSEC: false, Tweak: func(cfg *config.Config) {
		cfg.NSID, cfg.CookieSecret = "c19", "c19-secret"
		cfg.ECS = config.ECSConfig{Enabled: s.spec.en, ForwardV4Max: uint8(s.spec.f4), ForwardV6Max: uint8(s.spec.f6),
			MinScopeV4: uint8(s.spec.m4), MinScopeV6: uint8(s.spec.m6), ClientNetworks: netTexts(s.spec.nets),
			CacheLimitTTL: config.Duration{Duration: time.Duration(s.cap) * time.Second}}
	}})
	l3s = s
	return vlib.Res{Impl: "ok", Oracle: "-"}
}

func (s *l3T) setDecl(tok string) {
	s.mu.Lock()
	defer s.mu.Unlock()
	s.decl = tok
}

// one runs one client query; returns the served answer id and the reply.
func (s *l3T) one(c clientT, tok string) (int, *dns.Msg, []optT) {
	cr := buildClient(l3Name, dns.TypeA, false, false, tok)
	reply := s.p.Exchange(cr.msg, l3.Flags{Client: c.hostport()})
	return idOfMsg(reply), reply, cr.sent
}

// judge: what the oracle says about one served answer.
func (s *l3T) judge(c clientT, sent []optT, served int, reply *dns.Msg, fresh bool) string {
	if reply == nil {
		return ""
	}
	if v := checkReply(allReplyOpts(reply)); v != "" {
		return strings.Replace(v, "sig=reply/", "sig=l3/reply/", 1)
	}
	rec := s.ledger[served]
	if rec == nil || !rec.wellformed || rec.eff == 0 {
		return ""
	}
	// the audience of the answer: from the cache, the network the authority declared;
	// straight from an upstream lookup, the network that lookup was made FOR (what
	// the authority was sent) — an authority that declares some other network is
	// lying to the client that asked, which is not sdns's doing
	fam, addr, bits := rec.fam, rec.addr, rec.eff
	how := "from-cache"
	if fresh {
		how = "from-shared-upstream-lookup"
		sub := s.sentFor[served]
		if sub == nil {
			return ""
		}
		fam, addr = normAddr(sub.Address)
		bits = min(bits, int(sub.SourceNetmask))
	}
	if naiveAllows(s.spec, c, true) {
		for _, o := range sent {
			if ofam, oaddr, ok := usableECS(o); ok && ofam == fam && int(o.mask) >= bits && bitsEqual(oaddr, addr, bits) {
				return ""
			}
		}
	}
	return fail("l3/scoped-answer-served-outside-scope/"+how, "answer %d tailored for %x/%d", served, addr, bits)
}

// note records, for every answer the authority gave since `from`, what it declared and what it had been sent.
func (s *l3T) note(fromN, fromSeen int) string {
	s.mu.Lock()
	defer s.mu.Unlock()
	or := ""
	for i := fromN + 1; i <= s.n; i++ {
		var up []optT
		var seen []dns.EDNS0
		if j := fromSeen + (i - fromN - 1); j < len(s.seen) {
			seen = s.seen[j]
		}
		up = s.declared[i]
		s.ledger[i] = newRec(s.spec, 0, false, up, true, seen)
		// what left sdns towards the authority: only a clamped subnet option, nothing else of the client's
		for _, o := range seen {
			sub, ok := o.(*dns.EDNS0_SUBNET)
			if !ok {
				if or == "" {
					or = fail(fmt.Sprintf("l3/upstream/client-option-forwarded/code-%d", o.Option()), "")
				}
				continue
			}
			fam, addr := normAddr(sub.Address) // the authority's decoder hands family 1 over in the 16-byte mapped form
			if or == "" && (fam == 0 || !s.spec.forwards() || int(sub.SourceNetmask) > s.spec.ceiling(fam) || !hostZero(addr, int(sub.SourceNetmask))) {
				or = fail("l3/upstream/subnet-beyond-policy", "%s", renderOpt(o, true))
			}
		}
	}
	return or
}

// normSeen renders what reached the authority with family-1 addresses in their 4-byte form.
func normSeen(os []dns.EDNS0) string {
	var out []dns.EDNS0
	for _, o := range os {
		if e, ok := o.(*dns.EDNS0_SUBNET); ok {
			if fam, a := normAddr(e.Address); fam == 4 {
				c := *e
				c.Address = a
				o = &c
			}
		}
		out = append(out, o)
	}
	return renderOpts(out, true)
}

func (s *l3T) canonical(served int) int {
	if served < 0 {
		return served
	}
	if _, ok := s.canon[served]; !ok {
		s.canon[served] = len(s.canon) + 1
	}
	return s.canon[served]
}

func l3Q(f []string) vlib.Res {
	s := l3s
	c := parseClient(f[0])
	s.setDecl(f[2])
	s.mu.Lock()
	n0, seen0 := s.n, len(s.seen)
	s.delay = 0
	s.mu.Unlock()
	served, reply, sent := s.one(c, f[1])
	if reply == nil {
		return vlib.Res{Impl: "noreply", Oracle: fail("l3/no-reply", "")}
	}
	or := s.note(n0, seen0)
	s.mu.Lock()
	fresh := s.n > n0
	up := "hit"
	if fresh && len(s.seen) > seen0 {
		up = normSeen(s.seen[len(s.seen)-1])
	}
	s.mu.Unlock()
	if or == "" {
		or = s.judge(c, sent, served, reply, fresh)
	}
	ropt := "noopt"
	if o := reply.IsEdns0(); o != nil {
		parts := strings.Split(renderOpts(o.Option, false), ",")
		sort.Strings(parts)
		ropt = strings.Join(parts, ",")
	}
	impl := fmt.Sprintf("up=hit ans=%d ropt=%s st=- ttl=- pf=-", s.canonical(served), ropt)
	tags := "nt,l3"
	if fresh {
		stS, ttlS, pfS := "none", "-", "-"
		for _, e := range cache.VerifC19Entries(s.p.Cache) {
			if idOfMsg(e.Msg) == served && strings.EqualFold(e.Q.Name, l3Name) {
				stS = "shared"
				if e.Scope.IsValid() {
					stS = renderPrefix(e.Scope)
					tags += ",l3-stored-scoped"
				}
				ttlS, pfS = fmt.Sprint(int(e.TTL/time.Second)), vlib.B(e.PrefetchEligible)
				if or == "" {
					if v := checkStored(s.ledger[served], s.cap, e.Scope, int(e.TTL/time.Second), e.PrefetchEligible); v != "" {
						or = strings.Replace(v, "sig=scoped/", "sig=l3/scoped/", 1)
					}
				}
			}
		}
		impl = fmt.Sprintf("up=%s ans=%d ropt=%s st=%s ttl=%s pf=%s", up, s.canonical(served), ropt, stS, ttlS, pfS)
	}
	if or == "" {
		or = "ok"
	}
	return vlib.Res{Impl: impl, Oracle: or, Tags: tags}
}

func l3Race(f []string) vlib.Res {
	s := l3s
	ca, cb := parseClient(f[0]), parseClient(f[2])
	s.setDecl(f[4])
	s.mu.Lock()
	n0, seen0 := s.n, len(s.seen)
	s.delay = 150 * time.Millisecond
	s.mu.Unlock()
	var wg sync.WaitGroup
	var sa, sb int
	var ra, rb *dns.Msg
	var senta, sentb []optT
	wg.Add(2)
	go func() { defer wg.Done(); sa, ra, senta = s.one(ca, f[1]) }()
	time.Sleep(30 * time.Millisecond) // A is the leader
	go func() { defer wg.Done(); sb, rb, sentb = s.one(cb, f[3]) }()
	wg.Wait()
	s.mu.Lock()
	s.delay = 0
	upstream := s.n - n0
	s.mu.Unlock()
	or := s.note(n0, seen0)
	if or == "" {
		or = s.judge(ca, senta, sa, ra, true)
	}
	if or == "" {
		or = s.judge(cb, sentb, sb, rb, true)
	}
	if or == "" {
		or = "ok"
	}
	return vlib.Res{Impl: fmt.Sprintf("upstream=%d a=%d b=%d", upstream, sa, sb), Oracle: or, Tags: "nt,l3,l3-race"}
}
