//go:build verif

package main

// Forwarder-mode ops for C19: the real pipeline edns -> cache -> forwarder in
// front of a scripted, ECS-aware upstream resolver on loopback that numbers its
// answers, sees the query and declares a scope (same <declared> syntax as l3).
//
//	fwd new <en> <f4> <f6> <m4> <m6> <nets> <cap>
//	fwd q <client> <copts> <declared>
//
// Modelled and compared line by line: the forwarder hands the upstream's OPT up
// unchanged, so the cache reads the scope the upstream declared.

import (
	"context"
	"fmt"
	"net"
	"sort"
	"strings"
	"sync"
	"time"

	"github.com/miekg/dns"
	"github.com/semihalev/sdns/config"
	"github.com/semihalev/sdns/internal/mock"
	"github.com/semihalev/sdns/internal/verif/vlib"
	"github.com/semihalev/sdns/middleware"
	"github.com/semihalev/sdns/middleware/cache"
	"github.com/semihalev/sdns/middleware/edns"
	"github.com/semihalev/sdns/middleware/forwarder"
)

type fwdUp struct {
	addr     string
	mu       sync.Mutex
	n        int
	decl     string
	seen     [][]dns.EDNS0
	sentFor  map[int]*dns.EDNS0_SUBNET
	declared map[int][]optT
}

var fwdUpstream *fwdUp

func fwdServer() *fwdUp {
	if fwdUpstream != nil {
		return fwdUpstream
	}
	pc, err := net.ListenPacket("udp", "127.0.0.1:0")
	if err != nil {
		panic(err)
	}
	u := &fwdUp{addr: pc.LocalAddr().String()}
	srv := &dns.Server{PacketConn: pc, Handler: dns.HandlerFunc(func(w dns.ResponseWriter, r *dns.Msg) {
		u.mu.Lock()
		defer u.mu.Unlock()
		u.n++
		var os []dns.EDNS0
		var sent *dns.EDNS0_SUBNET
		for _, rr := range r.Extra {
			if o, ok := rr.(*dns.OPT); ok {
				os = append(os, o.Option...)
				for _, x := range o.Option {
					if e, ok := x.(*dns.EDNS0_SUBNET); ok && sent == nil {
						sent = e
					}
				}
			}
		}
		u.seen = append(u.seen, os)
		u.sentFor[u.n] = sent
		m := new(dns.Msg)
		m.SetReply(r)
		m.RecursionAvailable = true
		m.Answer = []dns.RR{&dns.A{Hdr: dns.RR_Header{Name: r.Question[0].Name, Rrtype: dns.TypeA, Class: dns.ClassINET, Ttl: 300}, A: ansIP(u.n)}}
		o := new(dns.OPT)
		o.Hdr.Name, o.Hdr.Rrtype = ".", dns.TypeOPT
		o.SetUDPSize(1232)
		var d *optT
		switch {
		case strings.HasPrefix(u.decl, "S") && sent != nil:
			_, a := normAddr(sent.Address)
			d = &optT{isECS: true, fam: sent.Family, mask: sent.SourceNetmask, scope: declBits(u.decl, sent.Family), addr: a}
		case strings.HasPrefix(u.decl, "T") && sent != nil:
			_, a := normAddr(sent.Address)
			b := declBits(u.decl, sent.Family)
			d = &optT{isECS: true, fam: sent.Family, mask: b, scope: b, addr: a}
		case strings.HasPrefix(u.decl, "E"):
			x := parseOpt(u.decl)
			d = &x
		}
		if d != nil {
			o.Option = append(o.Option, buildOpt(*d))
			u.declared[u.n] = []optT{*d}
		}
		m.Extra = append(m.Extra, o)
		_ = w.WriteMsg(m)
	})}
	go func() { _ = srv.ActivateAndServe() }()
	fwdUpstream = u
	return u
}

type fwdT struct {
	spec   polSpec
	cap    int
	ed     *edns.EDNS
	ca     *cache.Cache
	fo     *forwarder.Forwarder
	up     *fwdUp
	ledger map[int]*ansRec
	canon  map[int]int
}

var fwds *fwdT

const fwdName = "www.fwd.c19.test."

func fwdNew(f []string) vlib.Res {
	if fwds != nil {
		fwds.ca.Stop()
	}
	u := fwdServer()
	u.mu.Lock()
	u.n, u.seen, u.sentFor, u.declared, u.decl = 0, nil, map[int]*dns.EDNS0_SUBNET{}, map[int][]optT{}, "-"
	u.mu.Unlock()
	s := &fwdT{spec: specFrom(f, false), cap: vlib.Atoi(f[6]), up: u, ledger: map[int]*ansRec{}, canon: map[int]int{}}
	cfg := &config.Config{CacheSize: 1024, Expire: 600, CookieSecret: "c19-secret", NSID: "c19", ForwarderServers: []string{u.addr}}
	cfg.ECS = config.ECSConfig{Enabled: s.spec.en, ForwardV4Max: uint8(s.spec.f4), ForwardV6Max: uint8(s.spec.f6),
		MinScopeV4: uint8(s.spec.m4), MinScopeV6: uint8(s.spec.m6), ClientNetworks: netTexts(s.spec.nets),
		CacheLimitTTL: config.Duration{Duration: time.Duration(s.cap) * time.Second}}
	s.ed, s.ca, s.fo = edns.New(cfg), cache.New(cfg), forwarder.New(cfg)
	fwds = s
	return vlib.Res{Impl: "ok", Oracle: "-"}
}

func fwdQ(f []string) vlib.Res {
	s := fwds
	u := s.up
	c := parseClient(f[0])
	u.mu.Lock()
	u.decl = f[2]
	n0 := u.n
	u.mu.Unlock()
	cr := buildClient(fwdName, dns.TypeA, false, false, f[1])
	w := mock.NewWriter("udp", c.hostport())
	ch := middleware.NewChain([]middleware.Handler{s.ed, s.ca, s.fo})
	ch.Reset(w, cr.msg)
	ch.Next(context.Background())
	reply := w.Msg()
	if reply == nil {
		return vlib.Res{Impl: "noreply", Oracle: fail("fwd/no-reply", "")}
	}
	served := idOfMsg(reply)
	u.mu.Lock()
	fresh := u.n > n0
	var seen []dns.EDNS0
	or := ""
	for i := n0 + 1; i <= u.n; i++ {
		seen = u.seen[i-1]
		s.ledger[i] = newRec(s.spec, 0, false, u.declared[i], true, seen)
		if v := checkForwarded(s.spec, c, true, cr.sent, normSeenOpts(seen)); v != "" && or == "" {
			or = strings.Replace(v, "sig=upstream/", "sig=fwd/upstream/", 1)
		}
	}
	u.mu.Unlock()
	if or == "" {
		if v := checkReply(allReplyOpts(reply)); v != "" {
			or = strings.Replace(v, "sig=reply/", "sig=fwd/reply/", 1)
		}
	}
	if or == "" && !fresh {
		if rec := s.ledger[served]; rec != nil && rec.wellformed && rec.eff > 0 {
			ok := false
			if naiveAllows(s.spec, c, true) {
				for _, o := range cr.sent {
					if fam, addr, usable := usableECS(o); usable && fam == rec.fam && int(o.mask) >= rec.eff && bitsEqual(addr, rec.addr, rec.eff) {
						ok = true
					}
				}
			}
			if !ok {
				or = fail("fwd/scoped-answer-served-outside-scope/from-cache", "answer %d tailored for %x/%d", served, rec.addr, rec.eff)
			}
		}
	}
	if _, ok := s.canon[served]; !ok && served >= 0 {
		s.canon[served] = len(s.canon) + 1
	}
	ropt := "noopt"
	if o := reply.IsEdns0(); o != nil {
		parts := strings.Split(renderOpts(o.Option, false), ",")
		sort.Strings(parts)
		ropt = strings.Join(parts, ",")
	}
	impl := fmt.Sprintf("up=hit ans=%d ropt=%s st=- ttl=- pf=-", s.canon[served], ropt)
	tags := "nt,fwd"
	if fresh {
		stS, ttlS, pfS := "none", "-", "-"
		for _, e := range cache.VerifC19Entries(s.ca) {
			if idOfMsg(e.Msg) == served && strings.EqualFold(e.Q.Name, fwdName) {
				stS = "shared"
				if e.Scope.IsValid() {
					stS = renderPrefix(e.Scope)
					tags += ",fwd-stored-scoped"
				}
				ttlS, pfS = fmt.Sprint(int(e.TTL/time.Second)), vlib.B(e.PrefetchEligible)
				if or == "" {
					if v := checkStored(s.ledger[served], s.cap, e.Scope, int(e.TTL/time.Second), e.PrefetchEligible); v != "" {
						or = strings.Replace(v, "sig=scoped/", "sig=fwd/scoped/", 1)
					}
				}
			}
		}
		impl = fmt.Sprintf("up=%s ans=%d ropt=%s st=%s ttl=%s pf=%s", normSeen(seen), s.canon[served], ropt, stS, ttlS, pfS)
	}
	if or == "" {
		or = "ok"
	}
	return vlib.Res{Impl: impl, Oracle: or, Tags: tags}
}

// normSeenOpts: what reached the upstream, family-1 addresses in their 4-byte form.
func normSeenOpts(os []dns.EDNS0) []dns.EDNS0 {
	var out []dns.EDNS0
	for _, o := range os {
		if e, ok := o.(*dns.EDNS0_SUBNET); ok {
			if fam, a := normAddr(e.Address); fam == 4 {
				c := *e
				c.Address = a
				o = &c
			}
		}
		out = append(out, o)
	}
	return out
}

// declBits: the <bits> of an S/T declaration, kept within the family the authority was
// sent (a scope beyond the family would make the response undecodable for sdns).
func declBits(decl string, family uint16) uint8 {
	b := vlib.Atoi(decl[1:])
	w := 128
	if family == 1 {
		w = 32
	}
	return uint8(min(b, w))
}
