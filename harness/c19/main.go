//go:build verif

// Correspondence driver for C19 (client subnet data is neither leaked
// upstream nor across audiences).
//
// Two op families:
//
//	ecs  ...  the policy functions one by one (ecs.Build / Allows / Clamp /
//	          ClampScope / ReadResponseScope, dnsutil.SetEdns0, edns.stripECS,
//	          cache.requestScope)
//	pipe ...  the real edns.EDNS and cache.Cache handlers built from one
//	          config.Config in front of a scripted upstream that records the OPT
//	          of every query reaching it
//
// The oracle (oracle.go) is written from the property text on bytes and bits;
// it never calls the functions under test.
package main

import (
	"context"
	"fmt"
	"net"
	"net/netip"
	"os"
	"path/filepath"
	"sort"
	"strconv"
	"strings"
	"sync"
	"time"

	"github.com/miekg/dns"
	"github.com/semihalev/sdns/config"
	"github.com/semihalev/sdns/internal/dnsutil"
	"github.com/semihalev/sdns/internal/ecs"
	"github.com/semihalev/sdns/internal/mock"
	"github.com/semihalev/sdns/internal/verif/vlib"
	"github.com/semihalev/sdns/middleware"
	"github.com/semihalev/sdns/middleware/cache"
	"github.com/semihalev/sdns/middleware/edns"
	"github.com/semihalev/sdns/middleware/failover"
)

// ------------------------------------------------------------------ op syntax

// network entry: 4:<8 hex>/<bits> | 6:<32 hex>/<bits> | bad:<hex of text>
type netEnt struct {
	ok   bool
	text string
	fam  int
	addr []byte
	bits int
}

func parsePrefixTok(s string) (fam int, addr []byte, bits int) {
	f, rest, _ := strings.Cut(s, ":")
	h, b, _ := strings.Cut(rest, "/")
	fam = 4
	if f == "6" {
		fam = 6
	}
	return fam, vlib.UnHex(h), vlib.Atoi(b)
}

func toNetipAddr(fam int, b []byte) netip.Addr {
	if fam == 4 {
		return netip.AddrFrom4([4]byte(b))
	}
	return netip.AddrFrom16([16]byte(b))
}

func parseNets(s string) []netEnt {
	if s == "-" || s == "" {
		return nil
	}
	var out []netEnt
	for _, f := range strings.Split(s, ";") {
		if strings.HasPrefix(f, "bad:") {
			out = append(out, netEnt{text: string(vlib.UnHex(f[4:]))})
			continue
		}
		fam, addr, bits := parsePrefixTok(f)
		out = append(out, netEnt{ok: true, fam: fam, addr: addr, bits: bits,
			text: fmt.Sprintf("%s/%d", toNetipAddr(fam, addr), bits)})
	}
	return out
}

func netTexts(ns []netEnt) []string {
	out := make([]string, 0, len(ns))
	for _, n := range ns {
		out = append(out, n.text)
	}
	return out
}

// client: 4:<hex> | 6:<hex> | m:<hex> (IPv4-mapped IPv6) | x (invalid)
type clientT struct {
	kind byte
	b    []byte
}

func parseClient(s string) clientT {
	if s == "x" {
		return clientT{kind: 'x'}
	}
	k, h, _ := strings.Cut(s, ":")
	return clientT{kind: k[0], b: vlib.UnHex(h)}
}

func mapped16(v4 []byte) []byte {
	x := make([]byte, 16)
	x[10], x[11] = 0xff, 0xff
	copy(x[12:], v4)
	return x
}

// addr: the netip.Addr handed to the function under test.
func (c clientT) addr(unmap bool) netip.Addr {
	switch c.kind {
	case '4':
		return netip.AddrFrom4([4]byte(c.b))
	case '6':
		return netip.AddrFrom16([16]byte(c.b))
	case 'm':
		a := netip.AddrFrom16([16]byte(mapped16(c.b)))
		if unmap {
			return a.Unmap()
		}
		return a
	}
	return netip.Addr{}
}

// famBytes: family and bytes of the address as the policy sees it.
func (c clientT) famBytes(unmap bool) (int, []byte) {
	switch c.kind {
	case '4':
		return 4, c.b
	case '6':
		return 6, c.b
	case 'm':
		if unmap {
			return 4, c.b
		}
		return 6, mapped16(c.b)
	}
	return 0, nil
}

func (c clientT) hostport() string {
	switch c.kind {
	case '4':
		return netip.AddrPortFrom(netip.AddrFrom4([4]byte(c.b)), 4242).String()
	case 'm':
		return "[::ffff:" + netip.AddrFrom4([4]byte(c.b)).String() + "]:4242"
	}
	return netip.AddrPortFrom(netip.AddrFrom16([16]byte(c.b)), 4242).String()
}

// option: E<family>.<mask>.<scope>.<hex|nil|-> | O<code>.<data>
type optT struct {
	isECS   bool
	fam     uint16
	mask    uint8
	scope   uint8
	addr    []byte
	addrNil bool
	code    uint16
	data    string
}

func parseOpt(s string) optT {
	p := strings.Split(s[1:], ".")
	if s[0] == 'E' {
		o := optT{isECS: true, fam: uint16(vlib.Atoi(p[0])), mask: uint8(vlib.Atoi(p[1])), scope: uint8(vlib.Atoi(p[2]))}
		if p[3] == "nil" {
			o.addrNil = true
		} else {
			o.addr = vlib.UnHex(p[3])
			if o.addr == nil {
				o.addr = []byte{}
			}
		}
		return o
	}
	return optT{code: uint16(vlib.Atoi(p[0])), data: p[1]}
}

// parseOpts: "noopt" = no OPT record, "-" = OPT without options.
func parseOpts(s string) (opts []optT, hasOpt bool) {
	if s == "noopt" {
		return nil, false
	}
	if s == "-" {
		return nil, true
	}
	for _, f := range strings.Split(s, ",") {
		opts = append(opts, parseOpt(f))
	}
	return opts, true
}

func buildOpt(o optT) dns.EDNS0 {
	if o.isECS {
		e := &dns.EDNS0_SUBNET{Code: dns.EDNS0SUBNET, Family: o.fam, SourceNetmask: o.mask, SourceScope: o.scope}
		if !o.addrNil {
			e.Address = net.IP(append([]byte{}, o.addr...))
		}
		return e
	}
	switch o.code {
	case dns.EDNS0COOKIE:
		return &dns.EDNS0_COOKIE{Code: dns.EDNS0COOKIE, Cookie: o.data}
	case dns.EDNS0NSID:
		return &dns.EDNS0_NSID{Code: dns.EDNS0NSID}
	case dns.EDNS0TCPKEEPALIVE:
		return &dns.EDNS0_TCP_KEEPALIVE{Code: dns.EDNS0TCPKEEPALIVE}
	case dns.EDNS0PADDING:
		return &dns.EDNS0_PADDING{Padding: make([]byte, vlib.Atoi(o.data))}
	case dns.EDNS0EDE:
		b := vlib.UnHex(o.data)
		return &dns.EDNS0_EDE{InfoCode: uint16(b[0])<<8 | uint16(b[1])}
	}
	return &dns.EDNS0_LOCAL{Code: o.code, Data: vlib.UnHex(o.data)}
}

func buildOpts(os []optT) []dns.EDNS0 {
	var out []dns.EDNS0
	for _, o := range os {
		out = append(out, buildOpt(o))
	}
	return out
}

func renderOpt(o dns.EDNS0, full bool) string {
	switch v := o.(type) {
	case *dns.EDNS0_SUBNET:
		a := "nil"
		if v.Address != nil {
			a = vlib.Hex(v.Address)
		}
		return fmt.Sprintf("E%d.%d.%d.%s", v.Family, v.SourceNetmask, v.SourceScope, a)
	}
	if !full {
		return fmt.Sprintf("O%d", o.Option())
	}
	switch v := o.(type) {
	case *dns.EDNS0_COOKIE:
		return "O10." + v.Cookie
	case *dns.EDNS0_NSID:
		return "O3.x"
	case *dns.EDNS0_TCP_KEEPALIVE:
		return "O11.x"
	case *dns.EDNS0_PADDING:
		return fmt.Sprintf("O12.%d", len(v.Padding))
	case *dns.EDNS0_EDE:
		return fmt.Sprintf("O15.%04x", v.InfoCode)
	case *dns.EDNS0_LOCAL:
		return fmt.Sprintf("O%d.%s", v.Code, vlib.Hex(v.Data))
	}
	return fmt.Sprintf("O%d.?", o.Option())
}

func renderOpts(l []dns.EDNS0, full bool) string {
	if len(l) == 0 {
		return "-"
	}
	p := make([]string, len(l))
	for i, o := range l {
		p[i] = renderOpt(o, full)
	}
	return strings.Join(p, ",")
}

func renderPrefix(p netip.Prefix) string {
	if !p.IsValid() {
		return "none"
	}
	f := "6"
	if p.Addr().Is4() {
		f = "4"
	}
	return fmt.Sprintf("%s:%s/%d", f, vlib.Hex(p.Addr().AsSlice()), p.Bits())
}

// ------------------------------------------------------------------ state

var (
	curSpec polSpec
	curPol  *ecs.Policy
	pipe    *pipeT
)

func specFrom(f []string, raw bool) polSpec {
	return polSpec{raw: raw, en: f[0] == "t", f4: vlib.Atoi(f[1]), f6: vlib.Atoi(f[2]), m4: vlib.Atoi(f[3]), m6: vlib.Atoi(f[4]), nets: parseNets(f[5])}
}

func reqWith(name string, qtype uint16, cd bool, opts []optT, hasOpt bool, version uint8, do bool) *dns.Msg {
	m := new(dns.Msg)
	m.SetQuestion(name, qtype)
	m.RecursionDesired = true
	m.CheckingDisabled = cd
	if hasOpt {
		o := new(dns.OPT)
		o.Hdr.Name = "."
		o.Hdr.Rrtype = dns.TypeOPT
		o.SetUDPSize(1232)
		o.SetVersion(version)
		if do {
			o.SetDo()
		}
		o.Option = buildOpts(opts)
		m.Extra = append(m.Extra, o)
	}
	return m
}

// rawMsg hand-assembles a query whose additional section holds one OPT record
// per element of opts, each carrying its options verbatim.
func rawMsg(name string, qtype uint16, cd, do bool, opts [][]optT) []byte {
	flags := byte(0)
	if cd {
		flags = 0x10
	}
	b := []byte{0, 1, 1, flags, 0, 1, 0, 0, 0, 0, 0, byte(len(opts))}
	for _, l := range strings.Split(strings.TrimSuffix(name, "."), ".") {
		b = append(b, byte(len(l)))
		b = append(b, l...)
	}
	b = append(b, 0, byte(qtype>>8), byte(qtype), 0, 1)
	for _, os := range opts {
		var rd []byte
		for _, o := range os {
			var d []byte
			code := o.code
			switch {
			case o.isECS:
				code = dns.EDNS0SUBNET
				d = append([]byte{byte(o.fam >> 8), byte(o.fam), o.mask, o.scope}, o.addr...)
			case o.code == dns.EDNS0NSID, o.code == dns.EDNS0TCPKEEPALIVE:
			case o.code == dns.EDNS0PADDING:
				d = make([]byte, vlib.Atoi(o.data))
			default:
				d = vlib.UnHex(o.data)
			}
			rd = append(rd, byte(code>>8), byte(code), byte(len(d)>>8), byte(len(d)))
			rd = append(rd, d...)
		}
		doBits := byte(0)
		if do {
			doBits = 0x80
		}
		b = append(b, 0, 0, 41, 0x04, 0xd0, 0, 0, doBits, 0, byte(len(rd)>>8), byte(len(rd)))
		b = append(b, rd...)
	}
	return b
}

func rawQuery(opts []optT) []byte { return rawMsg("x.c19.test.", dns.TypeA, false, false, [][]optT{opts}) }

func fail(sig, format string, a ...any) string {
	return "FAIL sig=" + sig + " " + fmt.Sprintf(format, a...)
}

// ------------------------------------------------------------------ pipe

type ansRec struct {
	qid        int
	cd         bool
	wellformed bool // the authority's declared scope is a usable prefix
	fam        int
	addr       []byte
	declared   int // SCOPE the authority declared (> 0)
	limit      int // min(forwarded source bits, configured floor)
	eff        int // min(declared, limit): the audience the answer may reach
	viaRefresh bool // the answer was obtained by a background refresh
}

type stubT struct {
	ansCalls, nxCalls, aliasCalls int
	seen                          []dns.EDNS0
	ttl                           uint32
	up                            []optT
	upHas                         bool
	upLead                        [][]optT // options of further OPT records put in FRONT of the regular one
	ans                           int
	respCD                        string   // t | f: CD bit of the next response instead of mirroring the query's (a hop that does not mirror CD)
	kind                          string   // a | nd | nx: positive answer, NODATA, NXDOMAIN (SOA serial = answer id)
	refreshCD                     string   // m | t | f: CD bit of the refresh answers (mirror / forced)
	refreshDenial                 bool     // background refreshes are answered NXDOMAIN + validated proof
	refresh                       bool     // answering background refreshes: one answer id each
	refreshSeen                   []string // OPT options of each refresh query that arrived
	refreshOpts                   [][]dns.EDNS0
	seenPerOPT                    []string // one rendering per OPT record of the last upstream query
}

func ansIP(id int) net.IP { return net.IPv4(10, byte(id>>16), byte(id>>8), byte(id)).To4() }

func idOfMsg(m *dns.Msg) int {
	if m == nil {
		return -1
	}
	for _, rr := range m.Answer {
		if a, ok := rr.(*dns.A); ok {
			ip := a.A.To4()
			return int(ip[1])<<16 | int(ip[2])<<8 | int(ip[3])
		}
	}
	for _, rr := range m.Ns {
		if soa, ok := rr.(*dns.SOA); ok {
			return int(soa.Serial)
		}
	}
	return -1
}

func sig(owner string, covered uint16, zone string) *dns.RRSIG {
	exp := uint32(time.Now().Add(2 * time.Hour).Unix())
	return &dns.RRSIG{Hdr: dns.RR_Header{Name: owner, Rrtype: dns.TypeRRSIG, Class: dns.ClassINET, Ttl: 300},
		TypeCovered: covered, Algorithm: dns.RSASHA256, Labels: uint8(dns.CountLabel(owner)), OrigTtl: 300,
		Expiration: exp, Inception: exp - 10800, KeyTag: 1, SignerName: zone, Signature: "AA=="}
}

func zoneOfK(k int) string { return fmt.Sprintf("z%d.c19.test.", k) }

// nxResponse: a DNSSEC-shaped NXDOMAIN for a name below d.<zone>, carrying the
// resolver's validated-denial provenance for d.<zone>.
func nxResponse(ctx context.Context, req *dns.Msg, zone string, serial uint32) *dns.Msg {
	m := new(dns.Msg)
	m.SetReply(req)
	m.Rcode = dns.RcodeNameError
	m.AuthenticatedData = true
	m.RecursionAvailable = true
	m.CheckingDisabled = req.CheckingDisabled
	soa := &dns.SOA{Hdr: dns.RR_Header{Name: zone, Rrtype: dns.TypeSOA, Class: dns.ClassINET, Ttl: 300},
		Ns: "ns1." + zone, Mbox: "hostmaster." + zone, Serial: serial, Refresh: 3600, Retry: 600, Expire: 86400, Minttl: 300}
	n1 := &dns.NSEC{Hdr: dns.RR_Header{Name: zone, Rrtype: dns.TypeNSEC, Class: dns.ClassINET, Ttl: 300},
		NextDomain: "c." + zone, TypeBitMap: []uint16{dns.TypeNS, dns.TypeSOA, dns.TypeRRSIG, dns.TypeNSEC}}
	n2 := &dns.NSEC{Hdr: dns.RR_Header{Name: "c." + zone, Rrtype: dns.TypeNSEC, Class: dns.ClassINET, Ttl: 300},
		NextDomain: "e." + zone, TypeBitMap: []uint16{dns.TypeA, dns.TypeRRSIG, dns.TypeNSEC}}
	m.Ns = []dns.RR{soa, sig(zone, dns.TypeSOA, zone), n1, sig(zone, dns.TypeNSEC, zone), n2, sig("c."+zone, dns.TypeNSEC, zone)}
	middleware.MarkValidatedNegativeProofResponse(ctx, m, middleware.ValidatedNegativeProof{
		Subject: "d." + zone, Zone: zone, Kind: middleware.ValidatedNegativeProofNSEC, Aggressive: true})
	return m
}

func (s *stubT) Name() string { return "c19upstream" }

// forceCD applies the scripted CD bit to the first response of an op only.
func (s *stubT) forceCD(m *dns.Msg) {
	switch s.respCD {
	case "t":
		m.CheckingDisabled = true
	case "f":
		m.CheckingDisabled = false
	}
	s.respCD = ""
}

// ServeDNS plays the resolver + authorities: it records what reached it.
func (s *stubT) ServeDNS(ctx context.Context, ch *middleware.Chain) {
	req := ch.Request.Msg()
	q := req.Question[0]
	switch {
	case strings.HasSuffix(q.Name, ".al.c19.test."):
		s.aliasCalls++
		m := new(dns.Msg)
		m.SetReply(req)
		m.RecursionAvailable = true
		lbl, _, _ := strings.Cut(q.Name, ".")
		m.Answer = []dns.RR{&dns.CNAME{Hdr: dns.RR_Header{Name: q.Name, Rrtype: dns.TypeCNAME, Class: dns.ClassINET, Ttl: 300},
			Target: "t" + lbl[1:] + ".d." + zoneOfK(s.ans)}}
		s.forceCD(m)
		_ = ch.Writer.WriteMsg(m)
	case strings.Contains(q.Name, ".d.z") && !(strings.HasPrefix(q.Name, "p") && !s.refreshDenial):
		// names below the denied d.z<k>: NXDOMAIN with a validated proof — except the
		// "p…" names of `pipe pq`, which exist until a refresh is told otherwise
		s.nxCalls++
		_, zone, _ := strings.Cut(q.Name, ".d.")
		serial := uint32(0)
		if s.refreshDenial {
			serial = uint32(s.ans)
			s.ans++
			s.seen = nil
			if o := req.IsEdns0(); o != nil {
				s.seen = append(s.seen, o.Option...)
			}
			s.refreshOpts = append(s.refreshOpts, s.seen)
		}
		m := nxResponse(ctx, req, zone, serial)
		if s.refreshDenial && s.refreshCD != "m" {
			m.CheckingDisabled = s.refreshCD == "t" // a hop that does not mirror CD
		}
		s.forceCD(m)
		_ = ch.Writer.WriteMsg(m)
	default:
		s.ansCalls++
		// everything that would travel upstream: the resolver and the forwarder send
		// (a copy of) the request with its whole additional section, so the options
		// of EVERY OPT record count, not only those of the one IsEdns0 finds
		s.seen, s.seenPerOPT = nil, nil
		for _, rr := range req.Extra {
			if o, ok := rr.(*dns.OPT); ok {
				s.seen = append(s.seen, o.Option...)
				s.seenPerOPT = append(s.seenPerOPT, renderOpts(o.Option, true))
			}
		}
		m := new(dns.Msg)
		m.SetReply(req)
		m.RecursionAvailable = true
		if s.kind == "nd" || s.kind == "nx" {
			zone := "c19.test."
			m.Ns = []dns.RR{&dns.SOA{Hdr: dns.RR_Header{Name: zone, Rrtype: dns.TypeSOA, Class: dns.ClassINET, Ttl: s.ttl},
				Ns: "ns1." + zone, Mbox: "hostmaster." + zone, Serial: uint32(s.ans), Refresh: 3600, Retry: 600, Expire: 86400, Minttl: s.ttl}}
			if s.kind == "nx" {
				m.Rcode = dns.RcodeNameError
			}
		} else {
			m.Answer = []dns.RR{&dns.A{Hdr: dns.RR_Header{Name: q.Name, Rrtype: dns.TypeA, Class: dns.ClassINET, Ttl: s.ttl}, A: ansIP(s.ans)}}
		}
		for _, lo := range s.upLead {
			o := new(dns.OPT)
			o.Hdr.Name = "."
			o.Hdr.Rrtype = dns.TypeOPT
			o.SetUDPSize(1232)
			o.Option = buildOpts(lo)
			m.Extra = append(m.Extra, o)
		}
		if s.upHas {
			o := new(dns.OPT)
			o.Hdr.Name = "."
			o.Hdr.Rrtype = dns.TypeOPT
			o.SetUDPSize(1232)
			o.Option = buildOpts(s.up)
			m.Extra = append(m.Extra, o)
		}
		_ = ch.Writer.WriteMsg(m)
		if s.refresh {
			s.refreshSeen = append(s.refreshSeen, renderOpts(s.seen, true))
			s.refreshOpts = append(s.refreshOpts, s.seen)
			s.ans++
		}
	}
	ch.Cancel()
}

type chainQueryer struct{ handlers []middleware.Handler }

func (q *chainQueryer) Query(ctx context.Context, req *dns.Msg) (*dns.Msg, error) {
	w := mock.NewWriter("tcp", "127.0.0.255:0")
	ch := middleware.NewChain(q.handlers)
	ch.Reset(w, req)
	ch.Next(ctx)
	if !w.Written() {
		return nil, middleware.ErrNoResponse
	}
	return w.Msg(), nil
}

type pipeT struct {
	spec   polSpec
	cap    int
	ed     *edns.EDNS
	ca     *cache.Cache
	st     *stubT
	ledger map[int]*ansRec
	// wireUsed: the last request entered as a wire-born one
	wireUsed bool
	handlers []middleware.Handler // when set: the chain of the next run instead of edns, cache, upstream
	// formerr: the raw packet did not decode; rawFallback: it took the decoded fallback
	formerr, rawFallback bool
}

// cliReq is one client request as the op line describes it.
type cliReq struct {
	msg  *dns.Msg
	opts [][]optT // options of every OPT record, in packet order (nil: no OPT)
	eff  []optT   // options of the OPT sdns works with (the last one)
	sent []optT   // everything the client sent, as a decoder reads it (for the oracle)
	name string
	qt   uint16
	cd   bool
	do   bool
}

// buildClient parses "<optsA>+<optsB>+…" (several OPT records) / "noopt" / "-".
func buildClient(name string, qtype uint16, cd, do bool, tok string) *cliReq {
	cr := &cliReq{name: name, qt: qtype, cd: cd, do: do}
	parts := strings.Split(tok, "+")
	last, has := parseOpts(parts[len(parts)-1])
	cr.msg = reqWith(name, qtype, cd, last, has, 0, do)
	cr.eff = last
	if has {
		var extra []dns.RR
		for _, a := range parts[:len(parts)-1] {
			lo, _ := parseOpts(a)
			cr.opts = append(cr.opts, lo)
			cr.sent = append(cr.sent, lo...)
			extra = append(extra, reqWith("x.", dns.TypeA, false, lo, true, 0, do).Extra[0])
		}
		cr.opts = append(cr.opts, last)
		cr.sent = append(cr.sent, last...)
		cr.msg.Extra = append(extra, cr.msg.Extra...)
	}
	return cr
}

func (cr *cliReq) multi() bool { return len(cr.opts) > 1 }

func (cr *cliReq) effHasECS() bool {
	for _, o := range cr.eff {
		if o.isECS {
			return true
		}
	}
	return false
}

// run sends one client request through edns -> cache -> upstream stub.
//
//	udp/tcp/doh   decoded message (Chain.Reset)
//	wudp/wtcp     wire-born (ParseWire + ResetWire) when the packed message decodes
//	              back to exactly the op line's options and the strict parser admits it
//	rudp/rtcp     a hand-assembled packet carrying the op line's options VERBATIM
//	              (short / long / unmasked addresses, several OPT records): wire-born
//	              if the strict parser admits it, else server.ServeRaw's fallback
//	              (Unpack + decoded entry); an undecodable packet is not served
func (p *pipeT) run(c clientT, proto string, cr *cliReq) *dns.Msg {
	kind := byte(0)
	if proto[0] == 'w' || proto[0] == 'r' {
		kind, proto = proto[0], proto[1:]
	}
	w := mock.NewWriter(proto, c.hostport())
	hs := []middleware.Handler{p.ed, p.ca, p.st}
	if p.handlers != nil {
		hs = p.handlers
	}
	ch := middleware.NewChain(hs)
	p.wireUsed, p.formerr = false, false
	req := cr.msg
	switch kind {
	case 'w':
		if raw, err := req.Pack(); err == nil {
			back := new(dns.Msg)
			if back.Unpack(raw) == nil && allOptsOf(back) == allOptsOf(req) {
				r := new(middleware.Request)
				if r.ParseWire(raw, time.Now(), nil) {
					ch.ResetWire(w, r)
					p.wireUsed = true
				}
			}
		}
	case 'r':
		raw := rawMsg(cr.name, cr.qt, cr.cd, cr.do, cr.opts)
		back := new(dns.Msg)
		if back.Unpack(raw) != nil {
			p.formerr = true
			return nil
		}
		// what the client sent, as the library decodes it
		cr.sent = nil
		for _, rr := range back.Extra {
			if o, ok := rr.(*dns.OPT); ok {
				so, _ := parseOpts(renderOpts(o.Option, true))
				cr.sent = append(cr.sent, so...)
				cr.eff = so
			}
		}
		r := new(middleware.Request)
		if r.ParseWire(raw, time.Now(), nil) {
			ch.ResetWire(w, r)
			p.wireUsed = true
		} else {
			req = back
			p.rawFallback = true
		}
	}
	if !p.wireUsed {
		ch.Reset(w, req)
	}
	if kind != 0 {
		// an owned UDP/TCP listener: the server declares the byte-sink capability at
		// ingress, which switches on the cache's byte-serving ladder (exact hits,
		// NXDOMAIN cuts, failures served from bytes) and the edns wire wrapper
		ch.AllowDirectPack()
	}
	ch.Next(context.Background())
	return w.Msg()
}

// allOptsOf renders the options of every OPT record.
func allOptsOf(m *dns.Msg) string {
	var parts []string
	for _, rr := range m.Extra {
		if o, ok := rr.(*dns.OPT); ok {
			parts = append(parts, renderOpts(o.Option, true))
		}
	}
	if len(parts) == 0 {
		return "noopt"
	}
	return strings.Join(parts, "+")
}

func optsOf(m *dns.Msg) string {
	o := m.IsEdns0()
	if o == nil {
		return "noopt"
	}
	return renderOpts(o.Option, true)
}

// fbServer is a scripted fallback resolver on loopback: it answers every query and
// keeps the OPT options of the last one it received.
type fbServer struct {
	addr string
	mu   sync.Mutex
	seen []dns.EDNS0
	n    int
}

var fbOnce *fbServer

func fallbackServer() *fbServer {
	if fbOnce != nil {
		return fbOnce
	}
	pc, err := net.ListenPacket("udp", "127.0.0.1:0")
	if err != nil {
		panic(err)
	}
	fb := &fbServer{addr: pc.LocalAddr().String()}
	srv := &dns.Server{PacketConn: pc, Handler: dns.HandlerFunc(func(w dns.ResponseWriter, r *dns.Msg) {
		fb.mu.Lock()
		fb.n++
		fb.seen = nil
		for _, rr := range r.Extra {
			if o, ok := rr.(*dns.OPT); ok {
				fb.seen = append(fb.seen, o.Option...)
			}
		}
		fb.mu.Unlock()
		m := new(dns.Msg)
		m.SetReply(r)
		m.RecursionAvailable = true
		if len(r.Question) == 1 {
			m.Answer = []dns.RR{&dns.A{Hdr: dns.RR_Header{Name: r.Question[0].Name, Rrtype: dns.TypeA, Class: dns.ClassINET, Ttl: 60}, A: ansIP(7)}}
		}
		_ = w.WriteMsg(m)
	})}
	go func() { _ = srv.ActivateAndServe() }()
	fbOnce = fb
	return fb
}

// loadConfigFile writes the [ecs] block and the cache knobs of cfg as the TOML an
// operator would write and reads it back through config.Load.
func loadConfigFile(cfg *config.Config) (*config.Config, error) {
	dir := filepath.Join(os.Getenv("VERIF_DIR"), "build", "tmp-c19")
	if os.Getenv("VERIF_DIR") == "" {
		dir = filepath.Join(os.TempDir(), "verif-c19")
	}
	if err := os.MkdirAll(dir, 0o750); err != nil {
		return nil, err
	}
	path := filepath.Join(dir, fmt.Sprintf("sdns-%d.conf", os.Getpid()))
	var nets []string
	for _, n := range cfg.ECS.ClientNetworks {
		nets = append(nets, strconv.Quote(n))
	}
	text := fmt.Sprintf("version = %q\ndirectory = %q\nipv6access = true\ncachesize = %d\nexpire = %d\nprefetch = %d\ncookiesecret = %q\nnsid = %q\n"+
		"[ecs]\nenabled = %v\nforward_v4 = %d\nforward_v6 = %d\nmin_scope_v4 = %d\nmin_scope_v6 = %d\nclient_networks = [%s]\ncache_limit_ttl = \"%ds\"\n",
		config.VerifC19ConfigVer(), dir, cfg.CacheSize, cfg.Expire, cfg.Prefetch, cfg.CookieSecret, cfg.NSID,
		cfg.ECS.Enabled, cfg.ECS.ForwardV4Max, cfg.ECS.ForwardV6Max, cfg.ECS.MinScopeV4, cfg.ECS.MinScopeV6, strings.Join(nets, ", "),
		int(cfg.ECS.CacheLimitTTL.Duration/time.Second))
	if err := os.WriteFile(path, []byte(text), 0o600); err != nil {
		return nil, err
	}
	defer os.Remove(path)
	return config.Load(path, "verif")
}

func renderPolicy(p *ecs.Policy) string {
	if p == nil {
		return "nil"
	}
	return fmt.Sprintf("%s,%d,%d,%d,%d,n%d", vlib.B(p.Enabled), p.ForwardV4Max, p.ForwardV6Max, p.MinScopeV4, p.MinScopeV6, len(p.ClientNetworks))
}

func pipeNew(f []string, viaLoad bool) vlib.Res {
	if pipe != nil {
		pipe.ca.Stop()
	}
	spec := specFrom(f, false)
	capS, pf := vlib.Atoi(f[6]), vlib.Atoi(f[7])
	csize := 1024
	if len(f) > 8 {
		csize = vlib.Atoi(f[8]) // below 1024 (or prefetch > 90): cache.New takes its validation-failed branch
	}
	cfg := &config.Config{CacheSize: csize, Expire: 600, Prefetch: uint32(pf), CookieSecret: "c19-secret", NSID: "c19"}
	cfg.ECS = config.ECSConfig{Enabled: spec.en, ForwardV4Max: uint8(spec.f4), ForwardV6Max: uint8(spec.f6),
		MinScopeV4: uint8(spec.m4), MinScopeV6: uint8(spec.m6), ClientNetworks: netTexts(spec.nets),
		CacheLimitTTL: config.Duration{Duration: time.Duration(capS) * time.Second}}
	if viaLoad {
		// the route the server takes at start: the operator's FILE through config.Load
		loaded, err := loadConfigFile(cfg)
		if err != nil {
			return vlib.Res{Impl: "load-error", Oracle: fail("load/config-file-rejected", "%v", err)}
		}
		cfg = loaded
	}
	p := &pipeT{spec: spec, cap: capS, ed: edns.New(cfg), ca: cache.New(cfg), st: &stubT{}, ledger: map[int]*ansRec{}}
	cache.VerifC19HoldPrefetch(p.ca)
	// production wiring: the internal sub-pipeline (edns, cache, upstream) and the
	// cache-less prefetch sub-pipeline (edns, upstream) come from Pipeline.autoWire
	reg := middleware.NewRegistry()
	reg.Register("edns", func(*config.Config) middleware.Handler { return p.ed })
	reg.Register("cache", func(*config.Config) middleware.Handler { return p.ca })
	reg.Register("c19upstream", func(*config.Config) middleware.Handler { return p.st })
	middleware.VerifC19AutoWire(reg.Build(cfg))
	pipe = p
	pe, pc := edns.VerifC19Policy(p.ed), cache.VerifC19Policy(p.ca)
	// the forwarding side (edns) and the keying side (cache) must hold the same policy
	impl := "pol=" + renderPolicy(pe)
	if renderPolicy(pe) != renderPolicy(pc) {
		impl = "edns=" + renderPolicy(pe) + " cache=" + renderPolicy(pc)
	}
	or := "ok"
	if !spec.forwards() && (pe != nil || pc != nil) {
		or = fail("build/invalid-or-disabled-config-yields-policy", "edns=%s cache=%s", renderPolicy(pe), renderPolicy(pc))
	}
	return vlib.Res{Impl: impl, Oracle: or}
}

func (p *pipeT) findEntry(ans int) *cache.VerifC19Entry {
	for _, e := range cache.VerifC19Entries(p.ca) {
		if idOfMsg(e.Msg) == ans {
			e := e
			return &e
		}
	}
	return nil
}

// allReplyOpts: the options of every OPT record of a client reply.
func allReplyOpts(m *dns.Msg) []dns.EDNS0 {
	var out []dns.EDNS0
	for _, rr := range m.Extra {
		if o, ok := rr.(*dns.OPT); ok {
			out = append(out, o.Option...)
		}
	}
	return out
}

func pipeQ(f []string) vlib.Res {
	p := pipe
	c, proto, qid, cd := parseClient(f[0]), f[1], vlib.Atoi(f[2]), f[3] == "t"
	ttl := vlib.Atoi(f[5])
	// "<A>+<B>": the downstream response carries several OPT records, in this order
	upParts := strings.Split(f[6], "+")
	uopts, uhas := parseOpts(upParts[len(upParts)-1])
	ans := vlib.Atoi(f[7])
	st := p.st
	st.ttl, st.up, st.upHas, st.ans, st.kind = uint32(ttl), uopts, uhas, ans, f[8]
	st.upLead = nil
	for _, a := range upParts[:len(upParts)-1] {
		lo, _ := parseOpts(a)
		st.upLead = append(st.upLead, lo)
	}
	before := st.ansCalls
	name := fmt.Sprintf("q%d.c19.test.", qid)
	if len(f) > 9 { // a name below the (possibly denied) d.z<k>, see "pipe pq"
		name = f[9]
	}
	cr := buildClient(name, dns.TypeA, cd, false, f[4])
	reply := p.run(c, proto, cr)
	if p.formerr {
		return vlib.Res{Impl: "formerr", Oracle: "ok", Tags: "raw-undecodable"}
	}
	copts, chas := cr.sent, len(cr.opts) > 0
	_ = chas
	reached := st.ansCalls > before
	if reply == nil {
		return vlib.Res{Impl: "noreply", Oracle: fail("pipe/no-reply", "")}
	}
	served := idOfMsg(reply)
	ropt := "noopt"
	if o := reply.IsEdns0(); o != nil {
		// as a sorted set: Msg path and byte path append in different orders
		parts := strings.Split(renderOpts(o.Option, false), ",")
		sort.Strings(parts)
		ropt = strings.Join(parts, ",")
	}
	var or []string
	if v := checkReply(allReplyOpts(reply)); v != "" {
		or = append(or, v)
	}
	tags := ""
	impl := ""
	if reached {
		if v := checkForwarded(p.spec, c, true, copts, st.seen); v != "" {
			if cr.multi() {
				// one signature family for requests with several OPT records
				v = strings.Replace(v, "sig=upstream/", "sig=upstream/multi-opt/", 1)
				if i := strings.Index(v, "/code-"); i >= 0 {
					j := strings.IndexByte(v[i:], ' ')
					if j < 0 {
						j = len(v) - i
					}
					v = v[:i] + " option" + v[i+5:i+j] + v[i+j:]
				}
			}
			or = append(or, v)
		}
		rec := newRec(p.spec, qid, cd, uopts, uhas, st.seen)
		for _, o := range p.ledger {
			if o.qid == qid && o.cd == cd && o.eff > 0 {
				tags = "nt,miss-beside-scoped-entry"
			}
		}
		p.ledger[ans] = rec
		e := p.findEntry(ans)
		stS, ttlS, pfS := "none", "-", "-"
		if e != nil {
			stS = "shared"
			if e.Scope.IsValid() {
				stS = renderPrefix(e.Scope)
			}
			ttlS = fmt.Sprint(int(e.TTL / time.Second))
			pfS = vlib.B(e.PrefetchEligible)
			if v := checkStored(rec, p.cap, e.Scope, int(e.TTL/time.Second), e.PrefetchEligible); v != "" {
				or = append(or, v)
			}
		}
		if rec.eff > 0 {
			tags = strings.TrimPrefix(tags+",nt,stored-scoped", ",")
			if f[8] != "a" {
				tags += ",stored-scoped-denial"
			}
		}
		impl = fmt.Sprintf("up=%s ans=%d ropt=%s st=%s ttl=%s pf=%s", strings.Join(st.seenPerOPT, "+"), served, ropt, stS, ttlS, pfS)
	} else if rec := p.ledger[served]; len(f) > 9 && reply.Rcode == dns.RcodeNameError && (rec == nil || rec.qid != qid || rec.cd != cd) {
		// not an entry of this question: synthesised from the shared cut / proof index
		if cr.effHasECS() || cd {
			or = append(or, fail("denial/direct/ecs-or-cd-query-consumed-shared-denial", "answered from the shared denial index"))
		}
		tags = "nt,cut-synthesised"
		impl = "up=cut"
	} else {
		rec := p.ledger[served]
		servedTTL := 0
		if len(reply.Answer) > 0 {
			servedTTL = int(reply.Answer[0].Header().Ttl)
		} else if len(reply.Ns) > 0 {
			servedTTL = int(reply.Ns[0].Header().Ttl)
		}
		if v := checkServed(p.spec, p.cap, rec, c, copts, qid, cd, servedTTL); v != "" {
			or = append(or, v)
		}
		if rec != nil && rec.eff > 0 {
			tags = "nt,hit-scoped"
		} else if len(p.ledger) > 1 {
			tags = "nt,hit-shared"
		}
		impl = fmt.Sprintf("up=hit ans=%d ropt=%s st=- ttl=- pf=-", served, ropt)
	}
	o := "ok"
	if len(or) > 0 {
		o = or[0]
	}
	if p.wireUsed {
		tags = strings.TrimPrefix(tags+",wire-born", ",")
	}
	if p.rawFallback {
		tags = strings.TrimPrefix(tags+",raw-decoded-fallback", ",")
	}
	if cr.multi() {
		tags = strings.TrimPrefix(tags+",multi-opt", ",")
	}
	p.rawFallback = false
	return vlib.Res{Impl: impl, Oracle: o, Tags: tags}
}

// pipeBadVers: a query with an unsupported EDNS version is answered by the
// edns handler itself (BADVERS); the upstream must not be reached and the
// reply must not carry a subnet option either.
func pipeBadVers(f []string) vlib.Res {
	p := pipe
	c, proto, ver := parseClient(f[0]), f[1], vlib.Atoi(f[2])
	copts, chas := parseOpts(f[3])
	st := p.st
	before := st.ansCalls + st.nxCalls + st.aliasCalls
	req := reqWith(fmt.Sprintf("bv%d.c19.test.", ver), dns.TypeA, false, copts, chas, uint8(ver), false)
	reply := p.run(c, proto, &cliReq{msg: req})
	reached := st.ansCalls+st.nxCalls+st.aliasCalls > before
	if reply == nil {
		return vlib.Res{Impl: "noreply", Oracle: fail("pipe/no-reply", "")}
	}
	ropt := "noopt"
	or := ""
	if o := reply.IsEdns0(); o != nil {
		ropt = renderOpts(o.Option, true)
		if v := checkReply(o.Option); v != "" {
			or = strings.Replace(v, "sig=reply/", "sig=reply/badvers/", 1)
		}
	}
	if or == "" && reached {
		or = fail("badvers/query-reached-upstream", "")
	}
	if or == "" {
		or = "ok"
	}
	return vlib.Res{Impl: fmt.Sprintf("rcode=%d up=%s ropt=%s", reply.Rcode, vlib.B(reached), ropt), Oracle: or, Tags: "nt"}
}

func pipeDenial(f []string, alias bool) vlib.Res {
	p := pipe
	c, proto, qid, cd := parseClient(f[0]), f[1], vlib.Atoi(f[2]), f[3] == "t"
	k := vlib.Atoi(f[5])
	st := p.st
	st.respCD = f[6] // CD bit of the response to the client's own query
	cuts0, proofs0 := cache.VerifC19DenialLens(p.ca)
	nx0 := st.nxCalls
	var cr *cliReq
	if alias {
		st.ans = k
		cr = buildClient(fmt.Sprintf("q%d.al.c19.test.", qid), dns.TypeMX, cd, true, f[4])
	} else {
		cr = buildClient(fmt.Sprintf("q%d.d.%s", qid, zoneOfK(k)), dns.TypeA, cd, true, f[4])
	}
	reply := p.run(c, proto, cr)
	st.respCD = ""
	if p.formerr {
		return vlib.Res{Impl: "formerr", Oracle: "ok", Tags: "raw-undecodable"}
	}
	reached := st.nxCalls > nx0
	cuts1, proofs1 := cache.VerifC19DenialLens(p.ca)
	var ropts []dns.EDNS0
	if reply != nil {
		if o := reply.IsEdns0(); o != nil {
			ropts = o.Option
		}
	}
	or := checkReply(ropts)
	// "carried ECS": a subnet option in the OPT record sdns works with.  (Other OPT
	// records of a malformed several-OPT request are dropped unread by SetEdns0;
	// a subnet option only there is tagged, see notes.)
	sentECS := cr.effHasECS()
	droppedOnly := false
	if !sentECS {
		for _, o := range cr.sent {
			if o.isECS {
				droppedOnly = true
			}
		}
	}
	if or == "" && (sentECS || cd) {
		who := "ecs"
		if cd {
			who = "cd"
		}
		path := "direct"
		if alias {
			path = "alias-chase"
		}
		if !reached {
			or = fail("denial/"+path+"/"+who+"-query-consumed-shared-denial", "answered without reaching the upstream")
		} else if cuts1 != cuts0 || proofs1 != proofs0 {
			or = fail("denial/"+path+"/"+who+"-query-created-shared-denial", "cuts %d->%d proofs %d->%d", cuts0, cuts1, proofs0, proofs1)
		}
	}
	if or == "" {
		or = "ok"
	}
	name := "up"
	if alias {
		name = "tgt"
	}
	tags := "nt"
	if p.wireUsed {
		tags = "nt,wire-born"
	}
	if p.rawFallback {
		tags += ",raw-decoded-fallback"
	}
	if cr.multi() {
		tags += ",multi-opt"
	}
	if droppedOnly {
		tags += ",ecs-only-in-dropped-opt"
	}
	p.rawFallback = false
	return vlib.Res{Impl: fmt.Sprintf("%s=%s cuts=%d", name, vlib.B(reached), cuts1), Oracle: or, Tags: tags}
}

// ------------------------------------------------------------------ exec

func exec(op string) vlib.Res {
	f := strings.Fields(op)
	if len(f) < 2 {
		return vlib.Res{Impl: "bad-op"}
	}
	a := f[2:]
	switch f[0] + " " + f[1] {
	case "ecs new":
		if a[0] == "r" {
			curSpec = specFrom(a[1:], true)
			p := &ecs.Policy{Enabled: curSpec.en, ForwardV4Max: uint8(curSpec.f4), ForwardV6Max: uint8(curSpec.f6),
				MinScopeV4: uint8(curSpec.m4), MinScopeV6: uint8(curSpec.m6)}
			for _, n := range curSpec.nets {
				if n.ok {
					p.ClientNetworks = append(p.ClientNetworks, netip.MustParsePrefix(n.text))
				}
			}
			curPol = p
			return vlib.Res{Impl: "ok"}
		}
		curSpec = specFrom(a[1:], false)
		p, err := ecs.Build(curSpec.en, uint8(curSpec.f4), uint8(curSpec.f6), uint8(curSpec.m4), uint8(curSpec.m6), netTexts(curSpec.nets))
		curPol = p
		impl := "disabled"
		switch {
		case err != nil:
			impl = "invalid:?"
			if fe, ok := err.(interface{ Field() string }); ok {
				impl = "invalid:" + fe.Field()
			}
		case p != nil:
			impl = fmt.Sprintf("ok f4=%d f6=%d m4=%d m6=%d nets=%d", p.ForwardV4Max, p.ForwardV6Max, p.MinScopeV4, p.MinScopeV6, len(p.ClientNetworks))
		}
		or := "ok"
		if !curSpec.forwards() && p != nil {
			or = fail("build/invalid-or-disabled-config-yields-policy", "%s", impl)
		}
		tags := ""
		if !curSpec.valid() {
			tags = "nt"
		}
		return vlib.Res{Impl: impl, Oracle: or, Tags: tags}
	case "ecs allows":
		c := parseClient(a[0])
		got := curPol.Allows(c.addr(false))
		want := naiveAllows(curSpec, c, false)
		or := "ok"
		if got != want {
			or = fail("allows/"+map[bool]string{true: "widened", false: "narrowed"}[got], "want=%v", want)
		}
		tags := ""
		if len(curSpec.nets) > 0 {
			tags = "nt"
		}
		return vlib.Res{Impl: vlib.B(got), Oracle: or, Tags: tags}
	case "ecs clamp":
		o := parseOpt(a[0])
		in := buildOpt(o).(*dns.EDNS0_SUBNET)
		out := curPol.Clamp(in)
		impl := "nil"
		or := "ok"
		if out != nil {
			impl = renderOpt(out, true)
			or = checkClamped(curSpec, []optT{o}, out)
			if or == "" {
				or = "ok"
			}
		}
		tags := ""
		if o.mask%8 != 0 || out != nil && out.SourceNetmask != o.mask {
			tags = "nt"
		}
		return vlib.Res{Impl: impl, Oracle: or, Tags: tags}
	case "ecs setedns":
		c := parseClient(a[0])
		opts, has := parseOpts(a[2])
		req := reqWith("x.c19.test.", dns.TypeA, false, opts, has, uint8(vlib.Atoi(a[1])), false)
		opt, _, _, _, _ := dnsutil.SetEdns0(req, curPol, c.addr(false))
		or := checkForwarded(curSpec, c, false, opts, opt.Option)
		if or == "" && req.IsEdns0() != opt {
			or = fail("setedns/returned-opt-not-on-request", "")
		}
		if or == "" {
			or = "ok"
		}
		tags := ""
		if len(opts) > 1 {
			tags = "nt"
		}
		return vlib.Res{Impl: "up=" + renderOpts(opt.Option, true), Oracle: or, Tags: tags}
	case "ecs strip":
		opts, _ := parseOpts(a[0])
		in := buildOpts(opts)
		var want []string
		for _, o := range in {
			if _, is := o.(*dns.EDNS0_SUBNET); !is {
				want = append(want, renderOpt(o, true))
			}
		}
		out := edns.VerifC19StripECS(in)
		or := checkReply(out)
		impl := renderOpts(out, true)
		w := strings.Join(want, ",")
		if w == "" {
			w = "-"
		}
		if or == "" && impl != w {
			or = fail("strip/other-options-disturbed", "want=%s", w)
		}
		if or == "" {
			or = "ok"
		}
		return vlib.Res{Impl: impl, Oracle: or}
	case "ecs wire":
		// ecs wire <adm> <opts>: the strict packet parser's facts for a raw query whose
		// OPT carries exactly these options (addresses verbatim, host bits included)
		opts, _ := parseOpts(a[1])
		r := new(middleware.Request)
		adm := r.ParseWire(rawQuery(opts), time.Now(), nil)
		sentECS := false
		for _, o := range opts {
			if o.isECS {
				sentECS = true
			}
		}
		if !adm {
			impl := "refused"
			if a[0] == "t" {
				impl = "refused-now" // the op line recorded an admission
			}
			return vlib.Res{Impl: impl, Oracle: "-"}
		}
		impl := fmt.Sprintf("ecs=%s nsid=%s ka=%s", vlib.B(r.HasECS()), vlib.B(r.HasNSID()), vlib.B(r.HasTCPKeepalive()))
		if a[0] != "t" {
			impl = "admitted-now " + impl
		}
		or := "ok"
		if r.HasECS() != sentECS {
			or = fail("wire/admitted-packet/subnet-option-fact-wrong", "client sent subnet option=%v parser recorded=%v", sentECS, r.HasECS())
		}
		tags := ""
		if sentECS {
			tags = "nt"
		}
		return vlib.Res{Impl: impl, Oracle: or, Tags: tags}
	case "ecs capttl":
		// ecs capttl <cap s> <ttl s> <scoped t|f>: the lifetime the real store gives an
		// entry (cache.New with cache_limit_ttl = cap; Store.SetFromResponseScoped / …WithKey)
		capS, ttl, scoped := vlib.Atoi(a[0]), vlib.Atoi(a[1]), a[2] == "t"
		cfg := &config.Config{CacheSize: 1024, Expire: 600}
		cfg.ECS = config.ECSConfig{Enabled: true, CacheLimitTTL: config.Duration{Duration: time.Duration(capS) * time.Second}}
		ca := cache.New(cfg)
		defer ca.Stop()
		m := new(dns.Msg)
		m.SetQuestion("capttl.c19.test.", dns.TypeA)
		m.Response = true
		m.Answer = []dns.RR{&dns.A{Hdr: dns.RR_Header{Name: "capttl.c19.test.", Rrtype: dns.TypeA, Class: dns.ClassINET, Ttl: uint32(ttl)}, A: ansIP(1)}}
		store := ca.Store().(*cache.Store)
		scope := netip.Prefix{}
		if scoped {
			scope = netip.MustParsePrefix("10.1.2.0/24")
		}
		key := cache.CacheKey{Question: m.Question[0], Scope: scope}.Hash()
		if scoped {
			store.SetFromResponseScoped(key, m, scope, time.Time{}, 0)
		} else {
			store.SetFromResponseWithKey(key, m, time.Time{}, 0)
		}
		got := -1
		for _, e := range cache.VerifC19Entries(ca) {
			got = int(e.TTL / time.Second)
		}
		or := "ok"
		if scoped && capS > 0 && got > capS {
			or = fail("scoped/ttl-above-cap", "ttl=%d cap=%d (store level)", got, capS)
		}
		tags := ""
		if capS > 0 && capS < 5 || ttl < 5 || ttl > 86400 {
			tags = "nt,ttl-bounds"
		}
		return vlib.Res{Impl: fmt.Sprintf("ttl=%d", got), Oracle: or, Tags: tags}
	case "ecs dedup":
		// ecs dedup <clientA> <coptsA> <cdA> <clientB> <coptsB> <cdB>: the dedup keys of two
		// requests for one question, each normalised by SetEdns0 as edns would
		type side struct {
			key uint64
			fwd []dns.EDNS0
			cd  bool
		}
		mk := func(cs, os, cds string) side {
			c := parseClient(cs)
			opts, has := parseOpts(os)
			req := reqWith("dedup.c19.test.", dns.TypeA, cds == "t", opts, has, 0, false)
			opt, _, _, _, _ := dnsutil.SetEdns0(req, curPol, c.addr(false))
			return side{key: cache.VerifC19DedupKey(curPol, req, c.addr(false)), fwd: opt.Option, cd: cds == "t"}
		}
		sa, sb := mk(a[0], a[1], a[2]), mk(a[3], a[4], a[5])
		same := sa.key == sb.key
		or := "ok"
		if same {
			// sharing a flight is only right for the same CD and the same forwarded subnet (or none / a /0 on both sides)
			sub := func(s side) string {
				for _, o := range s.fwd {
					if e, ok := o.(*dns.EDNS0_SUBNET); ok && e.SourceNetmask > 0 {
						return fmt.Sprintf("%d/%d/%x", e.Family, e.SourceNetmask, []byte(e.Address))
					}
				}
				return "-"
			}
			if sa.cd != sb.cd {
				or = fail("dedup/shared-flight-across-cd", "")
			} else if sub(sa) != sub(sb) {
				or = fail("dedup/shared-flight-for-different-subnets", "%s vs %s", sub(sa), sub(sb))
			}
		}
		return vlib.Res{Impl: "same=" + vlib.B(same), Oracle: or, Tags: "nt,dedup-key"}
	case "ecs readscope":
		opts, has := parseOpts(a[0])
		m := new(dns.Msg)
		m.SetQuestion("x.c19.test.", dns.TypeA)
		m.Response = true
		if has {
			o := new(dns.OPT)
			o.Hdr.Name, o.Hdr.Rrtype = ".", dns.TypeOPT
			o.Option = buildOpts(opts)
			m.Extra = append(m.Extra, o)
		}
		p, ok := ecs.ReadResponseScope(m)
		or := "ok"
		if ok {
			or = checkReadScope(opts, p)
		} else if p.IsValid() {
			or = fail("readscope/valid-prefix-with-false", "")
		}
		return vlib.Res{Impl: renderPrefix(p), Oracle: or, Tags: "nt"}
	case "ecs clampscope":
		fam, addr, bits := parsePrefixTok(a[0])
		scope := netip.PrefixFrom(toNetipAddr(fam, addr), bits)
		src := netip.Prefix{}
		sbits := -1
		if a[1] != "none" {
			sf, sa, sb := parsePrefixTok(a[1])
			src = netip.PrefixFrom(toNetipAddr(sf, sa), sb)
			sbits = sb
		}
		out := curPol.ClampScope(scope, src)
		or := "ok"
		if curPol != nil {
			or = checkClampScope(curSpec, fam, addr, bits, sbits, out)
		}
		return vlib.Res{Impl: renderPrefix(out), Oracle: or, Tags: "nt"}
	case "ecs reqscope":
		c := parseClient(a[0])
		opts, has := parseOpts(a[1])
		req := reqWith("x.c19.test.", dns.TypeA, false, opts, has, 0, false)
		p := cache.VerifC19RequestScope(curPol, req, c.addr(false))
		or := "ok"
		if p.IsValid() {
			switch {
			case !naiveAllows(curSpec, c, false):
				or = fail("reqscope/scope-for-client-not-allowed", "")
			default:
				or = checkReqScope(opts, p)
			}
		}
		return vlib.Res{Impl: renderPrefix(p), Oracle: or}
	case "fwd new":
		return fwdNew(a)
	case "fwd q":
		return fwdQ(a)
	case "l3 new":
		return l3New(a)
	case "l3 q":
		return l3Q(a)
	case "l3 race":
		return l3Race(a)
	case "pipe new":
		return pipeNew(a, false)
	case "pipe load":
		return pipeNew(a, true)
	case "pipe q":
		return pipeQ(a)
	case "pipe age":
		cache.VerifC19AgeFraction(pipe.ca, vlib.AtoI64(a[0]), vlib.AtoI64(a[1]))
		return vlib.Res{Impl: "ok"}
	case "pipe refresh":
		// pipe refresh <ttl> <upopts> <ans>: run every queued background refresh
		// (the worker's processPrefetch, synchronously); the authority answers the
		// i-th one with answer id ans+i
		p := pipe
		st := p.st
		uo, uh := parseOpts(a[1])
		base := vlib.Atoi(a[2])
		st.ttl, st.up, st.upHas, st.ans, st.kind = uint32(vlib.Atoi(a[0])), uo, uh, base, "a"
		st.refresh, st.refreshSeen, st.refreshOpts = true, nil, nil
		items := cache.VerifC19RunPrefetch(p.ca)
		st.refresh = false
		or := ""
		for i, it := range items {
			if i >= len(st.refreshOpts) {
				break
			}
			// what went upstream on a refresh is judged like any other upstream query,
			// against the options of the queued request copy, client = internal writer
			sent, _ := parseOpts(renderOpts(it.Opts, true))
			if v := checkForwarded(p.spec, parseClient("4:7f0000ff"), true, sent, st.refreshOpts[i]); v != "" && or == "" {
				or = strings.Replace(v, "sig=upstream/", "sig=refresh/upstream/", 1)
			}
			lbl, _, _ := strings.Cut(it.Q.Name, ".")
			rec := newRec(p.spec, vlib.Atoi(lbl[1:]), it.CD, uo, uh, st.refreshOpts[i])
			rec.viaRefresh = true
			p.ledger[base+i] = rec
			if e := p.findEntry(base + i); e != nil && rec.wellformed && rec.eff > 0 && !e.Scope.IsValid() && or == "" {
				or = fail("refresh/scoped-answer-filed-under-shared-key", "%s refreshed with subnet option %s; authority scope /%d stored shared",
					it.Q.Name, renderOpts(st.refreshOpts[i], true), rec.declared)
			}
		}
		if or == "" {
			or = "ok"
		}
		tags := ""
		if len(items) > 0 {
			tags = "nt,refresh-run"
		}
		return vlib.Res{Impl: fmt.Sprintf("n=%d up=%s", len(items), strings.Join(st.refreshSeen, "|")), Oracle: or, Tags: tags}
	case "pipe pq":
		// pipe pq <client> <proto> <qid> <cd> <copts> <k> <ans>: a name that exists below d.z<k>
		return pipeQ([]string{a[0], a[1], a[2], a[3], a[4], "600", "-", a[6], "a", fmt.Sprintf("p%s.d.%s", a[2], zoneOfK(vlib.Atoi(a[5])))})
	case "pipe refreshnx":
		// pipe refreshnx <ans> <m|t|f>: run the queued refreshes (CD bit of the answers: mirrored / forced); the authority now denies the
		// names (NXDOMAIN + validated proof for d.z<k>, SOA serial ans+i)
		p := pipe
		st := p.st
		base := vlib.Atoi(a[0])
		st.ans, st.refreshDenial, st.refreshOpts, st.refreshCD = base, true, nil, a[1]
		cuts0, proofs0 := cache.VerifC19DenialLens(p.ca)
		items := cache.VerifC19RunPrefetch(p.ca)
		st.refreshDenial = false
		or := "ok"
		for i, it := range items {
			lbl, _, _ := strings.Cut(it.Q.Name, ".")
			p.ledger[base+i] = &ansRec{qid: vlib.Atoi(lbl[1:]), cd: it.CD, viaRefresh: true}
			hadECS := it.HadECS
			for _, o := range it.Opts {
				if _, is := o.(*dns.EDNS0_SUBNET); is {
					hadECS = true
				}
			}
			if (hadECS || it.CD) && (it.CutsAfter != cuts0 || it.ProofsAfter != proofs0) && or == "ok" {
				or = fail("denial/refresh/ecs-or-cd-triggered-refresh-created-shared-denial", "%s ecs=%v cd=%v cuts %d->%d proofs %d->%d",
					it.Q.Name, hadECS, it.CD, cuts0, it.CutsAfter, proofs0, it.ProofsAfter)
			}
			cuts0, proofs0 = it.CutsAfter, it.ProofsAfter
		}
		tags := ""
		if len(items) > 0 {
			tags = "nt,refresh-denial-run"
		}
		return vlib.Res{Impl: fmt.Sprintf("n=%d cuts=%d", len(items), cuts0), Oracle: or, Tags: tags}
	case "pipe pfq":
		n, scoped := cache.VerifC19DrainPrefetch(pipe.ca)
		or := "ok"
		if scoped > 0 {
			or = fail("scoped/background-refresh-queued", "%d of %d queued refreshes are for scoped entries", scoped, n)
		}
		tags := ""
		if n > 0 {
			tags = "nt,prefetch-queued"
		}
		return vlib.Res{Impl: fmt.Sprintf("n=%d scoped=%d", n, scoped), Oracle: or, Tags: tags}
	case "pipe forge":
		// pipe forge <qid> <cd> <from|shared> <to|shared>
		pfx := func(t string) netip.Prefix {
			if t == "shared" {
				return netip.Prefix{}
			}
			fam, addr, bits := parsePrefixTok(t)
			return netip.PrefixFrom(toNetipAddr(fam, addr), bits)
		}
		q := dns.Question{Name: fmt.Sprintf("q%d.c19.test.", vlib.Atoi(a[0])), Qtype: dns.TypeA, Qclass: dns.ClassINET}
		ok := cache.VerifC19Forge(pipe.ca, q, a[1] == "t", pfx(a[2]), pfx(a[3]))
		return vlib.Res{Impl: map[bool]string{true: "ok", false: "none"}[ok], Tags: "nt,forged-collision"}
	case "pipe sget":
		// pipe sget <qid> <cd> <optecs> <markecs> <treebypass> <k>: the resolver-private
		// look-up path Store.GetWithContext for a fresh name below the denied d.z<k>
		cd, optEcs, mark, byp, k := a[1] == "t", a[2] == "t", a[3] == "t", a[4] == "t", vlib.Atoi(a[5])
		store, ok := pipe.ca.Store().(*cache.Store)
		if !ok {
			return vlib.Res{Impl: "nostore", Oracle: fail("sget/no-store", "")}
		}
		ctx := context.Background()
		if mark {
			ctx = middleware.MarkClientECS(ctx)
		}
		if byp {
			ctx = cache.VerifC19WithBypass(ctx)
		}
		var opts []optT
		if optEcs {
			opts = []optT{parseOpt("E1.24.0.0a010200")}
		}
		req := reqWith(fmt.Sprintf("q%s.d.%s", a[0], zoneOfK(k)), dns.TypeA, cd, opts, true, 0, true)
		msg, got := store.GetWithContext(ctx, req)
		hit := got && msg != nil
		or := "ok"
		if hit && (cd || optEcs || mark || byp) {
			or = fail("denial/store-get/ecs-or-cd-tree-consumed-shared-denial", "cd=%v optecs=%v mark=%v bypass=%v", cd, optEcs, mark, byp)
		}
		return vlib.Res{Impl: "hit=" + vlib.B(hit), Oracle: or, Tags: "nt"}
	case "pipe reject":
		// pipe reject <client> <proto> <ahead|behind> <copts>: a handler in front of /
		// behind edns turns the query away with Chain.CancelWithRcode(REFUSED)
		p := pipe
		c, proto := parseClient(a[0]), a[1]
		cr := buildClient("rej.c19.test.", dns.TypeA, false, false, a[3])
		rej := middleware.HandlerFunc(func(_ context.Context, ch *middleware.Chain) { ch.CancelWithRcode(dns.RcodeRefused, false) })
		p.handlers = []middleware.Handler{rej, p.ed, p.ca, p.st}
		if a[2] == "behind" {
			p.handlers = []middleware.Handler{p.ed, rej}
		}
		reply := p.run(c, proto, cr)
		p.handlers = nil
		if p.formerr {
			return vlib.Res{Impl: "formerr", Oracle: "ok", Tags: "raw-undecodable"}
		}
		if reply == nil {
			return vlib.Res{Impl: "noreply", Oracle: fail("pipe/no-reply", "")}
		}
		ropt := "noopt"
		if o := reply.IsEdns0(); o != nil {
			parts := strings.Split(renderOpts(o.Option, false), ",")
			sort.Strings(parts)
			ropt = strings.Join(parts, ",")
		}
		or := "ok"
		if v := checkReply(allReplyOpts(reply)); v != "" {
			or = strings.Replace(v, "sig=reply/", "sig=reply/rejection-"+a[2]+"-of-edns/", 1)
		}
		p.rawFallback = false
		return vlib.Res{Impl: fmt.Sprintf("rcode=%d ropt=%s", reply.Rcode, ropt), Oracle: or, Tags: "nt,rejection-" + a[2]}
	case "pipe failover":
		// pipe failover <client> <proto> <copts>: the primary resolution ends in SERVFAIL;
		// the real failover middleware asks a scripted fallback server, which records
		// the OPT of what it is sent
		p := pipe
		c, proto := parseClient(a[0]), a[1]
		fb := fallbackServer()
		fo := failover.New(&config.Config{FallbackServers: []string{fb.addr}})
		sf := middleware.HandlerFunc(func(_ context.Context, ch *middleware.Chain) {
			m := new(dns.Msg)
			m.SetRcode(ch.Request.Msg(), dns.RcodeServerFailure)
			m.RecursionDesired = true
			_ = ch.Writer.WriteMsg(m)
			ch.Cancel()
		})
		cr := buildClient("fo.c19.test.", dns.TypeA, false, false, a[2])
		fb.mu.Lock()
		fb.seen, fb.n = nil, 0
		fb.mu.Unlock()
		p.handlers = []middleware.Handler{p.ed, fo, sf}
		reply := p.run(c, proto, cr)
		p.handlers = nil
		p.rawFallback = false
		if p.formerr {
			return vlib.Res{Impl: "formerr", Oracle: "ok", Tags: "raw-undecodable"}
		}
		if reply == nil {
			return vlib.Res{Impl: "noreply", Oracle: fail("pipe/no-reply", "")}
		}
		fb.mu.Lock()
		seen, n := fb.seen, fb.n
		fb.mu.Unlock()
		fbS := "none"
		or := ""
		if n > 0 {
			fbS = renderOpts(seen, true)
			if v := checkForwarded(p.spec, c, true, cr.sent, seen); v != "" {
				or = strings.Replace(v, "sig=upstream/", "sig=upstream/fallback/", 1)
			}
		}
		if or == "" {
			if v := checkReply(allReplyOpts(reply)); v != "" {
				or = v
			}
		}
		if or == "" {
			or = "ok"
		}
		tags := "nt,failover"
		if p.wireUsed {
			tags += ",wire-born"
		}
		return vlib.Res{Impl: fmt.Sprintf("fb=%s rcode=%d", fbS, reply.Rcode), Oracle: or, Tags: tags}
	case "pipe badvers":
		return pipeBadVers(a)
	case "pipe nx":
		return pipeDenial(a, false)
	case "pipe alias":
		return pipeDenial(a, true)
	}
	return vlib.Res{Impl: "bad-op"}
}

// ------------------------------------------------------------------ facts

func facts() map[string]any {
	out := map[string]any{}
	// defaults Build applies to an enabled, otherwise empty [ecs] block
	if p, err := ecs.Build(true, 0, 0, 0, 0, nil); err == nil && p != nil {
		out["default_forward_v4"] = int(p.ForwardV4Max)
		out["default_forward_v6"] = int(p.ForwardV6Max)
		out["default_min_scope_v4"] = int(p.MinScopeV4)
		out["default_min_scope_v6"] = int(p.MinScopeV6)
		out["default_enabled_allows_everyone"] = p.Allows(netip.MustParseAddr("198.51.100.7")) && len(p.ClientNetworks) == 0
	}
	pd, errd := ecs.Build(false, 24, 56, 24, 56, nil)
	out["disabled_build_is_nil"] = pd == nil && errd == nil
	// largest value each numeric field accepts (Build run over the whole uint8 domain)
	maxOK := func(mk func(v uint8) (*ecs.Policy, error)) int {
		m := -1
		for v := 0; v <= 255; v++ {
			if p, err := mk(uint8(v)); err == nil && p != nil {
				m = v
			}
		}
		return m
	}
	out["max_accepted_forward_v4"] = maxOK(func(v uint8) (*ecs.Policy, error) { return ecs.Build(true, v, 0, 0, 0, nil) })
	out["max_accepted_forward_v6"] = maxOK(func(v uint8) (*ecs.Policy, error) { return ecs.Build(true, 0, v, 0, 0, nil) })
	out["max_accepted_min_scope_v4"] = maxOK(func(v uint8) (*ecs.Policy, error) { return ecs.Build(true, 0, 0, v, 0, nil) })
	out["max_accepted_min_scope_v6"] = maxOK(func(v uint8) (*ecs.Policy, error) { return ecs.Build(true, 0, 0, 0, v, nil) })
	pb, errb := ecs.Build(true, 0, 0, 0, 0, []string{"10.0.0.0/8", "not-a-cidr"})
	out["bad_network_rejected"] = pb == nil && errb != nil
	// the fixed table of entries that are not CIDRs as written (gen.go): each
	// alone, after a valid entry and before one must make Build fail closed
	var rej []bool
	var tab []string
	for _, e := range badEntries {
		ok := true
		for _, l := range [][]string{{e}, {"10.0.0.0/8", e}, {e, "10.0.0.0/8"}, {"10.0.0.0/8", "10.0.0.0/8", e}} {
			if p, err := ecs.Build(true, 24, 56, 24, 56, l); p != nil || err == nil {
				ok = false
			}
		}
		rej = append(rej, ok)
		tab = append(tab, vlib.Hex([]byte(e)))
	}
	out["bad_entry_table"] = tab
	out["bad_entry_table_rejected"] = rej
	pdup, errdup := ecs.Build(true, 0, 0, 0, 0, []string{"10.0.0.0/8", "10.0.0.0/8"})
	out["duplicate_network_accepted"] = pdup != nil && errdup == nil && len(pdup.ClientNetworks) == 2
	// option codes as the library numbers them
	out["code_subnet"] = int((&dns.EDNS0_SUBNET{Code: dns.EDNS0SUBNET}).Option())
	out["min_cache_ttl_s"] = int(dnsutil.MinCacheTTL / time.Second)
	out["max_cache_ttl_s"] = int(dnsutil.MaxCacheTTL / time.Second)
	out["code_cookie"] = int(dns.EDNS0COOKIE)
	out["code_keepalive"] = int(dns.EDNS0TCPKEEPALIVE)
	// shipped configuration: [ecs] block of the generated default config
	if d, err := config.VerifC19DefaultECS(); err == nil {
		out["shipped_enabled"] = d.Enabled
		out["shipped_forward_v4"] = int(d.ForwardV4Max)
		out["shipped_forward_v6"] = int(d.ForwardV6Max)
		out["shipped_min_scope_v4"] = int(d.MinScopeV4)
		out["shipped_min_scope_v6"] = int(d.MinScopeV6)
		out["shipped_cache_limit_ttl_s"] = int(d.CacheLimitTTL.Duration / time.Second)
		out["shipped_client_networks"] = len(d.ClientNetworks)
	}
	// a cache built from the zero config has no policy; from the shipped block neither
	c0 := cache.New(&config.Config{CacheSize: 1024, Expire: 600})
	out["zero_config_cache_policy_nil"] = cache.VerifC19Policy(c0) == nil
	c0.Stop()
	out["zero_config_edns_policy_nil"] = edns.VerifC19Policy(edns.New(&config.Config{})) == nil
	return out
}

func main() { vlib.Main(&vlib.Driver{Facts: facts, Exec: exec, Gen: gen}) }
