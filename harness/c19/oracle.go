//go:build verif

package main

// The independent oracle of C19.  Everything here is spelled out from the
// property text on bytes and bits: it neither calls ecs/dnsutil/edns/cache
// code nor net/netip prefix arithmetic.

import (
	"fmt"
	"net/netip"

	"github.com/miekg/dns"
)

// polSpec is the configuration as the operator wrote it.
type polSpec struct {
	raw                bool // an ecs.Policy value assembled directly (no Build defaults)
	en                 bool
	f4, f6, m4, m6     int
	nets               []netEnt
}

// valid: "an invalid ECS configuration" = a ceiling/floor beyond the family
// width or a client network that is not a CIDR.
func (p polSpec) valid() bool {
	if p.raw {
		return true
	}
	if p.f4 > 32 || p.f6 > 128 || p.m4 > 32 || p.m6 > 128 {
		return false
	}
	for _, n := range p.nets {
		if !n.ok {
			return false
		}
	}
	return true
}

// forwards: forwarding is enabled at all.
func (p polSpec) forwards() bool { return p.en && p.valid() }

// ceiling: configured forward prefix length (documented defaults /24, /56).
func (p polSpec) ceiling(fam int) int {
	v, d := p.f4, 24
	if fam == 6 {
		v, d = p.f6, 56
	}
	if v == 0 && !p.raw {
		return d
	}
	return v
}

// floor: configured minimum scope; defaults to the ceiling.
func (p polSpec) floor(fam int) int {
	v := p.m4
	if fam == 6 {
		v = p.m6
	}
	if v == 0 && !p.raw {
		return p.ceiling(fam)
	}
	return v
}

func bit(b []byte, i int) int {
	if i/8 >= len(b) {
		return 0
	}
	return int(b[i/8]>>(7-uint(i%8))) & 1
}

// bitsEqual: the first n bits of a and b agree.
func bitsEqual(a, b []byte, n int) bool {
	for i := 0; i < n; i++ {
		if bit(a, i) != bit(b, i) {
			return false
		}
	}
	return true
}

// hostZero: every bit of a from position n on is zero.
func hostZero(a []byte, n int) bool {
	for i := n; i < len(a)*8; i++ {
		if i >= 0 && bit(a, i) != 0 {
			return false
		}
	}
	return true
}

func isMapped(b []byte) bool {
	if len(b) != 16 {
		return false
	}
	for i := 0; i < 10; i++ {
		if b[i] != 0 {
			return false
		}
	}
	return b[10] == 0xff && b[11] == 0xff
}

// normAddr: family (4/6) and plain bytes of an option's address, 0 if unusable.
func normAddr(b []byte) (int, []byte) {
	switch {
	case len(b) == 4:
		return 4, b
	case isMapped(b):
		return 4, b[12:]
	case len(b) == 16:
		return 6, b
	}
	return 0, nil
}

// usableECS: a client/authority option that names a subnet at all.
func usableECS(o optT) (fam int, addr []byte, ok bool) {
	if !o.isECS || o.addrNil {
		return 0, nil, false
	}
	fam, addr = normAddr(o.addr)
	if fam == 0 || (o.fam == 1) != (fam == 4) || (o.fam != 1 && o.fam != 2) {
		return 0, nil, false
	}
	return fam, addr, true
}

// naiveAllows: forwarding enabled and the client inside the allowed networks
// (an empty list allows everyone).
func naiveAllows(p polSpec, c clientT, unmap bool) bool {
	if !p.forwards() || c.kind == 'x' {
		return false
	}
	fam, b := c.famBytes(unmap)
	n := 0
	for _, e := range p.nets {
		if !e.ok {
			continue
		}
		n++
		if e.fam == fam && bitsEqual(e.addr, b, e.bits) {
			return true
		}
	}
	return n == 0
}

// checkClamped judges one subnet option that is about to leave sdns against
// the options the client sent.
func checkClamped(p polSpec, sent []optT, out *dns.EDNS0_SUBNET) string {
	fam := 0
	switch out.Family {
	case 1:
		fam = 4
	case 2:
		fam = 6
	default:
		return fail("upstream/bad-family", "family=%d", out.Family)
	}
	w := 32
	if fam == 6 {
		w = 128
	}
	if len(out.Address) != w/8 {
		return fail("upstream/bad-address-length", "len=%d", len(out.Address))
	}
	m := int(out.SourceNetmask)
	if m > p.ceiling(fam) {
		return fail("upstream/prefix-above-ceiling", "family=%d source=%d ceiling=%d", fam, m, p.ceiling(fam))
	}
	if m > w {
		return fail("upstream/prefix-above-width", "source=%d", m)
	}
	if !hostZero(out.Address, m) {
		return fail("upstream/host-bits-leaked", "family=%d source=%d address=%x", fam, m, []byte(out.Address))
	}
	// the subnet must be (a truncation of) one the client itself supplied
	for _, o := range sent {
		ofam, oaddr, ok := usableECS(o)
		if ok && ofam == fam && int(o.mask) >= m && bitsEqual(oaddr, out.Address, m) {
			return ""
		}
	}
	return fail("upstream/subnet-not-a-truncation-of-client-option", "family=%d source=%d address=%x", fam, m, []byte(out.Address))
}

// checkForwarded judges the OPT options of a query leaving towards upstream.
func checkForwarded(p polSpec, c clientT, unmap bool, sent []optT, fwd []dns.EDNS0) string {
	n := 0
	for _, o := range fwd {
		sub, ok := o.(*dns.EDNS0_SUBNET)
		if !ok {
			return fail(fmt.Sprintf("upstream/client-option-forwarded/code-%d", o.Option()), "")
		}
		n++
		if n > 1 {
			return fail("upstream/more-than-one-subnet-option", "")
		}
		if !p.forwards() {
			return fail("upstream/ecs-while-disabled-or-invalid", "enabled=%v valid=%v", p.en, p.valid())
		}
		if !naiveAllows(p, c, unmap) {
			return fail("upstream/ecs-for-client-outside-allowed-networks", "")
		}
		if v := checkClamped(p, sent, sub); v != "" {
			return v
		}
	}
	return ""
}

// checkReply: no ECS option is ever returned to a client.
func checkReply(opts []dns.EDNS0) string {
	for _, o := range opts {
		if o.Option() == dns.EDNS0SUBNET {
			return fail("reply/ecs-returned-to-client", "%s", renderOpt(o, true))
		}
		if _, ok := o.(*dns.EDNS0_SUBNET); ok {
			return fail("reply/ecs-returned-to-client", "%s", renderOpt(o, true))
		}
	}
	return ""
}

// newRec notes what the authority declared for the answer it just gave and
// what had been forwarded to it.
func newRec(p polSpec, qid int, cd bool, up []optT, upHas bool, seen []dns.EDNS0) *ansRec {
	r := &ansRec{qid: qid, cd: cd}
	if !upHas {
		return r
	}
	var decl *optT
	for i := range up {
		if up[i].isECS {
			decl = &up[i]
			break
		}
	}
	if decl == nil || decl.scope == 0 {
		return r
	}
	fam, addr, ok := usableECS(*decl)
	w := 32
	if fam == 6 {
		w = 128
	}
	if !ok || int(decl.scope) > w {
		return r // not a prefix: nothing to hold the implementation to
	}
	r.wellformed, r.fam, r.addr, r.declared = true, fam, addr, int(decl.scope)
	fwd := 0
	for _, o := range seen {
		if s, ok := o.(*dns.EDNS0_SUBNET); ok {
			fwd = int(s.SourceNetmask)
		}
	}
	r.limit = min(fwd, p.floor(fam))
	r.eff = min(r.declared, r.limit)
	return r
}

// checkStored: the entry that now holds a scoped answer.
func checkStored(r *ansRec, capS int, scope netip.Prefix, ttl int, prefetchEligible bool) string {
	if !r.wellformed || r.eff == 0 {
		return ""
	}
	if !scope.IsValid() {
		return fail("scoped/stored-under-shared-key", "declared=%d forwarded/floor=%d", r.declared, r.limit)
	}
	b := scope.Bits()
	if b > r.limit {
		return fail("scoped/stored-more-specific-than-forwarded-or-floor", "stored=%d limit=%d", b, r.limit)
	}
	if b < r.eff {
		return fail("scoped/stored-wider-than-declared", "stored=%d scope=%d", b, r.eff)
	}
	sa := scope.Addr().AsSlice()
	if (len(sa) == 4) != (r.fam == 4) || !bitsEqual(sa, r.addr, b) || !hostZero(sa, b) {
		return fail("scoped/stored-under-wrong-network", "stored=%s", scope)
	}
	if capS > 0 && ttl > capS {
		return fail("scoped/ttl-above-cap", "ttl=%d cap=%d", ttl, capS)
	}
	if prefetchEligible {
		return fail("scoped/entry-eligible-for-background-refresh", "")
	}
	return ""
}

// checkServed: an answer came out of the cache for this client.
func checkServed(p polSpec, capS int, r *ansRec, c clientT, sent []optT, qid int, cd bool, servedTTL int) string {
	if r == nil {
		return fail("cache/served-unknown-answer", "")
	}
	if r.qid != qid || r.cd != cd {
		return fail("cache/served-other-question", "stored q%d cd=%v", r.qid, r.cd)
	}
	if !r.wellformed || r.eff == 0 {
		return ""
	}
	if r.viaRefresh {
		// answers obtained by a background refresh get signatures of their own
		// (candidate finding: the refresh of a shared entry can carry a client's subnet)
		if capS > 0 && servedTTL > capS {
			return fail("refresh/scoped-answer-served-ttl-above-cap", "ttl=%d cap=%d", servedTTL, capS)
		}
		if naiveAllows(p, c, true) {
			for _, o := range sent {
				if fam, addr, ok := usableECS(o); ok && fam == r.fam && int(o.mask) >= r.eff && bitsEqual(addr, r.addr, r.eff) {
					return ""
				}
			}
		}
		return fail("refresh/scoped-answer-served-outside-scope", "scope=%x/%d", r.addr, r.eff)
	}
	if capS > 0 && servedTTL > capS {
		return fail("scoped/served-ttl-above-cap", "ttl=%d cap=%d", servedTTL, capS)
	}
	if !naiveAllows(p, c, true) {
		return fail("scoped/served-to-client-without-forwardable-subnet", "")
	}
	any := false
	for _, o := range sent {
		fam, addr, ok := usableECS(o)
		if !ok {
			continue
		}
		any = true
		if fam == r.fam && int(o.mask) >= r.eff && bitsEqual(addr, r.addr, r.eff) {
			return ""
		}
	}
	if !any {
		return fail("scoped/served-to-client-without-forwardable-subnet", "")
	}
	return fail("scoped/served-outside-scope", "scope=%x/%d", r.addr, r.eff)
}

func checkReadScope(opts []optT, p netip.Prefix) string {
	for _, o := range opts {
		if !o.isECS {
			continue
		}
		fam, addr, ok := usableECS(o)
		if !ok || o.scope == 0 {
			return fail("readscope/scope-from-unusable-option", "")
		}
		sa := p.Addr().AsSlice()
		if (len(sa) == 4) != (fam == 4) || p.Bits() != int(o.scope) || !bitsEqual(sa, addr, p.Bits()) || !hostZero(sa, p.Bits()) {
			return fail("readscope/wrong-prefix", "%s", p)
		}
		return "ok"
	}
	return fail("readscope/scope-without-option", "")
}

func checkClampScope(p polSpec, fam int, addr []byte, bits, srcBits int, out netip.Prefix) string {
	if !out.IsValid() {
		return fail("clampscope/invalid", "")
	}
	b := out.Bits()
	if b > bits {
		return fail("clampscope/more-specific-than-authority-scope", "%d>%d", b, bits)
	}
	if srcBits >= 0 && b > srcBits {
		return fail("clampscope/more-specific-than-forwarded", "%d>%d", b, srcBits)
	}
	if b > p.floor(fam) {
		return fail("clampscope/more-specific-than-floor", "%d>%d", b, p.floor(fam))
	}
	sa := out.Addr().AsSlice()
	if (len(sa) == 4) != (fam == 4) || !bitsEqual(sa, addr, b) || !hostZero(sa, b) {
		return fail("clampscope/wrong-network", "%s", out)
	}
	return "ok"
}

func checkReqScope(opts []optT, p netip.Prefix) string {
	for _, o := range opts {
		if !o.isECS {
			continue
		}
		if o.addrNil {
			return fail("reqscope/scope-from-unusable-option", "")
		}
		fam, addr := normAddr(o.addr)
		sa := p.Addr().AsSlice()
		if fam == 0 || (len(sa) == 4) != (fam == 4) || p.Bits() != int(o.mask) || !bitsEqual(sa, addr, p.Bits()) || !hostZero(sa, p.Bits()) {
			return fail("reqscope/wrong-prefix", "%s", p)
		}
		return "ok"
	}
	return fail("reqscope/scope-without-option", "")
}
