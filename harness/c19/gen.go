//go:build verif

package main

import (
	"fmt"
	"strings"

	"time"

	"github.com/semihalev/sdns/internal/verif/vlib"
	"github.com/semihalev/sdns/middleware"
	"github.com/semihalev/sdns/middleware/cache"
)

// address pools: neighbours around /20, /24, /25 (v4) and /48, /56, /64 (v6)
// boundaries so that clients, allowed networks, forwarded prefixes and
// authority scopes collide and abut.
var v4Pool = [][]byte{
	{10, 1, 2, 0}, {10, 1, 2, 77}, {10, 1, 2, 128}, {10, 1, 2, 255}, {10, 1, 3, 5}, {10, 1, 15, 9}, {10, 1, 16, 1},
	{10, 1, 130, 9}, {10, 2, 2, 1}, {192, 0, 2, 1}, {198, 51, 100, 77}, {255, 255, 255, 255}, {0, 0, 0, 0},
}

func v6(s ...byte) []byte {
	b := make([]byte, 16)
	copy(b, s)
	return b
}

var v6Pool = [][]byte{
	v6(0x20, 0x01, 0x0d, 0xb8, 0, 1, 2, 0), v6(0x20, 0x01, 0x0d, 0xb8, 0, 1, 2, 0x77, 1, 2, 3, 4, 5, 6, 7, 8),
	v6(0x20, 0x01, 0x0d, 0xb8, 0, 1, 3, 0), v6(0x20, 0x01, 0x0d, 0xb8, 0, 1, 2, 0xff, 0xff),
	v6(0x20, 0x01, 0x0d, 0xb8, 0, 2), v6(0x20, 0x01, 0x0d, 0xb8, 0xff, 0xff, 0xff, 0xff, 0xff, 0xff, 0xff, 0xff, 0xff, 0xff, 0xff, 0xff),
	v6(0xfe, 0x80, 0, 0, 0, 0, 0, 0, 1), v6(0x20, 0x01, 0x0d, 0xb8, 0, 1, 2, 0x80, 0, 0, 0, 0, 0, 0, 0, 1),
}

func hostNoise(r *vlib.R, b []byte) []byte {
	out := append([]byte{}, b...)
	switch r.Intn(4) {
	case 0:
		out[len(out)-1] |= byte(r.Intn(256))
	case 1:
		for i := len(out) / 2; i < len(out); i++ {
			out[i] |= byte(r.Intn(256))
		}
	case 2:
		for i := range out {
			if i >= 2 {
				out[i] = 0xff
			}
		}
	}
	return out
}

func pickV4(r *vlib.R) []byte { return append([]byte{}, vlib.Pick(r, v4Pool)...) }
func pickV6(r *vlib.R) []byte { return append([]byte{}, vlib.Pick(r, v6Pool)...) }

func genCeil(r *vlib.R, fam int, invalidOK bool) int {
	w := 32
	if fam == 6 {
		w = 128
	}
	k := r.Intn(100)
	switch {
	case k < 25:
		return 0
	case k < 70:
		if fam == 4 {
			return vlib.Pick(r, []int{1, 8, 16, 19, 20, 21, 23, 24, 25, 31, 32})
		}
		return vlib.Pick(r, []int{1, 32, 47, 48, 49, 56, 57, 63, 64, 65, 127, 128})
	case k < 77 && invalidOK:
		return vlib.Pick(r, []int{w + 1, w + 8, 200, 255})
	}
	return 1 + r.Intn(w)
}

// badEntries: client_networks entries that are not a CIDR exactly as written
// (the unchanged ecs.Build rejects each of them; the Gen fact
// bad_entry_table_rejected re-evaluates that on every run): blank and
// whitespace-only strings, whitespace around a valid CIDR, a valid CIDR
// followed by garbage, a bare address, out-of-range or malformed lengths,
// zones, leading zeros.
var badEntries = []string{
	"", " ", "  ", "\t", "\n",
	" 10.0.0.0/8", "10.0.0.0/8 ", " 10.0.0.0/8 ", "\t10.0.0.0/8", "10.0.0.0/8\n", "2001:db8::/32 ",
	"10.0.0.0/8x", "10.0.0.0/8 garbage", "10.0.0.0/8,192.0.2.0/24", "10.0.0.0/8/8", "10.0.0.0/8#lan",
	"10.0.0.0", "2001:db8::", "10.0.0.0/", "/8", "1.2.3.4/",
	"10.0.0.0/33", "::/129", "10.0.0.0/-1", "10.0.0.0/08", "10.0.0.0/+8", "010.0.0.0/8", "10.0.0/8", "10.0.0.0.0/8",
	"fe80::1%eth0/64", "not-a-cidr", "*", "0.0.0.0/0x0", "any",
}

func badNet(r *vlib.R) string { return "bad:" + vlib.Hex([]byte(vlib.Pick(r, badEntries))) }

// genBadNets: a list an operator could have meant seriously — valid CIDRs
// around the clients under test (with duplicates) — spoiled by one or two
// entries that are not CIDRs, at every position.
func genBadNets(r *vlib.R) string {
	valid := []string{"4:0a000000/8", "4:0a010200/23", "6:20010db8000000000000000000000000/32", "4:00000000/0", "4:c0000200/24"}
	var parts []string
	for i := 0; i < r.Intn(3); i++ {
		v := vlib.Pick(r, valid)
		parts = append(parts, v)
		if r.Chance(1, 4) {
			parts = append(parts, v) // duplicate entry: still valid
		}
	}
	for i := 0; i < 1+r.Intn(2); i++ {
		at := r.Intn(len(parts) + 1)
		parts = append(parts[:at], append([]string{badNet(r)}, parts[at:]...)...)
	}
	return strings.Join(parts, ";")
}

func genNets(r *vlib.R, bad bool) string {
	if r.Chance(11, 20) {
		return "-"
	}
	n := 1 + r.Intn(3)
	var parts []string
	for i := 0; i < n; i++ {
		if bad && r.Chance(1, 12) {
			parts = append(parts, badNet(r))
			continue
		}
		if len(parts) > 0 && r.Chance(1, 8) {
			parts = append(parts, parts[r.Intn(len(parts))]) // duplicate entry
			continue
		}
		if r.Chance(3, 5) {
			a := pickV4(r)
			if r.Bool() {
				a = hostNoise(r, a)
			}
			parts = append(parts, fmt.Sprintf("4:%s/%d", vlib.Hex(a), vlib.Pick(r, []int{0, 8, 16, 20, 23, 24, 25, 31, 32})))
		} else {
			a := pickV6(r)
			parts = append(parts, fmt.Sprintf("6:%s/%d", vlib.Hex(a), vlib.Pick(r, []int{0, 32, 48, 56, 57, 63, 64, 127, 128})))
		}
	}
	return strings.Join(parts, ";")
}

// genPolicy returns "<en> <f4> <f6> <m4> <m6> <nets>".  good: an enabled,
// valid configuration (the common case under test); otherwise anything,
// including out-of-range values, unparsable networks and enabled=false.
func genPolicy(r *vlib.R, good bool) string {
	if !good && r.Chance(2, 5) {
		// everything in range and enabled; only the network list is invalid
		return fmt.Sprintf("t %d %d 0 0 %s", vlib.Pick(r, []int{0, 24, 32}), vlib.Pick(r, []int{0, 56, 64}), genBadNets(r))
	}
	if !good && r.Chance(1, 2) {
		// exactly ONE field out of range, every other value valid: each consumer of
		// the [ecs] block (edns forwarding side, cache keying side) must refuse it
		v := []int{vlib.Pick(r, []int{0, 19, 24, 32}), vlib.Pick(r, []int{0, 48, 56, 64}), vlib.Pick(r, []int{0, 16, 20, 24}), vlib.Pick(r, []int{0, 40, 48, 56})}
		i := r.Intn(4)
		w := 32
		if i%2 == 1 {
			w = 128
		}
		v[i] = vlib.Pick(r, []int{w + 1, w + 2, 200, 255})
		nets := "-"
		if r.Chance(1, 3) {
			nets = "4:0a000000/8;6:20010db8000000000000000000000000/32"
		}
		return fmt.Sprintf("t %d %d %d %d %s", v[0], v[1], v[2], v[3], nets)
	}
	en := good || r.Chance(70, 100)
	invalidOK := !good
	m4, m6 := 0, 0
	if r.Chance(3, 5) {
		m4 = genCeil(r, 4, invalidOK)
	}
	if r.Chance(3, 5) {
		m6 = genCeil(r, 6, invalidOK)
	}
	return fmt.Sprintf("%s %d %d %d %d %s", vlib.B(en), genCeil(r, 4, invalidOK), genCeil(r, 6, invalidOK), m4, m6, genNets(r, invalidOK))
}

func flipBit(b []byte, i int) []byte {
	out := append([]byte{}, b...)
	if i >= 0 && i < len(b)*8 {
		out[i/8] ^= 1 << (7 - uint(i%8))
	}
	return out
}

// genClient picks a source address, often right at the edge of an allowed network.
func genClient(r *vlib.R, spec polSpec, allowInvalid bool) string {
	if allowInvalid && r.Chance(1, 30) {
		return "x"
	}
	var b []byte
	if len(spec.nets) > 0 && r.Chance(6, 7) {
		n := vlib.Pick(r, spec.nets)
		if n.ok {
			b = hostNoise(r, n.addr)
			switch r.Intn(6) {
			case 0:
				b = flipBit(b, n.bits-1) // just outside
			case 1:
				b = flipBit(b, n.bits) // first host bit: still inside
			}
		}
	}
	if b == nil {
		if r.Chance(3, 5) {
			b = hostNoise(r, pickV4(r))
		} else {
			b = hostNoise(r, pickV6(r))
		}
	}
	if len(b) == 4 {
		if r.Chance(1, 4) {
			return "m:" + vlib.Hex(b)
		}
		return "4:" + vlib.Hex(b)
	}
	return "6:" + vlib.Hex(b)
}

func genMask(r *vlib.R, spec polSpec, fam int) int {
	w := 32
	if fam == 6 {
		w = 128
	}
	c := spec.ceiling(fam)
	switch r.Intn(6) {
	case 0:
		return max(0, min(255, c+vlib.Pick(r, []int{-1, 0, 1})))
	case 1:
		return vlib.Pick(r, []int{0, 1, w - 1, w, w + 1, 255})
	case 2:
		return vlib.Pick(r, []int{17, 19, 21, 22, 23, 25, 27, 29, 30})
	case 3:
		return w
	}
	return r.Intn(w + 1)
}

// genECS makes one client subnet option; base (if given) fixes the subnet.
func genECS(r *vlib.R, spec polSpec, base []byte, scopeNoise bool) string {
	fam := 4
	if base != nil {
		if len(base) == 16 {
			fam = 6
		}
	} else {
		if r.Chance(2, 5) {
			fam = 6
		}
		if fam == 4 {
			base = hostNoise(r, pickV4(r))
		} else {
			base = hostNoise(r, pickV6(r))
		}
	}
	famCode := map[int]int{4: 1, 6: 2}[fam]
	mask := genMask(r, spec, fam)
	addr := vlib.Hex(base)
	k := r.Intn(100)
	switch {
	case fam == 4 && k < 40:
		addr = vlib.Hex(mapped16(base)) // what the wire decoder yields for family 1
	case k >= 40 && k < 44:
		famCode = 3 - famCode // family / address mismatch
	case k >= 44 && k < 46:
		addr = vlib.Hex(base[:len(base)-1])
	case k >= 46 && k < 48:
		addr = vlib.Hex(append(append([]byte{}, base...), 7))
	case k == 48:
		addr = "nil"
	case k == 49:
		addr = "-"
	case k == 50:
		famCode = vlib.Pick(r, []int{0, 3, 65535})
	case fam == 4 && k == 51:
		famCode, addr = 2, vlib.Hex(mapped16(base)) // v6 family carrying a mapped v4
	}
	scope := 0
	if scopeNoise && r.Chance(1, 8) {
		scope = r.Intn(40)
	}
	if r.Chance(1, 14) {
		// "no subnet": family 0 with netmask 0 (dig +subnet=0), as the decoder renders it
		return fmt.Sprintf("E0.0.%d.%s", scope, vlib.Pick(r, []string{"00000000000000000000ffff00000000", "00000000", "nil"}))
	}
	return fmt.Sprintf("E%d.%d.%d.%s", famCode, mask, scope, addr)
}

func genOther(r *vlib.R) string {
	switch r.Intn(7) {
	case 0:
		return "O10." + vlib.Hex(r.Bytes(8))
	case 1:
		return "O10." + vlib.Hex(r.Bytes(24))
	case 2:
		return "O10." + vlib.Hex(r.Bytes(4))
	case 3:
		return "O3.x"
	case 4:
		return fmt.Sprintf("O12.%d", r.Intn(40))
	case 5:
		return "O11.x"
	}
	if r.Chance(1, 5) {
		return "O15." + vlib.Hex(r.Bytes(2))
	}
	return fmt.Sprintf("O%d.%s", vlib.Pick(r, []int{65001, 65534, 9, 14}), vlib.Hex(r.Bytes(1+r.Intn(6))))
}

// genOpts: a client's OPT; ecsBase fixes the claimed subnet when not nil.
func genOpts(r *vlib.R, spec polSpec, ecsPct int, ecsBase []byte, nooptOK bool) string {
	if nooptOK && r.Chance(1, 12) {
		return "noopt"
	}
	var parts []string
	n := r.Intn(4)
	for i := 0; i < n; i++ {
		parts = append(parts, genOther(r))
	}
	if r.Chance(ecsPct, 100) {
		e := genECS(r, spec, ecsBase, true)
		at := r.Intn(len(parts) + 1)
		parts = append(parts[:at], append([]string{e}, parts[at:]...)...)
		if r.Chance(1, 12) { // a second subnet option
			parts = append(parts, genECS(r, spec, nil, true))
		}
	}
	if len(parts) == 0 {
		return "-"
	}
	return strings.Join(parts, ",")
}

// genOptsWire: options that survive the wire round trip unchanged and that the
// strict packet parser admits: at most one cookie of 8..40 bytes, NSID,
// padding, keepalive, and a subnet option in the decoder's own form (16-byte
// address, nothing beyond the netmask).
func genOptsWire(r *vlib.R, spec polSpec, base []byte) string {
	var parts []string
	if r.Chance(1, 2) {
		parts = append(parts, "O10."+vlib.Hex(r.Bytes(vlib.Pick(r, []int{8, 16, 24, 40}))))
	}
	for i := 0; i < r.Intn(3); i++ {
		parts = append(parts, vlib.Pick(r, []string{"O3.x", "O11.x", fmt.Sprintf("O12.%d", r.Intn(30))}))
	}
	if r.Chance(9, 10) {
		fam, w, code := 4, 32, 1
		if len(base) == 16 {
			fam, w, code = 6, 128, 2
		}
		m := min(genMask(r, spec, fam), w)
		a := maskBytes(base, m)
		if fam == 4 {
			a = mapped16(a)
		}
		e := fmt.Sprintf("E%d.%d.0.%s", code, m, vlib.Hex(a))
		if r.Chance(1, 6) {
			e = "E0.0.0.00000000000000000000ffff00000000" // family 0 / netmask 0 survives the round trip in this form
		}
		at := r.Intn(len(parts) + 1)
		parts = append(parts[:at], append([]string{e}, parts[at:]...)...)
	}
	if len(parts) == 0 {
		return "-"
	}
	return strings.Join(parts, ",")
}

// genWireFacts: a raw packet for the strict parser — subnet options in every
// shape a client can put on the wire (family 0/1/2/other, netmask and scope
// inside and beyond the family, 0..16 address bytes, host bits set), next to
// the options the parser knows and some it does not.  Whether the parser admits
// the packet is observed here and written into the op line.
func genWireFacts(r *vlib.R, spec polSpec) string {
	var parts []string
	for i := 0; i < r.Intn(3); i++ {
		parts = append(parts, vlib.Pick(r, []string{"O3.x", "O11.x", "O12.7", "O10." + vlib.Hex(r.Bytes(8)), "O10." + vlib.Hex(r.Bytes(24)), "O65001.aa", "O15.0001"}))
	}
	necs := vlib.Pick(r, []int{0, 1, 1, 1, 1, 2})
	for i := 0; i < necs; i++ {
		fam := vlib.Pick(r, []int{0, 0, 1, 1, 1, 2, 2, 3})
		var mask, scope, alen int
		switch fam {
		case 0:
			mask, scope, alen = vlib.Pick(r, []int{0, 0, 0, 1}), vlib.Pick(r, []int{0, 0, 24}), vlib.Pick(r, []int{0, 0, 4})
		case 1:
			mask, scope, alen = vlib.Pick(r, []int{0, 8, 19, 24, 32, 33}), vlib.Pick(r, []int{0, 0, 24, 33}), vlib.Pick(r, []int{0, 1, 3, 4})
		case 2:
			mask, scope, alen = vlib.Pick(r, []int{0, 48, 56, 61, 128, 129}), vlib.Pick(r, []int{0, 0, 56, 129}), vlib.Pick(r, []int{0, 7, 8, 16})
		default:
			mask, scope, alen = 24, 0, 4
		}
		a := "-"
		if alen > 0 {
			a = vlib.Hex(r.Bytes(alen))
		}
		e := fmt.Sprintf("E%d.%d.%d.%s", fam, mask, scope, a)
		at := r.Intn(len(parts) + 1)
		parts = append(parts[:at], append([]string{e}, parts[at:]...)...)
	}
	o := "-"
	if len(parts) > 0 {
		o = strings.Join(parts, ",")
	}
	opts, _ := parseOpts(o)
	adm := new(middleware.Request).ParseWire(rawQuery(opts), time.Now(), nil)
	return fmt.Sprintf("ecs wire %s %s", vlib.B(adm), o)
}

// genOptsRaw: what a client can put on the wire, byte for byte — subnet options
// with exactly the address bytes the netmask needs (host bits set in the last
// one), with the full address, one byte short, one byte long; family 0; now
// and then a netmask beyond the family (undecodable packet) — next to options
// the strict parser knows (cookie, NSID, padding, keepalive) and some it does
// not (which send the packet down the decoded fallback).
func genOptsRaw(r *vlib.R, spec polSpec, base []byte) string {
	var parts []string
	if r.Chance(1, 2) {
		parts = append(parts, "O10."+vlib.Hex(r.Bytes(vlib.Pick(r, []int{8, 16, 24, 40, 4}))))
	}
	for i := 0; i < r.Intn(3); i++ {
		parts = append(parts, vlib.Pick(r, []string{"O3.x", "O11.x", fmt.Sprintf("O12.%d", r.Intn(30)), "O65001.aa55", "O15.0007"}))
	}
	if r.Chance(9, 10) {
		fam, w, code := 4, 32, 1
		if len(base) == 16 {
			fam, w, code = 6, 128, 2
		}
		m := genMask(r, spec, fam)
		if m > w {
			m = w
			if r.Chance(1, 4) {
				m = w + 1 // the library refuses the packet
			}
		}
		need := (min(m, w) + 7) / 8
		n := vlib.Pick(r, []int{need, need, w / 8, w / 8, max(0, need-1), w/8 + 1})
		full := append(hostNoise(r, base), 0xa5)
		a := "-"
		if n > 0 {
			a = vlib.Hex(full[:n])
		}
		e := fmt.Sprintf("E%d.%d.%d.%s", code, m, vlib.Pick(r, []int{0, 0, 0, 0, 24}), a)
		if r.Chance(1, 7) {
			e = vlib.Pick(r, []string{"E0.0.0.-", "E0.0.0.00000000", "E0.0.24.-"})
		}
		at := r.Intn(len(parts) + 1)
		parts = append(parts[:at], append([]string{e}, parts[at:]...)...)
	}
	if len(parts) == 0 {
		return "-"
	}
	return strings.Join(parts, ",")
}

// genClientOpts picks the option token for a request entering through proto; now
// and then the request carries a SECOND OPT record in front (RFC 6891 6.1.1
// forbids it, nothing stops a client): its cookie and unclamped subnet must
// vanish, not travel upstream.
func genClientOpts(r *vlib.R, spec polSpec, proto string, ecsPct int, base []byte, nooptOK bool) string {
	one := func(pct int, b []byte) string {
		switch proto[0] {
		case 'w':
			return genOptsWire(r, spec, b)
		case 'r':
			return genOptsRaw(r, spec, b)
		}
		return genOpts(r, spec, pct, b, false)
	}
	if nooptOK && proto[0] != 'w' && proto[0] != 'r' && r.Chance(1, 12) {
		return "noopt"
	}
	tok := one(ecsPct, base)
	if ecsPct == 0 && (proto[0] == 'w' || proto[0] == 'r') {
		tok = vlib.Pick(r, []string{"-", "O3.x", "O10.0011223344556677"})
	}
	if proto[0] != 'w' && r.Chance(1, 9) {
		other := pickV4(r)
		if len(base) == 16 {
			other = pickV6(r)
		}
		lead := one(100, hostNoise(r, other))
		if r.Chance(1, 3) {
			lead = one(100, base)
		}
		tok = lead + "+" + tok
	}
	return tok
}

func lastECS(opts string) (optT, bool) {
	if i := strings.LastIndex(opts, "+"); i >= 0 {
		opts = opts[i+1:]
	}
	os, _ := parseOpts(opts)
	var out optT
	ok := false
	for _, o := range os {
		if o.isECS {
			out, ok = o, true
		}
	}
	return out, ok
}

func maskBytes(b []byte, n int) []byte {
	out := make([]byte, len(b))
	for i := 0; i < n && i < len(b)*8; i++ {
		if bit(b, i) == 1 {
			out[i/8] |= 1 << (7 - uint(i%8))
		}
	}
	return out
}

// genUpstream: what the authority answers with, given the client's options.
// A realistic authority echoes (family, source, address) of what it was sent
// and declares a scope; the generator guesses the forwarded form only to aim
// scopes at the interesting boundaries (nothing is judged by this guess).
func genUpstream(r *vlib.R, spec polSpec, copts string) string {
	k := r.Intn(100)
	if k < 6 {
		return "noopt"
	}
	if k < 14 {
		return "-"
	}
	ce, ok := lastECS(copts)
	fam, addr, usable := usableECS(ce)
	if !ok || !usable {
		if r.Chance(1, 2) {
			return "-"
		}
		fam, addr = 4, pickV4(r)
		ce.mask = 24
	}
	w, famCode := 32, 1
	if fam == 6 {
		w, famCode = 128, 2
	}
	src := min(int(ce.mask), spec.ceiling(fam), w)
	a := maskBytes(addr, src)
	fl := spec.floor(fam)
	var scope int
	switch r.Intn(10) {
	case 0:
		scope = 0
	case 1:
		scope = src - 1
	case 2:
		scope = src + 1
	case 3:
		scope = vlib.Pick(r, []int{fl - 1, fl, fl + 1})
	case 4:
		scope = vlib.Pick(r, []int{1, w, w + 1, 7, 13})
	case 5:
		scope = 1 + r.Intn(w)
	default:
		scope = src
	}
	scope = max(0, min(255, scope))
	switch r.Intn(12) {
	case 0:
		a = flipBit(a, max(0, src-1)) // answers for the neighbouring subnet
	case 1:
		a = addr // host bits echoed back
	}
	as := vlib.Hex(a)
	if fam == 4 && r.Bool() {
		as = vlib.Hex(mapped16(a))
	}
	switch r.Intn(30) {
	case 0:
		famCode = 3 - famCode
	case 1:
		as = "nil"
	}
	parts := []string{fmt.Sprintf("E%d.%d.%d.%s", famCode, src, scope, as)}
	if r.Chance(1, 5) {
		parts = append(parts, vlib.Pick(r, []string{"O11.x", "O10.aabbccddeeff0011", "O65001.01", "O3.x"}))
	}
	if r.Chance(1, 15) {
		parts = append([]string{"O15.0001"}, parts...)
	}
	return strings.Join(parts, ",")
}

// genUpstreamRecords: now and then the downstream response carries a SECOND OPT record in
// front of the regular one, with a subnet option and the hop's cookie in it.
func genUpstreamRecords(r *vlib.R, spec polSpec, copts string) string {
	up := genUpstream(r, spec, copts)
	if up != "noopt" && r.Chance(1, 10) {
		lead := fmt.Sprintf("E1.24.%d.%s", vlib.Pick(r, []int{0, 24}), vlib.Hex(maskBytes(pickV4(r), 24)))
		if r.Bool() {
			lead += ",O10.aabbccddeeff0011"
		}
		return lead + "+" + up
	}
	return up
}

var uniq int

func next() int { uniq++; return uniq }

func genEcsCase(r *vlib.R, emit func(string)) int {
	raw := r.Chance(1, 7)
	var spec polSpec
	if raw {
		s := genPolicy(r, true)
		if r.Chance(1, 3) { // ceilings a Build would have rejected
			f := strings.Fields(s)
			f[1] = fmt.Sprint(vlib.Pick(r, []int{0, 33, 40, 24}))
			f[2] = fmt.Sprint(vlib.Pick(r, []int{0, 129, 200, 56}))
			s = strings.Join(f, " ")
		}
		spec = specFrom(strings.Fields(s), true)
		emit("ecs new r " + s)
	} else {
		s := genPolicy(r, r.Chance(3, 4))
		spec = specFrom(strings.Fields(s), false)
		emit("ecs new b " + s)
	}
	n := 8 + r.Intn(14)
	for i := 0; i < n; i++ {
		switch k := r.Intn(20); {
		case k < 3:
			emit("ecs allows " + genClient(r, spec, true))
		case k < 8:
			emit("ecs clamp " + genECS(r, spec, nil, true))
		case k < 13:
			emit(fmt.Sprintf("ecs setedns %s %d %s", genClient(r, spec, true), vlib.Pick(r, []int{0, 0, 0, 0, 1, 7}), genOpts(r, spec, 75, nil, true)))
		case k < 14:
			o := genOpts(r, spec, 60, nil, false)
			emit("ecs strip " + o)
		case k < 15:
			emit("ecs readscope " + genUpstream(r, spec, genOpts(r, spec, 100, nil, false)))
		case k < 17:
			fam := 4
			if r.Chance(2, 5) {
				fam = 6
			}
			w := 32
			base := hostNoise(r, pickV4(r))
			if fam == 6 {
				w, base = 128, hostNoise(r, pickV6(r))
			}
			sb := r.Intn(w + 1)
			if r.Bool() {
				sb = max(0, min(w, spec.floor(fam)+vlib.Pick(r, []int{-1, 0, 1})))
			}
			src := "none"
			if r.Chance(5, 6) {
				srcB := max(0, min(w, sb+vlib.Pick(r, []int{-1, 0, 1, -8, 3})))
				src = fmt.Sprintf("%d:%s/%d", fam, vlib.Hex(maskBytes(base, srcB)), srcB)
			}
			emit(fmt.Sprintf("ecs clampscope %d:%s/%d %s", fam, vlib.Hex(maskBytes(base, sb)), sb, src))
		case k < 19:
			emit(genWireFacts(r, spec))
		case k < 20 && r.Chance(1, 2):
			// two cache-missing requests for one question: hosts of one subnet, neighbours across
			// the ceiling boundary, other family, no subnet, netmask 0, CD differing
			base := hostNoise(r, pickV4(r))
			if r.Chance(1, 3) {
				base = hostNoise(r, pickV6(r))
			}
			other := append([]byte{}, base...)
			fam := 4
			if len(base) == 16 {
				fam = 6
			}
			cb := min(spec.ceiling(fam), len(base)*8)
			switch r.Intn(5) {
			case 0:
				other = flipBit(other, cb-1)
			case 1:
				other = flipBit(other, cb)
			case 2:
				other = hostNoise(r, other)
			case 3:
				other = flipBit(other, max(0, cb-3))
			}
			oa, ob := genECS(r, spec, base, false), genECS(r, spec, other, false)
			if r.Chance(1, 8) {
				ob = "-"
			}
			emit(fmt.Sprintf("ecs dedup %s %s %s %s %s %s", genClient(r, spec, false), oa, vlib.B(r.Chance(1, 8)), genClient(r, spec, false), ob, vlib.B(r.Chance(1, 8))))
		case k < 20 && r.Chance(1, 2):
			// the store's lifetime arithmetic: limits below the 5 s floor, TTLs outside the cache's bounds
			emit(fmt.Sprintf("ecs capttl %d %d %s", vlib.Pick(r, []int{0, 1, 2, 4, 5, 6, 30, 300, 100000}),
				vlib.Pick(r, []int{0, 1, 4, 5, 6, 29, 30, 31, 300, 86400, 86401, 200000}), vlib.B(r.Chance(2, 3))))
		default:
			emit(fmt.Sprintf("ecs reqscope %s %s", genClient(r, spec, true), genOpts(r, spec, 85, nil, true)))
		}
	}
	return n + 1
}

// site: one client location (source address + the subnet it claims).
type site struct {
	client string
	ecs    []byte
}

func genPipeCase(r *vlib.R, emit func(string)) int {
	polS := genPolicy(r, r.Chance(3, 4))
	spec := specFrom(strings.Fields(polS), false)
	capS := vlib.Pick(r, []int{0, 120, 300, 3600, 100000})
	pf := vlib.Pick(r, []int{0, 50, 90, 50, 90, 10, 5, 95})
	// cache sizing: omitted (0) / too small values and prefetch > 90 send cache.New
	// down its "validation failed, using defaults" branch
	csize := vlib.Pick(r, []int{1024, 1024, 4096, 0, 512, 1023})
	// one case in four takes the server's own route: the configuration as a FILE through config.Load
	how := vlib.Pick(r, []string{"new", "new", "new", "load"})
	if !spec.valid() && r.Bool() {
		how = "load" // an invalid block must fail closed on the file route too
	}
	emit(fmt.Sprintf("pipe %s %s %d %d %d", how, polS, capS, pf, csize))
	if pf > 90 {
		pf = 0
	}
	count := 1

	// five client locations around one boundary of one family: the same
	// forwarded prefix twice, the neighbour across the ceiling boundary, and
	// two further away; three source addresses (mostly inside the allowed networks)
	fam := 4
	if r.Chance(1, 3) {
		fam = 6
	}
	var base []byte
	if fam == 4 {
		base = []byte{10, 1, byte(2 + r.Intn(2)), byte(r.Intn(2) * 128)}
	} else {
		base = v6(0x20, 0x01, 0x0d, 0xb8, 0, 1, byte(2+r.Intn(2)), byte(r.Intn(2)*128))
	}
	w := len(base) * 8
	c := min(spec.ceiling(fam), w)
	var srcs []string
	for i := 0; i < 3; i++ {
		srcs = append(srcs, genClient(r, spec, false))
	}
	var sites []site
	for i := 0; i < 5; i++ {
		a := append([]byte{}, base...)
		switch i {
		case 1: // same forwarded prefix, other host
			a = orBytes(maskBytes(base, c), hostOnly(hostNoise(r, a), c))
		case 2: // neighbour just across the ceiling boundary
			a = flipBit(a, c-1)
		case 3: // a few bits further up
			a = flipBit(a, max(0, c-4))
		case 4:
			a = flipBit(a, max(0, c-9))
		}
		sites = append(sites, site{client: vlib.Pick(r, srcs), ecs: a})
	}
	q := func(qid int) {
		s := vlib.Pick(r, sites)
		proto := vlib.Pick(r, []string{"udp", "udp", "tcp", "doh", "wudp", "wudp", "wtcp", "rudp", "rudp", "rtcp"})
		copts := genClientOpts(r, spec, proto, 90, s.ecs, true)
		ttl := vlib.Pick(r, []int{300, 301, 600, 3599, 3600, 3601, 86400})
		// what the authority says: an address, or a denial (NODATA / NXDOMAIN with SOA)
		// whose negative TTL is the SOA's — scoped all the same when it carries a SCOPE
		kind := vlib.Pick(r, []string{"a", "a", "a", "a", "a", "nd", "nd", "nx"})
		emit(fmt.Sprintf("pipe q %s %s %d %s %s %d %s %d %s", s.client, proto,
			qid, vlib.B(r.Chance(1, 10)), copts, ttl, genUpstreamRecords(r, spec, copts), next(), kind))
		count++
	}
	var qids []int
	for i := 0; i < 3+r.Intn(3); i++ {
		qid := next()
		qids = append(qids, qid)
		for j := 0; j < 3+r.Intn(5); j++ {
			q(qid)
		}
		if r.Chance(1, 3) {
			// forged key collision: re-file a scoped entry the implementation
			// just stored (observed, then written into the op line) under the
			// key of the sibling block / the parent block / the shared key
			if from, to, cd, ok := pickForge(r, qid); ok {
				emit(fmt.Sprintf("pipe forge %d %s %s %s", qid, vlib.B(cd), from, to))
				count++
				for j := 0; j < 3; j++ {
					q(qid)
				}
			}
		}
	}
	for i := 0; i < r.Intn(3); i++ {
		s := vlib.Pick(r, sites)
		emit(fmt.Sprintf("pipe badvers %s %s %d %s", s.client, vlib.Pick(r, []string{"udp", "tcp"}), vlib.Pick(r, []int{1, 2, 255}), genOpts(r, spec, 90, s.ecs, false)))
		count++
	}
	for i := 0; i < r.Intn(3); i++ {
		// an rcode rejection by a handler ahead of / behind edns; the client's OPT often
		// holds nothing but the subnet option
		s := vlib.Pick(r, sites)
		proto := vlib.Pick(r, []string{"udp", "tcp", "wudp", "rudp", "doh"})
		copts := genClientOpts(r, spec, proto, 100, s.ecs, true)
		if r.Chance(1, 2) && proto[0] != 'w' && proto[0] != 'r' {
			copts = genECS(r, spec, s.ecs, false)
		}
		emit(fmt.Sprintf("pipe reject %s %s %s %s", s.client, proto, vlib.Pick(r, []string{"ahead", "ahead", "behind"}), copts))
		count++
	}
	if r.Chance(1, 2) {
		// the error branch: primary resolution fails, failover asks the fallback servers
		s := vlib.Pick(r, sites)
		proto := vlib.Pick(r, []string{"udp", "tcp", "wudp", "wudp", "rudp", "doh"})
		emit(fmt.Sprintf("pipe failover %s %s %s", s.client, proto, genClientOpts(r, spec, proto, 90, s.ecs, true)))
		count++
	}
	if pf > 0 {
		emit("pipe age 9 10")
		for i := 0; i < 5+r.Intn(5); i++ {
			q(vlib.Pick(r, qids))
		}
		if r.Chance(1, 2) {
			emit("pipe pfq")
		} else {
			// let the queued background refreshes run; the authority answers them
			// as it would the triggering clients (scope and all)
			s := vlib.Pick(r, sites)
			emit(fmt.Sprintf("pipe refresh %d %s %d", vlib.Pick(r, []int{300, 600, 3601}),
				genUpstream(r, spec, genOpts(r, spec, 100, s.ecs, false)), next()))
			uniq += 64 // answer ids base..base+n-1 belong to this op
			for i := 0; i < 4+r.Intn(5); i++ {
				q(vlib.Pick(r, qids))
			}
			emit("pipe pfq")
			count += 6
		}
		count += 2
	}
	if pf > 0 && r.Chance(2, 3) {
		// names that exist below d.z<k>, cached shared; after most of their lifetime
		// ECS / CD / plain clients hit them and the queued background refreshes come
		// back as validated NXDOMAINs: only a plain client's refresh may publish the
		// shared cut, and only plain clients may afterwards be answered from it
		pq := func(qid int, plain bool) {
			s := vlib.Pick(r, sites)
			proto := vlib.Pick(r, []string{"udp", "tcp", "wudp", "rudp"})
			copts, cd := "-", false
			if !plain {
				switch r.Intn(3) {
				case 0:
					copts = genClientOpts(r, spec, proto, 100, s.ecs, false)
				case 1:
					cd = true
				}
			}
			emit(fmt.Sprintf("pipe pq %s %s %d %s %s %d %d", s.client, proto, qid, vlib.B(cd), copts, 1+qid%2, next()))
			count++
		}
		var ps []int
		for i := 0; i < 2+r.Intn(3); i++ {
			ps = append(ps, next())
			pq(ps[i], r.Chance(2, 3)) // also CD=1 / ECS creators: their entries are refreshed by their like
		}
		emit("pipe age 9 10")
		for _, qid := range ps {
			pq(qid, r.Chance(1, 3))
		}
		emit(fmt.Sprintf("pipe refreshnx %d %s", next(), vlib.Pick(r, []string{"m", "m", "f", "t"})))
		uniq += 16
		for i := 0; i < 3; i++ {
			pq(next(), r.Bool())
		}
		count += 2
	}
	// shared synthesised denials
	nd := 4 + r.Intn(6)
	for i := 0; i < nd; i++ {
		s := vlib.Pick(r, sites)
		copts := "-"
		proto := vlib.Pick(r, []string{"udp", "tcp", "wudp", "wudp", "rudp", "doh"})
		switch r.Intn(5) {
		case 0, 1:
			copts = genClientOpts(r, spec, proto, 100, s.ecs, false)
		case 2:
			copts = genClientOpts(r, spec, proto, 0, s.ecs, true)
		}
		kind := "nx"
		if r.Chance(1, 3) {
			kind = "alias"
		}
		// the CD bit on the response to the client's own query usually mirrors the
		// query's; a local-answer middleware / plugin / non-conforming hop may not
		cd := r.Chance(1, 4)
		rcd := cd
		if r.Chance(1, 3) {
			rcd = !cd
		}
		emit(fmt.Sprintf("pipe %s %s %s %d %s %s %d %s", kind, s.client, proto, next(), vlib.B(cd), copts, 1+r.Intn(2), vlib.B(rcd)))
		count++
		if r.Chance(1, 3) {
			emit(fmt.Sprintf("pipe sget %d %s %s %s %s %d", next(), vlib.B(r.Chance(1, 5)), vlib.B(r.Chance(1, 5)), vlib.B(r.Chance(1, 5)), vlib.B(r.Chance(1, 5)), 1+r.Intn(2)))
			count++
		}
	}
	return count
}

// pickForge looks at what the implementation stored for qid and proposes a collision.
func pickForge(r *vlib.R, qid int) (from, to string, cd, ok bool) {
	if pipe == nil {
		return
	}
	name := fmt.Sprintf("q%d.c19.test.", qid)
	for _, e := range cache.VerifC19Entries(pipe.ca) {
		if e.Q.Name != name {
			continue
		}
		if !e.Scope.IsValid() {
			if r.Chance(1, 4) {
				return "shared", "4:0a010200/24", e.CD, true
			}
			continue
		}
		fam := "6"
		if e.Scope.Addr().Is4() {
			fam = "4"
		}
		b, bits := e.Scope.Addr().AsSlice(), e.Scope.Bits()
		from = fmt.Sprintf("%s:%s/%d", fam, vlib.Hex(b), bits)
		switch r.Intn(4) {
		case 0:
			to = "shared"
		case 1:
			if bits > 1 {
				to = fmt.Sprintf("%s:%s/%d", fam, vlib.Hex(maskBytes(b, bits-1)), bits-1)
			} else {
				to = "shared"
			}
		default:
			to = fmt.Sprintf("%s:%s/%d", fam, vlib.Hex(flipBit(b, bits-1)), bits)
		}
		return from, to, e.CD, true
	}
	return
}

func hostOnly(b []byte, n int) []byte {
	out := append([]byte{}, b...)
	for i := 0; i < n && i < len(b)*8; i++ {
		out[i/8] &^= 1 << (7 - uint(i%8))
	}
	return out
}

func orBytes(a, b []byte) []byte {
	out := make([]byte, len(a))
	for i := range a {
		out[i] = a[i] | b[i]
	}
	return out
}

// exhaustive small scopes: every netmask against a few ceilings with all host
// bits set, both families, through Clamp and through the whole edns handler.
func genExhaustive(emit func(string), tier string) {
	for _, c4 := range []int{0, 19, 32} {
		emit(fmt.Sprintf("ecs new b t %d 0 0 0 -", c4))
		for m := 0; m <= 34; m++ {
			emit(fmt.Sprintf("ecs clamp E1.%d.0.ffffffff", m))
		}
	}
	step := 3
	if tier == "thorough" {
		step = 1
	}
	for _, c6 := range []int{0, 61, 128} {
		emit(fmt.Sprintf("ecs new b t 0 %d 0 0 -", c6))
		for m := 0; m <= 130; m += step {
			emit(fmt.Sprintf("ecs clamp E2.%d.0.ffffffffffffffffffffffffffffffff", m))
		}
	}
}

// genL3Case: the real pipeline edns -> cache -> iterative resolver against scripted
// authorities: clients on both sides of the ceiling boundary ask one name; the
// authority echoes the subnet it was sent with a scope at / above / below the source,
// declares a foreign subnet, or says nothing; the case may end in two concurrent
// cache-missing clients from different subnets behind a slow authority.
func genL3Case(r *vlib.R, emit func(string), sys string) int {
	polS := genPolicy(r, r.Chance(7, 8))
	spec := specFrom(strings.Fields(polS), false)
	capS := vlib.Pick(r, []int{0, 120, 300, 100000})
	emit(fmt.Sprintf("%s new %s %d", sys, polS, capS))
	fam := 4
	if r.Chance(1, 2) {
		fam = 6
	}
	base := []byte{10, 1, byte(2 + r.Intn(2)), 0}
	if fam == 6 {
		base = v6(0x20, 0x01, 0x0d, 0xb8, 0, 1, byte(2+r.Intn(2)), 0)
	}
	w := len(base) * 8
	c := min(spec.ceiling(fam), w)
	var sites []site
	for i := 0; i < 4; i++ {
		a := append([]byte{}, base...)
		switch i {
		case 1:
			a = orBytes(maskBytes(base, c), hostOnly(hostNoise(r, a), c))
		case 2:
			a = flipBit(a, c-1)
		case 3:
			a = flipBit(a, max(0, c-5))
		}
		sites = append(sites, site{client: genClient(r, spec, false), ecs: a})
	}
	decl := func() string {
		switch r.Intn(8) {
		case 0:
			return "-"
		case 1, 2:
			// an authority that does not echo what it was sent: some other network …
			return fmt.Sprintf("E%d.%d.%d.%s", map[int]int{4: 1, 6: 2}[fam], c, max(1, c-r.Intn(3)), vlib.Hex(maskBytes(vlib.Pick(r, sites).ecs, c)))
		case 3:
			// … or the right address under a rewritten SOURCE
			return fmt.Sprintf("T%d", max(1, min(w, c-1-r.Intn(4))))
		}
		return fmt.Sprintf("S%d", max(0, min(w, vlib.Pick(r, []int{c, c, c - 1, c + 1, spec.floor(fam), spec.floor(fam) + 1, 0, w, 1 + r.Intn(w)}))))
	}
	n := 5 + r.Intn(8)
	for i := 0; i < n; i++ {
		s := vlib.Pick(r, sites)
		emit(fmt.Sprintf("%s q %s %s %s", sys, s.client, genOpts(r, spec, 85, s.ecs, true), decl()))
	}
	if sys == "l3" && r.Chance(3, 4) {
		// two cache-missing clients at the same time: same family, SAME forwarded prefix
		// length (both offer at least the ceiling), different networks — or, now and
		// then, whatever the option generator makes of the two sites
		a, b := sites[0], sites[2+r.Intn(2)]
		code := map[int]int{4: 1, 6: 2}[fam]
		oa := fmt.Sprintf("E%d.%d.0.%s", code, vlib.Pick(r, []int{w, c, c + 1}), vlib.Hex(a.ecs))
		ob := fmt.Sprintf("E%d.%d.0.%s", code, vlib.Pick(r, []int{w, c, c + 1}), vlib.Hex(b.ecs))
		if r.Chance(1, 4) {
			oa, ob = genOpts(r, spec, 100, a.ecs, false), genOpts(r, spec, 100, b.ecs, false)
		}
		emit(fmt.Sprintf("l3 new %s %d", polS, capS))
		emit(fmt.Sprintf("l3 race %s %s %s %s S%d", a.client, oa, b.client, ob, c))
		n += 2
	}
	return n + 1
}

func pickSame(r *vlib.R, fam int) []byte {
	if fam == 4 {
		return pickV4(r)
	}
	return pickV6(r)
}

func gen(r *vlib.R, n int, tier string, emit func(string)) {
	// vlib seeds k and k+1 are the same Weyl sequence one step apart; re-key
	// through the output mixer so neighbouring seeds explore different cases.
	r = vlib.NewR(r.U64())
	genExhaustive(emit, tier)
	for n > 0 {
		switch k := r.Intn(20); {
		case k < 8:
			n -= genEcsCase(r, emit)
		case k < 17:
			n -= genPipeCase(r, emit)
		case k < 19:
			n -= genL3Case(r, emit, "l3")
		default:
			// forwarder mode: the same audiences behind an ECS-aware upstream resolver
			n -= genL3Case(r, emit, "fwd")
		}
	}
}
