//go:build verif

// Package vlib is the shared runtime of the verification drivers that
// /verif/check compiles into the sdns module through `go build -overlay`.
// Nothing here is part of sdns; the files live under /verif/harness.
package vlib

import (
	"bufio"
	"encoding/hex"
	"encoding/json"
	"fmt"
	"io"
	"os"
	"runtime/debug"
	"strconv"
	"strings"

	"github.com/semihalev/zlog/v2"
)

// Quiet routes the repository's logger away from stdout (the line
// protocol lives there). Set VERIF_LOG=1 to see the logs on stderr.
func Quiet() {
	logger := zlog.NewStructured()
	if os.Getenv("VERIF_LOG") != "" {
		logger.SetWriter(zlog.StderrTerminal())
		logger.SetLevel(zlog.LevelDebug)
	} else {
		logger.SetWriter(io.Discard)
		logger.SetLevel(zlog.LevelFatal)
	}
	zlog.SetDefault(logger)
}

// R is a splitmix64 generator: every random choice of a driver derives
// from one state so that a run replays exactly from VERIF_SEED.
type R struct{ s uint64 }

// NewR keys the generator with a hash of the seed: the raw seed times the
// stream increment would make the stream of seed k+1 the stream of seed k
// shifted by one draw, so several seeds would add no diversity.
func NewR(seed uint64) *R {
	z := seed + 0x632BE59BD9B4E019
	z = (z ^ (z >> 30)) * 0xBF58476D1CE4E5B9
	z = (z ^ (z >> 27)) * 0x94D049BB133111EB
	z ^= z >> 31
	return &R{s: z ^ 0x1234567}
}

func (r *R) U64() uint64 {
	r.s += 0x9E3779B97F4A7C15
	z := r.s
	z = (z ^ (z >> 30)) * 0xBF58476D1CE4E5B9
	z = (z ^ (z >> 27)) * 0x94D049BB133111EB
	return z ^ (z >> 31)
}
func (r *R) Intn(n int) int {
	if n <= 0 {
		return 0
	}
	return int(r.U64() % uint64(n))
}
func (r *R) Range(lo, hi int) int { return lo + r.Intn(hi-lo+1) }
func (r *R) Bool() bool           { return r.U64()&1 == 1 }
func (r *R) Chance(num, den int) bool {
	return r.Intn(den) < num
}
func (r *R) Bytes(n int) []byte {
	b := make([]byte, n)
	for i := range b {
		b[i] = byte(r.U64())
	}
	return b
}
func Pick[T any](r *R, xs []T) T { return xs[r.Intn(len(xs))] }

// Res is what executing one op line against the real code produced.
type Res struct {
	Impl   string // canonicalised result of the implementation
	Oracle string // "ok", "-" (not judged) or "FAIL sig=<signature> <detail>"
	Tags   string // comma separated; "nt" marks a non-trivial case
}

// Driver is one property's correspondence driver.
type Driver struct {
	// Facts returns the constants / tables / shape facts read from the
	// compiled code (the translator input for Gen/<id>.lean).
	Facts func() map[string]any
	// Exec runs one op line against the real code (state is the
	// driver's own; the op "new"/"reset" style lines start a case).
	Exec func(op string) Res
	// Gen writes op lines for one run by calling emit for each.
	Gen func(r *R, n int, tier string, emit func(op string))
}

var out = bufio.NewWriterSize(os.Stdout, 1<<16)

func safeExec(d *Driver, op string) (res Res) {
	defer func() {
		if p := recover(); p != nil {
			st := strings.ReplaceAll(string(debug.Stack()), "\n", " | ")
			if len(st) > 600 {
				st = st[:600]
			}
			res = Res{Impl: "panic", Oracle: "FAIL sig=panic " + strings.ReplaceAll(fmt.Sprint(p), "\n", " ") + " @ " + st, Tags: "panic"}
		}
	}()
	return d.Exec(op)
}

func emitRes(op string, res Res) {
	if res.Oracle == "" {
		res.Oracle = "-"
	}
	clean := func(s string) string {
		s = strings.ReplaceAll(s, "\t", " ")
		return strings.ReplaceAll(s, "\n", " ")
	}
	fmt.Fprintf(out, "%s\t%s\t%s\t%s\n", clean(op), clean(res.Impl), clean(res.Oracle), clean(res.Tags))
}

// Main dispatches: facts | gen <seed> <n> <tier> | replay <file>.
func Main(d *Driver) {
	defer out.Flush()
	Quiet()
	if len(os.Args) < 2 {
		fmt.Fprintln(os.Stderr, "usage: facts | gen <seed> <n> <tier> | replay <file>")
		os.Exit(2)
	}
	switch os.Args[1] {
	case "facts":
		f := map[string]any{}
		if d.Facts != nil {
			f = d.Facts()
		}
		b, _ := json.MarshalIndent(f, "", " ")
		out.Write(b)
		out.WriteString("\n")
	case "gen":
		seed, _ := strconv.ParseUint(os.Args[2], 10, 64)
		n, _ := strconv.Atoi(os.Args[3])
		tier := "quick"
		if len(os.Args) > 4 {
			tier = os.Args[4]
		}
		r := NewR(seed)
		count := 0
		d.Gen(r, n, tier, func(op string) {
			emitRes(op, safeExec(d, op))
			count++
			if count%512 == 0 {
				out.Flush()
			}
		})
	case "replay":
		f, err := os.Open(os.Args[2])
		if err != nil {
			fmt.Fprintln(os.Stderr, err)
			os.Exit(2)
		}
		sc := bufio.NewScanner(f)
		sc.Buffer(make([]byte, 1<<20), 1<<26)
		for sc.Scan() {
			op := strings.TrimRight(sc.Text(), "\r\n")
			if op == "" || strings.HasPrefix(op, "#") {
				continue
			}
			if i := strings.IndexByte(op, '\t'); i >= 0 {
				op = op[:i]
			}
			emitRes(op, safeExec(d, op))
		}
	default:
		fmt.Fprintln(os.Stderr, "unknown mode", os.Args[1])
		os.Exit(2)
	}
}

// Hex helpers used by every line protocol.
func Hex(b []byte) string {
	if len(b) == 0 {
		return "-"
	}
	return hex.EncodeToString(b)
}
func UnHex(s string) []byte {
	if s == "-" || s == "" {
		return nil
	}
	b, err := hex.DecodeString(s)
	if err != nil {
		panic("bad hex " + s)
	}
	return b
}
func B(b bool) string {
	if b {
		return "t"
	}
	return "f"
}
func Atoi(s string) int {
	n, err := strconv.Atoi(s)
	if err != nil {
		panic("bad int " + s)
	}
	return n
}
func AtoU64(s string) uint64 {
	n, err := strconv.ParseUint(s, 10, 64)
	if err != nil {
		panic("bad uint " + s)
	}
	return n
}
func AtoI64(s string) int64 {
	n, err := strconv.ParseInt(s, 10, 64)
	if err != nil {
		panic("bad int " + s)
	}
	return n
}
