//go:build verif

package main

import (
	"fmt"
	"time"

	"github.com/miekg/dns"
	"github.com/semihalev/sdns/internal/verif/l3"
	"github.com/semihalev/sdns/internal/verif/vlib"
)

func main() {
	vlib.Quiet()
	w := l3.NewWorld(true)
	defer w.Close()
	w.AddZone("test.", l3.ZoneOpts{Signed: true, PublishDS: true})
	z := w.AddZone("shop.test.", l3.ZoneOpts{Signed: true, PublishDS: true, NSTTL: 60, DSTTL: 30})
	z.Add("www.shop.test. 300 IN A 192.0.2.200", "alias.shop.test. 300 IN CNAME www.shop.test.", "*.wild.shop.test. 60 IN TXT \"w\"")
	u := w.AddZone("plain.test.", l3.ZoneOpts{Signed: false})
	u.Add("www.plain.test. 300 IN A 192.0.2.201")
	s2 := w.AddServer("shop.test.")
	s3 := w.AddServer("shop.test.")
	_ = s3
	z.Servers[0].SetBehaviour(l3.Behaviour{Rcode: func(dns.Question) int { return dns.RcodeServerFailure }})
	s2.SetBehaviour(l3.Behaviour{Rcode: func(dns.Question) int { return dns.RcodeRefused }})
	p := l3.NewPipe(w, l3.PipeOpts{DNSSEC: true})
	defer p.Close()
	for _, q := range []struct {
		n string
		t uint16
	}{{"www.shop.test.", dns.TypeA}, {"alias.shop.test.", dns.TypeA}, {"nope.shop.test.", dns.TypeA}, {"www.shop.test.", dns.TypeAAAA},
		{"x.wild.shop.test.", dns.TypeTXT}, {"www.plain.test.", dns.TypeA}, {"www.shop.test.", dns.TypeA}} {
		t0 := time.Now()
		r := p.Query(q.n, q.t, l3.Flags{DO: true})
		tr := w.Truth(q.n, q.t)
		if r == nil {
			fmt.Println(q.n, "NO REPLY")
			continue
		}
		fmt.Printf("%s %d → rcode=%s ad=%v ans=%d ns=%d  truth=%s/%s %v (%.0fms)\n", q.n, q.t, dns.RcodeToString[r.Rcode], r.AuthenticatedData, len(r.Answer), len(r.Ns), tr.Kind, tr.Status, l3.SortRRs(tr.Answer), float64(time.Since(t0).Milliseconds()))
	}
	fmt.Println(p.Leases())
	p.Advance(45 * time.Second)
	fmt.Println(p.Leases())
	u1, t1, _ := w.TotalQueries()
	r := p.Query("www.shop.test.", dns.TypeA, l3.Flags{DO: true})
	u2, t2, _ := w.TotalQueries()
	fmt.Println("after advance:", dns.RcodeToString[r.Rcode], "upstream queries:", u2-u1, t2-t1, p.Leases())
}
