//go:build verif

package main

// System-level ops of C07 ("l3 ..."): the real edns -> cache -> resolver
// pipeline against a generated hierarchy on loopback
//
//	.  ->  test.  ->  victim.test.   (honest data, own server)
//	              ->  evil.test.     (the attacker: authoritative, own server, scripted)
//
// All zones unsigned, DNSSEC off, so validation cannot mask a missing
// bailiwick check. These ops are judged by the Go oracle only (ground truth of
// the generated world); the Lean side prints `unmodelled` for them.

import (
	"fmt"
	"net"
	"net/netip"
	"strings"
	"sync"
	"time"

	"github.com/miekg/dns"
	"github.com/semihalev/sdns/config"
	"github.com/semihalev/sdns/internal/authority"
	"github.com/semihalev/sdns/internal/verif/l3"
	"github.com/semihalev/sdns/internal/verif/vlib"
	"github.com/semihalev/sdns/middleware/cache"
	"github.com/semihalev/sdns/middleware/resolver"
)

const (
	victimZone = "victim.test."
	evilZone   = "evil.test."
	// a second attacker zone delegated across an empty non-terminal (the jp / co.jp shape):
	// test. delegates evil.co.test. and victim.co.test. directly, co.test. is no zone of its own
	evilCoZone   = "evil.co.test."
	victimCoZone = "victim.co.test."
)

var forgedIP = net.IPv4(198, 18, 66, 66)

// markerIP only ever appears in frames that carry another transaction ID than the query they follow.
var markerIP = net.IPv4(198, 18, 250, 250)

type sysState struct {
	w      *l3.World
	p      *l3.Pipe
	victim *l3.Zone
	evil   *l3.Zone
	vsrv   *l3.Server
	esrv   *l3.Server   // computes the attacker zone's honest answers (never contacted directly)
	front  *frontServer // the attacker's real sockets
	// scripts that answer a stream query with several frames / depend on the connection's history
	frameScripts map[string]func(req *dns.Msg, honest *dns.Msg, tcp bool, connQueries int) []*dns.Msg
	trap         *l3.Server
	trapIP       net.IP
	localIP      net.IP // one local-interface address (nil when the box has none besides loopback)
	mode         string // "cold" | "warm"
	// per-query scripts of the attacker, keyed by lower-cased qname
	scripts map[string]func(q dns.Question, honest *dns.Msg) *dns.Msg
	// scripts that see the transport: UDP answers TC=1, the scripted reply waits on the TCP leg
	tcpScripts map[string]func(q dns.Question, honest *dns.Msg, tcp bool) *dns.Msg
	// spoofed datagrams emitted in front of the victim server's genuine reply, keyed by qname
	spoof    map[string]func(req *dns.Msg) []*dns.Msg
	asked    map[string]bool // client questions issued so far ("name/type")
	mu       sync.RWMutex
	lastTags string
	ecIP     net.IP
	raceRan  bool
	outage   map[string]int  // victim names whose own servers currently answer with this rcode
	nsHosts  map[string]bool // name-server host names the attacker's referrals mentioned
}

var sys *sysState

var victimNames = []struct {
	n string
	t uint16
}{
	{"www.victim.test.", dns.TypeA}, {"www.victim.test.", dns.TypeAAAA}, {"mail.victim.test.", dns.TypeA},
	{"victim.test.", dns.TypeMX}, {"victim.test.", dns.TypeNS}, {"txt.victim.test.", dns.TypeTXT},
	{"alias.victim.test.", dns.TypeA}, {"ghost.victim.test.", dns.TypeA}, {"victim.test.", dns.TypeSOA},
	{"ns1.victim.test.", dns.TypeA},
}

func lcn(s string) string { return strings.ToLower(dns.Fqdn(s)) }

func sysClose() {
	if sys != nil {
		sys.p.Close()
		sys.w.Close()
		sys.front.Close()
		sys = nil
	}
}

func rrA(owner string, ip net.IP) dns.RR {
	return &dns.A{Hdr: dns.RR_Header{Name: owner, Rrtype: dns.TypeA, Class: dns.ClassINET, Ttl: 300}, A: ip}
}
func rrAAAA(owner string, ip net.IP) dns.RR {
	return &dns.AAAA{Hdr: dns.RR_Header{Name: owner, Rrtype: dns.TypeAAAA, Class: dns.ClassINET, Ttl: 300}, AAAA: ip}
}
func rrNS(owner, host string, class uint16) dns.RR {
	return &dns.NS{Hdr: dns.RR_Header{Name: owner, Rrtype: dns.TypeNS, Class: class, Ttl: 300}, Ns: host}
}
func rrCNAME(owner, target string) dns.RR {
	return &dns.CNAME{Hdr: dns.RR_Header{Name: owner, Rrtype: dns.TypeCNAME, Class: dns.ClassINET, Ttl: 300}, Target: target}
}
func rrTXT(owner, txt string) dns.RR {
	return &dns.TXT{Hdr: dns.RR_Header{Name: owner, Rrtype: dns.TypeTXT, Class: dns.ClassINET, Ttl: 300}, Txt: []string{txt}}
}
func rrSOA(owner string) dns.RR {
	return &dns.SOA{Hdr: dns.RR_Header{Name: owner, Rrtype: dns.TypeSOA, Class: dns.ClassINET, Ttl: 300}, Ns: "ns." + owner, Mbox: "forged." + owner,
		Serial: 666, Refresh: 3600, Retry: 600, Expire: 86400, Minttl: 300}
}

// fakeSig is an RRSIG over rr with a signature nobody can verify.
func fakeSig(rr dns.RR, signer string) dns.RR {
	h := rr.Header()
	now := uint32(time.Now().Unix())
	return &dns.RRSIG{
		Hdr:         dns.RR_Header{Name: h.Name, Rrtype: dns.TypeRRSIG, Class: dns.ClassINET, Ttl: h.Ttl},
		TypeCovered: h.Rrtype, Algorithm: dns.ECDSAP256SHA256, Labels: uint8(dns.CountLabel(h.Name)), OrigTtl: h.Ttl,
		Expiration: now + 86400*30, Inception: now - 86400, KeyTag: 4242, SignerName: signer,
		Signature: "c2lnbmF0dXJlLW5vYm9keS1jYW4tdmVyaWZ5LXNpZ25hdHVyZS1ub2JvZHktY2FuLXZlcmlmeS0wMDAwMDAwMA==",
	}
}

func sysNew(mode string, qmin int, sec, ka, v6 bool) {
	sysClose()
	w := l3.NewWorld(sec)
	// a trap server stands behind loopback / local-interface addresses: the
	// resolver must never send it anything.
	trap := w.NewServer("trap")
	w.AddrMap["127.0.0.1:53"] = trap.Addr
	w.AddrMap["127.0.0.53:53"] = trap.Addr
	w.AddrMap["[::1]:53"] = trap.Addr
	for a := range ownIfaces {
		if a.Is6() {
			w.AddrMap[net.JoinHostPort(a.String(), "53")] = trap.Addr
		}
	}
	// the forged address only ever appears in records owned by victim names: nobody may dial it
	w.AddrMap[net.JoinHostPort(forgedIP.String(), "53")] = trap.Addr
	var local net.IP
	for a := range ownIfaces {
		if a.Is4() && !oLoopback(a) {
			local = net.IP(a.AsSlice())
			w.AddrMap[net.JoinHostPort(a.String(), "53")] = trap.Addr
		}
	}
	// flavour "sec": signed root and test., victim.test. signed with a DS (secure),
	// evil.test. unsigned below a signed parent = a proven insecure delegation
	w.AddZone("test.", l3.ZoneOpts{Signed: sec, PublishDS: sec})
	v := w.AddZone(victimZone, l3.ZoneOpts{Signed: sec, PublishDS: sec})
	v.Add("www.victim.test. 300 IN A 198.18.0.80", "mail.victim.test. 300 IN A 198.18.0.25",
		"victim.test. 300 IN MX 10 mail.victim.test.", "txt.victim.test. 300 IN TXT \"honest\"",
		"alias.victim.test. 300 IN CNAME www.victim.test.")
	for i := 1; i <= 8; i++ {
		v.Add(fmt.Sprintf("h%d.victim.test. 300 IN A 198.18.0.%d", i, 100+i))
	}
	vc := w.AddZone(victimCoZone, l3.ZoneOpts{Signed: sec, PublishDS: sec})
	vc.Add("www.victim.co.test. 300 IN A 198.18.0.90")
	ec := w.AddZone(evilCoZone, l3.ZoneOpts{})
	e := w.AddZone(evilZone, l3.ZoneOpts{})
	e.Add("a.evil.test. 300 IN A 198.18.1.1", "d.evil.test. 300 IN DNAME victim.test.", "c.evil.test. 300 IN CNAME a.evil.test.")
	s := &sysState{w: w, victim: v, evil: e, vsrv: v.Servers[0], esrv: e.Servers[0], trap: trap, trapIP: trap.IP, localIP: local, mode: mode,
		scripts: map[string]func(dns.Question, *dns.Msg) *dns.Msg{}, tcpScripts: map[string]func(dns.Question, *dns.Msg, bool) *dns.Msg{}, frameScripts: map[string]func(*dns.Msg, *dns.Msg, bool, int) []*dns.Msg{}, spoof: map[string]func(*dns.Msg) []*dns.Msg{}, asked: map[string]bool{}, nsHosts: map[string]bool{}, outage: map[string]int{}}
	tamper := func(q dns.Question, honest *dns.Msg, tcp bool) *dns.Msg {
		name := lcn(q.Name)
		s.mu.RLock()
		f, ok := s.scripts[name]
		ft, okt := s.tcpScripts[name]
		s.mu.RUnlock()
		if okt {
			return ft(q, honest, tcp)
		}
		if ok {
			return f(q, honest)
		}
		if oInside(victimZone, name) {
			// the attacker is being asked about the victim: the hijack worked; make it visible
			m := honest.Copy()
			m.Rcode = dns.RcodeSuccess
			m.Authoritative = true
			m.Ns, m.Extra = nil, nil
			switch q.Qtype {
			case dns.TypeA:
				m.Answer = []dns.RR{rrA(q.Name, forgedIP)}
			case dns.TypeTXT:
				m.Answer = []dns.RR{rrTXT(q.Name, "forged")}
			case dns.TypeNS:
				m.Answer = []dns.RR{rrNS(q.Name, "ns.evil.test.", dns.ClassINET)}
			}
			return m
		}
		return honest
	}
	s.front = newFrontServer(func(req *dns.Msg, tcp bool, connQueries int) []*dns.Msg {
		honest := s.esrv.Honest(req)
		if oInside(evilCoZone, lcn(req.Question[0].Name)) {
			honest = ec.Servers[0].Honest(req)
		}
		s.mu.RLock()
		ff, ok := s.frameScripts[lcn(req.Question[0].Name)]
		s.mu.RUnlock()
		if ok {
			return ff(req, honest, tcp, connQueries)
		}
		if m := tamper(req.Question[0], honest, tcp); m != nil {
			return []*dns.Msg{m}
		}
		return nil
	})
	w.AddrMap[net.JoinHostPort(s.esrv.IP.String(), "53")] = s.front.addr
	w.AddrMap[net.JoinHostPort(ec.Servers[0].IP.String(), "53")] = s.front.addr
	s.ecIP = ec.Servers[0].IP
	s.vsrv.SetBehaviour(l3.Behaviour{Rcode: func(q dns.Question) int {
		s.mu.RLock()
		rc, ok := s.outage[lcn(q.Name)]
		s.mu.RUnlock()
		if ok {
			return rc
		}
		return -1
	}, Pre: func(req *dns.Msg) []*dns.Msg {
		if len(req.Question) != 1 {
			return nil
		}
		s.mu.RLock()
		f, ok := s.spoof[lcn(req.Question[0].Name)]
		s.mu.RUnlock()
		if ok {
			return f(req)
		}
		return nil
	}})
	s.p = l3.NewPipe(w, l3.PipeOpts{DNSSEC: sec, Tweak: func(cfg *config.Config) {
		cfg.QnameMinLevel = qmin
		cfg.IPv6Access = v6   // AAAA glue pass, lookupV6Nss enrichment job, checkHosts v6 branch
		cfg.TCPKeepalive = ka // pooled (edns-tcp-keepalive) TCP connections to servers asked a two-label name
	}})
	sys = s
}

// inAttackerZone: the attacker is authoritative for it, whatever he says there is his to say.
func inAttackerZone(owner string) bool {
	return oInside(evilZone, lcn(owner)) || oInside(evilCoZone, lcn(owner))
}

// genuine: rr is something a zone of the world that holds its owner really
// publishes - a published record, or a signature made with that zone's key.
func (s *sysState) genuine(rr dns.RR) bool {
	if sig, ok := rr.(*dns.RRSIG); ok {
		z := s.w.Zones[lcn(sig.SignerName)]
		return z != nil && z.Signed && len(z.Keys) > 0 && z.Keys[0].Key.KeyTag() == sig.KeyTag && oInside(z.Name, lcn(rr.Header().Name))
	}
	switch rr.Header().Rrtype {
	case dns.TypeNSEC, dns.TypeNSEC3, dns.TypeDNSKEY:
		// denial proofs / keys of a signed zone: produced on the fly by the zone, never by the attacker's scripts
		for _, z := range s.w.Zones {
			if z.Signed && !inAttackerZone(z.Name) && oInside(z.Name, lcn(rr.Header().Name)) {
				return true
			}
		}
		return false
	}
	return s.w.Published(rr)
}

// judgeReply checks the client-visible reply against "nothing the attacker
// said about names outside his zone is relayed".
func (s *sysState) judgeReply(where string, r *dns.Msg) string {
	if r == nil {
		return "ok"
	}
	bad := func(rr dns.RR) bool {
		if rr.Header().Rrtype == dns.TypeOPT {
			return false
		}
		return !inAttackerZone(rr.Header().Name) && !s.genuine(rr)
	}
	for _, rr := range r.Answer {
		if bad(rr) {
			return fail("l3/"+where+"/out-of-zone-record-relayed-in-answer", "%s", rrText(rr))
		}
	}
	positive := r.Rcode == dns.RcodeSuccess && len(r.Answer) > 0
	for _, rr := range r.Ns {
		if bad(rr) && positive {
			return fail("l3/"+where+"/out-of-zone-record-in-authority-of-positive-answer", "%s", rrText(rr))
		}
	}
	for _, rr := range r.Extra {
		if bad(rr) && positive {
			return fail("l3/"+where+"/out-of-zone-record-in-additional-of-positive-answer", "%s", rrText(rr))
		}
	}
	return "ok"
}

func rrText(rr dns.RR) string { return strings.Join(strings.Fields(rr.String()), "_") }

func replySummary(r *dns.Msg) string {
	if r == nil {
		return "noreply"
	}
	sec := func(rrs []dns.RR) string {
		var out []string
		for _, rr := range rrs {
			if rr.Header().Rrtype == dns.TypeOPT {
				continue
			}
			out = append(out, rrText(rr))
		}
		return listOrDash(out)
	}
	return fmt.Sprintf("rcode=%s an=%s ns=%s ex=%s", dns.RcodeToString[r.Rcode], sec(r.Answer), sec(r.Ns), sec(r.Extra))
}

func (s *sysState) cached(name string, t uint16) *dns.Msg {
	req := new(dns.Msg)
	req.SetQuestion(name, t)
	req.SetEdns0(1232, false)
	return cache.VerifC07Cached(s.p.Cache, req)
}

// clientQuery sends one client query and notes it.
func (s *sysState) clientQuery(name string, t uint16) *dns.Msg {
	s.mu.Lock()
	s.asked[fmt.Sprintf("%s/%d", lcn(name), t)] = true
	s.mu.Unlock()
	return s.p.Query(name, t, l3.Flags{})
}

// victimCheck: a client query for a victim name must equal the ground truth.
func (s *sysState) victimCheck(name string, t uint16) (string, string) {
	pre := s.cached(name, t)
	before := s.vsrv.Asked(name, t)
	r := s.clientQuery(name, t)
	after := s.vsrv.Asked(name, t)
	tr := s.w.Truth(name, t)
	sum := replySummary(r)
	if r == nil {
		return sum, fail("l3/victim/no-reply", "%s/%d", name, t)
	}
	if o := s.judgeReply("victim", r); o != "ok" {
		return sum, o
	}
	if r.Rcode != tr.Rcode {
		return sum, fail("l3/victim/rcode-differs-from-truth", "%s/%d want=%s got=%s", name, t, dns.RcodeToString[tr.Rcode], dns.RcodeToString[r.Rcode])
	}
	var plain []dns.RR
	for _, rr := range r.Answer {
		if rr.Header().Rrtype != dns.TypeRRSIG {
			plain = append(plain, rr)
		}
	}
	if got, want := strings.Join(l3.SortRRs(plain), "|"), strings.Join(l3.SortRRs(tr.Answer), "|"); got != want {
		return sum, fail("l3/victim/answer-differs-from-truth", "%s/%d want=%s got=%s", name, t, strings.ReplaceAll(want, "\t", "_"), strings.ReplaceAll(got, "\t", "_"))
	}
	if pre == nil && after == before {
		return sum, fail("l3/victim/uncached-name-not-asked-at-real-authority", "%s/%d", name, t)
	}
	return sum, "ok"
}

// audit inspects the shared state the attacker could have poisoned.
func (s *sysState) audit() string {
	// 1. nothing the attacker's server was asked concerns the victim zone
	for _, v := range victimNames {
		for _, t := range []uint16{dns.TypeA, dns.TypeAAAA, dns.TypeNS, dns.TypeMX, dns.TypeTXT, dns.TypeSOA, dns.TypeCNAME, dns.TypeDS} {
			if s.front.Asked(v.n, t) > 0 {
				return fail("l3/audit/victim-name-asked-at-attacker", "%s/%d", v.n, t)
			}
		}
	}
	for i := 1; i <= 8; i++ {
		if n := fmt.Sprintf("h%d.victim.test.", i); s.front.Asked(n, dns.TypeA) > 0 {
			return fail("l3/audit/victim-name-asked-at-attacker", "%s", n)
		}
	}
	// 1a. authority selection: the attacker's servers are only ever asked about names at or below his own zones
	// (whatever the cache holds, however a name is spelled)
	for _, n := range s.front.Names() {
		if !inAttackerZone(n) {
			return fail("l3/audit/name-outside-his-zones-asked-at-attacker", "%s", n)
		}
	}
	// 1b. no address from a record owned by a victim name became a name-server address
	for h := range s.nsHosts {
		v4, v6 := resolver.VerifC07GlueCached(s.p.Resolver, h)
		if !inAttackerZone(h) {
			for _, a := range append(append([]netip.Addr(nil), v4...), v6...) {
				ip := net.IP(a.AsSlice())
				var rr dns.RR = rrA(h, ip)
				if a.Is6() {
					rr = rrAAAA(h, ip)
				}
				if !s.w.Published(rr) {
					return fail("l3/audit/glue-cache-holds-unpublished-address", "host=%s addr=%s", h, a)
				}
			}
		}
		for _, a := range append(append([]netip.Addr(nil), v4...), v6...) {
			if oLoopback(a) || ownIfaces[a.Unmap()] {
				return fail("l3/audit/looked-up-ns-address-is-loopback-or-local", "host=%s addr=%s", h, a)
			}
			if a == netip.MustParseAddr("2001:db8:66::66") {
				return fail("l3/audit/address-of-foreign-owner-taken-as-ns-address", "host=%s addr=%s", h, a)
			}
		}
		for _, a := range v4 {
			if ad, ok := netip.AddrFromSlice(forgedIP); ok && ad.Unmap() == a {
				return fail("l3/audit/address-of-foreign-owner-taken-as-ns-address", "host=%s addr=%s", h, a)
			}
		}
	}
	for zone, addrs := range authority.VerifC07Entries(resolver.VerifDelegations(s.p.Resolver)) {
		for _, a := range addrs {
			if ap, err := netip.ParseAddrPort(a); err == nil && (oLoopback(ap.Addr()) || ownIfaces[ap.Addr().Unmap()]) {
				return fail("l3/audit/delegation-holds-loopback-or-local-address", "zone=%s addr=%s", zone, a)
			}
			if a == net.JoinHostPort(forgedIP.String(), "53") {
				return fail("l3/audit/address-of-foreign-owner-in-delegation", "zone=%s addr=%s", zone, a)
			}
		}
	}
	// 2. the trap (loopback / local-interface glue) was never contacted
	if n := s.trap.UDPQueries.Load() + s.trap.TCPQueries.Load() + s.trap.TCPConns.Load(); n > 0 {
		return fail("l3/audit/address-from-rejected-glue-was-dialled", "n=%d", n)
	}
	// 3. every cached entry under a victim name holds published data only
	names := map[string]bool{}
	for _, v := range victimNames {
		names[v.n] = true
	}
	for i := 1; i <= 8; i++ {
		names[fmt.Sprintf("h%d.victim.test.", i)] = true
	}
	for n := range names {
		for _, t := range []uint16{dns.TypeA, dns.TypeAAAA, dns.TypeNS, dns.TypeMX, dns.TypeTXT, dns.TypeSOA, dns.TypeCNAME} {
			if m := s.cached(n, t); m != nil {
				for _, sec := range [][]dns.RR{m.Answer, m.Ns, m.Extra} {
					for _, rr := range sec {
						if rr.Header().Rrtype != dns.TypeOPT && !s.genuine(rr) {
							return fail("l3/audit/unpublished-record-cached-under-victim-name", "%s/%d %s", n, t, rrText(rr))
						}
					}
				}
			}
		}
	}
	// 4. entries cached under the attacker's own questions hold only records owned by the question (or DNAME)
	for q := range s.asked {
		name, ts, _ := strings.Cut(q, "/")
		if !inAttackerZone(name) {
			continue
		}
		if m := s.cached(name, uint16(vlib.Atoi(ts))); m != nil {
			for _, rr := range m.Answer {
				if lcn(rr.Header().Name) != name && rr.Header().Rrtype != dns.TypeDNAME {
					return fail("l3/audit/foreign-owner-cached-under-attacker-question", "%s %s", q, rrText(rr))
				}
			}
			if m.Rcode == dns.RcodeSuccess && len(m.Answer) > 0 {
				for _, sec := range [][]dns.RR{m.Ns, m.Extra} {
					for _, rr := range sec {
						if rr.Header().Rrtype != dns.TypeOPT && !inAttackerZone(rr.Header().Name) && !s.genuine(rr) {
							return fail("l3/audit/foreign-section-record-cached-with-positive-answer", "%s %s", q, rrText(rr))
						}
					}
				}
			}
		}
	}
	// 5. delegations and glue: victim.test., test. and the root still point where the parents say
	good := map[string]map[string]bool{}
	for zname, z := range s.w.Zones {
		good[zname] = map[string]bool{}
		for _, srv := range z.Servers {
			good[zname][net.JoinHostPort(srv.IP.String(), "53")] = true
		}
	}
	for zone, addrs := range authority.VerifC07Entries(resolver.VerifDelegations(s.p.Resolver)) {
		z := lcn(zone)
		if inAttackerZone(z) {
			continue
		}
		for _, a := range addrs {
			if !good[z][a] {
				return fail("l3/audit/delegation-points-at-foreign-server", "zone=%s addr=%s", z, a)
			}
		}
	}
	for zname, z := range s.w.Zones {
		if inAttackerZone(zname) {
			continue
		}
		recs := z.Records
		for owner, sets := range recs {
			if _, ok := sets[dns.TypeA]; !ok {
				continue
			}
			if s.raceRan && owner == "ns1."+victimCoZone {
				continue // judged by the race shape itself, under its own signature
			}
			v4, _ := resolver.VerifC07GlueCached(s.p.Resolver, owner)
			for _, a := range v4 {
				okAddr := false
				for _, rr := range sets[dns.TypeA] {
					if ad, ok := netip.AddrFromSlice(rr.(*dns.A).A); ok && ad.Unmap() == a {
						okAddr = true
					}
				}
				if !okAddr {
					return fail("l3/audit/glue-cache-holds-unpublished-address", "host=%s addr=%s", owner, a)
				}
			}
		}
	}
	for _, h := range []string{"other.evil.test.", "ns.sub.evil.test.", "nsevil.test."} {
		v4, _ := resolver.VerifC07GlueCached(s.p.Resolver, h)
		for _, a := range v4 {
			if oLoopback(a) || ownIfaces[a] {
				return fail("l3/audit/glue-cache-holds-loopback-or-local", "host=%s addr=%s", h, a)
			}
			if h == "other.evil.test." {
				return fail("l3/audit/glue-cached-for-host-outside-ns-set", "host=%s addr=%s", h, a)
			}
			if h == "nsevil.test." {
				return fail("l3/audit/glue-cached-for-host-outside-delegating-zone", "host=%s addr=%s", h, a)
			}
		}
	}
	return "ok"
}

// ---------------------------------------------------------------- attack shapes

// attack installs the script for shape, sends the triggering client query and
// judges the reply. k makes the names distinct inside one world.
func (s *sysState) attack(shape string, k int) (string, string) {
	// "<shape>.<mod>": the same scripted reply under another header rcode, with or without an SOA
	shape, mod, _ := strings.Cut(shape, ".")
	var preStep, postStep func()
	// between two attacks the attacker waits out the resolver's back-off: five minutes pass for the
	// RFC 9520 failure cache and the circuit breaker (and only for them - record TTLs are not aged),
	// otherwise one failed attempt would shield every later shape of the world from reaching the wire
	cache.VerifC07AgeFailures(s.p.Cache, 5*time.Minute+time.Second)
	resolver.VerifC07AgeBreaker(s.p.Resolver, 31*time.Second)
	evilIP := s.esrv.IP
	qn := fmt.Sprintf("q%d.evil.test.", k)
	sub := fmt.Sprintf("sub%d.evil.test.", k)
	deep := "x." + sub
	base := func(q dns.Question, honest *dns.Msg) *dns.Msg {
		m := honest.Copy()
		m.Rcode = dns.RcodeSuccess
		m.Authoritative = true
		m.Answer, m.Ns, m.Extra = nil, nil, nil
		if o := honest.IsEdns0(); o != nil {
			m.Extra = []dns.RR{o}
		}
		return m
	}
	withOpt := func(m *dns.Msg, rrs ...dns.RR) { m.Extra = append(rrs, m.Extra...) }
	qtype := dns.TypeA
	trigger := qn
	own := rrA(qn, net.IPv4(198, 18, 1, byte(10+k%200)))
	s.mu.Lock()
	script := func(f func(m *dns.Msg)) {
		s.scripts[lcn(trigger)] = func(q dns.Question, honest *dns.Msg) *dns.Msg {
			m := base(q, honest)
			f(m)
			return m
		}
	}
	referral := func(f func(m *dns.Msg)) {
		trigger = deep
		s.scripts[lcn(deep)] = func(q dns.Question, honest *dns.Msg) *dns.Msg {
			m := base(q, honest)
			m.Authoritative = false
			f(m)
			return m
		}
	}
	// overTCP: the UDP query is answered with an honest TC=1 (forcing the resolver onto the
	// stream leg), the scripted reply is what the TCP connection then delivers.
	overTCP := func(name string, f func(m *dns.Msg)) {
		trigger = name
		s.tcpScripts[lcn(name)] = func(q dns.Question, honest *dns.Msg, tcp bool) *dns.Msg {
			m := base(q, honest)
			if !tcp {
				m.Authoritative = false
				m.Truncated = true
				return m
			}
			f(m)
			return m
		}
	}
	switch shape {
	// ---- NS-address sub-lookups: a referral with glue for one name server and none for the other, so
	// the resolver resolves the glue-less one through the (provisional) delegation; the attacker answers
	// that address question with a record owned by a victim name riding along. It must neither be relayed
	// nor taken as an address of the name server.
	case "nsaddr-extra", "nsaddr-extra-first", "nsaddr-only-foreign", "nsaddr-cname-forged", "nsaddr-extra-tcp":
		ns1, ns2 := "ns1."+sub, "ns2."+sub
		s.nsHosts[ns1], s.nsHosts[ns2] = true, true
		referral(func(m *dns.Msg) {
			m.Ns = []dns.RR{rrNS(sub, ns1, dns.ClassINET), rrNS(sub, ns2, dns.ClassINET)}
			withOpt(m, rrA(ns1, evilIP))
		})
		final := func(q dns.Question, honest *dns.Msg) *dns.Msg {
			m := base(q, honest)
			m.Answer = []dns.RR{rrA(q.Name, net.IPv4(198, 18, 1, 77))}
			return m
		}
		// once the delegation is followed the same name is asked again at the child's servers
		n := 0
		s.scripts[lcn(deep)] = func(prev func(dns.Question, *dns.Msg) *dns.Msg) func(dns.Question, *dns.Msg) *dns.Msg {
			return func(q dns.Question, honest *dns.Msg) *dns.Msg {
				n++
				if n == 1 {
					return prev(q, honest)
				}
				return final(q, honest)
			}
		}(s.scripts[lcn(deep)])
		addr := func(m *dns.Msg) {
			forged := rrA("www.victim.test.", forgedIP)
			switch shape {
			case "nsaddr-extra", "nsaddr-extra-tcp":
				m.Answer = []dns.RR{rrA(ns2, evilIP), forged}
			case "nsaddr-extra-first":
				m.Answer = []dns.RR{forged, rrA(ns2, evilIP)}
			case "nsaddr-only-foreign":
				m.Answer = []dns.RR{forged}
			case "nsaddr-cname-forged":
				m.Answer = []dns.RR{rrCNAME(ns2, "www.victim.test."), forged}
			}
		}
		if shape == "nsaddr-extra-tcp" {
			keep := trigger
			overTCPAt := func(name string) {
				s.tcpScripts[lcn(name)] = func(q dns.Question, honest *dns.Msg, tcp bool) *dns.Msg {
					m := base(q, honest)
					if !tcp {
						m.Truncated = true
						return m
					}
					addr(m)
					return m
				}
			}
			overTCPAt(ns2)
			trigger = keep
		} else {
			s.scripts[lcn(ns2)] = func(q dns.Question, honest *dns.Msg) *dns.Msg {
				m := base(q, honest)
				if q.Qtype == dns.TypeA {
					addr(m)
				}
				return m
			}
		}
	// ---- replies on the stream leg that do not match the outstanding query (header flags must not matter)
	case "tcp-honest":
		overTCP(qn, func(m *dns.Msg) { m.Answer = []dns.RR{own} })
	case "tcp-wrongq-glue", "tcp-wrongq-glue-tc", "tcp-wrongq-glue-tc-sf":
		// a proper referral for the name that was asked, but the echoed question sits in the victim
		// zone - whose name checkGlueRR would take its bailiwick from - and the glue is for the victim's own NS host
		overTCP(deep, func(m *dns.Msg) {
			m.Authoritative = false
			m.Truncated = shape != "tcp-wrongq-glue"
			if shape == "tcp-wrongq-glue-tc-sf" {
				m.Rcode = dns.RcodeServerFailure
			}
			m.Question[0].Name = "x.sub.victim.test."
			m.Ns = []dns.RR{rrNS(sub, "ns1.victim.test.", dns.ClassINET)}
			withOpt(m, rrA("ns1.victim.test.", evilIP))
		})
	case "tcp-wrongq-answer", "tcp-wrongq-answer-tc":
		overTCP(qn, func(m *dns.Msg) {
			m.Truncated = shape == "tcp-wrongq-answer-tc"
			m.Question[0].Name = "www.victim.test."
			m.Answer = []dns.RR{rrA("www.victim.test.", forgedIP)}
		})
	case "tcp-wrongtype-tc", "tcp-noq-tc", "tcp-twoq-tc":
		overTCP(qn, func(m *dns.Msg) {
			m.Truncated = true
			m.Answer = []dns.RR{own, rrA("www.victim.test.", forgedIP)}
			switch shape {
			case "tcp-wrongtype-tc":
				m.Question[0].Qtype = dns.TypeAAAA
			case "tcp-noq-tc":
				m.Question = nil
			default:
				m.Question = append(m.Question, dns.Question{Name: "www.victim.test.", Qtype: dns.TypeA, Qclass: dns.ClassINET})
			}
		})
	case "tcp-id0", "tcp-id0-tc":
		// the right question, a forged answer, transaction ID zero
		overTCP(qn, func(m *dns.Msg) {
			m.Id = 0
			m.Truncated = shape == "tcp-id0-tc"
			m.Answer = []dns.RR{rrA(qn, markerIP)}
		})
	case "tcp-wrongid", "tcp-wrongid-tc":
		overTCP(qn, func(m *dns.Msg) {
			m.Id ^= 0x4242
			m.Truncated = shape == "tcp-wrongid-tc"
			m.Answer = []dns.RR{rrA(qn, markerIP), rrA("www.victim.test.", forgedIP)}
		})
	// ---- positive answers with foreign records in each section
	case "extra-a":
		script(func(m *dns.Msg) { m.Answer = []dns.RR{own}; withOpt(m, rrA("www.victim.test.", forgedIP)) })
	case "extra-ns-glue":
		script(func(m *dns.Msg) {
			m.Answer = []dns.RR{own}
			withOpt(m, rrA("ns1.victim.test.", evilIP))
		})
	case "auth-ns":
		script(func(m *dns.Msg) {
			m.Answer = []dns.RR{own}
			m.Ns = []dns.RR{rrNS(victimZone, "ns.evil.test.", dns.ClassINET)}
			withOpt(m, rrA("ns.evil.test.", evilIP))
		})
	case "auth-a":
		script(func(m *dns.Msg) { m.Answer = []dns.RR{own}; m.Ns = []dns.RR{rrA("www.victim.test.", forgedIP)} })
	case "ans-a":
		script(func(m *dns.Msg) { m.Answer = []dns.RR{own, rrA("www.victim.test.", forgedIP)} })
	case "ans-foreign-only":
		script(func(m *dns.Msg) { m.Answer = []dns.RR{rrA("www.victim.test.", forgedIP)} })
	case "ans-ns":
		script(func(m *dns.Msg) { m.Answer = []dns.RR{own, rrNS(victimZone, "ns.evil.test.", dns.ClassINET)} })
	case "ans-dname":
		script(func(m *dns.Msg) {
			m.Answer = []dns.RR{own, &dns.DNAME{Hdr: dns.RR_Header{Name: victimZone, Rrtype: dns.TypeDNAME, Class: dns.ClassINET, Ttl: 300}, Target: evilZone}}
		})
	case "cname-forged":
		script(func(m *dns.Msg) {
			m.Answer = []dns.RR{rrCNAME(qn, "www.victim.test."), rrA("www.victim.test.", forgedIP)}
		})
	case "cname-forged-ghost":
		script(func(m *dns.Msg) {
			m.Answer = []dns.RR{rrCNAME(qn, "ghost.victim.test."), rrA("ghost.victim.test.", forgedIP)}
		})
	case "cname-forged-txt":
		qtype = dns.TypeTXT
		script(func(m *dns.Msg) {
			m.Answer = []dns.RR{rrCNAME(qn, "txt.victim.test."), rrTXT("txt.victim.test.", "forged")}
		})
	case "dname-honest":
		// an honest DNAME of the attacker's own zone onto the victim zone: the
		// target is resolved through the victim's servers (no script: the zone data answers)
		trigger = "www.d.evil.test."
	case "cname-inzone":
		// an honest in-zone alias chain answered in one message must survive the filter
		trigger = "c.evil.test."
	case "dname-forged", "dname-forged-nocname", "dname-forged-txt", "dname-forged-last":
		// the attacker's own DNAME onto the victim zone, the synthesised CNAME, AND a forged record of the
		// asked type owned by the substituted target name - all in the message that carried the DNAME
		dn := fmt.Sprintf("dn%d.%s", k, evilZone)
		trigger = "www." + dn
		if shape == "dname-forged-txt" {
			qtype = dns.TypeTXT
			trigger = "txt." + dn
		}
		tq := qtype
		tname := trigger
		s.scripts[lcn(trigger)] = func(q dns.Question, honest *dns.Msg) *dns.Msg {
			m := base(q, honest)
			target := strings.TrimSuffix(lcn(tname), dn) + victimZone
			dname := &dns.DNAME{Hdr: dns.RR_Header{Name: dn, Rrtype: dns.TypeDNAME, Class: dns.ClassINET, Ttl: 300}, Target: victimZone}
			var forged dns.RR = rrA(target, forgedIP)
			if tq == dns.TypeTXT {
				forged = rrTXT(target, "forged")
			}
			switch shape {
			case "dname-forged-nocname":
				m.Answer = []dns.RR{dname, forged}
			case "dname-forged-last":
				m.Answer = []dns.RR{forged, rrCNAME(q.Name, target), dname}
			default:
				m.Answer = []dns.RR{dname, rrCNAME(q.Name, target), forged}
			}
			return m
		}
	case "escdot-steal", "escdot-steal-deep":
		// a name of the PARENT zone whose first label contains an escaped dot and whose text after that dot spells
		// the attacker's zone (one label `foo.evil` under test.), asked while the attacker's delegation is cached
		trigger = "foo\\." + evilZone
		if shape == "escdot-steal-deep" {
			trigger = "a.b\\." + evilZone
		}
		preStep = func() { s.clientQuery("a."+evilZone, dns.TypeA) }
	case "cname-honest":
		script(func(m *dns.Msg) { m.Answer = []dns.RR{rrCNAME(qn, "www.victim.test.")} })
	// ---- the relay shapes again, dressed as signed data: an RRSIG (signer evil.test., arbitrary
	// bytes) over the attacker's own record. An unsigned zone can put any signature in a reply;
	// with no DS above it nothing is validated and the signature earns the message no trust.
	case "sig-cname-forged":
		script(func(m *dns.Msg) {
			c := rrCNAME(qn, "www.victim.test.")
			m.Answer = []dns.RR{c, fakeSig(c, evilZone), rrA("www.victim.test.", forgedIP)}
		})
	case "sig-ans-a":
		script(func(m *dns.Msg) { m.Answer = []dns.RR{own, fakeSig(own, evilZone), rrA("www.victim.test.", forgedIP)} })
	case "sig-ans-ns":
		script(func(m *dns.Msg) {
			m.Answer = []dns.RR{own, fakeSig(own, evilZone), rrNS(victimZone, "ns.evil.test.", dns.ClassINET)}
		})
	case "sig-ans-dname":
		script(func(m *dns.Msg) {
			m.Answer = []dns.RR{own, fakeSig(own, evilZone),
				&dns.DNAME{Hdr: dns.RR_Header{Name: victimZone, Rrtype: dns.TypeDNAME, Class: dns.ClassINET, Ttl: 300}, Target: evilZone}}
		})
	case "sig-ans-foreign-sig":
		// the forged record carries its own "signature" too
		script(func(m *dns.Msg) {
			f := rrA("www.victim.test.", forgedIP)
			m.Answer = []dns.RR{own, fakeSig(own, evilZone), f, fakeSig(f, evilZone)}
		})
	// ---- negative answers carrying foreign records
	case "nx-soa-victim":
		script(func(m *dns.Msg) {
			m.Rcode = dns.RcodeNameError
			m.Ns = []dns.RR{rrSOA(victimZone)}
			withOpt(m, rrA("www.victim.test.", forgedIP))
		})
	case "nodata-extra":
		script(func(m *dns.Msg) {
			m.Ns = []dns.RR{rrSOA(evilZone), rrNS(victimZone, "ns.evil.test.", dns.ClassINET)}
			withOpt(m, rrA("www.victim.test.", forgedIP), rrA("ns.evil.test.", evilIP))
		})
	// ---- referrals that do not progress
	case "ref-self":
		referral(func(m *dns.Msg) {
			m.Ns = []dns.RR{rrNS(evilZone, "ns.evil.test.", dns.ClassINET)}
			withOpt(m, rrA("ns.evil.test.", evilIP))
		})
	case "ref-up":
		referral(func(m *dns.Msg) {
			m.Ns = []dns.RR{rrNS("test.", "ns.evil.test.", dns.ClassINET)}
			withOpt(m, rrA("ns.evil.test.", evilIP))
		})
	case "ref-root":
		referral(func(m *dns.Msg) {
			m.Ns = []dns.RR{rrNS(".", "ns.evil.test.", dns.ClassINET)}
			withOpt(m, rrA("ns.evil.test.", evilIP))
		})
	case "ref-side":
		referral(func(m *dns.Msg) {
			m.Ns = []dns.RR{rrNS(victimZone, "ns.evil.test.", dns.ClassINET)}
			withOpt(m, rrA("ns.evil.test.", evilIP))
		})
	case "glue-strsuffix":
		// string-suffix but not label-wise: nsevil.test. is not inside evil.test.
		referral(func(m *dns.Msg) {
			m.Ns = []dns.RR{rrNS(sub, "nsevil.test.", dns.ClassINET)}
			withOpt(m, rrA("nsevil.test.", evilIP))
		})
	case "ref-mixed":
		referral(func(m *dns.Msg) {
			m.Ns = []dns.RR{rrNS(sub, "ns."+sub, dns.ClassINET), rrNS(victimZone, "ns.evil.test.", dns.ClassINET)}
			withOpt(m, rrA("ns."+sub, evilIP), rrA("ns.evil.test.", evilIP))
		})
	case "ref-class":
		referral(func(m *dns.Msg) {
			m.Ns = []dns.RR{rrNS(sub, "ns."+sub, dns.ClassCHAOS)}
			withOpt(m, rrA("ns."+sub, evilIP))
		})
	case "ref-offpath":
		referral(func(m *dns.Msg) {
			m.Ns = []dns.RR{rrNS("other.evil.test.", "ns.other.evil.test.", dns.ClassINET)}
			withOpt(m, rrA("ns.other.evil.test.", evilIP))
		})
	// ---- glue that must not be used
	case "glue-oob":
		// the NS host is the victim's real name server name; the glue points at the attacker
		referral(func(m *dns.Msg) {
			m.Ns = []dns.RR{rrNS(sub, "ns1.victim.test.", dns.ClassINET)}
			withOpt(m, rrA("ns1.victim.test.", evilIP))
		})
	case "glue-notns":
		referral(func(m *dns.Msg) {
			m.Ns = []dns.RR{rrNS(sub, "ns."+sub, dns.ClassINET)}
			withOpt(m, rrA("ns."+sub, evilIP), rrA("other.evil.test.", s.trapIP), rrA("ns1.victim.test.", evilIP))
		})
	case "glue-loop":
		referral(func(m *dns.Msg) {
			m.Ns = []dns.RR{rrNS(sub, "ns.sub.evil.test.", dns.ClassINET)}
			withOpt(m, rrA("ns.sub.evil.test.", net.IPv4(127, 0, 0, 1)), rrA("ns.sub.evil.test.", net.IPv4(127, 0, 0, 53)))
		})
	case "glue-local":
		ip := s.localIP
		if ip == nil {
			ip = net.IPv4(127, 0, 0, 1)
		}
		referral(func(m *dns.Msg) {
			m.Ns = []dns.RR{rrNS(sub, "ns.sub.evil.test.", dns.ClassINET)}
			withOpt(m, rrA("ns.sub.evil.test.", ip))
		})
	// ---- spoofed datagrams in front of the victim server's genuine reply
	case "pre-wrongid", "pre-id0", "pre-manystrays", "pre-manystrays-mixed", "pre-wrongq", "pre-wrongboth", "pre-noq", "pre-twoq", "pre-wrongtype", "pre-wrongclass":
		trigger = fmt.Sprintf("h%d.victim.test.", 1+k%8)
		s.spoof[lcn(trigger)] = func(req *dns.Msg) []*dns.Msg {
			m := new(dns.Msg)
			m.SetReply(req)
			m.Authoritative = true
			q := req.Question[0]
			m.Answer = []dns.RR{rrA(q.Name, forgedIP)}
			switch shape {
			case "pre-wrongid":
				m.Id = req.Id ^ 0x5a5a
				m2 := m.Copy()
				m2.Id = req.Id + 1
				return []*dns.Msg{m, m2}
			case "pre-manystrays", "pre-manystrays-mixed":
				// 5..10 datagrams with other IDs, all echoing the right question (or, "mixed",
				// every other one another question) and all carrying the forged answer
				var out []*dns.Msg
				for i := 0; i < 5+k%6; i++ {
					x := m.Copy()
					x.Id = req.Id + uint16(1+i*257)
					if shape == "pre-manystrays-mixed" && i%2 == 0 {
						x.Question[0].Name = "www.victim.test."
						x.Answer = []dns.RR{rrA("www.victim.test.", forgedIP)}
					}
					out = append(out, x)
				}
				return out
			case "pre-id0":
				if req.Id == 0 {
					return nil
				}
				m.Id = 0
			case "pre-wrongq":
				m.Question[0].Name = "www.victim.test."
				m.Answer = []dns.RR{rrA("www.victim.test.", forgedIP)}
			case "pre-wrongboth":
				m.Id = req.Id ^ 0x0101
				m.Question[0].Name = "www.victim.test."
				m.Answer = []dns.RR{rrA("www.victim.test.", forgedIP)}
			case "pre-noq":
				m.Question = nil
			case "pre-twoq":
				m.Question = append(m.Question, dns.Question{Name: "www.victim.test.", Qtype: dns.TypeA, Qclass: dns.ClassINET})
			case "pre-wrongtype":
				m.Question[0].Qtype = dns.TypeAAAA
			case "pre-wrongclass":
				m.Question[0].Qclass = dns.ClassCHAOS
			}
			return []*dns.Msg{m}
		}
	// ---- the AAAA set of a name server learned by LOOKUP (no AAAA glue): ipv6access only
	case "nsaddr6-loop", "nsaddr6-mapped-loop", "nsaddr6-local", "nsaddr6-foreign", "nsaddr6-honest", "glue6-loop":
		ns1 := "ns1." + sub
		s.nsHosts[ns1] = true
		var local6 net.IP
		for a := range ownIfaces {
			if a.Is6() && !oLoopback(a) {
				local6 = net.IP(a.AsSlice())
			}
		}
		referral(func(m *dns.Msg) {
			m.Ns = []dns.RR{rrNS(sub, ns1, dns.ClassINET)}
			withOpt(m, rrA(ns1, evilIP))
			if shape == "glue6-loop" {
				withOpt(m, rrAAAA(ns1, net.IPv6loopback), rrAAAA(ns1, net.ParseIP("::ffff:127.0.0.1")))
			}
		})
		n := 0
		s.scripts[lcn(deep)] = func(prev func(dns.Question, *dns.Msg) *dns.Msg) func(dns.Question, *dns.Msg) *dns.Msg {
			return func(q dns.Question, honest *dns.Msg) *dns.Msg {
				n++
				if n == 1 {
					return prev(q, honest)
				}
				m := base(q, honest)
				m.Answer = []dns.RR{rrA(q.Name, net.IPv4(198, 18, 1, 78))}
				return m
			}
		}(s.scripts[lcn(deep)])
		s.scripts[lcn(ns1)] = func(q dns.Question, honest *dns.Msg) *dns.Msg {
			m := base(q, honest)
			switch q.Qtype {
			case dns.TypeA:
				m.Answer = []dns.RR{rrA(ns1, evilIP)}
			case dns.TypeAAAA:
				switch shape {
				case "nsaddr6-loop", "glue6-loop":
					m.Answer = []dns.RR{rrAAAA(ns1, net.IPv6loopback)}
				case "nsaddr6-mapped-loop":
					m.Answer = []dns.RR{rrAAAA(ns1, net.ParseIP("::ffff:127.0.0.1")), rrAAAA(ns1, net.ParseIP("::ffff:127.0.0.53"))}
				case "nsaddr6-local":
					if local6 != nil {
						m.Answer = []dns.RR{rrAAAA(ns1, local6)}
					}
					if s.localIP != nil {
						m.Answer = append(m.Answer, rrAAAA(ns1, net.ParseIP("::ffff:"+s.localIP.String())))
					}
				case "nsaddr6-foreign":
					m.Answer = []dns.RR{rrAAAA("www.victim.test.", net.ParseIP("2001:db8:66::66")), rrAAAA(ns1, net.ParseIP("2001:db8::5"))}
				default:
					m.Answer = []dns.RR{rrAAAA(ns1, net.ParseIP("2001:db8::5"))}
				}
			}
			return m
		}
	// ---- out-of-zone glue while the victim zone is in trouble: the NS target is a host of the victim zone, the
	// additional section offers the attacker's address for it, and the victim's own servers answer that
	// host's address question with SERVFAIL / REFUSED at this moment
	case "glue-oob-outage", "glue-oob-outage-refused", "glue-oob-outage6":
		host := "mail.victim.test."
		s.nsHosts[host] = true
		s.outage[host] = dns.RcodeServerFailure
		if shape == "glue-oob-outage-refused" {
			s.outage[host] = dns.RcodeRefused
		}
		referral(func(m *dns.Msg) {
			m.Ns = []dns.RR{rrNS(sub, host, dns.ClassINET)}
			withOpt(m, rrA(host, evilIP))
			if shape == "glue-oob-outage6" {
				withOpt(m, rrAAAA(host, net.ParseIP("2001:db8:66::5")))
			}
		})
		postStep = func() {
			s.mu.Lock()
			delete(s.outage, host)
			s.mu.Unlock()
			// the outage is over and its back-off has run out
			cache.VerifC07AgeFailures(s.p.Cache, 5*time.Minute+time.Second)
			resolver.VerifC07AgeBreaker(s.p.Resolver, 31*time.Second)
		}
	// ---- the recovery branch: every server of a delegation produces network errors five times, the resolver
	// re-asks for the addresses of its name-server hosts (checkHosts) and the zone holding the host name
	// answers with loopback / local-interface addresses
	case "checkhosts-loop", "checkhosts-local", "checkhosts-loop6", "checkhosts-foreign":
		nsx := fmt.Sprintf("nsx%d.%s", k, evilZone)
		s.nsHosts[nsx] = true
		dead := net.IPv4(203, 0, 113, byte(200+k)) // routed to a closed port: every exchange fails at once
		names := []string{}
		for i := 0; i < 7; i++ {
			names = append(names, fmt.Sprintf("x%d.%s", i, sub))
		}
		for _, n := range names {
			s.scripts[lcn(n)] = func(q dns.Question, honest *dns.Msg) *dns.Msg {
				m := base(q, honest)
				m.Authoritative = false
				m.Ns = []dns.RR{rrNS(sub, nsx, dns.ClassINET)}
				withOpt(m, rrA(nsx, dead))
				return m
			}
		}
		asked := 0
		s.scripts[lcn(nsx)] = func(q dns.Question, honest *dns.Msg) *dns.Msg {
			m := base(q, honest)
			asked++
			switch {
			case q.Qtype == dns.TypeA && shape == "checkhosts-loop":
				m.Answer = []dns.RR{rrA(nsx, net.IPv4(127, 0, 0, 53)), rrA(nsx, net.IPv4(127, 0, 0, 1))}
			case q.Qtype == dns.TypeA && shape == "checkhosts-local" && s.localIP != nil:
				m.Answer = []dns.RR{rrA(nsx, s.localIP)}
			case q.Qtype == dns.TypeA && shape == "checkhosts-foreign":
				m.Answer = []dns.RR{rrA("www.victim.test.", forgedIP)}
			case q.Qtype == dns.TypeAAAA && shape == "checkhosts-loop6":
				m.Answer = []dns.RR{rrAAAA(nsx, net.IPv6loopback), rrAAAA(nsx, net.ParseIP("::ffff:127.0.0.1"))}
			case q.Qtype == dns.TypeA:
				m.Answer = []dns.RR{rrA(nsx, dead)}
			}
			return m
		}
		trigger = names[6]
		preStep = func() {
			for i := 0; i < 6; i++ {
				s.clientQuery(names[i], dns.TypeA)
				cache.VerifC07AgeFailures(s.p.Cache, 5*time.Minute+time.Second)
				resolver.VerifC07AgeBreaker(s.p.Resolver, 31*time.Second)
			}
		}
	// ---- two client queries racing through one multi-label delegation: the second finds the delegation
	// the first has just cached (the cache hit INSIDE processDelegation) and goes on from there; the
	// attacker then refers it on with glue for the sibling victim zone's name server
	case "race-cached-delegation":
		cz := fmt.Sprintf("c%d.%s", k, evilCoZone)
		x, y := "x."+cz, "y."+cz
		s.scripts[lcn(x)] = func(q dns.Question, honest *dns.Msg) *dns.Msg {
			m := base(q, honest)
			m.Answer = []dns.RR{rrA(q.Name, net.IPv4(198, 18, 1, 88))}
			return m
		}
		s.scripts[lcn(y)] = func(q dns.Question, honest *dns.Msg) *dns.Msg {
			m := base(q, honest)
			m.Authoritative = false
			m.Ns = []dns.RR{rrNS(cz, "ns1."+victimCoZone, dns.ClassINET)}
			withOpt(m, rrA("ns1."+victimCoZone, s.ecIP))
			return m
		}
		parent := s.w.Zones["test."].Servers[0]
		parent.SetBehaviour(l3.Behaviour{Delay: func(q dns.Question, tcp bool) time.Duration {
			if strings.HasPrefix(lcn(q.Name), "y.") {
				return 150 * time.Millisecond
			}
			return 0
		}})
		trigger = y
		s.raceRan = true
		preStep = func() {
			done := make(chan struct{})
			go func() { s.clientQuery(x, dns.TypeA); close(done) }()
			s.clientQuery(y, dns.TypeA)
			<-done
			parent.SetBehaviour(l3.Behaviour{})
		}
	// ---- a kept-alive (pooled) stream: a stale frame with another ID, then a forged frame
	case "pool-stale-then-forged", "pool-stale-then-forged-rightid", "pool-stale-then-referral":
		trigger = evilZone
		qtype = dns.TypeMX
		s.frameScripts[lcn(evilZone)] = func(req *dns.Msg, honest *dns.Msg, tcp bool, connQueries int) []*dns.Msg {
			q := req.Question[0]
			if q.Qtype != dns.TypeTXT && q.Qtype != dns.TypeMX {
				return []*dns.Msg{honest}
			}
			if !tcp {
				m := base(q, honest)
				m.Truncated = true
				return []*dns.Msg{m}
			}
			if q.Qtype == dns.TypeTXT {
				return []*dns.Msg{honest} // the exchange that parks the connection
			}
			stale := honest.Copy()
			stale.Id = req.Id ^ 0x1111
			forged := base(q, honest)
			forged.Id = req.Id ^ 0x2222
			if shape == "pool-stale-then-forged-rightid" {
				forged.Id = req.Id
			}
			forged.Question[0].Name = victimZone
			forged.Answer = []dns.RR{&dns.MX{Hdr: dns.RR_Header{Name: victimZone, Rrtype: dns.TypeMX, Class: dns.ClassINET, Ttl: 300}, Preference: 1, Mx: "mail.evil.test."}}
			if shape == "pool-stale-then-referral" {
				forged.Authoritative = false
				forged.Answer = nil
				forged.Question[0].Name = "x.victim.test."
				forged.Ns = []dns.RR{rrNS("sub.evil.test.", "ns1.victim.test.", dns.ClassINET)}
				forged.Extra = append([]dns.RR{rrA("ns1.victim.test.", evilIP)}, forged.Extra...)
			}
			return []*dns.Msg{stale, forged}
		}
		preStep = func() { s.clientQuery(evilZone, dns.TypeTXT) }
	default:
		s.mu.Unlock()
		return "bad-shape", "-"
	}
	if mod != "" {
		if inner, ok := s.scripts[lcn(trigger)]; ok {
			s.scripts[lcn(trigger)] = func(q dns.Question, honest *dns.Msg) *dns.Msg {
				m := inner(q, honest)
				switch {
				case strings.HasPrefix(mod, "nx"):
					m.Rcode = dns.RcodeNameError
				case strings.HasPrefix(mod, "sf"):
					m.Rcode = dns.RcodeServerFailure
				case strings.HasPrefix(mod, "rf"):
					m.Rcode = dns.RcodeRefused
				case strings.HasPrefix(mod, "yx"):
					m.Rcode = dns.RcodeYXDomain
				}
				if strings.HasSuffix(mod, "soa") {
					m.Ns = append(m.Ns, rrSOA(evilZone))
				}
				return m
			}
		}
	}
	s.mu.Unlock()
	if preStep != nil {
		preStep()
	}
	var r *dns.Msg
	var or string
	if oInside(victimZone, lcn(trigger)) {
		sum, o := s.victimCheck(trigger, qtype)
		return sum, o
	}
	r = s.clientQuery(trigger, qtype)
	or = s.judgeReply("attack", r)
	// a second, cache-served round must be just as clean
	r2 := s.clientQuery(trigger, qtype)
	if o := s.judgeReply("attack-cached", r2); or == "ok" && o != "ok" {
		or = o
	}
	tags := ""
	for _, m := range []*dns.Msg{r, r2} {
		if m == nil || (m.Rcode == dns.RcodeSuccess && len(m.Answer) > 0) {
			continue
		}
		for _, sec := range [][]dns.RR{m.Ns, m.Extra} {
			for _, rr := range sec {
				if rr.Header().Rrtype != dns.TypeOPT && !inAttackerZone(rr.Header().Name) && !s.genuine(rr) {
					tags = "neg-relays-foreign-section-record"
				}
			}
		}
	}
	s.lastTags = tags
	// Whatever foreign record rode along in ANY section of either reply must not
	// have become retrievable under its own name: no cache entry keyed by
	// (its owner, its type) may hold it, and the glue caches must not hold a
	// forged address for its owner.
	for _, m := range []*dns.Msg{r, r2} {
		if m == nil {
			continue
		}
		for _, sec := range [][]dns.RR{m.Answer, m.Ns, m.Extra} {
			for _, rr := range sec {
				h := rr.Header()
				if h.Rrtype == dns.TypeOPT || inAttackerZone(h.Name) || s.genuine(rr) {
					continue
				}
				if c := s.cached(h.Name, h.Rrtype); c != nil {
					for _, csec := range [][]dns.RR{c.Answer, c.Ns, c.Extra} {
						for _, crr := range csec {
							if crr.Header().Rrtype != dns.TypeOPT && !inAttackerZone(crr.Header().Name) && !s.genuine(crr) && or == "ok" {
								or = fail("l3/attack/foreign-section-record-cached-under-its-own-name", "%s", rrText(crr))
							}
						}
					}
				}
				if a, ok := rr.(*dns.A); ok {
					v4, _ := resolver.VerifC07GlueCached(s.p.Resolver, lcn(h.Name))
					for _, g := range v4 {
						if ad, ok2 := netip.AddrFromSlice(a.A); ok2 && ad.Unmap() == g && or == "ok" {
							or = fail("l3/attack/foreign-section-address-entered-glue-cache", "%s", rrText(rr))
						}
					}
				}
			}
		}
	}
	for _, m := range []*dns.Msg{r, r2} {
		if m == nil {
			continue
		}
		for _, rr := range m.Answer {
			if a, ok := rr.(*dns.A); ok && a.A.Equal(markerIP) && or == "ok" {
				or = fail("l3/attack/reply-with-another-transaction-id-was-used", "%s", rrText(rr))
			}
		}
	}
	if postStep != nil {
		postStep()
	}
	if shape == "race-cached-delegation" && or == "ok" {
		// the referral came from the servers of evil.co.test.: glue for a name server of the sibling
		// zone victim.co.test. is outside the delegating zone and must not have been taken
		v4, _ := resolver.VerifC07GlueCached(s.p.Resolver, "ns1."+victimCoZone)
		for _, a := range v4 {
			if ad, ok := netip.AddrFromSlice(s.ecIP); ok && ad.Unmap() == a {
				or = fail("l3/attack/glue-bailiwick-widened-after-cached-delegation-hit", "host=ns1.%s addr=%s (planted by the servers of %s)", victimCoZone, a, evilCoZone)
			}
		}
	}
	return replySummary(r) + " 2nd: " + replySummary(r2), or
}

var allShapes = []string{
	"extra-a", "extra-ns-glue", "auth-ns", "auth-a", "ans-a", "ans-foreign-only", "ans-ns", "ans-dname",
	"cname-forged", "cname-forged-ghost", "cname-forged-txt", "cname-honest", "dname-honest", "cname-inzone",
	"escdot-steal", "escdot-steal-deep",
	"dname-forged", "dname-forged-nocname", "dname-forged-txt", "dname-forged-last", "dname-forged.nxsoa",
	"nx-soa-victim", "nodata-extra",
	"ref-self", "ref-up", "ref-root", "ref-side", "ref-mixed", "ref-class", "ref-offpath",
	"glue-oob", "glue-strsuffix", "glue-notns", "glue-loop", "glue-local",
	"cname-forged.nxsoa", "cname-forged.nx", "cname-forged.sf", "cname-forged.sfsoa", "ans-a.nxsoa", "ans-ns.nxsoa", "ans-dname.nxsoa",
	"sig-cname-forged.nxsoa", "ans-a.yxsoa", "cname-forged-ghost.nxsoa", "ans-foreign-only.nxsoa",
	"glue-oob-outage", "glue-oob-outage-refused", "glue-oob-outage6", "checkhosts-loop", "checkhosts-local", "checkhosts-loop6", "checkhosts-foreign",
	"race-cached-delegation", "tcp-id0", "tcp-id0-tc", "pre-id0",
	"nsaddr6-loop", "nsaddr6-mapped-loop", "nsaddr6-local", "nsaddr6-foreign", "nsaddr6-honest", "glue6-loop",
	"pool-stale-then-forged", "pool-stale-then-forged-rightid", "pool-stale-then-referral",
	"nsaddr-extra", "nsaddr-extra-first", "nsaddr-only-foreign", "nsaddr-cname-forged", "nsaddr-extra-tcp",
	"tcp-honest", "tcp-wrongq-glue", "tcp-wrongq-glue-tc", "tcp-wrongq-glue-tc-sf", "tcp-wrongq-answer", "tcp-wrongq-answer-tc",
	"tcp-wrongtype-tc", "tcp-noq-tc", "tcp-twoq-tc", "tcp-wrongid", "tcp-wrongid-tc",
	"sig-cname-forged", "sig-ans-a", "sig-ans-ns", "sig-ans-dname", "sig-ans-foreign-sig",
	"pre-wrongid", "pre-manystrays", "pre-manystrays-mixed", "pre-wrongq", "pre-wrongboth", "pre-noq", "pre-twoq", "pre-wrongtype", "pre-wrongclass",
}

func execL3(f []string) vlib.Res {
	switch f[1] {
	case "new":
		qmin := 0
		if len(f) > 3 {
			qmin = vlib.Atoi(f[3])
		}
		sysNew(f[2], qmin, len(f) > 4 && strings.HasPrefix(f[4], "sec"), len(f) > 4 && strings.Contains(f[4], "+ka"), len(f) > 4 && strings.Contains(f[4], "+v6"))
		return vlib.Res{Impl: "ok", Oracle: "-"}
	case "close":
		sysClose()
		return vlib.Res{Impl: "ok", Oracle: "-"}
	}
	if sys == nil {
		return vlib.Res{Impl: "no-world", Oracle: "-"}
	}
	switch f[1] {
	case "victim":
		t := dns.StringToType[f[3]]
		sum, or := sys.victimCheck(f[2], t)
		return vlib.Res{Impl: sum, Oracle: or, Tags: "nt,l3"}
	case "attack":
		sys.lastTags = ""
		sum, or := sys.attack(f[2], vlib.Atoi(f[3]))
		tags := "nt,l3," + f[2]
		if sys.lastTags != "" {
			tags += "," + sys.lastTags
		}
		return vlib.Res{Impl: sum, Oracle: or, Tags: tags}
	case "settle":
		// the one place that waits in real time: the detached IPv6 enrichment job sleeps on a timer of its own
		time.Sleep(time.Duration(vlib.Atoi(f[2])) * time.Millisecond)
		return vlib.Res{Impl: "ok", Oracle: "-", Tags: "l3"}
	case "advance":
		// virtual clock: every stored timestamp moves into the past (never sleeps)
		sys.p.Advance(time.Duration(vlib.Atoi(f[2])) * time.Second)
		return vlib.Res{Impl: "ok", Oracle: "-", Tags: "l3"}
	case "audit":
		return vlib.Res{Impl: "audited", Oracle: sys.audit(), Tags: "nt,l3"}
	}
	return vlib.Res{Impl: "bad-op"}
}
