//go:build verif

// Correspondence and oracle driver for C07 (authoritative data is trusted
// only inside the sender's bailiwick). fn.go: function-level ops (compared
// with the Lean model line by line); sys.go: system-level ops on the l3
// scripted-authority harness (oracle only).
package main

import (
	"fmt"
	"go/ast"
	"go/parser"
	"go/token"
	"net"
	"os"
	"path/filepath"
	"sort"
	"strings"

	"github.com/miekg/dns"
	"github.com/semihalev/sdns/internal/dnsclient"
	"github.com/semihalev/sdns/internal/dnsname"
	"github.com/semihalev/sdns/internal/dnsutil"
	"github.com/semihalev/sdns/internal/verif/vlib"
	"github.com/semihalev/sdns/middleware/resolver"
)

func exec(op string) vlib.Res {
	f := strings.Fields(op)
	if len(f) < 2 {
		return vlib.Res{Impl: "bad-op"}
	}
	need := func(n int) bool { return len(f) >= n }
	switch f[0] + " " + f[1] {
	case "name cmp":
		if need(4) {
			return execNameCmp(f)
		}
	case "xchg run":
		if need(6) {
			return execXchg(f)
		}
	case "glue new":
		if need(3) {
			return execGlueNew(f)
		}
	case "glue run":
		if need(7) {
			return execGlueRun(f)
		}
	case "glue usable":
		if need(3) {
			return execUsable(f)
		}
	case "ref run":
		if need(7) {
			return execRefRun(f)
		}
	case "prog run":
		if need(5) {
			return execProgRun(f)
		}
	case "cachef run":
		if need(4) {
			return execCachef(f)
		}
	case "cli run":
		if need(7) {
			return execCli(f)
		}
	case "scache run":
		if need(5) {
			return execSearchCache(f)
		}
	case "doh run":
		if need(6) {
			return execDoH(f)
		}
	case "deleg new", "deleg ref":
		if f[1] == "new" || need(9) {
			return execDeleg(f)
		}
	case "fallback run":
		if need(5) {
			return execFallback(f)
		}
	case "nslookup run":
		if need(10) {
			return execNsLookup(f)
		}
	case "nsaddr run":
		if need(3) {
			return execNsAddr(f)
		}
	case "chase run":
		if need(7) {
			return execChase(f)
		}
	case "relay run":
		if need(4) {
			return execRelay(f)
		}
	case "clr run":
		if need(6) {
			return execClr(f)
		}
	}
	if f[0] == "l3" {
		return execL3(f)
	}
	return vlib.Res{Impl: "bad-op"}
}

// ---------------------------------------------------------------- generator

var baseZones = []string{".", "test.", "com.", "example.com.", "victim.test.", "evil.test.", "sub.evil.test.", "a.b.example.com.", "co.uk.", "xn--caf-dma.example."}
var someLabels = []string{"www", "ns1", "ns", "mail", "a", "b", "x", "evil", "victim", "sub", "example", "EXAMPLE", "Evil", "com", "test", "a-b", "0", "_tcp"}

func flipCase(r *vlib.R, s string) string {
	b := []byte(s)
	for i, c := range b {
		if ((c >= 'a' && c <= 'z') || (c >= 'A' && c <= 'Z')) && (i == 0 || b[i-1] != '\\') && r.Chance(1, 3) {
			b[i] = c ^ 0x20
		}
	}
	return string(b)
}

func parentOf(z string) string {
	if z == "." {
		return "."
	}
	i := strings.Index(z, ".")
	if i == len(z)-1 {
		return "."
	}
	return z[i+1:]
}

func under(label, z string) string {
	if z == "." {
		return label + "."
	}
	return label + "." + z
}

// related returns a name in a randomly chosen relation to zone z.
func related(r *vlib.R, z string) string {
	var n string
	switch r.Intn(12) {
	case 0:
		n = z
	case 1, 2:
		n = under(vlib.Pick(r, someLabels), z)
	case 3:
		n = under(vlib.Pick(r, someLabels), under(vlib.Pick(r, someLabels), z))
	case 4:
		n = parentOf(z)
	case 5:
		n = under(vlib.Pick(r, someLabels), parentOf(z)) // sibling (or z itself)
	case 6:
		// string suffix, not a label-wise subdomain: evil-example.com.
		if z == "." {
			n = "x."
		} else {
			n = vlib.Pick(r, []string{"evil-", "x", "not", "0"}) + z
		}
	case 7:
		// escaped dot: one label "x\.example" under com.
		if z == "." {
			n = "x\\.y."
		} else {
			n = "x\\." + z
		}
	case 8:
		// z as a prefix: example.com.evil.
		if z == "." {
			n = "evil."
		} else {
			n = z + vlib.Pick(r, []string{"evil.", "test.", "com."})
		}
	case 9:
		n = vlib.Pick(r, baseZones)
	case 10:
		n = under(vlib.Pick(r, someLabels), vlib.Pick(r, baseZones))
	default:
		n = under(vlib.Pick(r, someLabels), parentOf(parentOf(z)))
	}
	if r.Chance(1, 3) {
		n = flipCase(r, n)
	}
	return n
}

func genAddrHex(r *vlib.R, local []string) string {
	switch r.Intn(22) {
	case 0:
		return vlib.Hex([]byte{127, 0, 0, 1})
	case 1:
		return vlib.Hex([]byte{127, byte(r.Intn(256)), byte(r.Intn(256)), byte(r.Intn(256))})
	case 2:
		b := make([]byte, 16)
		b[15] = 1
		return vlib.Hex(b) // ::1
	case 3:
		b := make([]byte, 16)
		b[10], b[11] = 0xff, 0xff
		copy(b[12:], []byte{127, 0, 0, byte(1 + r.Intn(3))})
		return vlib.Hex(b) // ::ffff:127.0.0.x
	case 4:
		if len(local) > 0 {
			return vlib.Pick(r, local)
		}
		return vlib.Hex([]byte{198, 51, 100, 7})
	case 5:
		// a local v4 address in its 16-byte (mapped) form
		for _, l := range local {
			if len(l) == 8 {
				return "00000000000000000000ffff" + l
			}
		}
		return vlib.Hex([]byte{198, 51, 100, 8})
	case 6:
		b := make([]byte, 16)
		b[10], b[11] = 0xff, 0xff
		copy(b[12:], []byte{198, 51, 100, byte(r.Intn(4))})
		return vlib.Hex(b)
	case 7:
		b := r.Bytes(16)
		b[0] = 0x20
		b[1] = 0x01
		return vlib.Hex(b)
	case 8:
		return vlib.Pick(r, []string{"-", "c0000201ff", "7f0000", "00000000000000000000000000000001ff"}) // malformed lengths
	case 9:
		return vlib.Hex([]byte{126 + byte(r.Intn(3)), 255, 255, 255}) // around the loopback block
	case 10:
		b := make([]byte, 16)
		b[15] = byte(r.Intn(3)) // ::, ::1, ::2
		return vlib.Hex(b)
	default:
		return vlib.Hex([]byte{198, 51, 100, byte(1 + r.Intn(6))})
	}
}

func genGlue(r *vlib.R, local []string, emit func(string)) {
	zone := vlib.Pick(r, baseZones)
	qname := under(vlib.Pick(r, someLabels), under(vlib.Pick(r, someLabels), zone))
	if r.Chance(1, 6) {
		qname = flipCase(r, qname)
	}
	level := strings.Count(zone, ".")
	if zone == "." {
		level = 0
	}
	switch r.Intn(8) {
	case 0:
		level++
	case 1:
		if level > 0 {
			level--
		}
	case 2:
		level = r.Intn(7)
	}
	nh := r.Intn(4)
	var hosts []string
	for i := 0; i < nh; i++ {
		h := strings.ToLower(related(r, zone))
		if r.Chance(1, 2) {
			h = strings.ToLower(under(vlib.Pick(r, someLabels), zone))
		}
		if r.Chance(1, 12) {
			h = flipCase(r, h) // a key the lookup can never hit
		}
		hosts = append(hosts, h)
	}
	ne := r.Intn(6)
	var extras []string
	for i := 0; i < ne; i++ {
		var owner string
		if len(hosts) > 0 && r.Chance(3, 5) {
			owner = vlib.Pick(r, hosts)
			if r.Chance(1, 3) {
				owner = flipCase(r, owner)
			}
		} else {
			owner = related(r, zone)
		}
		typ := vlib.Pick(r, []string{"A", "A", "A", "AAAA", "AAAA", "X"})
		extras = append(extras, owner+"/"+typ+"/"+genAddrHex(r, local))
	}
	if len(extras) > 0 && r.Chance(1, 4) {
		extras = append(extras, extras[r.Intn(len(extras))]) // duplicate endpoint
	}
	emit(fmt.Sprintf("glue run %s %d %s %s %s", vlib.B(r.Chance(1, 2)), level, qname, listOrDash(hosts), strings.ReplaceAll(listOrDash(extras), ",", ";")))
}

func genRef(r *vlib.R, emit func(string)) {
	auth := vlib.Pick(r, baseZones)
	qname := under(vlib.Pick(r, someLabels), under(vlib.Pick(r, someLabels), auth))
	if r.Chance(1, 5) {
		qname = related(r, auth)
	}
	qclass := 1
	if r.Chance(1, 10) {
		qclass = 3
	}
	// the referral owner: mostly a proper ancestor of qname below auth, otherwise anything related
	owner := related(r, auth)
	if r.Chance(1, 2) {
		i := strings.Index(qname, ".")
		owner = qname[i+1:]
		if owner == "" {
			owner = "."
		}
	}
	var rrs []string
	n := 1 + r.Intn(4)
	for i := 0; i < n; i++ {
		o := owner
		if r.Chance(1, 4) {
			o = flipCase(r, owner)
		}
		if r.Chance(1, 8) {
			o = related(r, auth) // mixed owner
		}
		cls := qclass
		if r.Chance(1, 12) {
			cls = vlib.Pick(r, []int{1, 3, 4, 255})
		}
		ttl := vlib.Pick(r, []int{0, 1, 30, 300, 3600, 86400, 4294967295})
		rrs = append(rrs, fmt.Sprintf("N/%s/%d/%d/%s", o, cls, ttl, related(r, owner)))
	}
	for i := r.Intn(3); i > 0; i-- {
		x := vlib.Pick(r, []string{"S", "R", "C", "3", "D", "O/" + related(r, auth)})
		pos := r.Intn(len(rrs) + 1)
		rrs = append(rrs[:pos], append([]string{x}, rrs[pos:]...)...)
	}
	if r.Chance(1, 15) {
		rrs = []string{vlib.Pick(r, []string{"S", "R", "O/" + related(r, auth)})}
	}
	emit(fmt.Sprintf("ref run %s %s 1 %d %s", auth, qname, qclass, strings.Join(rrs, ";")))
}

func genXchg(r *vlib.R, emit func(string)) {
	proto := vlib.Pick(r, []string{"udp", "udp", "tcp"})
	qid := r.Intn(65536)
	if r.Chance(1, 12) {
		qid = vlib.Pick(r, []int{0, 1, 65535, 256})
	}
	zone := vlib.Pick(r, baseZones[1:])
	qn := under(vlib.Pick(r, someLabels), zone)
	qt := vlib.Pick(r, []int{1, 28, 2, 16})
	q := fmt.Sprintf("%s/%d/1", qn, qt)
	if r.Chance(1, 20) {
		q = "-"
	}
	mk := func(kind int) string {
		id := qid
		name, t, c := qn, qt, 1
		switch kind {
		case 0: // the genuine reply (case echoed differently)
			name = flipCase(r, qn)
		case 1: // wrong id
			id = wrongID(r, qid)
			if r.Chance(1, 2) {
				name = flipCase(r, qn)
			}
		case 2: // wrong name
			name = related(r, zone)
			if strings.EqualFold(name, qn) {
				name = "other." + zone
			}
		case 3:
			t = vlib.Pick(r, []int{28, 1, 5, 255})
			if t == qt {
				t = 6
			}
		case 4:
			c = vlib.Pick(r, []int{3, 255, 0})
		case 5:
			return fmt.Sprintf("%d%s:", id, hdrFlags(r)) // no question
		case 6:
			return fmt.Sprintf("%d%s:%s/%d/1+%s/%d/1", id, hdrFlags(r), name, t, name, t) // two questions
		case 7:
			return "e"
		case 8:
			return "s"
		case 9: // wrong id AND wrong name
			id = wrongID(r, qid)
			name = "www.victim.test."
		}
		if !packable(name) {
			name = "other." + zone
		}
		return fmt.Sprintf("%d%s:%s/%d/%d", id, hdrFlags(r), name, t, c)
	}
	var cands []string
	n := r.Intn(5)
	for i := 0; i < n; i++ {
		cands = append(cands, mk(vlib.Pick(r, []int{1, 1, 1, 2, 3, 4, 5, 6, 7, 8, 9, 0})))
	}
	if r.Chance(1, 3) {
		// a burst of 0..12 stray datagrams with other IDs (right and wrong questions mixed)
		// in front of the genuine reply: every one of them has to be skipped, however many
		cands = cands[:0]
		for i := r.Intn(13); i > 0; i-- {
			cands = append(cands, mk(vlib.Pick(r, []int{1, 1, 1, 9})))
		}
	}
	if proto == "tcp" && r.Chance(1, 2) {
		// a stream delivers exactly one reply: put every kind of mismatch first
		cands = append([]string{mk(vlib.Pick(r, []int{2, 3, 4, 5, 6, 9, 1, 0}))}, cands...)
	}
	if r.Chance(4, 5) {
		cands = append(cands, mk(0))
	}
	for i := r.Intn(2); i > 0; i-- {
		cands = append(cands, mk(r.Intn(10)))
	}
	emit(fmt.Sprintf("xchg run %s %d %s %s", proto, qid, q, strings.ReplaceAll(listOrDash(cands), ",", ";")))
}

// genCli: dnsclient.Client{Proto: "udp"} against real loopback sockets: the UDP leg (0-3 datagrams, the matching one
// usually last and truncated half of the time), and what waits on the TCP leg (right / wrong id, right / wrong question).
func genCli(r *vlib.R, emit func(string)) {
	qid := r.Intn(65536)
	zone := vlib.Pick(r, baseZones[1:])
	qn := under(vlib.Pick(r, someLabels), zone)
	qt := vlib.Pick(r, []int{1, 28, 16})
	q := fmt.Sprintf("%s/%d/1", qn, qt)
	one := func(kind int, tc bool) string {
		id, name, t := qid, qn, qt
		switch kind {
		case 1:
			id = wrongID(r, qid)
		case 2:
			name = "www.victim.test."
		case 3:
			t = 5
		case 4:
			name = flipCase(r, qn)
		}
		fl := ""
		if tc {
			fl = "t"
		}
		return fmt.Sprintf("%d%s:%s/%d/1", id, fl, name, t)
	}
	var u []string
	for i := r.Intn(3); i > 0; i-- {
		u = append(u, one(1, r.Bool()))
	}
	tc := r.Chance(3, 5)
	if r.Chance(9, 10) {
		u = append(u, one(vlib.Pick(r, []int{0, 0, 0, 0, 4, 2, 3}), tc))
	}
	var t []string
	if r.Chance(9, 10) {
		t = append(t, one(vlib.Pick(r, []int{0, 0, 4, 2, 2, 3, 1}), r.Chance(1, 4)))
	}
	emit(fmt.Sprintf("cli run %d %s %s %s %s", qid, q, strings.ReplaceAll(listOrDash(u), ",", ";"), strings.ReplaceAll(listOrDash(t), ",", ";"), vlib.B(r.Chance(1, 10))))
}

// genSearchCache: a set of cached zones and a question: names below / beside / above them, string-suffix and
// escaped-dot look-alikes (`foo\.evil.test.`), DS questions, case differences.
func genSearchCache(r *vlib.R, emit func(string)) {
	var zones []string
	for _, z := range baseZones[1:] {
		if r.Chance(1, 2) {
			zones = append(zones, z)
		}
	}
	z := vlib.Pick(r, baseZones)
	qn := related(r, z)
	if r.Chance(1, 3) {
		qn = under(vlib.Pick(r, someLabels), related(r, z))
	}
	if r.Chance(1, 4) && z != "." {
		qn = vlib.Pick(r, []string{"foo\\.", "a.b\\.", "x\\.y\\."}) + z
	}
	emit(fmt.Sprintf("scache run %s %s %d", listOrDash(zones), qn, vlib.Pick(r, []int{1, 1, 1, 43, 2, 28})))
}

// genDoH: one DoH exchange of dnsclient.Client (the forwarder's transport): the query ID is 0 in a third
// of the cases (what RFC 8484 clients send), the reply's ID is the query's, 0, or anything else.
func genDoH(r *vlib.R, emit func(string)) {
	qid := r.Intn(65536)
	if r.Chance(1, 3) {
		qid = 0
	}
	zone := vlib.Pick(r, baseZones[1:])
	qn := under(vlib.Pick(r, someLabels), zone)
	qt := vlib.Pick(r, []int{1, 28, 16})
	q := fmt.Sprintf("%s/%d/1", qn, qt)
	if r.Chance(1, 25) {
		q = "-"
	}
	id := qid
	switch r.Intn(5) {
	case 0:
		id = 0
	case 1, 2:
		id = wrongID(r, qid)
	case 3:
		id = 0xBEEF
	}
	name, t, c := qn, qt, 1
	switch r.Intn(8) {
	case 0:
		name = related(r, zone)
		if !packable(name) {
			name = "other." + zone
		}
	case 1:
		t = 5
	case 2:
		c = 3
	case 3:
		name = flipCase(r, qn)
	}
	cand := fmt.Sprintf("%d%s:%s/%d/%d", id, hdrFlags(r), name, t, c)
	switch r.Intn(20) {
	case 0:
		cand = "e"
	case 1:
		cand = "h"
	case 2:
		cand = "c"
	case 3:
		cand = fmt.Sprintf("%d:", id)
	case 4:
		cand = fmt.Sprintf("%d:%s/%d/1+www.victim.test./1/1", id, qn, qt)
	}
	emit(fmt.Sprintf("doh run %d %s %s %s", qid, q, cand, vlib.B(r.Chance(1, 8))))
}

// wrongID: an ID other than qid - neighbours, special values (0, 0xffff), byte swaps, single-bit flips.
func wrongID(r *vlib.R, qid int) int {
	for {
		var id int
		switch r.Intn(9) {
		case 0:
			id = 0
		case 1:
			id = 65535
		case 2:
			id = (qid + 1) % 65536
		case 3:
			id = (qid + 65535) % 65536
		case 4:
			id = ((qid & 0xff) << 8) | (qid >> 8)
		case 5:
			id = qid ^ (1 << uint(r.Intn(16)))
		case 6:
			id = qid & 0xff
		case 7:
			id = qid & 0xff00
		default:
			id = r.Intn(65536)
		}
		if id != qid {
			return id
		}
	}
}

// hdrFlags: header bits the exchange guards must not be swayed by (TC above all).
func hdrFlags(r *vlib.R) string {
	if !r.Chance(2, 5) {
		return ""
	}
	out := ""
	if r.Chance(2, 3) {
		out += "t"
	}
	if r.Chance(1, 4) {
		out += "a"
	}
	if r.Chance(1, 4) {
		out += vlib.Pick(r, []string{"n", "s", "f"})
	}
	if r.Chance(1, 10) {
		out += "x"
	}
	return out
}

// packable: every label 1..63 octets so that the wire codec accepts the name.
func packable(n string) bool {
	if n == "." {
		return true
	}
	for _, l := range oLabels(n) {
		if len(l) == 0 || len(l) > 63 {
			return false
		}
	}
	return strings.HasSuffix(n, ".")
}

func genCachef(r *vlib.R, emit func(string)) {
	zone := vlib.Pick(r, baseZones[1:])
	qn := under(vlib.Pick(r, someLabels), zone)
	n := r.Intn(6)
	var as []string
	for i := 0; i < n; i++ {
		owner := qn
		switch r.Intn(6) {
		case 0:
			owner = flipCase(r, qn)
		case 1, 2:
			owner = related(r, zone)
		case 3:
			owner = "www.victim.test."
		}
		typ := vlib.Pick(r, []int{1, 1, 5, 5, 39, 46, 46, 16, 28})
		cov := 0
		if typ == 46 {
			cov = vlib.Pick(r, []int{1, 5, 39, 39, 2})
		}
		as = append(as, fmt.Sprintf("%s/%d/%d", owner, typ, cov))
	}
	// alias chains: a CNAME's target is usually the owner of a later record of the same message
	for i := range as {
		p := strings.Split(as[i], "/")
		if p[1] == "5" {
			tgt := "www.victim.test."
			if i+1 < len(as) && r.Chance(3, 4) {
				tgt = strings.Split(as[i+1], "/")[0]
			}
			as[i] += "/" + tgt
		}
	}
	emit(fmt.Sprintf("cachef run %s %s", qn, strings.ReplaceAll(listOrDash(as), ",", ";")))
}

// genRelay: an upstream answer section as the servers of `zone` might send it.
func genRelay(r *vlib.R, emit func(string)) {
	zone := vlib.Pick(r, baseZones)
	if r.Chance(1, 4) {
		zone = flipCase(r, zone)
	}
	n := r.Intn(6)
	var as []string
	for i := 0; i < n; i++ {
		owner := related(r, strings.ToLower(zone))
		if r.Chance(1, 5) {
			owner = "www.victim.test."
		}
		typ := vlib.Pick(r, []int{1, 1, 5, 2, 39, 46, 16, 28, 6})
		cov := 0
		if typ == 46 {
			cov = vlib.Pick(r, []int{1, 5, 39})
		}
		as = append(as, fmt.Sprintf("%s/%d/%d", owner, typ, cov))
	}
	emit(fmt.Sprintf("relay run %s %s", zone, strings.ReplaceAll(listOrDash(as), ",", ";")))
}

// genNsLookup: a referral's glue followed by the address lookup of one of its name servers: the host with and
// without accepted glue, in and out of bailiwick, the own lookup failing / SERVFAIL / REFUSED / NODATA /
// answering with usable, loopback, local, mapped and foreign-owner addresses.
func genNsLookup(r *vlib.R, local []string, emit func(string)) {
	zone := vlib.Pick(r, []string{"evil.test.", "sub.evil.test.", "example.com.", "test."})
	qname := under("x", under("c", zone))
	level := strings.Count(zone, ".")
	if r.Chance(1, 6) {
		level += r.Intn(3) - 1
		if level < 0 {
			level = 0
		}
	}
	cands := []string{under("ns1", zone), under("ns2", zone), "ns1.victim.test.", "mail.victim.test.", under("ns", under("c", zone)), "nsevil.test."}
	var hosts []string
	for _, c := range cands {
		if r.Chance(1, 2) {
			hosts = append(hosts, c)
		}
	}
	host := vlib.Pick(r, cands)
	if r.Chance(3, 4) {
		found := false
		for _, h := range hosts {
			found = found || h == host
		}
		if !found {
			hosts = append(hosts, host)
		}
	}
	var extras []string
	for i := r.Intn(5); i > 0; i-- {
		o := vlib.Pick(r, cands)
		if r.Chance(1, 2) {
			o = host
		}
		if r.Chance(1, 4) {
			o = flipCase(r, o)
		}
		extras = append(extras, fmt.Sprintf("%s/%s/%s", o, vlib.Pick(r, []string{"A", "A", "AAAA", "X"}), genAddrHex(r, local)))
	}
	sub := "F"
	if r.Chance(5, 6) {
		var rrs []string
		for i := r.Intn(4); i > 0; i-- {
			o := host
			if r.Chance(1, 4) {
				o = "www.victim.test."
			}
			rrs = append(rrs, fmt.Sprintf("%s/%s/%s", o, vlib.Pick(r, []string{"A", "A", "AAAA", "X"}), genAddrHex(r, local)))
		}
		body := "-"
		if len(rrs) > 0 {
			body = strings.Join(rrs, "+")
		}
		sub = fmt.Sprintf("R%d:%s", vlib.Pick(r, []int{0, 0, 0, 2, 2, 5, 3}), body)
	}
	emit(fmt.Sprintf("nslookup run %s %d %s %s %s %s %s %s", vlib.B(r.Chance(1, 2)), level, qname, listOrDash(hosts),
		strings.ReplaceAll(listOrDash(extras), ",", ";"), host, vlib.B(r.Chance(1, 3)), sub))
}

// genDelegCase: a history of 2-6 referrals processed by ONE resolver (delegation cache and NS-address cache persist):
// proper / self / sideways / mixed referrals, glue in and out of bailiwick, hosts re-used across referrals (so that
// a later referral meets what an earlier one cached), own lookups failing or answering usable / loopback / local /
// foreign addresses, the same zone referred twice (cached-delegation hit), levels one off.
func genDelegCase(r *vlib.R, local []string, emit func(string)) int {
	emit("deleg new")
	n := 2 + r.Intn(5)
	pool := []string{"ns1.sub.evil.test.", "ns2.sub.evil.test.", "ns.evil.test.", "ns1.victim.test.", "mail.victim.test.", "nsevil.test.", "ns.c.evil.test.", "ns.example.com."}
	for i := 0; i < n; i++ {
		auth := vlib.Pick(r, []string{"evil.test.", "evil.test.", "test.", "sub.evil.test.", "."})
		owner := under(vlib.Pick(r, []string{"sub", "c", "s2", "sub"}), auth)
		switch r.Intn(10) {
		case 0:
			owner = auth
		case 1:
			owner = "victim.test."
		}
		qname := under("x", owner)
		if r.Chance(1, 10) {
			qname = under("x", under("other", auth))
		}
		level := strings.Count(auth, ".")
		if auth == "." {
			level = 0
		}
		if r.Chance(1, 8) {
			level += r.Intn(3)
		}
		var nsr, extras, subs []string
		for j := 1 + r.Intn(3); j > 0; j-- {
			h := vlib.Pick(r, pool)
			if r.Chance(1, 3) {
				h = under(vlib.Pick(r, []string{"ns1", "ns2"}), owner)
			}
			o := owner
			if r.Chance(1, 12) {
				o = "victim.test."
			}
			if r.Chance(1, 5) {
				o = flipCase(r, o)
			}
			nsr = append(nsr, fmt.Sprintf("N/%s/1/%d/%s", o, vlib.Pick(r, []int{30, 300, 3600}), h))
			if r.Chance(1, 2) {
				extras = append(extras, fmt.Sprintf("%s/A/%s", h, genAddrHex(r, local)))
			}
			switch r.Intn(4) {
			case 0:
				subs = append(subs, h+"=F")
			case 1, 2:
				var rrs []string
				for k := 1 + r.Intn(2); k > 0; k-- {
					oo := h
					if r.Chance(1, 5) {
						oo = "www.victim.test."
					}
					rrs = append(rrs, fmt.Sprintf("%s/%s/%s", oo, vlib.Pick(r, []string{"A", "A", "AAAA"}), genAddrHex(r, local)))
				}
				subs = append(subs, h+"=R:"+strings.Join(rrs, "+"))
			}
		}
		if r.Chance(1, 6) {
			extras = append(extras, fmt.Sprintf("%s/A/%s", vlib.Pick(r, pool), genAddrHex(r, local)))
		}
		sub := "-"
		if len(subs) > 0 {
			sub = strings.Join(subs, "|")
		}
		emit(fmt.Sprintf("deleg ref %s %d %s 1 %s %s %s", auth, level, qname, strings.Join(nsr, ";"), strings.ReplaceAll(listOrDash(extras), ",", ";"), sub))
	}
	return n + 1
}

func genNsAddr(r *vlib.R, local []string, emit func(string)) {
	n := r.Intn(6)
	var rs []string
	for i := 0; i < n; i++ {
		rs = append(rs, fmt.Sprintf("%s/%s/%s", related(r, "evil.test."), vlib.Pick(r, []string{"A", "A", "AAAA", "AAAA", "X"}), genAddrHex(r, local)))
	}
	emit("nsaddr run " + strings.ReplaceAll(listOrDash(rs), ",", ";"))
}

// genChase: an outer answer and a script for the sub-pipeline: chains of 0..12 aliases, loops,
// targets that fail / hit the work limit / answer NXDOMAIN, SERVFAIL, NODATA, or carry the final record.
func genChase(r *vlib.R, emit func(string)) {
	qname := under(vlib.Pick(r, someLabels), vlib.Pick(r, baseZones[1:]))
	qtype := vlib.Pick(r, []int{1, 1, 1, 28, 16, 5, 43, 15})
	rcode := vlib.Pick(r, []int{0, 0, 0, 0, 0, 0, 0, 3, 2})
	names := []string{qname}
	for i := 0; i < 20; i++ {
		names = append(names, fmt.Sprintf("t%d.%s", i, vlib.Pick(r, baseZones[1:])))
	}
	other := func() int { return vlib.Pick(r, []int{1, 28, 16, 46, 39}) }
	var ans []string
	chain := vlib.Pick(r, []int{0, 1, 1, 1, 1, 2, 2, 3}) // aliases in the outer answer
	cur := qname
	idx := 1
	for i := 0; i < chain; i++ {
		tgt := names[idx]
		idx++
		if r.Chance(1, 15) {
			tgt = qname // self loop
		}
		ans = append(ans, fmt.Sprintf("%s/5/%s", cur, tgt))
		cur = tgt
	}
	if r.Chance(1, 5) {
		ans = append(ans, fmt.Sprintf("%s/%d", cur, vlib.Pick(r, []int{qtype, qtype, other()})))
	}
	if r.Chance(1, 8) && len(ans) > 0 {
		// a record of the query type in front of the aliases
		ans = append([]string{fmt.Sprintf("%s/%d", "www.victim.test.", qtype)}, ans...)
	}
	var script []string
	hops := r.Intn(16)
	long := r.Chance(1, 2) // nothing but aliases: the depth bound and the loop check decide
	for h := 0; h < hops && idx < len(names)-1; h++ {
		var val string
		k := r.Intn(30)
		if long {
			k = 29
		}
		switch {
		case k == 0:
			val = "L"
		case k == 1:
			val = "F"
		case k == 2:
			val = fmt.Sprintf("R%d:%d:", vlib.Pick(r, []int{3, 2, 5}), r.Intn(2))
		case k == 3:
			val = fmt.Sprintf("R0:%d:", r.Intn(2)) // NODATA / empty
		case k < 6:
			// the final record (perhaps of another type) with or without a further alias
			val = fmt.Sprintf("R0:0:%s/%d", cur, vlib.Pick(r, []int{qtype, qtype, other()}))
		default:
			nxt := names[idx]
			idx++
			if r.Chance(1, 12) {
				nxt = vlib.Pick(r, names[:idx]) // loop back
			}
			recs := fmt.Sprintf("%s/5/%s", cur, nxt)
			if r.Chance(1, 4) {
				recs += fmt.Sprintf("+%s/%d", nxt, vlib.Pick(r, []int{qtype, other()}))
			}
			val = fmt.Sprintf("R%d:0:%s", vlib.Pick(r, []int{0, 0, 0, 0, 0, 3}), recs)
			script = append(script, cur+"="+val)
			cur = nxt
			continue
		}
		script = append(script, cur+"="+val)
		break
	}
	emit(fmt.Sprintf("chase run %s %d %d %s %s", qname, qtype, rcode, strings.ReplaceAll(listOrDash(ans), ",", ";"), strings.ReplaceAll(listOrDash(script), ",", ";")))
}

func localHex() []string {
	var out []string
	for _, ip := range resolver.VerifC07LocalIPs() {
		if v4 := ip.To4(); v4 != nil {
			out = append(out, vlib.Hex(v4))
		} else {
			out = append(out, vlib.Hex(ip))
		}
	}
	sort.Strings(out)
	return out
}

func genL3(r *vlib.R, tier string, emit func(string)) {
	flavour := "plain"
	world := func(mode string, qmin int, shapes []string) {
		emit(fmt.Sprintf("l3 new %s %d %s", mode, qmin, flavour))
		if mode == "warm" {
			for _, v := range victimNames {
				emit(fmt.Sprintf("l3 victim %s %s", v.n, typeName(v.t)))
			}
		}
		k0 := r.Intn(8)
		for i, s := range shapes {
			emit(fmt.Sprintf("l3 attack %s %d", s, 1+(k0+i)%8))
		}
		if r.Chance(1, 3) {
			// let answers (301 s), or answers and delegations (3601 s), expire before the victim names are asked
			emit(fmt.Sprintf("l3 advance %d", vlib.Pick(r, []int{120, 301, 3601})))
		}
		order := r.Intn(len(victimNames))
		for i := range victimNames {
			v := victimNames[(i+order)%len(victimNames)]
			emit(fmt.Sprintf("l3 victim %s %s", v.n, typeName(v.t)))
		}
		emit("l3 audit")
	}
	shuffled := func() []string {
		shapes := append([]string(nil), allShapes...)
		for i := len(shapes) - 1; i > 0; i-- {
			j := r.Intn(i + 1)
			shapes[i], shapes[j] = shapes[j], shapes[i]
		}
		return shapes
	}
	// every shape, several per world, before / after the victim names were cached, with and without QNAME minimisation
	for _, qmin := range []int{0, 3} {
		for _, mode := range []string{"cold", "warm"} {
			shapes := shuffled()
			for len(shapes) > 0 {
				n := 2 + r.Intn(4)
				if n > len(shapes) {
					n = len(shapes)
				}
				world(mode, qmin, shapes[:n])
				shapes = shapes[n:]
			}
		}
	}
	// the same on a VALIDATING resolver: signed root and test., victim.test. signed and secure,
	// evil.test. delegated insecurely (no DS, NSEC proof) - a CD=0 client, so the signed path is taken
	// pooled TCP connections (tcpkeepalive = true)
	flavour = "plain+ka"
	for _, mode := range []string{"cold", "warm"} {
		shapes := shuffled()
		for len(shapes) > 0 {
			n := 4 + r.Intn(4)
			if n > len(shapes) {
				n = len(shapes)
			}
			world(mode, vlib.Pick(r, []int{0, 3}), shapes[:n])
			shapes = shapes[n:]
		}
	}
	// ipv6access = true: AAAA glue, and the detached IPv6 enrichment job that looks up the AAAA set of every
	// name server without accepted AAAA glue two (real) seconds after the referral - one settle per world
	flavour = "plain+v6"
	for _, mode := range []string{"cold", "warm"} {
		v6shapes := []string{"checkhosts-loop6", "checkhosts-loop", "glue-oob-outage6", "nsaddr6-loop", "nsaddr6-mapped-loop", "nsaddr6-local", "nsaddr6-foreign", "nsaddr6-honest", "glue6-loop", "glue-loop", "glue-local", "nsaddr-extra", "glue-oob"}
		for i := len(v6shapes) - 1; i > 0; i-- {
			j := r.Intn(i + 1)
			v6shapes[i], v6shapes[j] = v6shapes[j], v6shapes[i]
		}
		emit(fmt.Sprintf("l3 new %s %d %s", mode, vlib.Pick(r, []int{0, 3}), flavour))
		for i, s := range v6shapes {
			emit(fmt.Sprintf("l3 attack %s %d", s, 1+i%8))
		}
		emit("l3 settle 2300")
		for _, v := range victimNames[:4] {
			emit(fmt.Sprintf("l3 victim %s %s", v.n, typeName(v.t)))
		}
		emit("l3 audit")
	}
	flavour = "sec"
	for _, mode := range []string{"cold", "warm"} {
		shapes := shuffled()
		qmin := vlib.Pick(r, []int{0, 3})
		for len(shapes) > 0 {
			n := 3 + r.Intn(4)
			if n > len(shapes) {
				n = len(shapes)
			}
			world(mode, qmin, shapes[:n])
			shapes = shapes[n:]
		}
	}
	// every shape alone in a fresh world
	rounds := 1
	if tier == "thorough" {
		rounds = 4
	}
	for i := 0; i < rounds; i++ {
		for _, s := range shuffled() {
			flavour = vlib.Pick(r, []string{"plain", "plain", "sec", "plain+ka", "sec+ka"})
			world(vlib.Pick(r, []string{"cold", "warm"}), vlib.Pick(r, []int{0, 3, 3, 5}), []string{s})
		}
	}
	emit("l3 close")
}

func typeName(t uint16) string {
	switch t {
	case 1:
		return "A"
	case 28:
		return "AAAA"
	case 15:
		return "MX"
	case 2:
		return "NS"
	case 16:
		return "TXT"
	case 6:
		return "SOA"
	}
	return "A"
}

func gen(r *vlib.R, n int, tier string, emit func(string)) {
	local := localHex()
	emit("glue new " + listOrDash(local))
	for _, h := range append([]string{"7f000001", "7fffffff", "00000000000000000000000000000001", "00000000000000000000ffff7f000001", "c6336407", "80000001", "7effffff"}, local...) {
		emit("glue usable " + h)
	}
	genL3(r, tier, emit)
	emit("glue new " + listOrDash(local))
	for n > 0 {
		switch k := r.Intn(24); {
		case k < 4:
			z := vlib.Pick(r, baseZones)
			a, b := related(r, z), related(r, z)
			if r.Chance(1, 2) {
				a = z
			}
			if r.Chance(1, 6) {
				// same head, different middle, same tail: the run of equal labels is interrupted
				h, tl := vlib.Pick(r, someLabels), vlib.Pick(r, baseZones)
				a = under(h, under(vlib.Pick(r, someLabels), tl))
				b = under(flipCase(r, h), under(vlib.Pick(r, someLabels), tl))
			}
			if r.Chance(1, 25) {
				a = strings.TrimSuffix(a, ".") // unrooted spelling
				if a == "" {
					a = "."
				}
			}
			emit(fmt.Sprintf("name cmp %s %s", a, b))
		case k < 8:
			if r.Chance(1, 6) {
				genDoH(r, emit)
			} else if r.Chance(1, 14) {
				genCli(r, emit)
			} else if r.Chance(1, 5) {
				genSearchCache(r, emit)
			} else {
				genXchg(r, emit)
			}
		case k < 12:
			genGlue(r, local, emit)
		case k < 16:
			genRef(r, emit)
		case k < 17:
			z := vlib.Pick(r, baseZones)
			q := under(vlib.Pick(r, someLabels), under(vlib.Pick(r, someLabels), z))
			ref := related(r, z)
			if r.Chance(1, 2) {
				ref = q[strings.Index(q, ".")+1:]
			}
			emit(fmt.Sprintf("prog run %s %s %s", ref, z, q))
		case k < 18:
			genCachef(r, emit)
		case k < 19:
			switch r.Intn(4) {
			case 0:
				genRelay(r, emit)
			case 1:
				genNsAddr(r, local, emit)
			default:
				genNsLookup(r, local, emit)
			}
		case k < 22:
			genChase(r, emit)
		case k < 23:
			n -= genDelegCase(r, local, emit) - 1
		default:
			{
				// pickFallbackResponse: 0-4 negative replies, 0-2 invalid referrals, 0-3 failures - never all three empty
				var rcs []string
				for i := r.Intn(5); i > 0; i-- {
					rcs = append(rcs, fmt.Sprint(vlib.Pick(r, []int{3, 2, 5, 2, 3, 4, 9})))
				}
				nc := r.Intn(3)
				fatal := ""
				for i := r.Intn(4); i > 0; i-- {
					fatal += vlib.Pick(r, []string{"n", "n", "n", "w", "a"})
				}
				if len(rcs) == 0 && nc == 0 && fatal == "" {
					fatal = "n"
				}
				if fatal == "" {
					fatal = "-"
				}
				emit(fmt.Sprintf("fallback run %s %d %s", listOrDash(rcs), nc, fatal))
			}
			emit(fmt.Sprintf("clr run %s %s %d %d", vlib.B(r.Bool()), vlib.Pick(r, []string{"-", "-", "f", "t"}), r.Intn(3), r.Intn(3)))
			emit("glue usable " + genAddrHex(r, local))
		}
		n--
	}
}

// ---------------------------------------------------------------- facts

// callOrder parses file and reports, for function fn, the source offsets of
// the first call to each named callee (selector or plain identifier); -1 if absent.
func callOrder(file, fn string, callees ...string) []int {
	out := make([]int, len(callees))
	for i := range out {
		out[i] = -1
	}
	fset := token.NewFileSet()
	f, err := parser.ParseFile(fset, file, nil, 0)
	if err != nil {
		return out
	}
	for _, d := range f.Decls {
		fd, ok := d.(*ast.FuncDecl)
		if !ok || fd.Name.Name != fn || fd.Body == nil {
			continue
		}
		ast.Inspect(fd.Body, func(n ast.Node) bool {
			c, ok := n.(*ast.CallExpr)
			if !ok {
				return true
			}
			name := ""
			switch x := c.Fun.(type) {
			case *ast.Ident:
				name = x.Name
			case *ast.SelectorExpr:
				name = x.Sel.Name
			}
			for i, want := range callees {
				if name == want && out[i] < 0 {
					out[i] = fset.Position(c.Pos()).Offset
				}
			}
			return true
		})
	}
	return out
}

// filterBeforeSplice inspects Resolver.answer: a top-level statement assigns
// FilterRRsToZone(resp.Answer, …) to resp.Answer, it is either unconditional or
// guarded by `zone != ""` alone, and it precedes the top-level statement that
// splices targetMsg.Answer into resp.Answer.
func filterBeforeSplice(file string) bool {
	fset := token.NewFileSet()
	f, err := parser.ParseFile(fset, file, nil, 0)
	if err != nil {
		return false
	}
	isSel := func(e ast.Expr, x, sel string) bool {
		s, ok := e.(*ast.SelectorExpr)
		if !ok || s.Sel.Name != sel {
			return false
		}
		id, ok := s.X.(*ast.Ident)
		return ok && id.Name == x
	}
	for _, d := range f.Decls {
		fd, ok := d.(*ast.FuncDecl)
		if !ok || fd.Name.Name != "answer" || fd.Body == nil {
			continue
		}
		filterAt, spliceAt := -1, -1
		for i, st := range fd.Body.List {
			hasFilter, hasSplice := false, false
			ast.Inspect(st, func(n ast.Node) bool {
				as, ok := n.(*ast.AssignStmt)
				if !ok || len(as.Lhs) != 1 || len(as.Rhs) != 1 || !isSel(as.Lhs[0], "resp", "Answer") {
					return true
				}
				c, ok := as.Rhs[0].(*ast.CallExpr)
				if !ok || len(c.Args) < 2 {
					return true
				}
				switch fn := c.Fun.(type) {
				case *ast.SelectorExpr:
					if fn.Sel.Name == "FilterRRsToZone" && isSel(c.Args[0], "resp", "Answer") {
						if id, ok := c.Args[1].(*ast.Ident); ok && id.Name == "zone" {
							hasFilter = true
						}
					}
				case *ast.Ident:
					if fn.Name == "append" && isSel(c.Args[0], "resp", "Answer") && isSel(c.Args[1], "targetMsg", "Answer") {
						hasSplice = true
					}
				}
				return true
			})
			if hasFilter && filterAt < 0 {
				switch x := st.(type) {
				case *ast.AssignStmt:
					filterAt = i
				case *ast.IfStmt:
					// only `zone != ""` may guard it, and there is no else branch
					if b, ok := x.Cond.(*ast.BinaryExpr); ok && b.Op == token.NEQ && x.Else == nil && x.Init == nil {
						if id, ok := b.X.(*ast.Ident); ok && id.Name == "zone" {
							if lit, ok := b.Y.(*ast.BasicLit); ok && lit.Value == `""` {
								filterAt = i
							}
						}
					}
				}
			}
			if hasSplice && spliceAt < 0 {
				spliceAt = i
			}
		}
		return filterAt >= 0 && spliceAt > filterAt
	}
	return false
}

// dnameTargetResolvedSeparately inspects Resolver.checkDname: the target response it hands back is the
// result of r.internalExchange (the target's own resolution) and nothing else - every return whose first
// result is not nil returns the identifier assigned from that call, and resp.Answer is never read there.
func dnameTargetResolvedSeparately(file string) bool {
	fset := token.NewFileSet()
	f, err := parser.ParseFile(fset, file, nil, 0)
	if err != nil {
		return false
	}
	for _, d := range f.Decls {
		fd, ok := d.(*ast.FuncDecl)
		if !ok || fd.Name.Name != "checkDname" || fd.Body == nil {
			continue
		}
		fromExchange := map[string]bool{}
		readsAnswer, ok2 := false, true
		ast.Inspect(fd.Body, func(n ast.Node) bool {
			switch x := n.(type) {
			case *ast.AssignStmt:
				if len(x.Rhs) == 1 {
					if c, ok := x.Rhs[0].(*ast.CallExpr); ok {
						if s, ok := c.Fun.(*ast.SelectorExpr); ok && s.Sel.Name == "internalExchange" {
							if id, ok := x.Lhs[0].(*ast.Ident); ok {
								fromExchange[id.Name] = true
							}
						}
					}
				}
			case *ast.SelectorExpr:
				if id, ok := x.X.(*ast.Ident); ok && id.Name == "resp" && x.Sel.Name == "Answer" {
					readsAnswer = true
				}
			case *ast.ReturnStmt:
				if len(x.Results) > 0 {
					if id, ok := x.Results[0].(*ast.Ident); ok {
						if id.Name != "nil" && !fromExchange[id.Name] {
							ok2 = false
						}
					} else {
						ok2 = false
					}
				}
			}
			return true
		})
		return len(fromExchange) > 0 && !readsAnswer && ok2
	}
	return false
}

// delegationGuardUnconditional: in processDelegation a TOP-LEVEL `if !validReferral(...) { … return … }` exists whose
// condition is that negated call and nothing else (no flag and-ed to it), before any top-level statement that calls
// checkGlueRR / lookupV4Nss / SetUntil / resolveWithCachedNameservers.
func delegationGuardUnconditional(file string) bool {
	fset := token.NewFileSet()
	f, err := parser.ParseFile(fset, file, nil, 0)
	if err != nil {
		return false
	}
	for _, d := range f.Decls {
		fd, ok := d.(*ast.FuncDecl)
		if !ok || fd.Name.Name != "processDelegation" || fd.Body == nil {
			continue
		}
		guardAt, useAt := -1, -1
		for i, st := range fd.Body.List {
			if ifs, ok := st.(*ast.IfStmt); ok && guardAt < 0 && ifs.Init == nil {
				if u, ok := ifs.Cond.(*ast.UnaryExpr); ok && u.Op == token.NOT {
					if c, ok := u.X.(*ast.CallExpr); ok {
						if id, ok := c.Fun.(*ast.Ident); ok && id.Name == "validReferral" {
							returns := false
							for _, b := range ifs.Body.List {
								if _, ok := b.(*ast.ReturnStmt); ok {
									returns = true
								}
							}
							if returns {
								guardAt = i
							}
						}
					}
				}
			}
			uses := false
			ast.Inspect(st, func(n ast.Node) bool {
				if c, ok := n.(*ast.CallExpr); ok {
					if s, ok := c.Fun.(*ast.SelectorExpr); ok {
						switch s.Sel.Name {
						case "checkGlueRR", "lookupV4Nss", "SetUntil", "resolveWithCachedNameservers":
							uses = true
						}
					}
				}
				return true
			})
			if uses && useAt < 0 {
				useAt = i
			}
		}
		return guardAt >= 0 && useAt > guardAt
	}
	return false
}

// lookupSetsAside inspects Resolver.lookup: the branch guarded by `!validReferral(...)` appends the reply to
// configErrors and goes on waiting (continue, no return) - an invalid referral never returns from the loop -,
// and the function ends in `return pickFallbackResponse(responseErrors, configErrors, fatalErrors)`.
func lookupSetsAside(file string) bool {
	fset := token.NewFileSet()
	f, err := parser.ParseFile(fset, file, nil, 0)
	if err != nil {
		return false
	}
	for _, d := range f.Decls {
		fd, ok := d.(*ast.FuncDecl)
		if !ok || fd.Name.Name != "lookup" || fd.Body == nil || len(fd.Body.List) == 0 {
			continue
		}
		aside := false
		ast.Inspect(fd.Body, func(n ast.Node) bool {
			ifs, ok := n.(*ast.IfStmt)
			if !ok {
				return true
			}
			negated := false
			ast.Inspect(ifs.Cond, func(x ast.Node) bool {
				if u, ok := x.(*ast.UnaryExpr); ok && u.Op == token.NOT {
					if c, ok := u.X.(*ast.CallExpr); ok {
						if id, ok := c.Fun.(*ast.Ident); ok && id.Name == "validReferral" {
							negated = true
						}
					}
				}
				return true
			})
			if !negated {
				return true
			}
			appends, continues, returns := false, false, false
			ast.Inspect(ifs.Body, func(x ast.Node) bool {
				switch v := x.(type) {
				case *ast.AssignStmt:
					if id, ok := v.Lhs[0].(*ast.Ident); ok && id.Name == "configErrors" {
						appends = true
					}
				case *ast.BranchStmt:
					if v.Tok == token.CONTINUE {
						continues = true
					}
				case *ast.ReturnStmt:
					returns = true
				}
				return true
			})
			if appends && continues && !returns {
				aside = true
			}
			return true
		})
		last, ok := fd.Body.List[len(fd.Body.List)-1].(*ast.ReturnStmt)
		ends := false
		if ok && len(last.Results) == 1 {
			if c, ok := last.Results[0].(*ast.CallExpr); ok {
				if id, ok := c.Fun.(*ast.Ident); ok && id.Name == "pickFallbackResponse" && len(c.Args) == 3 {
					ends = true
				}
			}
		}
		return aside && ends
	}
	return false
}

// addrBuilders lists, over resolver.go and utils.go, the functions that build a netip.Addr from raw bytes
// or text. Record addresses must go through usableAddr (the proved filter); the only other legitimate
// builder is checkPriming, which reads the operator-configured root hints' answers.
func addrBuildersOK(files ...string) bool {
	allowed := map[string]bool{"usableAddr": true, "checkPriming": true}
	builders := map[string]bool{"AddrFromSlice": true, "AddrFrom4": true, "AddrFrom16": true, "ParseAddr": true, "MustParseAddr": true}
	ok := true
	seenUsable := false
	for _, file := range files {
		fset := token.NewFileSet()
		f, err := parser.ParseFile(fset, file, nil, 0)
		if err != nil {
			return false
		}
		for _, d := range f.Decls {
			fd, isF := d.(*ast.FuncDecl)
			if !isF || fd.Body == nil {
				continue
			}
			ast.Inspect(fd.Body, func(n ast.Node) bool {
				c, isC := n.(*ast.CallExpr)
				if !isC {
					return true
				}
				if sel, isS := c.Fun.(*ast.SelectorExpr); isS && builders[sel.Sel.Name] {
					if id, isI := sel.X.(*ast.Ident); isI && id.Name == "netip" {
						if fd.Name.Name == "usableAddr" {
							seenUsable = true
						}
						if !allowed[fd.Name.Name] {
							ok = false
						}
					}
				}
				return true
			})
		}
	}
	return ok && seenUsable
}

// levelWrites inspects every write to rs.level in resolver.go: (a) resolveWithCachedNameservers
// assigns it from dns.CountLabel(...) and never increments it; (b) processDelegation assigns
// `rs.level = nlevel` where nlevel := dns.CountLabel(q.Name); (c) every `rs.level++` anywhere sits
// under an `if` whose condition mentions `minimized` (the QNAME-minimisation steps, which only ever
// RAISE the level above the zone's depth, i.e. narrow the glue bailiwick).
func levelWrites(file string) bool {
	fset := token.NewFileSet()
	f, err := parser.ParseFile(fset, file, nil, 0)
	if err != nil {
		return false
	}
	isLevel := func(e ast.Expr) bool {
		s, ok := e.(*ast.SelectorExpr)
		if !ok || s.Sel.Name != "level" {
			return false
		}
		id, ok := s.X.(*ast.Ident)
		return ok && id.Name == "rs"
	}
	isCountLabel := func(e ast.Expr) bool {
		c, ok := e.(*ast.CallExpr)
		if !ok {
			return false
		}
		s, ok := c.Fun.(*ast.SelectorExpr)
		return ok && s.Sel.Name == "CountLabel"
	}
	mentions := func(n ast.Node, name string) bool {
		found := false
		ast.Inspect(n, func(x ast.Node) bool {
			if id, ok := x.(*ast.Ident); ok && id.Name == name {
				found = true
			}
			return true
		})
		return found
	}
	cachedOK, cachedInc, delegOK, nlevelOK, incOK := false, false, false, false, true
	serversSwitchedAt := -1
	for _, d := range f.Decls {
		fd, ok := d.(*ast.FuncDecl)
		if !ok || fd.Body == nil {
			continue
		}
		var stack []ast.Node
		ast.Inspect(fd.Body, func(n ast.Node) bool {
			if n == nil {
				stack = stack[:len(stack)-1]
				return true
			}
			stack = append(stack, n)
			switch x := n.(type) {
			case *ast.IncDecStmt:
				if isLevel(x.X) {
					if fd.Name.Name == "resolveWithCachedNameservers" {
						cachedInc = true
					}
					guarded := false
					for _, anc := range stack {
						if ifs, ok := anc.(*ast.IfStmt); ok && mentions(ifs.Cond, "minimized") {
							guarded = true
						}
					}
					if !guarded || x.Tok != token.INC {
						incOK = false
					}
				}
			case *ast.AssignStmt:
				for i, l := range x.Lhs {
					if sel, ok := l.(*ast.SelectorExpr); ok && sel.Sel.Name == "servers" && fd.Name.Name == "resolveWithCachedNameservers" {
						if id, ok := sel.X.(*ast.Ident); ok && id.Name == "rs" && serversSwitchedAt < 0 {
							serversSwitchedAt = fset.Position(x.Pos()).Offset
						}
					}
					if i < len(x.Rhs) && isLevel(l) && len(x.Lhs) == len(x.Rhs) {
						switch fd.Name.Name {
						case "resolveWithCachedNameservers":
							if isCountLabel(x.Rhs[i]) {
								// the zone counted must be the cached one: the function's own question parameter, or
								// rs.servers only once rs.servers has been switched to the cached set
								arg := x.Rhs[i].(*ast.CallExpr).Args[0]
								if !mentions(arg, "rs") || (serversSwitchedAt >= 0 && fset.Position(x.Pos()).Offset > serversSwitchedAt) {
									cachedOK = true
								}
							}
						case "processDelegation":
							if id, ok := x.Rhs[i].(*ast.Ident); ok && id.Name == "nlevel" {
								delegOK = true
							}
						}
					}
					if id, ok := l.(*ast.Ident); ok && id.Name == "nlevel" && fd.Name.Name == "processDelegation" && i < len(x.Rhs) && isCountLabel(x.Rhs[i]) {
						nlevelOK = true
					}
				}
			}
			return true
		})
	}
	return cachedOK && !cachedInc && delegOK && nlevelOK && incOK
}

// (referral, authZone, qname): proper, self, self in other case, upward, root, sideways,
// string-suffix look-alike, off path, referral == qname, escaped dot, from the root
var probeTriples = [][3]string{
	{"sub.evil.test.", "evil.test.", "x.sub.evil.test."},
	{"evil.test.", "evil.test.", "x.sub.evil.test."},
	{"EVIL.Test.", "evil.test.", "x.sub.evil.test."},
	{"test.", "evil.test.", "x.sub.evil.test."},
	{".", "evil.test.", "x.sub.evil.test."},
	{"victim.test.", "evil.test.", "x.sub.evil.test."},
	{"notevil.test.", "evil.test.", "x.notevil.test."},
	{"other.evil.test.", "evil.test.", "x.sub.evil.test."},
	{"x.sub.evil.test.", "evil.test.", "x.sub.evil.test."},
	{"x\\.evil.test.", "evil.test.", "y.x\\.evil.test."},
	{"test.", ".", "www.victim.test."},
	{"sub.x.evil.test.", "sub.y.evil.test.", "sub.x.evil.test."},
}

func facts() map[string]any {
	repo := os.Getenv("VERIF_REPO")
	if repo == "" {
		repo = "/repo"
	}
	rfile := filepath.Join(repo, "middleware/resolver/resolver.go")
	pd := callOrder(rfile, "processDelegation", "validReferral", "checkGlueRR", "SetUntil", "lookupV4Nss")
	lk := callOrder(rfile, "lookup", "validReferral", "extractDelegationInfo")
	an := callOrder(rfile, "answer", "clearAdditional")
	ex := callOrder(filepath.Join(repo, "internal/dnsclient/conn.go"), "Exchange", "QuestionMatches")
	st := callOrder(filepath.Join(repo, "middleware/cache/store.go"), "setFromResponseWithKey", "filterCacheableAnswer", "newEntry")
	rp := callOrder(filepath.Join(repo, "middleware/cache/store.go"), "ReplaceIfCurrent", "filterCacheableAnswer", "NewCacheEntryWithKey")

	loop := []net.IP{net.IPv4(127, 0, 0, 1).To4(), net.IPv4(127, 0, 0, 1), net.IPv4(127, 255, 255, 254).To4(), net.IPv6loopback,
		net.IPv4(127, 1, 2, 3), net.IPv4(127, 0, 0, 53).To4()}
	var loopUsable []bool
	for _, ip := range loop {
		_, ok := resolver.VerifC07UsableAddr(ip)
		loopUsable = append(loopUsable, ok)
	}
	var localUsable []bool
	as, _ := net.InterfaceAddrs()
	for _, a := range as {
		if n, ok := a.(*net.IPNet); ok {
			_, ok := resolver.VerifC07UsableAddr(n.IP)
			localUsable = append(localUsable, ok)
		}
	}
	_, pub := resolver.VerifC07UsableAddr(net.IPv4(198, 51, 100, 7))

	// fixed probe tables (the same literals are in Props/C07.lean)
	base := dns.Question{Name: "www.victim.test.", Qtype: dns.TypeA, Qclass: dns.ClassINET}
	var qm []bool
	for _, resp := range [][]dns.Question{
		{{Name: "www.victim.test.", Qtype: 1, Qclass: 1}},
		{{Name: "WWW.Victim.TEST.", Qtype: 1, Qclass: 1}},
		{{Name: "mail.victim.test.", Qtype: 1, Qclass: 1}},
		{{Name: "www.victim.test.", Qtype: 28, Qclass: 1}},
		{{Name: "www.victim.test.", Qtype: 1, Qclass: 3}},
		{},
		{{Name: "www.victim.test.", Qtype: 1, Qclass: 1}, {Name: "www.victim.test.", Qtype: 1, Qclass: 1}},
		{{Name: "xwww.victim.test.", Qtype: 1, Qclass: 1}},
	} {
		qm = append(qm, dnsclient.QuestionMatches(base, resp))
	}
	var prog []bool
	var cmp []int
	var inZone []bool
	for _, t := range probeTriples {
		inZone = append(inZone, dnsutil.NameInZone(dns.CanonicalName(t[0]), dns.CanonicalName(t[1])))
		prog = append(prog, resolver.VerifC07Progressing(t[0], t[1], t[2]))
		cmp = append(cmp, dnsname.CompareSuffix(t[0], t[1]))
	}
	return map[string]any{
		// processDelegation: the referral rule is applied before glue is read, before NS addresses are looked up and before the delegation is stored
		"shape_delegation_guard_first": pd[0] >= 0 && pd[1] > pd[0] && pd[2] > pd[0] && pd[3] > pd[0] && delegationGuardUnconditional(rfile),
		// lookup (winner selection) applies the same rule to what extractDelegationInfo found
		"shape_lookup_applies_rule": lk[0] >= 0 && lk[1] >= 0 && lk[1] < lk[0],
		// answer() ends in clearAdditional
		"shape_answer_clears_sections": an[0] >= 0,
		// Conn.Exchange consults QuestionMatches
		"shape_exchange_checks_question": ex[0] >= 0,
		// both cache write paths filter before building the entry
		"shape_store_filters_before_entry": st[0] >= 0 && st[1] > st[0] && rp[0] >= 0 && rp[1] > rp[0],
		"usable_loopback_probe":            loopUsable,
		"usable_local_probe":               localUsable,
		"usable_public_probe":              pub,
		// answer() filters the answer section to the asked zone before a DNAME target's data is spliced in
		"shape_answer_filters_before_splice": filterBeforeSplice(rfile),
		// every write to rs.level is "the label count of the zone now asked" or a minimisation step upwards
		"shape_level_is_zone_depth": levelWrites(rfile),
		// both NS-address lookup paths take their addresses from searchAddrs (the one place that applies usableAddr) and build none themselves
		"shape_nsaddr_lookups_use_searchAddrs": func() bool {
			a := callOrder(rfile, "lookupNSAddrV4", "searchAddrs", "AddrFromSlice", "AddrFrom4", "AddrFrom16")
			b := callOrder(rfile, "lookupNSAddrV6", "searchAddrs", "AddrFromSlice", "AddrFrom4", "AddrFrom16")
			return a[0] >= 0 && b[0] >= 0 && a[1] < 0 && a[2] < 0 && a[3] < 0 && b[1] < 0 && b[2] < 0 && b[3] < 0
		}(),
		// the DNAME target spliced in by answer() after the zone filter is the target's own resolution, never part of the same message
		"shape_dname_target_resolved_separately": dnameTargetResolvedSeparately(rfile),
		// no function of the resolver other than usableAddr (and checkPriming for the configured root hints) turns raw bytes into an address
		"shape_addresses_built_only_by_usableAddr": addrBuildersOK(rfile, filepath.Join(repo, "middleware/resolver/utils.go")),
		// the recovery branch re-learns addresses through the same two lookups as everything else
		"shape_checkhosts_uses_filtered_lookups": func() bool {
			c := callOrder(rfile, "checkHosts", "lookupNSAddrV4", "lookupNSAddrV6", "internalExchange", "subQuery")
			return c[0] >= 0 && c[1] >= 0 && c[2] < 0 && c[3] < 0
		}(),
		// lookup's result loop sets a referral validReferral refuses aside and keeps waiting; pickFallbackResponse decides at the end
		"shape_lookup_sets_invalid_referrals_aside": lookupSetsAside(rfile),
		"in_zone_probe":        inZone,
		"question_match_probe": qm,
		"progressing_probe":    prog,
		"compare_suffix_probe": cmp,
	}
}

func main() { vlib.Main(&vlib.Driver{Facts: facts, Exec: exec, Gen: gen}) }
