//go:build verif

package main

// frontServer is the attacker's socket pair. It stands in front of the l3
// server of evil.test. (whose Honest() still computes the RFC-conformant
// answer) so that the attacker can do what the l3 server cannot: answer one
// query on a stream with SEVERAL frames, and keep a connection open across
// queries (a pooled / kept-alive connection on the resolver's side).

import (
	"encoding/binary"
	"fmt"
	"io"
	"net"
	"strings"
	"sync"
	"time"

	"github.com/miekg/dns"
)

type frontServer struct {
	addr string
	pc   net.PacketConn
	ln   net.Listener
	done chan struct{}

	mu  sync.Mutex
	byQ map[string]int

	// respond returns the frames to send for req; connQueries is how many queries this
	// connection has carried including this one (0 for a datagram).
	respond func(req *dns.Msg, tcp bool, connQueries int) []*dns.Msg
}

func newFrontServer(respond func(req *dns.Msg, tcp bool, connQueries int) []*dns.Msg) *frontServer {
	var pc net.PacketConn
	var ln net.Listener
	var err error
	for try := 0; try < 50; try++ {
		pc, err = net.ListenPacket("udp", "127.0.0.1:0")
		if err != nil {
			panic(err)
		}
		ln, err = net.Listen("tcp", pc.LocalAddr().String())
		if err == nil {
			break
		}
		pc.Close()
	}
	if err != nil {
		panic(err)
	}
	f := &frontServer{addr: pc.LocalAddr().String(), pc: pc, ln: ln, done: make(chan struct{}), byQ: map[string]int{}, respond: respond}
	go f.serveUDP()
	go f.serveTCP()
	return f
}

func (f *frontServer) Close() {
	select {
	case <-f.done:
	default:
		close(f.done)
	}
	f.pc.Close()
	f.ln.Close()
}

func (f *frontServer) note(req *dns.Msg) {
	if len(req.Question) == 0 {
		return
	}
	q := req.Question[0]
	f.mu.Lock()
	f.byQ[fmt.Sprintf("%s/%d", strings.ToLower(q.Name), q.Qtype)]++
	f.mu.Unlock()
}

// Names: every question name that reached the attacker (lower case).
func (f *frontServer) Names() []string {
	f.mu.Lock()
	defer f.mu.Unlock()
	seen := map[string]bool{}
	var out []string
	for k := range f.byQ {
		n := k[:strings.LastIndex(k, "/")]
		if !seen[n] {
			seen[n] = true
			out = append(out, n)
		}
	}
	return out
}

// Asked: how often (name, type) reached the attacker.
func (f *frontServer) Asked(name string, t uint16) int {
	f.mu.Lock()
	defer f.mu.Unlock()
	return f.byQ[fmt.Sprintf("%s/%d", strings.ToLower(dns.Fqdn(name)), t)]
}

func (f *frontServer) serveUDP() {
	buf := make([]byte, 65535)
	for {
		n, addr, err := f.pc.ReadFrom(buf)
		if err != nil {
			return
		}
		req := new(dns.Msg)
		if req.Unpack(buf[:n]) != nil || len(req.Question) != 1 {
			continue
		}
		f.note(req)
		go func(req *dns.Msg, addr net.Addr) {
			for _, m := range f.respond(req, false, 0) {
				if b, err := m.Pack(); err == nil {
					f.pc.WriteTo(b, addr)
				}
			}
		}(req, addr)
	}
}

func (f *frontServer) serveTCP() {
	for {
		c, err := f.ln.Accept()
		if err != nil {
			return
		}
		go func(c net.Conn) {
			defer c.Close()
			for n := 1; ; n++ {
				c.SetReadDeadline(time.Now().Add(20 * time.Second))
				var l [2]byte
				if _, err := io.ReadFull(c, l[:]); err != nil {
					return
				}
				buf := make([]byte, binary.BigEndian.Uint16(l[:]))
				if _, err := io.ReadFull(c, buf); err != nil {
					return
				}
				req := new(dns.Msg)
				if req.Unpack(buf) != nil || len(req.Question) != 1 {
					return
				}
				f.note(req)
				for _, m := range f.respond(req, true, n) {
					b, err := m.Pack()
					if err != nil {
						continue
					}
					out := make([]byte, 2+len(b))
					binary.BigEndian.PutUint16(out, uint16(len(b)))
					copy(out[2:], b)
					if _, err := c.Write(out); err != nil {
						return
					}
				}
			}
		}(c)
	}
}
